"""merge the core tie sets (bin/proofs.d/_core.json, written by bin/mkcore) into a property's proof configuration"""
import json, os
V = os.path.dirname(os.path.dirname(os.path.abspath(__file__)))


def merge_core(pid, pr):
    path = os.path.join(V, "bin", "proofs.d", "_core.json")
    if not os.path.exists(path):
        return pr
    core = json.load(open(path))
    pr = dict(pr)
    mods, obls = list(pr.get("modules", [])), list(pr.get("obligations", []))
    own = len(obls)
    for u in core.get("uses", {}).get(pid, []):
        for m in core[u]["modules"]:
            if m not in mods:
                mods.append(m)
        for o in core[u]["obligations"]:
            if o not in obls:
                obls.append(o)
    pr["modules"], pr["obligations"], pr["own_obligations"] = mods, obls, own
    return pr
