"""
Pipeline behind bin/check (DESIGN §6). Standard library only.
"""
import sys, os, json, subprocess, time, fcntl, hashlib, re, glob
sys.path.insert(0, os.path.dirname(os.path.abspath(__file__)))
import coreutil

VERIF = os.path.dirname(os.path.dirname(os.path.abspath(__file__)))
LEAN = os.path.join(VERIF, "lean")
HARNESS = os.path.join(VERIF, "harness")
REPO = os.environ.get("VERIF_REPO", "/repo")
EVID = os.path.join(VERIF, "evidence")
RUNDIR = os.path.join(VERIF, "run")  # raw harness summaries (not evidence files: evidence/ holds only <id>.json)
REPLAYS = os.path.join(VERIF, "replays")
JPH = os.path.join(HARNESS, "bin", "jph")
SPEC_EXE = os.path.join(LEAN, ".lake", "build", "bin", "jpv-spec")
IMPL_EXE = os.path.join(LEAN, ".lake", "build", "bin", "jpv-impl")
# the memoised driver (C02_parseModelM_eq: parseModelM = parseModel); jpv-peg (plain interpreter) is still built
PEG_EXE = os.path.join(LEAN, ".lake", "build", "bin", "jpv-pegm")
PEGGO_EXE = os.path.join(LEAN, ".lake", "build", "bin", "jpv-peggo")

GOENV = dict(os.environ, GOFLAGS="-mod=mod", GOPROXY="off", GOSUMDB="off", GOTOOLCHAIN="local",
             CGO_ENABLED=os.environ.get("CGO_ENABLED", "0"))

TRUSTED_BASE = [
    "Lean 4.33 kernel; axioms allowed: propext, Classical.choice, Quot.sound (audited per obligation on every run)",
    "no sorry/admit/native_decide/bv_decide/implemented_by/unsafe in lean/JPV (source grep on every run)",
    "translator harness/cmd/translate (go/ast -> lean/JPV/Gen/*.lean) and the fact extractor",
    "correspondence harness (harness/jph): generators bound what the model-vs-code comparison sees",
    "Lean compiler for the drivers jpv-spec/jpv-impl (used for correspondence and search only)",
    "external behaviour assumed as parameters: float64 on integers <= 2^53, encoding/json, regexp, strconv, reflect.DeepEqual, sort.Strings, sync.Mutex/sync.Pool (DESIGN section 10)",
]

ALLOWED_AXIOMS = {"propext", "Classical.choice", "Quot.sound"}


def load_props():
    props = {}
    for path in sorted(glob.glob(os.path.join(VERIF, "bin", "props.d", "C*.json"))):
        with open(path) as f:
            props[os.path.basename(path)[:-5]] = json.load(f)
    # proof obligations live apart from the runner configuration
    for path in sorted(glob.glob(os.path.join(VERIF, "bin", "proofs.d", "C*.json"))):
        pid = os.path.basename(path)[:-5]
        with open(path) as f:
            pr = coreutil.merge_core(pid, json.load(f))
        cfg = props.setdefault(pid, {})
        for k in ("modules", "obligations", "own_obligations", "pending", "trusted_extra", "level", "explanation"):
            if k in pr:
                cfg[k] = pr[k]
    return props


def run(cmd, cwd=None, env=None, timeout=None, capture=True):
    t0 = time.time()
    p = subprocess.run(cmd, cwd=cwd, env=env, timeout=timeout, stdout=subprocess.PIPE if capture else None,
                       stderr=subprocess.STDOUT if capture else None, text=True)
    return p.returncode, (p.stdout or ""), time.time() - t0


class Lock:
    def __init__(self, path):
        self.path = path

    def __enter__(self):
        self.f = open(self.path, "w")
        fcntl.flock(self.f, fcntl.LOCK_EX)
        return self

    def __exit__(self, *a):
        fcntl.flock(self.f, fcntl.LOCK_UN)
        self.f.close()


def sync_dir(src, dst):
    """make dst equal to src; files with unchanged content keep their timestamps"""
    os.makedirs(dst, exist_ok=True)
    want = set(os.listdir(src))
    # files no generator produces any more are removed (a stale generated definition would be an unchecked tie);
    # while generators are under development (marker file .keep_extra, never committed) they are left alone
    keep_extra = os.path.exists(os.path.join(dst, ".keep_extra"))
    for name in os.listdir(dst):
        if name not in want and not name.startswith(".") and not keep_extra:
            os.remove(os.path.join(dst, name))
    changed = []
    for name in sorted(want):
        a = open(os.path.join(src, name), "rb").read()
        pb = os.path.join(dst, name)
        if not os.path.exists(pb) or open(pb, "rb").read() != a:
            with open(pb, "wb") as f:
                f.write(a)
            changed.append(name)
    return changed


def regenerate(log):
    """T1: rewrite lean/JPV/Gen from /repo's working tree."""
    tr_src = os.path.join(HARNESS, "cmd", "translate")
    if not os.path.isdir(tr_src):
        return {"ok": True, "changed": [], "note": "no translator yet"}
    tr = os.path.join(HARNESS, "bin", "translate")
    rc, out, _ = run(["go", "build", "-o", tr, "./cmd/translate"], cwd=HARNESS, env=GOENV)
    if rc != 0:
        log.append("translator build failed:\n" + out)
        return {"ok": False, "error": "translator does not build: " + out[-2000:]}
    tmp = os.path.join(LEAN, ".gen.tmp")
    if os.path.isdir(tmp):
        for f in os.listdir(tmp):
            os.remove(os.path.join(tmp, f))
    os.makedirs(tmp, exist_ok=True)
    rc, out, _ = run([tr, "-repo", REPO, "-out", tmp], cwd=HARNESS, env=GOENV)
    failed = {}
    if rc != 0:
        # a generator that refuses its source (fail closed) only takes down the properties whose proofs
        # depend on its output: its file is removed so that exactly those modules stop building
        for line in out.splitlines():
            m = re.match(r"^([a-z_]+): (.*)$", line)
            if m and m.group(2) != "ok":
                failed[m.group(1)] = m.group(2)
        log.append("translator: " + out)
        if not failed:
            return {"ok": False, "error": "translator failed: " + out[-3000:]}
        for g in failed:
            f = GEN_OUTPUT.get(g)
            if f and os.path.exists(os.path.join(tmp, f)):
                os.remove(os.path.join(tmp, f))
    changed = sync_dir(tmp, os.path.join(LEAN, "JPV", "Gen"))
    for g in failed:
        f = GEN_OUTPUT.get(g)
        if f and os.path.exists(os.path.join(LEAN, "JPV", "Gen", f)):
            os.remove(os.path.join(LEAN, "JPV", "Gen", f))
    return {"ok": True, "changed": changed, "failed_generators": failed, "note": out.strip()[-500:]}


# which file each generator of harness/cmd/translate writes
GEN_OUTPUT = {
    "slices": "SliceGo.lean", "grammar": "Grammar.lean", "escape": "EscapeGo.lean", "sortkeys": "SortKeys.lean",
    "validators": "Validators.lean", "comparators": "Comparators.lean", "operand_order": "OperandOrder.lean",
    "facts": "Facts.lean", "accessor": "AccessorGo.lean", "functions": "FunctionsGo.lean", "errors": "ErrorsGo.lean",
    "queries": "QueriesGo.lean", "nodes": "NodesGo.lean", "parsewrap": "ParseWrapGo.lean",
    "parser_helpers": "ParserHelpersGo.lean", "actions": "ActionsGo.lean", "pegrules": "PegGoRules.lean", "pegruntime": "PegRuntimeGo.lean", "errtexts": "ErrTexts.lean", "configgo": "ConfigGo.lean",
    "syntaxerr": "SyntaxErrGo.lean",
}


GREP_BAD = re.compile(r"\bsorry\b|\badmit\b|^axiom |native_decide|bv_decide|implemented_by|\bunsafe |maxHeartbeats 0", re.M)


def strip_comments(src):
    # remove /- ... -/ (nested) and -- ... comments
    out, i, depth = [], 0, 0
    while i < len(src):
        if src.startswith("/-", i):
            depth += 1
            i += 2
        elif depth > 0 and src.startswith("-/", i):
            depth -= 1
            i += 2
        elif depth > 0:
            if src[i] == "\n":
                out.append("\n")
            i += 1
        elif src.startswith("--", i):
            while i < len(src) and src[i] != "\n":
                i += 1
        else:
            out.append(src[i])
            i += 1
    return "".join(out)


def import_closure(mods):
    """the JPV source files the given modules depend on (transitively, by their `import JPV.…` lines)"""
    seen, todo = {}, list(mods)
    while todo:
        m = todo.pop()
        if m in seen or not m.startswith("JPV"):
            continue
        path = os.path.join(LEAN, *m.split(".")) + ".lean"
        if not os.path.exists(path):
            continue
        seen[m] = path
        for im in re.findall(r"^\s*(?:public\s+)?import\s+([A-Za-z0-9_.']+)", open(path).read(), re.M):
            todo.append(im)
    return sorted(seen.values())


def source_grep(mods=None):
    # only the sources the property's modules are built from: files nobody imports prove nothing
    # (and other people's unfinished files must not take a check down)
    hits = []
    paths = import_closure(mods) if mods else glob.glob(os.path.join(LEAN, "JPV", "**", "*.lean"), recursive=True)
    for path in paths:
        txt = strip_comments(open(path).read())
        # string literals may legitimately contain the words (e.g. action bodies): drop them
        txt = re.sub(r'"(?:[^"\\]|\\.)*"', '""', txt)
        for m in GREP_BAD.finditer(txt):
            line = txt.count("\n", 0, m.start()) + 1
            hits.append("%s:%d: %s" % (os.path.relpath(path, LEAN), line, m.group(0)))
    return hits


def prove(prop, cfg, log, thorough=False, gen_failed=None):
    """step 2: build the property's modules, audit axioms of its obligations"""
    res = {"ok": True, "obligations": [], "discharged": [], "failed": [], "pending": cfg.get("pending", []), "detail": ""}
    mods = cfg.get("modules", [])
    obls = cfg.get("obligations", [])
    res["obligations"] = obls
    if not mods:
        return res
    rc, out, dt = run(["lake", "build"] + mods, cwd=LEAN, timeout=3000)
    res["build_s"] = round(dt, 1)
    if rc != 0:
        res["ok"] = False
        errs = [l for l in out.splitlines() if "error" in l.lower()]
        res["detail"] = "lake build failed: " + "\n".join(errs[:12]) + "\n" + out[-1500:]
        if gen_failed:
            res["detail"] = "source no longer translatable: " + "; ".join("%s: %s" % kv for kv in gen_failed.items()) + "\n" + res["detail"]
        res["failed"] = obls
        log.append(out)
        return res
    hits = source_grep(mods)
    if hits:
        res["ok"] = False
        res["detail"] = "forbidden construct in Lean sources: " + "; ".join(hits[:10])
        res["failed"] = obls
        return res
    # axiom audit
    audit = os.path.join(LEAN, ".audit_%s.lean" % prop)
    with open(audit, "w") as f:
        for m in mods:
            f.write("import %s\n" % m)
        for o in obls:
            f.write("#print axioms %s\n" % o)
    rc, out, _ = run(["lake", "env", "lean", audit], cwd=LEAN, timeout=1200)
    os.remove(audit)
    # parse: "'name' depends on axioms: [a, b]" or "'name' does not depend on any axioms"
    seen = {}
    for m in re.finditer(r"'([^\s']+'*)' (does not depend on any axioms|depends on axioms: \[([^\]]*)\])", out, re.S):
        name = m.group(1)
        axs = [a.strip() for a in (m.group(3) or "").replace("\n", " ").split(",") if a.strip()]
        seen[name] = axs
    for o in obls:
        if o not in seen:
            res["failed"].append(o)
            res["detail"] += "obligation %s not found / not checked; " % o
        elif set(seen[o]) - ALLOWED_AXIOMS:
            res["failed"].append(o)
            res["detail"] += "obligation %s depends on %s; " % (o, sorted(set(seen[o]) - ALLOWED_AXIOMS))
        else:
            res["discharged"].append(o)
    if rc != 0 and not res["failed"]:
        res["failed"] = obls
        res["detail"] += "audit failed: " + out[-800:]
    if res["failed"]:
        res["ok"] = False
    res["axioms"] = seen
    if thorough and res["ok"] and cfg.get("leanchecker", True):
        for m in mods:
            rc, out, dt = run(["lake", "env", "leanchecker", m], cwd=LEAN, timeout=3000)
            if rc != 0:
                res["ok"] = False
                res["failed"] = obls
                res["detail"] += "leanchecker rejected %s: %s" % (m, out[-500:])
        res["leanchecker"] = True
    return res


def build_tools(log):
    """step 3: drivers and harness from the working tree; returns (set of drivers that do not build, harness ok, texts)"""
    bad, dtxt = set(), ""
    for name in ("spec", "impl", "peg", "pegm", "peggo"):
        rc, out, _ = run(["lake", "build", "jpv-" + name], cwd=LEAN, timeout=3000)
        if rc != 0:
            if name == "peggo" and os.path.exists(PEGGO_EXE):
                os.remove(PEGGO_EXE)  # a stale binary must not answer for a source that no longer translates
            bad.add("peg" if name == "pegm" else name)
            dtxt += "jpv-%s: %s\n" % (name, out[-800:])
            log.append(out)
    os.makedirs(os.path.join(HARNESS, "bin"), exist_ok=True)
    rc2, out2, _ = run(["go", "build", "-tags", "verif", "-o", JPH, "./cmd/jph"], cwd=HARNESS, env=GOENV, timeout=1200)
    if rc2 != 0:
        log.append(out2)
    return bad, (rc2 == 0), dtxt, (out2 if rc2 != 0 else "")


def load_known():
    known, fixed = [], []
    p = os.path.join(VERIF, "known_findings.jsonl")
    if os.path.exists(p):
        for line in open(p):
            line = line.strip()
            if not line or line.startswith("#"):
                continue
            e = json.loads(line)
            (known if e.get("status") == "known" else fixed).append(e)
    return known, fixed


def match_known(prop, finding, known):
    for e in known:
        if e.get("property") != prop:
            continue
        if e.get("class") and e["class"] != finding.get("class"):
            continue
        if e.get("match") and not re.search(e["match"], finding.get("what", "") + " " + finding.get("path", "")):
            continue
        return e
    return None


def run_jph(prop, tier, seed, cfg, n=None, extra_args=None):
    os.makedirs(RUNDIR, exist_ok=True)
    out = os.path.join(RUNDIR, "%s.t3.json" % prop)
    if os.path.exists(out):
        os.remove(out)
    cmd = [JPH, "run", "-prop", prop, "-seed", str(seed), "-tier", tier, "-spec", SPEC_EXE, "-impl", IMPL_EXE, "-peg", PEG_EXE, "-peggo", PEGGO_EXE,
           "-replays", REPLAYS, "-out", out, "-workers", str(cfg.get("workers", 12))]
    if n:
        cmd += ["-n", str(n)]
    if extra_args:
        cmd += extra_args
    rc, txt, dt = run(cmd, cwd=VERIF, env=GOENV, timeout=cfg.get("timeout", 7000))
    if rc != 0 or not os.path.exists(out):
        return None, txt
    return json.load(open(out)), txt


def run_race(prop, tier, seed, cfg):
    """C06 (and goroutine variants): the same runner under the Go race detector (needs CGO + gcc; works offline here)."""
    script = os.path.join(VERIF, cfg["race_script"])
    os.makedirs(RUNDIR, exist_ok=True)
    out = os.path.join(RUNDIR, "%s.race.t3.json" % prop)
    if os.path.exists(out):
        os.remove(out)
    n = str(cfg.get("race_n_quick", 500)) if tier == "quick" else str(cfg.get("race_n_thorough", 0))
    env = dict(os.environ, HARNESS=HARNESS, LEANBIN=os.path.join(LEAN, ".lake", "build", "bin"), OUT=out, REPLAYS=REPLAYS)
    rc, txt, dt = run(["bash", script, prop, tier, str(seed), n], cwd=VERIF, env=env, timeout=cfg.get("timeout", 7000))
    if rc == 2 or not os.path.exists(out):
        return None, txt
    return json.load(open(out)), txt


def write_replay(prop, body):
    os.makedirs(REPLAYS, exist_ok=True)
    s = json.dumps(body, indent=1, sort_keys=True)
    name = os.path.join(REPLAYS, "%s-%s.json" % (prop, hashlib.sha1(s.encode()).hexdigest()[:12]))
    with open(name, "w") as f:
        f.write(s)
    return name


def main(argv):
    if not argv:
        print(__doc__)
        return 2
    prop = argv[0]
    tier = os.environ.get("VERIF_TIER", "quick")
    replay = None
    i = 1
    while i < len(argv):
        if argv[i] == "--tier":
            tier = argv[i + 1]; i += 2
        elif argv[i] == "--replay":
            replay = argv[i + 1]; i += 2
        else:
            i += 1
    if tier not in ("quick", "thorough"):
        tier = "quick"
    seed = int(os.environ.get("VERIF_SEED", "1") or "1")
    props = load_props()
    if prop not in props:
        print("unknown property", prop)
        return 2
    cfg = props[prop]
    t0 = time.time()
    os.makedirs(EVID, exist_ok=True)
    log = []

    if replay:
        return do_replay(prop, cfg, replay)

    with Lock(os.path.join(VERIF, ".lock")):
        gen = regenerate(log)
        pr = {"ok": False, "obligations": cfg.get("obligations", []), "discharged": [], "failed": cfg.get("obligations", []),
              "detail": gen.get("error", ""), "pending": cfg.get("pending", [])}
        if gen["ok"]:
            pr = prove(prop, cfg, log, thorough=(tier == "thorough"), gen_failed=gen.get("failed_generators"))
        bad_drivers, jph_ok, derr, gerr = build_tools(log)
        drivers_ok = not (bad_drivers & set(cfg.get("drivers", ["spec", "impl"])))
    if not jph_ok:
        print("infrastructure: the harness does not build against /repo with -tags verif:\n" + gerr[-3000:])
        return 2
    broken = []  # obligations / ties that no longer check
    if not gen["ok"]:
        broken.append("T1 translator: " + gen.get("error", "")[:1500])
    if not pr["ok"]:
        broken.append("proof: " + pr["detail"][:3000])
    if not drivers_ok:
        broken.append("Lean drivers do not build: " + derr[-1500:])

    findings, t3 = [], None
    if cfg.get("jph", True):
        n = None
        jt = tier
        extra = None
        if broken:
            # search for a concrete failing input with a larger budget: 4x the tier's case count
            # (the full thorough enumeration when the tier is thorough)
            extra = ["-mult", str(cfg.get("search_mult", 4))] if tier == "quick" else None
        if not drivers_ok:
            print("infrastructure: Lean drivers do not build; cannot run the correspondence")
        t3, txt = run_jph(prop, jt, seed, cfg, n=n, extra_args=extra)
        if t3 is None:
            print("infrastructure: harness run failed:\n" + txt[-3000:])
            return 2
        findings = t3["findings"]
    race = None
    if cfg.get("race_script") and jph_ok:
        race, rtxt = run_race(prop, tier, seed, cfg)
        if race is None:
            print("note: race-detector run unavailable: " + rtxt[-400:])
        else:
            findings = findings + race["findings"]

    known, fixed = load_known()
    violations, mismatches, known_hits = [], [], []
    for f in findings:
        try:
            f["path"] = json.load(open(f["replay"])).get("path", "")
        except Exception:
            f["path"] = ""
        e = match_known(prop, f, known)
        if e is not None and f["kind"] in ("violation", "crash"):
            known_hits.append((e, f))
        elif f["kind"] in ("violation", "crash"):
            violations.append(f)
        else:
            mismatches.append(f)
    if mismatches:
        broken.append("T3 correspondence: model and implementation differ: " + mismatches[0]["what"][:600])

    wall = time.time() - t0
    ev = {
        "property_id": prop, "tier": tier, "seed": seed, "level": cfg.get("level", "proof"),
        "coverage": {
            "obligations": len(pr["obligations"]), "discharged": len(pr["discharged"]),
            "obligation_names": pr["obligations"], "pending_statements": pr.get("pending", []),
            "checker_cmd": "cd /verif/lean && lake build %s && lake env lean <audit: #print axioms of every obligation>%s" % (
                " ".join(cfg.get("modules", [])), " && lake env leanchecker <modules>" if tier == "thorough" else ""),
            "trusted_base": TRUSTED_BASE + cfg.get("trusted_extra", []),
            "axioms": pr.get("axioms", {}),
            "regenerated": gen.get("changed", []),
            "evaluations": (t3 or {}).get("evaluations", 0),
            "distinct_nontrivial": (t3 or {}).get("distinct_nontrivial", 0),
            "rule": cfg.get("rule", ""),
            "lean_queries": (t3 or {}).get("lean_queries", 0),
            "distribution": (t3 or {}).get("distribution", {}),
            "samples": (t3 or {}).get("samples", []) or [{"obligations": pr["obligations"]}],
            "programs": (t3 or {}).get("evaluations", 0),
            "disagreements_checked": (t3 or {}).get("lean_queries", 0),
            "extra": (t3 or {}).get("extra", {}),
            "race_detector": ({"evaluations": race["evaluations"], "findings": len(race["findings"]), "wall_s": race["wall_s"]} if race else "not run"),
            "explanation": cfg.get("explanation", ""),
        },
        "assumptions": cfg.get("assumptions", []),
        "wall_s": round(wall, 2),
        "violations": len(violations) + (1 if (broken and not violations) else 0),
        "known_findings": [e.get("what", "") for e, _ in known_hits],
        "broken": broken,
    }
    with open(os.path.join(EVID, "%s.json" % prop), "w") as f:
        json.dump(ev, f, indent=1)

    seen = set()
    for e, f in known_hits:
        if e.get("what") not in seen:
            seen.add(e.get("what"))
            print("KNOWN-FINDING: property=%s %s" % (prop, e.get("what", "")))
    if violations:
        f = violations[0]
        print("violation: " + f["what"][:1500])
        if broken:
            print("also broken: " + " | ".join(b[:300] for b in broken))
        print("VIOLATION property=%s replay=%s" % (prop, f["replay"]))
        return 1
    if broken:
        rp = write_replay(prop, {"property": prop, "kind": "obligation-broken", "broken": broken,
                                 "failed_obligations": pr.get("failed", []), "seed": seed, "tier": tier,
                                 "searched_cases": (t3 or {}).get("evaluations", 0)})
        print("no longer shown to hold: " + " | ".join(b[:600] for b in broken))
        print("VIOLATION property=%s replay=%s no-failing-input-found" % (prop, rp))
        return 1
    print("OK %s tier=%s seed=%d obligations=%d/%d cases=%d distinct=%d wall=%.1fs" % (
        prop, tier, seed, len(pr["discharged"]), len(pr["obligations"]), ev["coverage"]["evaluations"],
        ev["coverage"]["distinct_nontrivial"], wall))
    return 0


def do_replay(prop, cfg, path):
    body = json.load(open(path))
    if body.get("kind") == "obligation-broken":
        print("replay names broken obligations (no concrete input):")
        for b in body.get("broken", []):
            print("  " + b[:2000])
        log = []
        with Lock(os.path.join(VERIF, ".lock")):
            gen = regenerate(log)
            pr = prove(prop, cfg, log) if gen["ok"] else {"ok": False, "detail": gen.get("error")}
        print("now:", "checks" if pr["ok"] else "still broken: " + str(pr.get("detail"))[:1500])
        return 0 if pr["ok"] else 1
    with Lock(os.path.join(VERIF, ".lock")):
        _bad, jph_ok, derr, gerr = build_tools([])
    if not jph_ok:
        print(gerr)
        return 2
    seed, idx, tier = body.get("seed", 1), body.get("case_index", 0), body.get("tier", "quick")
    os.makedirs(RUNDIR, exist_ok=True)
    out = os.path.join(RUNDIR, "%s.replay.tmp" % prop)
    cmd = [JPH, "run", "-prop", prop, "-seed", str(seed), "-tier", tier, "-spec", SPEC_EXE, "-impl", IMPL_EXE, "-peg", PEG_EXE, "-peggo", PEGGO_EXE,
           "-replays", REPLAYS, "-out", out, "-from", str(idx), "-n", str(idx + 1), "-workers", "1"]
    rc, txt, _ = run(cmd, cwd=VERIF, env=GOENV, timeout=600)
    if rc != 0:
        print(txt)
        return 2
    s = json.load(open(out))
    os.remove(out)
    print("path:", body.get("path"))
    print("document:", body.get("document"))
    if s["findings"]:
        for f in s["findings"]:
            print(f["kind"] + ": " + f["what"])
        print("still fails")
        return 1
    print("no longer fails")
    return 0
