#!/bin/bash
# bin/race_c06.sh [PROP=C06] [TIER=quick] [SEED=1] [N=0]
#
# C06 (and the goroutine variants of C04) under the Go race detector: builds the harness
# with -race into harness/bin/jph-race (needs CGO_ENABLED=1 and gcc; works offline) and runs
# the property with GORACE=halt_on_error=1, so that a data race inside a worker process
# kills it; the run framework reports the case the worker died on as a crash finding whose
# text starts with the race report ("WARNING: DATA RACE ...").
# N = number of cases (0: the property's count for the tier; the race detector costs ~5-10x).
# Exit 0: no finding; 1: findings (printed); 2: infrastructure failure.
# Environment: HARNESS (default: <this dir>/../harness), OUT (summary JSON).
set -u
HERE="$(cd "$(dirname "$0")" && pwd)"
VERIF="$(dirname "$HERE")"
HARNESS="${HARNESS:-$VERIF/harness}"
LEANBIN="${LEANBIN:-/verif/lean/.lake/build/bin}"
PROP="${1:-C06}"; TIER="${2:-quick}"; SEED="${3:-1}"; N="${4:-0}"
OUT="${OUT:-$VERIF/run/$PROP.race.json}"
REPLAYS="${REPLAYS:-$VERIF/replays}"
export GOFLAGS=-mod=mod GOPROXY=off GOSUMDB=off GOTOOLCHAIN=local CGO_ENABLED=1
mkdir -p "$(dirname "$OUT")" "$HARNESS/bin"
( cd "$HARNESS" && go build -race -tags verif -o bin/jph-race ./cmd/jph ) || { echo "infrastructure: race-enabled build failed (gcc / CGO needed)"; exit 2; }
rm -f "$OUT"
ARGS=(run -prop "$PROP" -seed "$SEED" -tier "$TIER" -spec "$LEANBIN/jpv-spec" -impl "$LEANBIN/jpv-impl" -replays "$REPLAYS" -out "$OUT" -workers "${WORKERS:-12}")
[ "$N" != "0" ] && ARGS+=(-n "$N")
GORACE="halt_on_error=1 exitcode=66" "$HARNESS/bin/jph-race" "${ARGS[@]}" || { echo "infrastructure: harness run failed"; exit 2; }
[ -f "$OUT" ] || { echo "infrastructure: no summary written"; exit 2; }
python3 - "$OUT" <<'PY'
import json, sys
d = json.load(open(sys.argv[1]))
on = d["distribution"].get("race-detector:on", 0)
print("%s under -race: seed=%s tier=%s cases=%d distinct=%d wall=%.1fs findings=%d (race-detector:on in %d records)" % (
    d["property"], d["seed"], d["tier"], d["evaluations"], d["distinct_nontrivial"], d["wall_s"], len(d["findings"]), on))
for f in d["findings"][:5]:
    print("  %s case %d: %s\n    replay=%s" % (f["kind"], f["case"], f["what"][:1200], f["replay"]))
if d["findings"]:
    f = d["findings"][0]
    print("VIOLATION property=%s replay=%s" % (d["property"], f["replay"]))
    sys.exit(1)
print("OK %s race-detector run quiet" % d["property"])
PY
