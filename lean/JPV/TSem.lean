/-
TSem — the denotation of a built tree: what a chain selects, as plain `flatMap`s, with no
buffer, no errors, no flags except the one the aggregate reads (`chainVg param`).
It is the middle layer of the refinement
    Impl.retrieve (shared buffer, deepest error, list protocol)  ⊑  TSem.den  =  Spec (on `build p`).
-/
import JPV.Impl.Retrieve
namespace JPV
namespace TSem
open Impl

/-- members of a container as the filter / wildcard nodes enumerate them -/
def entries : Val → List Val
  | .obj kvs => (sortKV kvs).map (·.2)
  | .arr xs => xs
  | _ => []

def cellOf : List Val → Cell
  | [] => .empty
  | [r] => .val r
  | _ => .val (.bool true)       -- fullList

def headCell : List Val → Cell
  | [] => .empty
  | r :: _ => .val r

def keepBy {α : Type} : List α → List Bool → List α
  | x :: xs, b :: bs => if b then x :: keepBy xs bs else keepBy xs bs
  | _, _ => []

/-- cells after a typed validator, pure -/
def validated (c : Cmp) (cells : List Cell) : List Cell :=
  match cmpValidatorTy c with
  | none => cells
  | some ty => (validateTy ty cells).2.1

def cellNonEmpty (c : Cell) : Bool := !c.isEmpty

/-- the comparator's verdict on one validated cell (a panic counts as "no") -/
def testCell (env : Env) (c : Cmp) (r : Val) : Cell → Bool
  | .empty => false
  | .val v => match cmpTest env c v r with
    | .ok b => b
    | .error _ => false

/-- the comparator's verdict on one validated left cell against the validated right cell -/
def pairTest (env : Env) (c : Cmp) (lc rc : Cell) : Bool :=
  match rc with
  | .val r0 => testCell env c r0 lc
  | .empty => false

mutual
/-- the values a chain selects from `cur` -/
def den (env : Env) : List N → Val → Val → List Val
  | [], _, cur => [cur]
  | .root _ :: rest, root, _ => den env rest root root
  | .cur _ :: rest, root, cur => den env rest root cur
  | .child _ k :: rest, root, cur =>
    match cur with
    | .obj kvs => (match Val.lookup k kvs with
      | some v => den env rest root v
      | none => [])
    | _ => []
  | .wild _ :: rest, root, cur =>
    match cur with
    | .obj kvs => (sortKV kvs).flatMap (fun kv => den env rest root kv.2)
    | .arr xs => xs.flatMap (fun x => den env rest root x)
    | _ => []
  | .multi _ ids twin :: rest, root, cur =>
    match twin, cur with
    | some _, .arr xs => ids.flatMap (fun _ => xs.flatMap (fun x => den env rest root x))
    | _, .obj kvs => ids.flatMap (fun id =>
        match id with
        | .key _ k => (match Val.lookup k kvs with
          | some v => den env rest root v
          | none => [])
        | .wild _ => (sortKV kvs).flatMap (fun kv => den env rest root kv.2))
    | _, _ => []
  | .desc _ mr lr :: rest, root, cur =>
    ((Val.containers cur).filter (fun c => if isObj c then mr else lr)).flatMap (fun c => den env rest root c)
  | .union _ subs :: rest, root, cur =>
    match cur with
    | .arr xs => (subs.flatMap (fun s => subIndexes s xs.length)).flatMap (fun (ix : Int) =>
        match (if ix < 0 then none else xs[ix.toNat]?) with
        | some v => den env rest root v
        | none => [])
    | _ => []
  | .filter _ q :: rest, root, cur =>
    (keepBy (entries cur) (semQ env q root (entries cur))).flatMap (fun v => den env rest root v)
  | .ffn _ name :: rest, root, cur =>
    match env.ffn name with
    | some f => (match f cur with
      | some r => den env rest root r
      | none => [])
    | none => []
  | .afn _ name param :: rest, root, cur =>
    match den env param root cur with
    | [] => []
    | r0 :: rs =>
      let all := r0 :: rs
      let args := aggArgs (chainVg param) r0 all
      match env.afn name with
      | some f => (match f args with
        | some r => den env rest root r
        | none => [])
      | none => []

/-- the ideal per-member cell list of an operand (length = number of members) -/
def pden (env : Env) : P → Val → List Val → List Cell
  | .lit v, _, ms => ms.map (fun _ => .val v)
  | .proot ch, root, ms => ms.map (fun _ => cellOf (den env ch root root))
  | .pcur ch, root, ms => ms.map (fun m => headCell (den env ch root m))

/-- one verdict per member -/
def semQ (env : Env) : Q → Val → List Val → List Bool
  | .exist p, root, ms => (pden env p root ms).map cellNonEmpty
  | .not a, root, ms => (semQ env a root ms).map (!·)
  | .and a b, root, ms => List.zipWith (· && ·) (semQ env a root ms) (semQ env b root ms)
  | .or a b, root, ms => List.zipWith (· || ·) (semQ env a root ms) (semQ env b root ms)
  | .cmp l r c, root, ms =>
    let L := validated c (pden env l root ms)
    let R := validated c (pden env r root ms)
    let lf := L.any cellNonEmpty
    let rf := R.any cellNonEmpty
    if lf && rf then
      List.zipWith (pairTest env c) L R
    else if !lf && !rf && c == .deepEq then ms.map (fun _ => true)
    else ms.map (fun _ => false)
end

/-- top level: what `Parse(path)(d)` must return, `none` = an error -/
def run (env : Env) (ch : List N) (d : Val) : Option (List Val) :=
  match den env ch d d with
  | [] => none
  | vs => some vs

end TSem
end JPV
