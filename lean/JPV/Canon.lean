/-
The canonical listing of a document: every object's entries re-listed in ascending key order
(`Impl.sortKV`, the model of `getSortedKeys` + lookups), bottom-up. Definitions only (core Lean, so that
the driver `jpv-spec` can run them: request `canonrun` / `canon`); the theorems are in
`Props/C07Doc.lean`.
-/
import JPV.Impl.Retrieve
namespace JPV
namespace Canon
open Impl

mutual
/-- the canonical listing: every object's entries in ascending key order, at every depth -/
def canon : Val → Val
  | .arr xs => .arr (canonList xs)
  | .obj kvs => .obj (sortKV (canonKVs kvs))
  | .null => .null
  | .bool b => .bool b
  | .num n => .num n
  | .jnum n => .jnum n
  | .str s => .str s
  | .opq t c => .opq t c
def canonList : List Val → List Val
  | [] => []
  | x :: xs => canon x :: canonList xs
def canonKVs : List (String × Val) → List (String × Val)
  | [] => []
  | (k, x) :: xs => (k, canon x) :: canonKVs xs
end

end Canon
end JPV
