/-
C10 — type strictness and decoding invariance (specification level).

A comparison never coerces between JSON types: a member is selected by a comparison with a literal
only if the operand value has the literal's JSON type; ordering operators hold only between
numbers and the regex only for strings. An operand that is missing or of another type makes the
comparison not match rather than fail (the only comparison that can hold without both operands
present is `==` between two paths that are both absent). Numbers compare by numeric value, so a
document decoded with json.Number selects the same members as the same document decoded to float64.

`Spec.cmpHolds op hasLit corner l r` is the verdict of `l op r` for one member (`l`, `r`: operand
values, `none` = absent; `hasLit`: one operand is a literal; `corner`: both operands are absent for
every member). `SpecFil.operandVal env o root m` is the value of operand `o` for member `m`.
-/
import JPV.Lemmas.SpecFilter
import JPV.Lemmas.SpecJnum
import JPV.Lemmas.SpecAlgebra
import JPV.Registry
namespace JPV
namespace C10
open Spec SpecFil SpecJn

/-! ### literal comparisons are type-strict -/

/-- **C10_literal_type**: if `a op literal` holds for `op` among `== < <= > >=` then `a` has the
    JSON type of the literal (`litType`: number = `num` or `jnum`; string; bool; null) -/
theorem C10_literal_type (op : CmpOp) (hop : op ≠ .ne) (corner : Bool) (a : Val) (l : Lit)
    (h : cmpHolds op true corner (some a) (some (Lit.toVal l)) = true) : litType l a := by
  cases op
  · exact litEq_type a l h
  · exact absurd rfl hop
  all_goals
    rw [cmpHolds_ord _ (by decide) (by decide)] at h
    obtain ⟨a', b', x, y, ha, hb, hx, hy, _⟩ := ordPart_true _ _ _ h
    cases ha; cases hb
    cases l <;> simp [Lit.toVal, Val.asNum?] at hy
    exact ⟨x, asNum?_some a x hx⟩

/-- the same with the literal on the left -/
theorem C10_literal_type_left (op : CmpOp) (hop : op ≠ .ne) (corner : Bool) (a : Val) (l : Lit)
    (h : cmpHolds op true corner (some (Lit.toVal l)) (some a) = true) : litType l a := by
  rw [cmpHolds_mirror] at h
  exact C10_literal_type (mirror op) (by cases op <;> simp_all [mirror]) corner a l h

/-- `==` with a literal holds only for the literal's value (numbers: by numeric value) -/
theorem C10_literal_value (corner : Bool) (a : Val) (l : Lit)
    (h : cmpHolds .eq true corner (some a) (some (Lit.toVal l)) = true) : litValue l a :=
  litEq_value a l h

/-- an operand of another type makes the comparison not match -/
theorem C10_mistyped_no_match (op : CmpOp) (hop : op ≠ .ne) (corner : Bool) (a : Val) (l : Lit)
    (h : ¬ litType l a) : cmpHolds op true corner (some a) (some (Lit.toVal l)) = false := by
  cases hc : cmpHolds op true corner (some a) (some (Lit.toVal l)) with
  | false => rfl
  | true => exact absurd (C10_literal_type op hop corner a l hc) h

/-- ordering operators hold only between two present numbers, related by numeric value -/
theorem C10_ordering_numbers (op : CmpOp) (h1 : op ≠ .eq) (h2 : op ≠ .ne) (hasLit corner : Bool)
    (l r : Option Val) (h : cmpHolds op hasLit corner l r = true) :
    ∃ a b x y, l = some a ∧ r = some b ∧ a.asNum? = some x ∧ b.asNum? = some y ∧ numRel op x y = true := by
  rw [cmpHolds_ord op h1 h2] at h
  exact ordPart_true op l r h

/-- a number is a `num` (float64) or a `jnum` (json.Number), nothing else — no string is coerced -/
theorem C10_number_shape (a : Val) (x : Int) (h : a.asNum? = some x) : a = .num x ∨ a = .jnum x :=
  asNum?_some a x h

/-- the regex verdict holds only for a present string that matches -/
theorem C10_regex_string (env : Env) (p : Path) (re : String) (root : Val) (ms : List Val) (i : Nat)
    (h : (verdicts env (.regex p re) root ms)[i]? = some true) :
    ∃ m s, ms[i]? = some m ∧ firstOf (evalPath env p root m) = some (.str s) ∧ env.regex re s = true := by
  simp only [verdicts, List.getElem?_map] at h
  cases hm : ms[i]? with
  | none => simp [hm] at h
  | some m =>
    simp only [hm, Option.map_some, Option.some.injEq] at h
    refine ⟨m, ?_⟩
    cases hf : firstOf (evalPath env p root m) with
    | none => simp [hf] at h
    | some v =>
      cases v <;> simp only [hf, Bool.false_eq_true] at h
      exact ⟨_, rfl, rfl, h⟩

/-- between two paths `==` is structural equality: values of different Go types are never equal -/
theorem C10_paths_same_type (a b : Val) (h : cmpHolds .eq false false (some a) (some b) = true) :
    a.goTypeName = b.goTypeName := by
  simp only [cmpHolds, Bool.false_eq_true, if_false, Bool.or_false] at h
  exact beq_type a b h

/-! ### missing operands -/

/-- **C10_missing_no_match** -/
theorem C10_missing_no_match (op : CmpOp) (hop : op ≠ .ne) (hasLit corner : Bool) (l r : Option Val)
    (h : cmpHolds op hasLit corner l r = true) :
    (l.isSome ∧ r.isSome) ∨ (op = .eq ∧ hasLit = false ∧ corner = true) := by
  cases l with
  | some a =>
    cases r with
    | some b => exact Or.inl ⟨rfl, rfl⟩
    | none =>
      cases op <;> first | exact absurd rfl hop | skip
      · cases hasLit <;> cases corner <;> simp [cmpHolds] at h ⊢
      all_goals simp [cmpHolds] at h
  | none =>
    cases op <;> first | exact absurd rfl hop | skip
    · cases hasLit <;> cases corner <;> cases r <;> simp [cmpHolds] at h ⊢
    all_goals simp [cmpHolds] at h

/-- the `corner` flag that `verdicts` passes means: both operands absent for *every* member -/
theorem C10_corner_absent (env : Env) (l r : Operand) (root : Val) (ms : List Val)
    (h : cornerOf env l r root ms = true) :
    ∀ m ∈ ms, operandVal env l root m = none ∧ operandVal env r root m = none := by
  simp only [cornerOf, operandVals_eq_map, Bool.and_eq_true, List.all_map, List.all_eq_true,
    Function.comp_apply, Option.isNone_iff_eq_none] at h
  exact fun m hm => ⟨h.1 m hm, h.2 m hm⟩

/-- at the level of a filter: member `i` is selected by `l op r` (`op` not `!=`) only if both
    operand values are present for it, or the comparison is `==` between two paths that are absent
    for every member of the container -/
theorem C10_missing_no_match_verdict (env : Env) (op : CmpOp) (hop : op ≠ .ne) (l r : Operand)
    (root : Val) (ms : List Val) (i : Nat)
    (h : (verdicts env (.cmp op l r) root ms)[i]? = some true) :
    ∃ m, ms[i]? = some m ∧
      (((operandVal env l root m).isSome ∧ (operandVal env r root m).isSome) ∨
       (op = .eq ∧ operandIsLit l = false ∧ operandIsLit r = false ∧
        ∀ m' ∈ ms, operandVal env l root m' = none ∧ operandVal env r root m' = none)) := by
  rw [verdicts_cmp_map, List.getElem?_map] at h
  cases hm : ms[i]? with
  | none => simp [hm] at h
  | some m =>
    simp only [hm, Option.map_some, Option.some.injEq] at h
    refine ⟨m, rfl, ?_⟩
    rcases C10_missing_no_match op hop _ _ _ _ h with h' | ⟨h1, h2, h3⟩
    · exact Or.inl h'
    · simp only [hasLitOf, Bool.or_eq_false_iff] at h2
      exact Or.inr ⟨h1, h2.1, h2.2, C10_corner_absent env l r root ms h3⟩

/-! ### decoding invariance -/

/-- the filter verdicts do not depend on how numbers were decoded -/
theorem C10_decoding_verdicts (env : Env) (q : Query) (hq : fnFreeQuery q = true) (root : Val)
    (hr : root.plainNums = true) (ms : List Val) (hm : ∀ m ∈ ms, m.plainNums = true) :
    verdicts env q root.toJnum (ms.map Val.toJnum) = verdicts env q root ms :=
  verdicts_toJnum env root hr q hq ms hm

/-- **C10_decoding_invariant**: for a function-free path and a document decoded to float64, the
    same document decoded with json.Number gives the same selection — the results are the float64
    results decoded the other way — and fails in exactly the same cases -/
theorem C10_decoding_invariant (env : Env) (p : Path) (hp : fnFree p) (d : Val) (hd : d.plainNums = true) :
    Spec.run env p d.toJnum = (Spec.run env p d).map (·.map Val.toJnum) := by
  unfold Spec.run
  rw [evalPath_toJnum env d hd p hp d hd]
  cases evalPath env p d d with
  | none => rfl
  | some l => cases l <;> rfl

/-- both decodings of a canonical document are canonical (so both are in the domain of C01) -/
theorem C10_toJnum_wf (d : Val) : d.toJnum.wf = d.wf := wf_toJnum d

/-- `fnFree` cannot be dropped: a registered function may tell the decodings apart. The fixed
    registry's `twice` accepts a float64 and rejects a json.Number. -/
example :
    Spec.run Registry.env (.mk .root [] [.ffn ".twice()" "twice"]) (.num 1) = some [.num 2] ∧
    Spec.run Registry.env (.mk .root [] [.ffn ".twice()" "twice"]) (Val.num 1).toJnum = none := ⟨rfl, rfl⟩

/-- `plainNums` cannot be dropped: a document mixing both kinds of number (impossible for one
    decoder) relates `1` and `1` differently before and after -/
example :
    let q : Query := .cmp .eq (.path (.mk .cur [.child ".a" "a"] [])) (.path (.mk .cur [.child ".b" "b"] []))
    let m : Val := .obj [("a", .num 1), ("b", .jnum 1)]
    verdicts Registry.env q .null [m] = [false] ∧ verdicts Registry.env q .null [m.toJnum] = [true] := ⟨rfl, rfl⟩

/-! ### concrete instances -/

private def doc : Val := .arr [.obj [("a", .num 1), ("b", .str "1")], .obj [("a", .num 2), ("b", .num 2)], .obj [("c", .null)]]
private def pth : Path := .mk .root [.filter "[?(@.a<=@.b || @.a==1)]"
  (.or (.cmp .le (.path (.mk .cur [.child ".a" "a"] [])) (.path (.mk .cur [.child ".b" "b"] [])))
       (.cmp .eq (.path (.mk .cur [.child ".a" "a"] [])) (.lit (.num 1))))] []

example : fnFree pth := by decide
example : doc.plainNums = true := by decide
example : Spec.run Registry.env pth doc = some [.obj [("a", .num 1), ("b", .str "1")], .obj [("a", .num 2), ("b", .num 2)]] := rfl
example : Spec.run Registry.env pth doc.toJnum = some [.obj [("a", .jnum 1), ("b", .str "1")], .obj [("a", .jnum 2), ("b", .jnum 2)]] := rfl
example : cmpHolds .le true false (some (.jnum 2)) (some (Lit.toVal (.num 2))) = true := rfl
example : cmpHolds .eq true false (some (.str "2")) (some (Lit.toVal (.num 2))) = false := rfl
example : cmpHolds .eq false true none none = true := rfl

end C10
end JPV
-- OBLIGATIONS: JPV.C10.C10_literal_type JPV.C10.C10_literal_type_left JPV.C10.C10_literal_value JPV.C10.C10_mistyped_no_match JPV.C10.C10_ordering_numbers JPV.C10.C10_number_shape JPV.C10.C10_regex_string JPV.C10.C10_paths_same_type JPV.C10.C10_missing_no_match JPV.C10.C10_corner_absent JPV.C10.C10_missing_no_match_verdict JPV.C10.C10_decoding_verdicts JPV.C10.C10_decoding_invariant JPV.C10.C10_toJnum_wf
