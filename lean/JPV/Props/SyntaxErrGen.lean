/-
  SyntaxErrGen — `(*jsonPathParser).syntaxErr` (jsonpath_parser.go) tied by TRANSLATION + PROOF (worker L31).

  Before: the `near` text of a syntax error was modelled by hand (`Peg.nearOf` = the characters from rune `pos`
  on, theorem `C17_near`) and tied to the code by differential testing only.  Now the generator `syntaxerr`
  (harness/cmd/translate/syntaxerr.go → Gen/SyntaxErrGo.lean, regenerated on every run, fail closed) translates
  the function statement by statement — initial `len(buffer), 0`, the range loop with its early `break`, the
  slice `buffer[byteOffset:]`, the struct literal — over a BYTE-level Go string, and this file proves

    SE_offset         every byte string, every pos ≥ 0: no panic, offset = (rangeStarts b)[pos] if that exists,
                      else len(b); near = b[offset:]; position = pos, reason = reason   (+ _inside / _beyond)
    SE_negative       pos < 0: offset len(b), near empty
    SE_valid          b = the UTF-8 bytes of a Lean String s: the loop makes s.length iterations, at the prefix sums
                      of Char.utf8Size, and near = the bytes of String.ofList (s.toList.drop pos)
    SE_encode_width   the law SE_valid rests on — PROVED, not assumed (Lemmas/GoString.lean `runeWidth_encode`):
                      the width Go decodes at the first byte of `utf8EncodeChar c ++ rest` is `c.utf8Size`
    SE_near_is_model  … = the bytes of `Peg.nearOf`: the hand-written model IS what the code computes on valid UTF-8
    SE_near_parseModel  composed with `C17_near`
    SE_invalid_example  `example`s on invalid UTF-8 (lone C3, lone 80, ED A0 80, C0 AF, truncated F0 9F 98, …):
                      one step per invalid byte

  What stays trusted: the vocabulary JPV/Peg/GoString.lean (`rangeStarts`/`runeWidth` = how `for i := range s`
  and `[]rune(s)` decode, hand-written after unicode/utf8) — compared with the Go runtime on every C17 run
  (harness/jph/l31_rangestarts.go, driver request `(q rangestarts HEX)`); that the Go string handed to `syntaxErr`
  is the parsed path (the `Parse` wrapper is translated elsewhere: Gen/ParseWrapGo.lean); Go `int` = `Int`
  (all values here are bounded by len(buffer)+1).

  SENSITIVITY (scratch worktree of /repo at HEAD, translate -repo /tmp/l31wt; proofs re-run on the output):
    (i)   seeded/C17-u/patch.diff (fast path `if utf8.RuneCountInString(buffer) != len(buffer)` +
          `len(string([]rune(buffer)[:pos]))`): the generator REFUSES —
          `untranslatable: jsonpath_parser.go:147: statement if utf8.RuneCountInString(buffer) … outside the subset`.
    (ii)  `if runeCount == pos` → `>=`: translates (`if runeCount ≥ pos`); SE_unfold (rfl against the loop body
          copied here) FAILS, and the example `syntaxErr (-1) … = (-1, [])` is REFUTED by `decide` — the change
          is harmless for pos ≥ 0 (the first count ≥ pos is pos) and differs exactly on negative positions
          (offset 0 instead of len), which is why `pos` is an `Int` here and SE_negative is an obligation.
    (iii) `byteOffset = index + 1`: translates; SE_unfold FAILS and five examples are REFUTED
          (e.g. `syntaxErr 1 () [61, C3]` gives near `[]` instead of `[C3]`).
    (iv)  `break` dropped: translates (`let (byteOffset, runeCount) := if … then … else …` then `Step.next`);
          only SE_unfold FAILS, every example still holds — the change is behaviour-preserving (runeCount passes
          pos once), only slower; the proof is tied to the control flow, so it is reported (as
          `no-failing-input-found`), like any refactoring the proofs do not follow.
    (v)   locals renamed (off, n, i): translates, every theorem still checks.
-/
import JPV.Gen.SyntaxErrGo
import JPV.Lemmas.GoString
import JPV.Props.C17

namespace JPV
namespace SyntaxErrGen
open JPV.GoString JPV.Gen.SyntaxErrGo

/-- the body of the loop, as the generator emits it (checked by `SE_unfold : … := rfl`) -/
def seBody (pos : Int) : Int × Int → Int → GoString.Step (Int × Int) := fun st index =>
    let (byteOffset, runeCount) := st
    if runeCount = pos then
      let byteOffset := index
      GoString.Step.brk (byteOffset, runeCount)
    else
    let runeCount := runeCount + 1
    GoString.Step.next (byteOffset, runeCount)

/-- the generated function is: initial `(len(buffer), 0)`, the loop, the slice, the struct literal -/
theorem SE_unfold {ρ : Type} (pos : Int) (reason : ρ) (buffer : Bytes) :
    syntaxErr pos reason buffer =
      (sliceFrom buffer (forRange (rangeStarts buffer) (len buffer, (0 : Int)) (seBody pos)).1).bind
        (fun n => some { position := pos, reason := reason, near := n }) := rfl

/-- the loop from `runeCount = k ≤ pos`: stops at the `(pos-k)`-th remaining offset if there is one,
    otherwise keeps the initial `byteOffset` -/
theorem loop_nat (idx : List Nat) (off0 : Int) (k pos : Nat) (hk : k ≤ pos) :
    (forRange idx (off0, (k : Int)) (seBody (pos : Int))).1 = (idx[pos - k]?.map Int.ofNat).getD off0 := by
  induction idx generalizing k with
  | nil => simp [forRange]
  | cons i rest ih =>
    by_cases h : k = pos
    · subst h
      simp [forRange, seBody]
    · have hne : ¬ ((k : Int) = (pos : Int)) := by omega
      have h1 : pos - k = (pos - (k + 1)) + 1 := by omega
      have := ih (k + 1) (by omega)
      simp only [forRange, seBody, if_neg hne]
      rw [h1, List.getElem?_cons_succ]
      exact this

/-- a negative `pos` is never reached: the loop runs to the end and keeps the initial `byteOffset` -/
theorem loop_neg (idx : List Nat) (off0 : Int) (k : Nat) (pos : Int) (h : pos < 0) :
    (forRange idx (off0, (k : Int)) (seBody pos)).1 = off0 := by
  induction idx generalizing k with
  | nil => simp [forRange]
  | cons i rest ih =>
    have hne : ¬ ((k : Int) = pos) := by omega
    simp only [forRange, seBody, if_neg hne]
    exact ih (k + 1)

/-- **SE_offset.** For every byte string and every `pos ≥ 0`: no panic; the byte offset chosen is
    `(rangeStarts b)[pos]` when `pos` is less than the number of range iterations, else `len(b)`;
    `near = b[offset:]`; `position` and `reason` pass through. -/
theorem SE_offset {ρ : Type} (b : Bytes) (pos : Nat) (reason : ρ) :
    syntaxErr (pos : Int) reason b =
      some { position := (pos : Int), reason := reason, near := b.drop ((rangeStarts b).getD pos b.length) } := by
  rw [SE_unfold]
  have := loop_nat (rangeStarts b) (len b) 0 pos (Nat.zero_le _)
  simp only [Int.natCast_zero, Nat.sub_zero] at this
  rw [this, List.getD_eq_getElem?_getD]
  cases h : (rangeStarts b)[pos]? with
  | none => simp [sliceFrom, len]
  | some i =>
    have hlt := rangeStarts_lt b i (List.mem_of_getElem? h)
    have : (i : Int) ≤ (b.length : Int) := by omega
    simp [sliceFrom, this]

/-- inside: the offset is the `pos`-th start -/
theorem SE_offset_inside {ρ : Type} (b : Bytes) (pos : Nat) (reason : ρ) (h : pos < (rangeStarts b).length) :
    syntaxErr (pos : Int) reason b =
      some { position := (pos : Int), reason := reason, near := b.drop (rangeStarts b)[pos] } := by
  rw [SE_offset, List.getD_eq_getElem?_getD, List.getElem?_eq_getElem h]; rfl

/-- at or beyond the number of runes: the offset is `len(b)`, `near` is empty -/
theorem SE_offset_beyond {ρ : Type} (b : Bytes) (pos : Nat) (reason : ρ) (h : (rangeStarts b).length ≤ pos) :
    syntaxErr (pos : Int) reason b = some { position := (pos : Int), reason := reason, near := [] } := by
  rw [SE_offset, List.getD_eq_getElem?_getD, List.getElem?_eq_none h]; simp

/-- a negative position (the parser never produces one): offset `len(b)`, `near` empty -/
theorem SE_negative {ρ : Type} (b : Bytes) (pos : Int) (reason : ρ) (h : pos < 0) :
    syntaxErr pos reason b = some { position := pos, reason := reason, near := [] } := by
  rw [SE_unfold]
  have := loop_neg (rangeStarts b) (len b) 0 pos h
  simp only [Int.natCast_zero] at this
  rw [this]
  simp [sliceFrom, len]

/-- **SE_valid.** On valid UTF-8 — `b` the bytes of a Lean `String` — the range loop makes `s.length`
    iterations, starting at the prefix sums of `Char.utf8Size`, and `near` is the UTF-8 encoding of the
    characters from `pos` on. No hypothesis: the encode-width law is `GoString.runeWidth_encode`. -/
theorem SE_valid {ρ : Type} (s : String) (pos : Nat) (reason : ρ) :
    (rangeStarts (utf8Bytes s)).length = s.length ∧
    rangeStarts (utf8Bytes s) = prefixSums 0 s.toList ∧
    syntaxErr (pos : Int) reason (utf8Bytes s) =
      some { position := (pos : Int), reason := reason, near := utf8Bytes (String.ofList (s.toList.drop pos)) } := by
  have hs : rangeStarts (utf8Bytes s) = prefixSums 0 s.toList := by
    rw [utf8Bytes_eq, rangeStarts_encode]
  refine ⟨?_, hs, ?_⟩
  · rw [hs, length_prefixSums, String.length_toList]
  · rw [SE_offset, hs, utf8Bytes_eq, utf8Bytes_ofList]
    have := prefixSums_getD 0 s.toList pos
    simp only [Nat.zero_add] at this
    rw [this, drop_encode]

/-- the encode-width law SE_valid rests on, visible here: Go decodes at the first byte of the encoding
    of `c` a rune of exactly `c.utf8Size` bytes, whatever follows -/
theorem SE_encode_width (c : Char) (rest : Bytes) :
    runeWidth (String.utf8EncodeChar c ++ rest) = c.utf8Size := runeWidth_encode c rest

/-- **SE_near_is_model.** The hand-written `Peg.nearOf` IS what the code computes on valid UTF-8. -/
theorem SE_near_is_model {ρ : Type} (s : String) (pos : Nat) (reason : ρ) :
    syntaxErr (pos : Int) reason (utf8Bytes s) =
      some { position := (pos : Int), reason := reason, near := utf8Bytes (Peg.nearOf s.toList.toArray pos) } := by
  rw [(SE_valid s pos reason).2.2]; rfl

/-- composed with `C17_near`: whenever the parse model answers a syntax error at `pos` with text `near`,
    the translated `syntaxErr`, called with that position on the bytes of the path, yields the bytes of `near` -/
theorem SE_near_parseModel {ρ : Type} (env : JPV.Env) (ext : Peg.Ext) (cfg : JPV.Cfg) (s : String) (pos : Nat)
    (r near : String) (reason : ρ) (h : Peg.parseModel env ext cfg s = .syntaxErr pos r near) :
    syntaxErr (pos : Int) reason (utf8Bytes s) =
      some { position := (pos : Int), reason := reason, near := utf8Bytes near } := by
  rw [Props.C17_near env ext cfg s pos r near h]
  exact (SE_valid s pos reason).2.2

/-! ### SE_invalid_example — invalid UTF-8: one step per invalid byte (also vectors for the Go side) -/

/-- projection used by the examples -/
def view {ρ : Type} (r : Option (ErrorInvalidSyntax ρ)) : Option (Int × Bytes) := r.map (fun e => (e.position, e.near))

-- a lone lead byte C3 at the end of the string: one rune of width 1
example : rangeStarts [0x61, 0xC3] = [0, 1] := by decide
example : view (syntaxErr 1 () [0x61, 0xC3]) = some (1, [0xC3]) := by decide
example : view (syntaxErr 2 () [0x61, 0xC3]) = some (2, []) := by decide
-- C3 followed by a non-continuation byte
example : rangeStarts [0xC3, 0x28, 0x61] = [0, 1, 2] := by decide
-- a lone continuation byte 80
example : rangeStarts [0x80, 0x61] = [0, 1] := by decide
example : view (syntaxErr 1 () [0x80, 0x61]) = some (1, [0x61]) := by decide
-- the surrogate U+D800 spelled ED A0 80: three runes of width 1
example : rangeStarts [0xED, 0xA0, 0x80] = [0, 1, 2] := by decide
example : view (syntaxErr 2 () [0xED, 0xA0, 0x80, 0x61]) = some (2, [0x80, 0x61]) := by decide
-- … whereas ED 9F BF (U+D7FF) is one rune
example : rangeStarts [0xED, 0x9F, 0xBF, 0x61] = [0, 3] := by decide
-- overlong '/' spelled C0 AF: two runes
example : rangeStarts [0xC0, 0xAF] = [0, 1] := by decide
-- overlong E0 80 80 and F0 80 80 80: one rune per byte
example : rangeStarts [0xE0, 0x80, 0x80] = [0, 1, 2] := by decide
example : rangeStarts [0xF0, 0x80, 0x80, 0x80] = [0, 1, 2, 3] := by decide
-- above U+10FFFF: F4 90 80 80, and F5
example : rangeStarts [0xF4, 0x90, 0x80, 0x80] = [0, 1, 2, 3] := by decide
example : rangeStarts [0xF5, 0x80] = [0, 1] := by decide
-- a 4-byte sequence cut off by the end of the string: F0 9F 98 (of F0 9F 98 80 = U+1F600)
example : rangeStarts [0x61, 0xF0, 0x9F, 0x98] = [0, 1, 2, 3] := by decide
example : view (syntaxErr 3 () [0x61, 0xF0, 0x9F, 0x98]) = some (3, [0x98]) := by decide
example : rangeStarts [0x61, 0xF0, 0x9F, 0x98, 0x80, 0x62] = [0, 1, 5] := by decide
-- valid: "a€b" = 61 E2 82 AC 62
example : rangeStarts [0x61, 0xE2, 0x82, 0xAC, 0x62] = [0, 1, 4] := by decide
example : view (syntaxErr 2 () [0x61, 0xE2, 0x82, 0xAC, 0x62]) = some (2, [0x62]) := by decide
-- invalid bytes between valid runes: "é" C3 A9, FF, "é"
example : rangeStarts [0xC3, 0xA9, 0xFF, 0xC3, 0xA9] = [0, 2, 3] := by decide
-- negative position
example : view (syntaxErr (-1) () [0x61, 0x62]) = some (-1, []) := by decide

end SyntaxErrGen
end JPV

-- OBLIGATIONS: SE_unfold SE_offset SE_offset_inside SE_offset_beyond SE_negative SE_valid SE_encode_width
--   SE_near_is_model SE_near_parseModel
