/-
C08 — steps compose (specification level).

For any path prefix P and any continuation Q that contains no `$`-rooted filter operand and no
aggregate function, retrieving P followed by Q from a document gives the concatenation, in order,
of retrieving `$`+Q from each value that P selects (branches that fail contribute nothing), and
fails exactly when that concatenation is empty. A union or multi-name selector equals the
concatenation of its single selectors, and `..X` equals X applied to every container of the
document in pre-order.

These are laws of `Spec`; they reach the implementation model through `C01Build.C01_build`
(`Build.build` + tree denotation = `Spec`) and `run_refines` (Go-shaped evaluation = denotation).
-/
import JPV.Lemmas.SpecAlgebra
import JPV.Registry
namespace JPV
namespace C08
open Spec SpecAlg

/-! ### root independence of a continuation without `$` -/

/-- a step whose filters never mention `$` selects the same values whatever the root document is -/
theorem C08_sel_root_independent (env : Env) (s : Step) (h : rootFree s) (r1 r2 cur : Val) :
    sel env s r1 cur = sel env s r2 cur :=
  sel_rootFree env r1 r2 s h cur

theorem C08_evalSteps_root_independent (env : Env) (ss : List Step) (h : ∀ s ∈ ss, rootFree s)
    (r1 r2 : Val) (vs : List Val) : evalSteps env ss r1 vs = evalSteps env ss r2 vs :=
  evalSteps_rootFree env r1 r2 ss ((rootFreeSteps_iff ss).mpr h) vs

theorem C08_verdicts_root_independent (env : Env) (q : Query) (h : rootFreeQuery q = true)
    (r1 r2 : Val) (ms : List Val) : verdicts env q r1 ms = verdicts env q r2 ms :=
  verdicts_rootFree env r1 r2 q h ms

example : rootFree (.desc (.filter "[?(@.a>1 && @.b[?(@.c)])]"
    (.and (.cmp .gt (.path (.mk .cur [.child ".a" "a"] [])) (.lit (.num 1)))
          (.exist false (.mk .cur [.child ".b" "b", .filter "[?(@.c)]" (.exist false (.mk .cur [.child ".c" "c"] []))] []))))) := by
  decide

example : ¬ rootFree (.filter "[?(@.a==$.b)]"
    (.cmp .eq (.path (.mk .cur [.child ".a" "a"] [])) (.path (.mk .root [.child ".b" "b"] [])))) := by
  decide

/-! ### composition -/

/-- **C08_compose**: the values selected by `$ P Q fns` are, in order, the values selected by
    `$ Q fns` from each value that `$ P` selects; failing branches (`none`) contribute nothing.
    No hypothesis on registration is needed: with filter functions only, an unregistered
    function makes every branch *and* the whole retrieval fail. -/
theorem C08_compose (env : Env) (P Q : List Step) (fns : List Fn)
    (hf : ∀ f ∈ fns, isFfn f = true) (hQ : ∀ s ∈ Q, rootFree s) (d : Val) :
    (Spec.evalPath env (.mk .root (P ++ Q) fns) d d).getD [] =
      ((Spec.evalPath env (.mk .root P []) d d).getD []).flatMap
        (fun v => (Spec.evalPath env (.mk .root Q fns) v v).getD []) :=
  evalPath_compose env P Q fns (List.all_eq_true.mpr hf) ((rootFreeSteps_iff Q).mpr hQ) d

/-- the same for what the library returns (`Spec.run`; `none` is an error): the retrieval of
    `P ++ Q` is the non-empty concatenation, and an error when the concatenation is empty -/
theorem C08_compose_run (env : Env) (P Q : List Step) (fns : List Fn)
    (hf : ∀ f ∈ fns, isFfn f = true) (hQ : ∀ s ∈ Q, rootFree s) (d : Val) :
    Spec.run env (.mk .root (P ++ Q) fns) d =
      nonEmpty? (((Spec.run env (.mk .root P []) d).getD []).flatMap
        (fun v => (Spec.run env (.mk .root Q fns) v).getD [])) := by
  rw [run_eq, C08_compose env P Q fns hf hQ d, run_getD]
  congr 2
  funext v
  rw [run_getD]

/-- … and fails exactly when that concatenation is empty -/
theorem C08_compose_fails_iff (env : Env) (P Q : List Step) (fns : List Fn)
    (hf : ∀ f ∈ fns, isFfn f = true) (hQ : ∀ s ∈ Q, rootFree s) (d : Val) :
    Spec.run env (.mk .root (P ++ Q) fns) d = none ↔
      ((Spec.run env (.mk .root P []) d).getD []).flatMap
        (fun v => (Spec.run env (.mk .root Q fns) v).getD []) = [] := by
  rw [C08_compose_run env P Q fns hf hQ d, nonEmpty?_eq_none]

/-- when it does not fail, the result is the concatenation itself -/
theorem C08_compose_ok (env : Env) (P Q : List Step) (fns : List Fn)
    (hf : ∀ f ∈ fns, isFfn f = true) (hQ : ∀ s ∈ Q, rootFree s) (d : Val) (rs : List Val)
    (h : Spec.run env (.mk .root (P ++ Q) fns) d = some rs) :
    rs = ((Spec.run env (.mk .root P []) d).getD []).flatMap
        (fun v => (Spec.run env (.mk .root Q fns) v).getD []) := by
  rw [C08_compose_run env P Q fns hf hQ d] at h
  unfold nonEmpty? at h
  split at h
  · cases h
  · exact (Option.some.inj h).symm

/-- for the transport to the implementation model (C01 speaks about canonical documents): the
    values a function-less prefix selects from a canonical document are canonical -/
theorem C08_prefix_wf (env : Env) (P : List Step) (d : Val) (hd : d.wf = true) :
    ∀ v ∈ (Spec.run env (.mk .root P []) d).getD [], v.wf = true := by
  rw [run_getD]
  simp only [evalPath, applyFns, Option.getD_some]
  exact BD.evalSteps_wf env d P [d] (by simpa using hd)

/-- hypotheses satisfiable: `$.a[*]` followed by `[?(@.x)].y.f()` -/
example : (∀ f ∈ [Fn.ffn ".f()" "f"], isFfn f = true) ∧
    (∀ s ∈ [Step.filter "[?(@.x)]" (.exist false (.mk .cur [.child ".x" "x"] [])), Step.child ".y" "y"], rootFree s) := by
  decide

/-! ### union and multi-name selectors are concatenations -/

/-- **C08_union_concat** (the source text `t` of a step plays no role in what it selects) -/
theorem C08_union_concat (env : Env) (t t1 t2 : String) (a b : List Sub) (root cur : Val) :
    sel env (.union t (a ++ b)) root cur = sel env (.union t1 a) root cur ++ sel env (.union t2 b) root cur := by
  cases cur <;> simp only [sel, List.flatMap_append, List.append_nil]

/-- a union is the concatenation of its single subscripts, in written order -/
theorem C08_union_singles (env : Env) (t : String) (tf : Sub → String) (ss : List Sub) (root cur : Val) :
    sel env (.union t ss) root cur = ss.flatMap (fun s => sel env (.union (tf s) [s]) root cur) := by
  cases cur <;> simp only [sel, List.flatMap_cons, List.flatMap_nil, List.append_nil]
  all_goals (induction ss with
    | nil => rfl
    | cons s ss ih => simp only [List.flatMap_cons, ← ih, List.append_nil])

/-- **C08_multi_concat**: on an object (and on any non-array) always; on an array when every
    name is `*` (a quoted name in the list makes the whole selector select nothing there) -/
theorem C08_multi_concat (env : Env) (t t1 t2 : String) (a b : List Name) (root cur : Val)
    (h : (∃ xs, cur = .arr xs) → (a ++ b).all isWildName = true) :
    sel env (.multi t (a ++ b)) root cur = sel env (.multi t1 a) root cur ++ sel env (.multi t2 b) root cur := by
  cases cur with
  | arr xs =>
    have hab := h ⟨xs, rfl⟩
    simp only [sel, hab, if_true]
    simp only [List.all_append, Bool.and_eq_true] at hab
    simp only [hab.1, hab.2, if_true, List.flatMap_append]
  | obj kvs => simp only [sel, List.flatMap_append]
  | _ => simp only [sel, List.append_nil]

/-- the unrestricted statement — FALSE, and false of the library itself: on an array a list that
    mixes a quoted name with `*` selects nothing (`Retrieve("$['a',*]", [1,2])` is the error
    `type unmatched (expected=object, found=[]interface {}, path=['a',*])`), while `$[*]` alone
    selects `1, 2` -/
def C08_multi_concat_full : Prop :=
  ∀ (env : Env) (t t1 t2 : String) (a b : List Name) (root cur : Val),
    sel env (.multi t (a ++ b)) root cur = sel env (.multi t1 a) root cur ++ sel env (.multi t2 b) root cur

theorem C08_multi_concat_full_false : ¬ C08_multi_concat_full := by
  intro h
  have := h Registry.env "" "" "" [.key "a"] [.wild] .null (.arr [.num 1, .num 2])
  have e1 : sel Registry.env (.multi "" ([Name.key "a"] ++ [Name.wild])) .null (.arr [.num 1, .num 2]) = [] := rfl
  have e2 : sel Registry.env (.multi "" [Name.key "a"]) .null (.arr [.num 1, .num 2]) ++
      sel Registry.env (.multi "" [Name.wild]) .null (.arr [.num 1, .num 2]) = [.num 1, .num 2] := rfl
  rw [e1, e2] at this
  cases this

theorem C08_multi_concat_obj (env : Env) (t t1 t2 : String) (a b : List Name) (root : Val)
    (kvs : List (String × Val)) :
    sel env (.multi t (a ++ b)) root (.obj kvs) =
      sel env (.multi t1 a) root (.obj kvs) ++ sel env (.multi t2 b) root (.obj kvs) :=
  C08_multi_concat env t t1 t2 a b root _ (by rintro ⟨xs, h⟩; cases h)

/-- on an object a multi-name selector is the concatenation of child / wildcard steps -/
theorem C08_multi_singles_obj (env : Env) (t : String) (tf : Name → String) (ns : List Name) (root : Val)
    (kvs : List (String × Val)) :
    sel env (.multi t ns) root (.obj kvs) =
      ns.flatMap (fun n => match n with
        | .key k => sel env (.child (tf n) k) root (.obj kvs)
        | .wild => sel env (.wild (tf n)) root (.obj kvs)) := by
  simp only [sel]
  exact congrArg (fun f => ns.flatMap f) (funext fun n => by cases n <;> rfl)

/-- hypotheses satisfiable: `[*,*]` on an array -/
example : (∃ xs, Val.arr [.num 1, .num 2] = .arr xs) → ([Name.wild] ++ [Name.wild]).all isWildName = true := by
  intro _; decide

/-! ### recursive descent is pre-order application -/

/-- **C08_desc_preorder**: `..X` on a node is X applied to every container below (and including)
    the node, in pre-order … -/
theorem C08_desc_preorder (env : Env) (s : Step) (root cur : Val) :
    sel env (.desc s) root cur = (Val.containers cur).flatMap (sel env s root) := by
  simp only [sel]

/-- … where pre-order means: the container itself, then the containers of its members in member
    order (entries of a canonical object are in ascending key order) -/
theorem C08_containers_preorder (v : Val) :
    Val.containers v = if v.isContainer then v :: v.members.flatMap Val.containers else [] :=
  containers_preorder v

/-- consequence for step lists (no restriction on `$`): `..X Q` from `v` is `X Q` from every
    container of `v` in pre-order -/
theorem C08_desc_steps (env : Env) (s : Step) (Q : List Step) (root v : Val) :
    evalSteps env (.desc s :: Q) root [v] =
      (Val.containers v).flatMap (fun c => evalSteps env (s :: Q) root [c]) := by
  rw [BD.evalSteps_cons_single]
  simp only [sel, List.flatMap_assoc]
  congr 1
  funext c
  rw [BD.evalSteps_cons_single]

/-- consequence for paths: `$ P ..X Q fns` is the concatenation, over the values `v` that `$ P`
    selects and the containers `c` of `v` in pre-order, of `$ X Q fns` retrieved from `c` -/
theorem C08_desc_path (env : Env) (P : List Step) (s : Step) (Q : List Step) (fns : List Fn)
    (hf : ∀ f ∈ fns, isFfn f = true) (hs : rootFree s) (hQ : ∀ s ∈ Q, rootFree s) (d : Val) :
    (Spec.evalPath env (.mk .root (P ++ .desc s :: Q) fns) d d).getD [] =
      ((Spec.evalPath env (.mk .root P []) d d).getD []).flatMap (fun v =>
        (Val.containers v).flatMap (fun c => (Spec.evalPath env (.mk .root (s :: Q) fns) c c).getD [])) := by
  have hsQ : ∀ x ∈ s :: Q, rootFree x := by
    intro x hx
    rcases List.mem_cons.mp hx with rfl | hx
    · exact hs
    · exact hQ x hx
  have hdQ : ∀ x ∈ Step.desc s :: Q, rootFree x := by
    intro x hx
    rcases List.mem_cons.mp hx with rfl | hx
    · exact hs
    · exact hQ x hx
  rw [C08_compose env P (.desc s :: Q) fns hf hdQ d]
  congr 1
  funext v
  simp only [evalPath]
  rw [C08_desc_steps, applyFns_ffn_flatMap env fns (List.all_eq_true.mpr hf) _ (!(s :: Q).any isVgStep)]
  congr 1
  funext c
  rw [evalSteps_rootFree env v c (s :: Q) ((rootFreeSteps_iff _).mpr hsQ)]

/-- `$..X` itself (empty prefix) -/
theorem C08_desc_path_root (env : Env) (s : Step) (Q : List Step) (fns : List Fn)
    (hf : ∀ f ∈ fns, isFfn f = true) (hs : rootFree s) (hQ : ∀ s ∈ Q, rootFree s) (d : Val) :
    (Spec.evalPath env (.mk .root (.desc s :: Q) fns) d d).getD [] =
      (Val.containers d).flatMap (fun c => (Spec.evalPath env (.mk .root (s :: Q) fns) c c).getD []) := by
  have h := C08_desc_path env [] s Q fns hf hs hQ d
  simpa [evalPath, applyFns, evalSteps] using h


/-! ### concrete instances (both sides evaluated) -/

private def doc : Val :=
  .obj [("a", .arr [.obj [("x", .num 1), ("y", .num 10)], .obj [("y", .num 20)], .obj [("x", .num 3), ("y", .num 30)]]),
        ("b", .obj [("x", .num 4), ("y", .num 40)])]
private def P : List Step := [.child ".a" "a"]
private def Q : List Step := [.filter "[?(@.x)]" (.exist false (.mk .cur [.child ".x" "x"] [])), .child ".y" "y"]

example : Spec.run Registry.env (.mk .root (P ++ Q) [.ffn ".twice()" "twice"]) doc = some [.num 20, .num 60] := rfl
example : Spec.run Registry.env (.mk .root P []) doc =
    some [.arr [.obj [("x", .num 1), ("y", .num 10)], .obj [("y", .num 20)], .obj [("x", .num 3), ("y", .num 30)]]] := rfl
example : Spec.run Registry.env (.mk .root Q [.ffn ".twice()" "twice"])
    (.arr [.obj [("x", .num 1), ("y", .num 10)], .obj [("y", .num 20)], .obj [("x", .num 3), ("y", .num 30)]]) =
    some [.num 20, .num 60] := rfl
/-- `$..y` visits the containers in pre-order: the document, `a`, its three elements, `b` -/
example : Spec.run Registry.env (.mk .root [.desc (.child "y" "y")] []) doc = some [.num 10, .num 20, .num 30, .num 40] := rfl
example : (Val.containers doc).length = 6 := rfl
/-- the root matters for a continuation that mentions `$`: `rootFree` cannot be dropped -/
example :
    let Q' : List Step := [.filter "[?(@.x>=$.b.x)]"
      (.cmp .ge (.path (.mk .cur [.child ".x" "x"] [])) (.path (.mk .root [.child ".b" "b", .child ".x" "x"] [])))]
    Spec.run Registry.env (.mk .root ([.child ".a" "a"] ++ Q') []) (.obj [("a", .arr [.obj [("x", .num 4)]]), ("b", .obj [("x", .num 4)])])
      = some [.obj [("x", .num 4)]] ∧
    Spec.run Registry.env (.mk .root Q' []) (.arr [.obj [("x", .num 4)]]) = none := ⟨rfl, rfl⟩

/-- an aggregate function sees all selected values at once: "no aggregate" cannot be dropped -/
example :
    Spec.run Registry.env (.mk .root ([.child ".a" "a", .wild ".*"] ++ []) [.afn ".max()" "max"]) (.obj [("a", .arr [.num 1, .num 2])])
      = some [.num 2] ∧
    ((Spec.run Registry.env (.mk .root [.child ".a" "a", .wild ".*"] []) (.obj [("a", .arr [.num 1, .num 2])])).getD []).flatMap
        (fun v => (Spec.run Registry.env (.mk .root [] [.afn ".max()" "max"]) v).getD []) = [.num 1, .num 2] := ⟨rfl, rfl⟩

end C08
end JPV
-- OBLIGATIONS: JPV.C08.C08_sel_root_independent JPV.C08.C08_evalSteps_root_independent JPV.C08.C08_verdicts_root_independent JPV.C08.C08_compose JPV.C08.C08_compose_run JPV.C08.C08_compose_fails_iff JPV.C08.C08_compose_ok JPV.C08.C08_prefix_wf JPV.C08.C08_union_concat JPV.C08.C08_union_singles JPV.C08.C08_multi_concat JPV.C08.C08_multi_concat_full_false JPV.C08.C08_multi_concat_obj JPV.C08.C08_multi_singles_obj JPV.C08.C08_desc_preorder JPV.C08.C08_containers_preorder JPV.C08.C08_desc_steps JPV.C08.C08_desc_path JPV.C08.C08_desc_path_root
