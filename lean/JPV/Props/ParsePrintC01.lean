/-
ParsePrintC01 — the theorems about ABSTRACT paths transported to path STRINGS, through
parse ∘ print = build (Props/ParsePrint.lean).

C01 (`C01_refines`) says: the tree `Build.build` builds for an abstract path evaluates to what the
specification selects. With `ParsePrint_exact` the hypothesis "`Build.build … = .ok ch`" becomes
"`Parse` of the string `print p` returned the tree `ch`", and with C18 (`C18_text_irrelevant_spec`)
the recorded texts drop out of the specification side: the statement is about the string and the
abstract path only.
-/
import JPV.Props.ParsePrint
import JPV.Props.C01
import JPV.Props.C18
namespace JPV
namespace ParsePrint
open JPV.Peg JPV.Print JPV.PP JPV.C18

/-! ### `texts` changes nothing but the recorded texts -/

theorem stripFn_fnT (f : Fn) : stripFn (fnT f) = stripFn f := by cases f <;> rfl

mutual
theorem strip_stepT : (s : Step) → (ad : Bool) → stripStep (stepT ad s) = stripStep s
  | .child t k, ad => by rw [stepT]; rfl
  | .wild t, ad => by rw [stepT]; rfl
  | .multi t ns, ad => by rw [stepT]; rfl
  | .union t ss, ad => by rw [stepT]; rfl
  | .filter t q, ad => by rw [stepT, stripStep, stripStep, strip_queryT q]
  | .desc s, ad => by rw [stepT, stripStep, stripStep, strip_stepT s true]
theorem strip_stepsT : (ss : List Step) → stripSteps (stepsT ss) = stripSteps ss
  | [] => by rw [stepsT]
  | s :: ss => by rw [stepsT, stripSteps, stripSteps, strip_stepT s false, strip_stepsT ss]
theorem strip_queryT : (q : Query) → stripQuery (queryT q) = stripQuery q
  | .or a b => by rw [queryT, stripQuery, stripQuery, strip_queryT a, strip_queryT b]
  | .and a b => by rw [queryT, stripQuery, stripQuery, strip_queryT a, strip_queryT b]
  | .exist neg p => by rw [queryT, stripQuery, stripQuery, strip_pathT p]
  | .cmp op l r => by rw [queryT, stripQuery, stripQuery, strip_operandT l, strip_operandT r]
  | .regex p re => by rw [queryT, stripQuery, stripQuery, strip_pathT p]
theorem strip_operandT : (o : Operand) → stripOperand (operandT o) = stripOperand o
  | .lit l => by rw [operandT]
  | .path p => by rw [operandT, stripOperand, stripOperand, strip_pathT p]
theorem strip_pathT : (p : Path) → stripPath (pathT p) = stripPath p
  | .mk h ss fns => by
    rw [pathT, stripPath, stripPath, strip_stepsT ss, List.map_map]
    congr 1
    apply List.map_congr_left
    intro f _
    exact stripFn_fnT f
end

theorem strip_texts (p : Path) : stripPath (texts p) = stripPath p := strip_pathT p

/-- **C01 for path strings**: whatever tree `Parse` returns for the printed path `print p`, evaluating
    it on a canonical document gives exactly the values the specification selects for the abstract
    path `p` (or both report no result) — and never panics. -/
theorem ParsePrint_C01 (env : Env) (ext : Peg.Ext) (cfg : Cfg) (p : Path) (hp : wf p = true)
    (hext : ExtOK ext p) (henv : EnvOK env p) (ch : List N)
    (hparse : parseModel env ext cfg (printS p) = .ok ch) (d : Val) (hd : d.wf = true) :
    (∃ vs rs st, Spec.run env p d = some vs ∧ Impl.run env ch d = (.ok rs, st) ∧
        rs.map Impl.Res.val = vs ∧ vs ≠ []) ∨
    (∃ e st, Spec.run env p d = none ∧ Impl.run env ch d = (.err e, st)) := by
  have hb : Build.build env cfg (texts p) = .ok ch := by
    have h := ParsePrint_exact env ext cfg p hp hext henv
    rw [hparse, expected] at h
    cases hx : Build.build env cfg (texts p) with
    | ok ch' =>
      rw [hx] at h
      simp only [outcomeOfBuild, ParseOutcome.ok.injEq] at h
      rw [h]
    | error e =>
      rw [hx] at h
      cases e <;> cases h
  have hspec : Spec.run env (texts p) d = Spec.run env p d :=
    C18_text_irrelevant_spec env (texts p) p (strip_texts p) d
  have := C01.C01_refines env cfg (texts p) ch d hb hd
  rw [hspec] at this
  exact this

end ParsePrint
end JPV

-- OBLIGATIONS: ParsePrint_C01 strip_texts
