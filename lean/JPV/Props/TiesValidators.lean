/-
Props/TiesValidators — T1 tie for the validators (DESIGN §5.1).

The hand-written `Impl.validateTy` / `Impl.validateAny` are shown equal to the case tables of
syntax_basic_type_validator_*.go as REGENERATED from /repo on every run (Gen/Validators.lean), read
through the interpretation in Ties/Sem.lean. This module depends on no other generated file, so only a
change of the validators' source (generator stops with `untranslatable`, or the generated tables
change) makes it fail.
Only statements here; proofs are in Lemmas/TiesValidators.lean.
(Split out of the former single module Props/Ties.lean; names, namespace and statements unchanged.)
-/
import JPV.Lemmas.TiesValidators
namespace JPV
namespace Ties
open Impl Build

/-! ## 1. validators -/

/-- the generated table of the Go struct that `pushCompareEQ` instantiates for a literal type is the
    one `validateTy` is compared with -/
theorem T_validator_table (ty : LitTy) : Gen.Validators.table (vrefOfLitTy ty) = some (genTable ty) :=
  genTable_eq ty

/-- **One cell.** Looking the cell's dynamic type up in the regenerated case table gives exactly what
    `validateTy ty` does to that cell: the same contribution to `found`, the same new cell, and a
    write is logged iff the case body writes. -/
theorem T_validator_cell (ty : LitTy) (c : Cell) :
    validateTy ty [c] =
      (((genTable ty).act (cellTy c)).found,
       [applyWrite ((genTable ty).act (cellTy c)).write c],
       ((genTable ty).act (cellTy c)).write.count) :=
  validateTy_cell ty c

/-- **The loop.** `validateTy ty` is the regenerated table run over the list. -/
theorem T_validator_list (ty : LitTy) (cells : List Cell) :
    validateTy ty cells = runValidator (genTable ty) cells :=
  validateTy_eq_run ty cells

/-- `validateAny` is the recognised early-return loop of the any-value validator. -/
theorem T_validator_any (cells : List Cell) :
    validateAny cells = runAny Gen.Validators.anyValueLoop cells :=
  validateAny_eq_run cells

/-- a json.Number is converted (one write), a string is blanked (one write), the marker is left alone -/
example : validateTy .num [.val (.jnum 3), .val (.str "x"), .empty, .val (.num 4)] =
    (true, [.val (.num 3), .empty, .empty, .val (.num 4)], 2) := rfl
example : runValidator Gen.Validators.numericTable [.val (.jnum 3), .val (.str "x"), .empty, .val (.num 4)] =
    (true, [.val (.num 3), .empty, .empty, .val (.num 4)], 2) := rfl
example : runAny Gen.Validators.anyValueLoop [.empty, .val .null] = true := rfl

end Ties
end JPV

-- OBLIGATIONS: JPV.Ties.T_validator_table JPV.Ties.T_validator_cell JPV.Ties.T_validator_list JPV.Ties.T_validator_any
