/-
Props/ParserGen — tie T1 for the parser helper functions (obligations for C01 C02 C12 C14 C15 C17 C18).

`Gen/ParserHelpersGo.lean` is REGENERATED from /repo on every run by the generator `parser_helpers`
(harness/cmd/translate/parser_helpers.go): every helper method of `*jsonPathParser` in jsonpath_parser.go
(except the unescape routines, `syntaxErr` and the operand-order functions, which have generators of their own),
the nine field methods of `*syntaxBasicNode` (syntax_basic_node.go), the `setNext` and `setAccessorMode`
overrides of `*syntaxChildMultiIdentifier`, and the dynamic dispatch of the `syntaxNode` methods — statement
by statement over the vocabulary of JPV/ParserNode.lean, where syntax nodes are CELLS OF A HEAP with `next`
links (addresses), not lists.

`Peg/Actions.lean` models the same helpers on chains-as-lists (`Tree.N`). The theorems below say that the
hand-written model IS that code under the abstraction of Lemmas/ParserLayout.lean + ParserState.lean:

  * a LAYOUT (`LN`, `LSt`) is a `Tree` value whose nodes also carry their addresses; `erase…` forgets the
    addresses (the model's value), `cells…` lists the heap cells it stands for — `next` of a node is the
    address of its successor, the inner identifiers and the twin of a multi-name node have the SAME `next` as
    the node, `errorRuntime` points to the node itself;
  * `Rep c g L X`: the concrete parser state `g` (heap, `params`, `paramsList`, `root` in Go order) holds the
    layout `L` and, besides it, the cells `X` of values the running action has popped ("held"); all addresses
    are pairwise different (no sharing other than the one described, no cycles);
  * `Sim c X tb te gen model`: if the model returns a state, the regenerated code returns a state that holds a
    layout whose erasure is the model's state; if the model panics / raises a user error, the code stops with
    the same panic / error (`absErr`).

A source change that alters what one of these helpers links, marks, writes or pushes makes the generator stop
(`untranslatable: file:line: …`) or makes the proof of the corresponding theorem fail.
Only statements here; proofs are in Lemmas/ParserTie*.lean.
-/
import JPV.Lemmas.ParserTiePush
set_option linter.unusedVariables false
namespace JPV
namespace ParserGen
open JPV JPV.ParserNode JPV.ParserLayout
open JPV.Gen.ParserHelpersGo

/-! ## 0. A concrete reachable state (used by the `example`s) -/

/-- an environment with one filter function `f` and one aggregate function `g` -/
def ctx0 : Peg.Ctx :=
  { env := { ffn := fun n => if n = "f" then some (fun v => some v) else none
             afn := fun n => if n = "g" then some (fun _ => some .null) else none
             regex := fun _ _ => false }
    ext := { atoi := fun _ => some 7, parseFloat := fun _ => .ok 1, regexCompile := fun _ => .ok,
             unescape := id, unescapeSingle := some, unescapeDouble := some }
    acc := true
    input := #[] }

/-- the parser state `Parse` starts the actions in -/
def g0 : PS :=
  { accessorMode := true
    filterFunctions := fun n => if n = "f" then some n else none
    aggregateFunctions := fun n => if n = "g" then some n else none }

theorem rep0 : Rep ctx0 g0 {} [] :=
  { params := rfl, paramsList := rfl, root := rfl
    sat := fun x hx => by cases hx
    nodup := List.nodup_nil
    wfStack := fun x hx => by cases hx
    wfSaved := fun x hx => by cases hx
    acc := rfl
    ffn := fun n => by show (if n = "f" then some n else none) = _; simp only [ctx0]; split <;> rfl
    afn := fun n => by show (if n = "g" then some n else none) = _; simp only [ctx0]; split <;> rfl }


def iRoot : Info := ⟨"$", "", false, true⟩
def iA : Info := ⟨"a", "", false, true⟩
def iStar : Info := ⟨"*", "", true, true⟩

/-- the frame `$`, `.a`, `*` before `setNodeChain` links it: three one-node chains at addresses 0, 1, 2 -/
def L3 : LSt :=
  { stack := [.chain [.mk 0 iRoot .root], .chain [.mk 1 iA (.child "a")], .chain [.mk 2 iStar .wild]] }

def g3 : PS :=
  { g0 with
    heap := [nodeCell 0 iRoot .root none, nodeCell 1 iA (.child "a") none, nodeCell 2 iStar .wild none]
    params := [.node .root 0, .node .child 1, .node .wild 2] }

theorem rep3 : Rep ctx0 g3 L3 [] :=
  { rep0 with
    params := rfl
    sat := by
      intro x hx
      simp only [L3, cellsSt, cellsItems, cellsItem, cellsFrames, cellsCh, cellsN, cellsS, headRefD, List.append_nil,
        List.nil_append, List.cons_append, List.mem_cons, List.not_mem_nil, or_false] at hx
      rcases hx with rfl | rfl | rfl <;> rfl
    nodup := by decide
    wfStack := by
      intro it hit
      simp only [L3, List.mem_cons, List.not_mem_nil, or_false] at hit
      rcases hit with rfl | rfl | rfl <;> exact List.cons_ne_nil _ _ }

/-- the same three nodes linked: `$.a.*` as one chain on the stack -/
def L1 : LSt := { stack := [.chain [.mk 0 iRoot .root, .mk 1 iA (.child "a"), .mk 2 iStar .wild]] }

def g1 : PS :=
  { g0 with
    heap := [nodeCell 0 iRoot .root (some (.child, 1)), nodeCell 1 iA (.child "a") (some (.wild, 2)),
      nodeCell 2 iStar .wild none]
    params := [.node .root 0] }

theorem rep1 : Rep ctx0 g1 L1 [] :=
  { rep0 with
    params := rfl
    sat := by
      intro x hx
      simp only [L1, cellsSt, cellsItems, cellsItem, cellsFrames, cellsCh, cellsN, cellsS, headRefD, List.append_nil,
        List.nil_append, List.cons_append, List.mem_cons, List.not_mem_nil, or_false] at hx
      rcases hx with rfl | rfl | rfl <;> rfl
    nodup := by decide
    wfStack := by
      intro it hit
      simp only [L1, List.mem_cons, List.not_mem_nil, or_false] at hit
      rw [hit]; exact List.cons_ne_nil _ _ }

/-- the chain `$.a.*` held by an action (popped), nothing on the stack -/
def chain3 : List LN := [.mk 0 iRoot .root, .mk 1 iA (.child "a"), .mk 2 iStar .wild]

theorem repHeld : Rep ctx0 { g1 with params := [] } {} (cellsCh chain3 none ++ []) :=
  { rep0 with
    params := rfl
    sat := by
      intro x hx
      simp only [chain3, cellsSt, cellsItems, cellsFrames, cellsCh, cellsN, cellsS, headRefD, List.append_nil,
        List.nil_append, List.cons_append, List.mem_cons, List.not_mem_nil, or_false] at hx
      rcases hx with rfl | rfl | rfl <;> rfl
    nodup := by decide }


/-! ## 1. `setNodeChain` and `setNext` (with the multi-name override) -/

/-- **`head.setNext(nx)` = append.** On a heap that holds a chain `A` ending in nil (pairwise different
    addresses), `setNext` — dispatched dynamically, `syntaxChildMultiIdentifier.setNext` for a multi-name node,
    `syntaxBasicNode.setNext` otherwise — walks to the last node and links `nx` there; if the last node is a
    multi-name node its inner identifiers and its twin get the same `next`. Afterwards the heap holds `A` with
    tail `nx`; nothing outside `A` changed. -/
theorem PG_setNext_chain (A : List LN) (fuel : Nat) (h : Heap) (nx : NRef) (hne : A ≠ []) (hfuel : A.length < fuel)
    (hsat : Sat h (cellsCh A none)) (hnd : (ids (cellsCh A none)).Nodup) :
    ∃ h', nodeSetNext fuel (headRef A) nx h = .ok h' ∧ Sat h' (cellsCh A nx) ∧ Frame (ids (cellsCh A none)) h h' :=
  nodeSetNext_chain A fuel h nx hne hfuel hsat hnd

example : Sat g1.heap (cellsCh chain3 none) ∧ (ids (cellsCh chain3 none)).Nodup ∧ chain3 ≠ [] :=
  ⟨repHeld.held_sat.1, repHeld.held_sat.2, List.cons_ne_nil _ _⟩

/-- `setNext` on a held chain with a second held chain: the two become the appended chain. -/
theorem PG_setNext_append (c : Peg.Ctx) (g : PS) (L : LSt) (X : List (Nat × Cell)) (A B : List LN) (fuel : Nat)
    (hrep : Rep c g L ((cellsCh A none ++ cellsCh B none) ++ X)) (hne : A ≠ []) (hfuel : A.length < fuel) :
    ∃ g', g.onHeap (nodeSetNext fuel (headRef A) (headRef B)) = .ok g' ∧
      Rep c g' L (cellsCh (A ++ B) none ++ X) ∧ eraseCh (A ++ B) = eraseCh A ++ eraseCh B :=
  nodeSetNext_tie c g L X A B fuel hrep hne hfuel

/-- **`setNodeChain()` is `Peg.setNodeChain`.** -/
theorem PG_setNodeChain (c : Peg.Ctx) (g : PS) (L : LSt) (X : List (Nat × Cell)) (tb te : Nat) (f : Nat)
    (hrep : Rep c g L X) (hfuel : sizeItems L.stack + 1 ≤ f + 2) :
    Sim c X tb te (setNodeChain (f + 2) g) (Peg.setNodeChain (eraseSt L tb te)) :=
  setNodeChain_tie c g L X tb te f hrep hfuel

example : Rep ctx0 g3 L3 [] ∧ sizeItems L3.stack + 1 ≤ 2 + 2 ∧ L3.stack.length = 3 := ⟨rep3, by decide, rfl⟩

/-- one iteration of its loop is `Peg.linkOne` -/
theorem PG_setNodeChain_step (f : Nat) (P B : List LN) (hB : B ≠ []) (it : LItem) (p : PS)
    (hsat : Sat p.heap (cellsCh (P ++ B) none ++ cellsItem it))
    (hnd : (ids (cellsCh (P ++ B) none ++ cellsItem it)).Nodup)
    (hsize : sizeCh (P ++ B) + 1 ≤ f + 2) :
    match Peg.linkOne (eraseCh (P ++ B)) (eraseItem it) with
    | .ok Re' => ∃ res, linkBody (f + 2) (gitem it) (headRef (P ++ B), headRef B, p) = .ok res ∧
        LinkOut p (ids (cellsCh (P ++ B) none ++ cellsItem it)) (sizeCh (P ++ B) + sizeItem it) res Re'
    | .error e => e = .panic .typeAssertion ∧
        linkBody (f + 2) (gitem it) (headRef (P ++ B), headRef B, p) = .error .typeAssertion :=
  link_step f P B hB it p hsat hnd hsize

/-- `linkBody` is the body of the loop of the regenerated `setNodeChain`, nothing else -/
theorem PG_setNodeChain_body (fuel : Nat) (p : PS) :
    setNodeChain fuel p = (if goLen p.params > 1 then do
        let t_1 ← sliceIndex p.params 0
        let root ← GItem.asNode t_1
        let t_2 ← sliceFrom p.params 1
        let (root, last, p) ← forEach t_2 (root, root, p) (linkBody fuel)
        .ok { p with params := [GItem.ofNRef root] }
      else .ok p) :=
  setNodeChain_unfold fuel p

/-! ## 2. `updateValueGroup`, `updateRootValueGroup`, `deleteRootIdentifier` -/

/-- **`updateValueGroup(node)` is `Peg.markVg`** (on a held chain). -/
theorem PG_updateValueGroup (c : Peg.Ctx) (g : PS) (L : LSt) (X : List (Nat × Cell)) (ch : List LN) (fuel : Nat)
    (hrep : Rep c g L (cellsCh ch none ++ X)) (hfuel : ch.length ≤ fuel) :
    ∃ g' ch', updateValueGroup fuel (headRef ch) g = .ok g' ∧
      Rep c g' L (cellsCh ch' none ++ X) ∧ eraseCh ch' = Peg.markVg (eraseCh ch) ∧ headRef ch' = headRef ch :=
  updateValueGroup_tie c g L X ch fuel hrep hfuel

example : Rep ctx0 { g1 with params := [] } {} (cellsCh chain3 none ++ []) ∧ chain3.length ≤ 3 := ⟨repHeld, by decide⟩

/-- **`updateRootValueGroup()` is `Peg.updateRootValueGroup`.** -/
theorem PG_updateRootValueGroup (c : Peg.Ctx) (g : PS) (L : LSt) (X : List (Nat × Cell)) (tb te : Nat) (fuel : Nat)
    (hrep : Rep c g L X) (hfuel : sizeItems L.stack ≤ fuel) :
    Sim c X tb te (updateRootValueGroup fuel g) (Peg.updateRootValueGroup (eraseSt L tb te)) :=
  updateRootValueGroup_tie c g L X tb te fuel hrep hfuel

example : Rep ctx0 g1 L1 [] ∧ sizeItems L1.stack ≤ 3 := ⟨rep1, by decide⟩

/-- **`deleteRootIdentifier(node)` is `Peg.delRoot`** (on a held chain; the result is the held chain then). -/
theorem PG_deleteRootIdentifier (c : Peg.Ctx) (g : PS) (L : LSt) (X : List (Nat × Cell)) (ch : List LN) (fuel : Nat)
    (hrep : Rep c g L (cellsCh ch none ++ X)) (hfuel : sizeCh ch + 2 ≤ fuel) :
    ∃ g' ch', deleteRootIdentifier fuel (headRef ch) g = .ok (headRef ch', g') ∧
      Rep c g' L (cellsCh ch' none ++ X) ∧ eraseCh ch' = Peg.delRoot (eraseCh ch) ∧ (ch ≠ [] → ch' ≠ []) ∧
      sizeCh ch' ≤ sizeCh ch :=
  deleteRootIdentifier_tie c g L X ch fuel hrep hfuel

example : Rep ctx0 { g1 with params := [] } {} (cellsCh chain3 none ++ []) ∧ sizeCh chain3 + 2 ≤ 5 := ⟨repHeld, by decide⟩

/-! ## 3. `setLastNodeText`, `setConnectedText` -/

/-- **`setLastNodeText(text)` is `Peg.setLastNodeText`** (inner identifiers and twin of a multi-name node included). -/
theorem PG_setLastNodeText (c : Peg.Ctx) (g : PS) (L : LSt) (X : List (Nat × Cell)) (tb te : Nat) (text : String)
    (hrep : Rep c g L X) :
    Sim c X tb te (setLastNodeText text g) (Peg.setLastNodeText text (eraseSt L tb te)) :=
  setLastNodeText_tie c g L X tb te text hrep

example : Rep ctx0 g3 L3 [] := rep3

/-- **`setConnectedText(node)` is `Peg.connChain ""`** (on a held, non-nil chain in which every aggregate
    function has a parameter). -/
theorem PG_setConnectedText (c : Peg.Ctx) (g : PS) (L : LSt) (X : List (Nat × Cell)) (ch : List LN) (fuel : Nat)
    (hrep : Rep c g L (cellsCh ch none ++ X)) (hne : ch ≠ []) (hnep : nepCh ch = true)
    (hfuel : sizeCh ch + 1 ≤ fuel) :
    ∃ g' ch', setConnectedText fuel (headRef ch) [] g = .ok g' ∧
      Rep c g' L (cellsCh ch' none ++ X) ∧ eraseCh ch' = Peg.connChain "" (eraseCh ch) ∧ headRef ch' = headRef ch :=
  setConnectedText_tie c g L X ch fuel hrep hne hnep hfuel

example : Rep ctx0 { g1 with params := [] } {} (cellsCh chain3 none ++ []) ∧ chain3 ≠ [] ∧ nepCh chain3 = true ∧
    sizeCh chain3 + 1 ≤ 4 := ⟨repHeld, List.cons_ne_nil _ _, by decide, by decide⟩

/-- … with a postfix (the recursive call for the parameter of an aggregate function) -/
theorem PG_setConnectedText_postfix (fuel : Nat) (A : List LN) (pfx : String) (p : PS) (hne : A ≠ [])
    (hnep : nepCh A = true) (hsz : sizeCh A + 1 ≤ fuel) (hsat : Sat p.heap (cellsCh A none))
    (hnd : (ids (cellsCh A none)).Nodup) :
    ∃ h', setConnectedText fuel (headRef A) [pfx] p = .ok { p with heap := h' } ∧
      Sat h' (cellsCh (connChainL pfx A) none) ∧ Frame (ids (cellsCh A none)) p.heap h' ∧
      eraseCh (connChainL pfx A) = Peg.connChain pfx (eraseCh A) :=
  let ⟨h', he, hs, hf⟩ := setConnectedText_chain fuel A [pfx] pfx p (Or.inl rfl) hne hnep hsz hsat hnd
  ⟨h', he, hs, hf, eraseCh_connChainL pfx A⟩

/-- The statement without `ch ≠ []` / `nepCh` is false: on a nil node (the parameter of an aggregate function that
    was never linked) the Go code dereferences nil, the model returns `[]`. The grammar never produces it. -/
def PG_setConnectedText_full : Prop :=
  ∀ (c : Peg.Ctx) (g : PS) (L : LSt) (X : List (Nat × Cell)) (ch : List LN) (fuel : Nat),
    Rep c g L (cellsCh ch none ++ X) → sizeCh ch + 1 ≤ fuel →
    ∃ g' ch', setConnectedText fuel (headRef ch) [] g = .ok g' ∧
      Rep c g' L (cellsCh ch' none ++ X) ∧ eraseCh ch' = Peg.connChain "" (eraseCh ch)

theorem PG_setConnectedText_full_false : ¬ PG_setConnectedText_full := by
  intro h
  obtain ⟨g', ch', he, _⟩ := h ctx0 g0 {} [] [] 1 rep0 (by decide)
  cases he

/-! ## 4. `updateAccessorMode` and `setAccessorMode` (with the multi-name override) -/

/-- **`updateAccessorMode(node, m)` is `Peg.setAccChain m`**: every node of the chain, and through the override of
    `syntaxChildMultiIdentifier` the inner identifiers and the twin of every multi-name node. -/
theorem PG_updateAccessorMode (c : Peg.Ctx) (g : PS) (L : LSt) (X : List (Nat × Cell)) (ch : List LN) (f : Nat) (m : Bool)
    (hrep : Rep c g L (cellsCh ch none ++ X)) (hfuel : ch.length ≤ f + 2) :
    ∃ g' ch', updateAccessorMode (f + 2) (headRef ch) m g = .ok g' ∧
      Rep c g' L (cellsCh ch' none ++ X) ∧ eraseCh ch' = Peg.setAccChain m (eraseCh ch) ∧ headRef ch' = headRef ch :=
  updateAccessorMode_tie c g L X ch f m hrep hfuel

example : Rep ctx0 { g1 with params := [] } {} (cellsCh chain3 none ++ []) ∧ chain3.length ≤ 1 + 2 := ⟨repHeld, by decide⟩

/-- one node: `node.setAccessorMode(m)` is `Peg.nSetAcc m` -/
theorem PG_setAccessorMode_node (f : Nat) (m : Bool) (id : Nat) (i : Info) (s : LShape) (nx : NRef) (h : Heap)
    (hsat : Sat h (cellsN (.mk id i s) nx)) (hnd : (ids (cellsN (.mk id i s) nx)).Nodup) :
    ∃ h', nodeSetAccessorMode (f + 2) (some (s.kind, id)) m h = .ok h' ∧
      Sat h' (cellsN ((LN.mk id i s).mapDeep (setAccI m)) nx) ∧ Frame (ids (cellsN (.mk id i s) nx)) h h' ∧
      eraseN ((LN.mk id i s).mapDeep (setAccI m)) = Peg.nSetAcc m (eraseN (.mk id i s)) :=
  let ⟨h', he, hs, hf⟩ := nodeSetAccessorMode_node f m id i s nx h hsat hnd
  ⟨h', he, hs, hf, eraseN_mapDeep _ _⟩


/-! ## 5. The `push…` constructors: kinds, flags, texts, `errorRuntime`, library calls -/

/-- `pushRootIdentifier()` pushes what `Action8` pushes -/
theorem PG_pushRootIdentifier (c : Peg.Ctx) (g : PS) (L : LSt) (X : List (Nat × Cell)) (tb te : Nat) (hrep : Rep c g L X) :
    Sim c X tb te (pushRootIdentifier g) (.ok (Peg.push (.chain [.root (Peg.mkInfo c "$" false)]) (eraseSt L tb te))) :=
  pushRootIdentifier_tie c g L X tb te hrep

/-- `pushCurrentRootIdentifier()` pushes what `Action9` pushes -/
theorem PG_pushCurrentRootIdentifier (c : Peg.Ctx) (g : PS) (L : LSt) (X : List (Nat × Cell)) (tb te : Nat)
    (hrep : Rep c g L X) :
    Sim c X tb te (pushCurrentRootIdentifier g)
      (.ok (Peg.push (.chain [.cur (Peg.mkInfo c "@" false)]) (eraseSt L tb te))) :=
  pushCurrentRootIdentifier_tie c g L X tb te hrep

/-- `pushChildSingleIdentifier(text)` is `Peg.pushChildSingle` -/
theorem PG_pushChildSingleIdentifier (c : Peg.Ctx) (g : PS) (L : LSt) (X : List (Nat × Cell)) (tb te : Nat)
    (text : String) (hrep : Rep c g L X) :
    Sim c X tb te (pushChildSingleIdentifier text g) (.ok (Peg.pushChildSingle c text (eraseSt L tb te))) :=
  pushChildSingleIdentifier_tie c g L X tb te text hrep

/-- `pushChildWildcardIdentifier()` pushes what `Action12` pushes -/
theorem PG_pushChildWildcardIdentifier (c : Peg.Ctx) (g : PS) (L : LSt) (X : List (Nat × Cell)) (tb te : Nat)
    (hrep : Rep c g L X) :
    Sim c X tb te (pushChildWildcardIdentifier g)
      (.ok (Peg.push (.chain [.wild (Peg.mkInfo c "*" true)]) (eraseSt L tb te))) :=
  pushChildWildcardIdentifier_tie c g L X tb te hrep

/-- `pushFunction(text, funcName)` is `Peg.pushFunction` (filter function first, then aggregate, else
    `ErrorFunctionNotFound{function: text}`) -/
theorem PG_pushFunction (c : Peg.Ctx) (g : PS) (L : LSt) (X : List (Nat × Cell)) (tb te : Nat) (text name : String)
    (hrep : Rep c g L X) :
    Sim c X tb te (pushFunction text name g) (Peg.pushFunction c text name (eraseSt L tb te)) :=
  pushFunction_tie c g L X tb te text name hrep

example : Rep ctx0 g3 L3 [] ∧ (ctx0.env.ffn "f").isSome ∧ (ctx0.env.afn "g").isSome ∧ (ctx0.env.ffn "h").isNone :=
  ⟨rep3, rfl, rfl, rfl⟩

/-- `pushRecursiveChildIdentifier(node)` is `Peg.pushRecursiveChild` (for a held chain, nil included) -/
theorem PG_pushRecursiveChildIdentifier (c : Peg.Ctx) (g : PS) (L : LSt) (X : List (Nat × Cell)) (tb te : Nat)
    (ch : List LN) (hrep : Rep c g L (cellsCh ch none ++ X)) :
    Sim c X tb te (pushRecursiveChildIdentifier (headRef ch) g)
      (.ok (Peg.pushRecursiveChild c (eraseCh ch) (eraseSt L tb te))) :=
  pushRecursiveChildIdentifier_tie c g L X tb te ch hrep

example : Rep ctx0 { g1 with params := [] } {} (cellsCh chain3 none ++ []) := repHeld

/-- `pushUnionQualifier(subscript)` pushes what `Action19` pushes after its `asSubscript` -/
theorem PG_pushUnionQualifier (c : Peg.Ctx) (g : PS) (L : LSt) (X : List (Nat × Cell)) (tb te : Nat)
    (sub : GSub) (hwf : wfItem (.sub sub)) (hrep : Rep c g L X) :
    Sim c X tb te (pushUnionQualifier sub g)
      (.ok (Peg.push (.chain [.union (Peg.mkInfo c "" (subVg sub)) [subI sub]]) (eraseSt L tb te))) ∧
    Peg.asSubscript (eraseItem (.sub sub)) = .ok (subI sub, subVg sub) :=
  ⟨pushUnionQualifier_tie c g L X tb te sub hwf hrep, asSubscript_sub sub⟩

example : wfItem (.sub (.wildcard (some true))) ∧ wfItem (.sub (.index { basic := some false, number := 3 })) :=
  ⟨rfl, rfl⟩

/-- `pushFilterQualifier(query)` pushes what `Action23` pushes (for a held query) -/
theorem PG_pushFilterQualifier (c : Peg.Ctx) (g : PS) (L : LSt) (X : List (Nat × Cell)) (tb te : Nat)
    (q : LQ) (hrep : Rep c g L (cellsQ q ++ X)) :
    Sim c X tb te (pushFilterQualifier (gq q) g)
      (.ok (Peg.push (.chain [.filter (Peg.mkInfo c "" true) (eraseQ q)]) (eraseSt L tb te))) :=
  pushFilterQualifier_tie c g L X tb te q hrep

example : Rep ctx0 { g1 with params := [] } {} (cellsQ (.exist (.proot chain3)) ++ []) := repHeld

/-- `pushScriptQualifier(text)` raises what `Action22` raises -/
theorem PG_pushScriptQualifier (c : Peg.Ctx) (g : PS) (X : List (Nat × Cell)) (tb te : Nat) (text : String) :
    Sim c X tb te (pushScriptQualifier text g) (.error (.notSupported "script" ("[(" ++ text ++ ")]"))) :=
  pushScriptQualifier_tie c g X tb te text

/-- `pushSlicePositiveStepSubscript` pushes what `Action16` pushes for a step ≥ 0 -/
theorem PG_pushSlicePositiveStepSubscript (c : Peg.Ctx) (g : PS) (L : LSt) (X : List (Nat × Cell)) (tb te : Nat)
    (a b s : GIdx) (hrep : Rep c g L X) :
    Sim c X tb te (pushSlicePositiveStepSubscript a b s g)
      (.ok (Peg.push (.sub (.slicePos (boundOf a) (boundOf b) (boundOf s))) (eraseSt L tb te))) :=
  pushSlicePositiveStepSubscript_tie c g L X tb te a b s hrep

/-- `pushSliceNegativeStepSubscript` pushes what `Action16` pushes for a step < 0 -/
theorem PG_pushSliceNegativeStepSubscript (c : Peg.Ctx) (g : PS) (L : LSt) (X : List (Nat × Cell)) (tb te : Nat)
    (a b s : GIdx) (hrep : Rep c g L X) :
    Sim c X tb te (pushSliceNegativeStepSubscript a b s g)
      (.ok (Peg.push (.sub (.sliceNeg (boundOf a) (boundOf b) (boundOf s))) (eraseSt L tb te))) :=
  pushSliceNegativeStepSubscript_tie c g L X tb te a b s hrep

/-- `_pushIndexSubscript(text, isOmitted)` is `Peg.pushIndexSubscript` (with `toInt`'s `ErrorInvalidArgument`) -/
theorem PG_pushIndexSubscript (c : Peg.Ctx) (lib : Lib) (hlib : LibRep lib c) (g : PS) (L : LSt)
    (X : List (Nat × Cell)) (tb te : Nat) (text : String) (om : Bool) (hrep : Rep c g L X) :
    Sim c X tb te (_pushIndexSubscript lib text om g) (Peg.pushIndexSubscript c text om (eraseSt L tb te)) ∧
    Sim c X tb te (pushIndexSubscript lib text g) (Peg.pushIndexSubscript c text false (eraseSt L tb te)) ∧
    Sim c X tb te (pushOmittedIndexSubscript lib text g) (Peg.pushIndexSubscript c text true (eraseSt L tb te)) :=
  ⟨_pushIndexSubscript_tie c lib hlib g L X tb te text om hrep, pushIndexSubscript_tie c lib hlib g L X tb te text hrep,
    pushOmittedIndexSubscript_tie c lib hlib g L X tb te text hrep⟩

/-- a library for `ctx0` -/
def lib0 : Lib := { atoi := fun _ => some 7, parseFloat := fun _ => some (some 1), regexCompile := fun _ => some true }

example : LibRep lib0 ctx0 := ⟨rfl, fun _ => rfl, fun _ => rfl⟩

/-- `pushWildcardSubscript()` pushes what `Action18` pushes -/
theorem PG_pushWildcardSubscript (c : Peg.Ctx) (g : PS) (L : LSt) (X : List (Nat × Cell)) (tb te : Nat)
    (hrep : Rep c g L X) :
    Sim c X tb te (pushWildcardSubscript g) (.ok (Peg.push (.sub .wild) (eraseSt L tb te))) :=
  pushWildcardSubscript_tie c g L X tb te hrep

/-- `toInt`, `toFloat` -/
theorem PG_toInt_toFloat (c : Peg.Ctx) (lib : Lib) (hlib : LibRep lib c) (text : String) :
    (toInt lib text = match c.ext.atoi text with | some n => .ok n | none => .error (.invalidArgument text)) ∧
    (toFloat lib text = match c.ext.parseFloat text with
      | .ok n => .ok n | .err => .error (.invalidArgument text) | .unmodelled => .error .unmodelled) :=
  ⟨toInt_tie c lib hlib text, toFloat_tie c lib hlib text⟩

/-- `pushLogicalOr/And/Not` push what `Action24/25/27` push (for held queries) -/
theorem PG_pushLogical (c : Peg.Ctx) (g : PS) (L : LSt) (X : List (Nat × Cell)) (tb te : Nat) (a b : LQ)
    (hrep : Rep c g L ((cellsQ a ++ cellsQ b) ++ X)) :
    Sim c X tb te (pushLogicalOr (gq a) (gq b) g) (.ok (Peg.push (.query (.or (eraseQ a) (eraseQ b))) (eraseSt L tb te))) ∧
    Sim c X tb te (pushLogicalAnd (gq a) (gq b) g) (.ok (Peg.push (.query (.and (eraseQ a) (eraseQ b))) (eraseSt L tb te))) :=
  ⟨pushLogicalOr_tie c g L X tb te a b hrep, pushLogicalAnd_tie c g L X tb te a b hrep⟩

theorem PG_pushLogicalNot (c : Peg.Ctx) (g : PS) (L : LSt) (X : List (Nat × Cell)) (tb te : Nat) (a : LQ)
    (hrep : Rep c g L (cellsQ a ++ X)) :
    Sim c X tb te (pushLogicalNot (gq a) g) (.ok (Peg.push (.query (.not (eraseQ a))) (eraseSt L tb te))) :=
  pushLogicalNot_tie c g L X tb te a hrep

example : Rep ctx0 { g1 with params := [] } {} (cellsQ (.exist (.pcur chain3)) ++ []) := repHeld

/-- `_createBasicCompareQuery` builds the compare query of the model -/
theorem PG_createBasicCompareQuery (l r : LP) (cmp : Cmp) :
    _createBasicCompareQuery (gcp l) (gcp r) cmp = .ok (gq (.cmp l r cmp)) ∧
    eraseQ (.cmp l r cmp) = .cmp (eraseP l) (eraseP r) cmp :=
  ⟨rfl, rfl⟩

/-- `pushCompareRegex(leftParam, regex)` pushes / raises what `Action34` does after its `asCP` -/
theorem PG_pushCompareRegex (c : Peg.Ctx) (lib : Lib) (hlib : LibRep lib c) (g : PS) (L : LSt)
    (X : List (Nat × Cell)) (tb te : Nat) (l : LP) (re : String) (hrep : Rep c g L (cellsP l ++ X)) :
    Sim c X tb te (pushCompareRegex lib (gcp l) re g)
      (match c.ext.regexCompile re with
        | .ok => .ok (Peg.push (.query (.cmp (eraseP l) (.lit (.str "regex")) (.regex re))) (eraseSt L tb te))
        | .err => .error (.invalidArgument re)
        | .unmodelled => .error .unmodelled) :=
  pushCompareRegex_tie c lib hlib g L X tb te l re hrep

/-- `pushBasicCompareParameter(param, isLiteral)` pushes what `Action37` pushes; `isLiteral` is exactly
    "the operand is not an `@`-path" -/
theorem PG_pushBasicCompareParameter (c : Peg.Ctx) (g : PS) (L : LSt) (X : List (Nat × Cell)) (tb te : Nat) (p : LP)
    (hrep : Rep c g L (cellsP p ++ X)) :
    Sim c X tb te (pushBasicCompareParameter (gparam p) (isLit p) g) (.ok (Peg.push (.cp (eraseP p)) (eraseSt L tb te))) ∧
    isLit p = !Peg.isCurP (eraseP p) :=
  ⟨pushBasicCompareParameter_tie c g L X tb te p hrep, by cases p <;> rfl⟩

/-- `pushCompareParameterLiteral(v)` pushes what `Peg.pushCompareParameterLiteral` pushes for a literal -/
theorem PG_pushCompareParameterLiteral (c : Peg.Ctx) (g : PS) (L : LSt) (X : List (Nat × Cell)) (tb te : Nat) (l : Lit)
    (hrep : Rep c g L X) :
    Sim c X tb te (pushCompareParameterLiteral (itemOfLit l) g) (.ok (Peg.push (.cp (.lit l.toVal)) (eraseSt L tb te))) :=
  pushCompareParameterLiteral_tie c g L X tb te l hrep

/-- `pushCompareParameterRoot(node)` / `…CurrentRoot(node)` push what `Action39` pushes once it has deleted the
    root identifier: the chain with accessor mode switched off everywhere -/
theorem PG_pushCompareParameterRoot (c : Peg.Ctx) (g : PS) (L : LSt) (X : List (Nat × Cell)) (tb te : Nat)
    (ch : List LN) (f : Nat) (hrep : Rep c g L (cellsCh ch none ++ X)) (hfuel : ch.length ≤ f + 2) :
    Sim c X tb te (pushCompareParameterRoot (f + 2) (headRef ch) g)
      (.ok (Peg.push (.query (.exist (.proot (Peg.setAccChain false (eraseCh ch))))) (eraseSt L tb te))) ∧
    Sim c X tb te (pushCompareParameterCurrentRoot (f + 2) (headRef ch) g)
      (.ok (Peg.push (.query (.exist (.pcur (Peg.setAccChain false (eraseCh ch))))) (eraseSt L tb te))) :=
  ⟨pushCompareParameterRoot_tie c g L X tb te ch f hrep hfuel,
    pushCompareParameterCurrentRoot_tie c g L X tb te ch f hrep hfuel⟩

example : Rep ctx0 { g1 with params := [] } {} (cellsCh chain3 none ++ []) ∧ chain3.length ≤ 1 + 2 := ⟨repHeld, by decide⟩

/-- **`pushChildMultiIdentifier(node, appendNode)` is `Peg.pushChildMulti`** for two held single nodes — what
    `Action11` passes: two fresh identifiers, or the multi-name node it pushed before and a fresh identifier. -/
theorem PG_pushChildMultiIdentifier (c : Peg.Ctx) (g : PS) (L : LSt) (X : List (Nat × Cell)) (tb te : Nat)
    (n1 n2 : LN) (hrep : Rep c g L ((cellsCh [n1] none ++ cellsCh [n2] none) ++ X)) :
    Sim c X tb te (pushChildMultiIdentifier n1.ref n2.ref g)
      (Peg.pushChildMulti c (eraseCh [n1]) (eraseCh [n2]) (eraseSt L tb te)) :=
  pushChildMultiIdentifier_tie c g L X tb te n1 n2 hrep

/-- two held single nodes `'a'` and `*` -/
example : Rep ctx0 { g0 with heap := [nodeCell 0 iA (.child "a") none, nodeCell 1 iStar .wild none] } {}
    ((cellsCh [.mk 0 iA (.child "a")] none ++ cellsCh [.mk 1 iStar .wild] none) ++ []) :=
  { rep0 with
    sat := by
      intro x hx
      simp only [cellsSt, cellsItems, cellsFrames, cellsCh, cellsN, cellsS, headRefD, List.append_nil,
        List.nil_append, List.cons_append, List.mem_cons, List.not_mem_nil, or_false] at hx
      rcases hx with rfl | rfl <;> rfl
    nodup := by decide }

/-- The statement for chains of any length is not provable, and the reason is in `Tree`, not in the code: when the
    multi-name node already has a successor, the appended identifier does not get it (`setNext` ran before), so
    the heap holds no layout — `Tree.N.multi` has no field for an inner identifier with a `next` of its own. -/
def PG_pushChildMultiIdentifier_full : Prop :=
  ∀ (c : Peg.Ctx) (g : PS) (L : LSt) (X : List (Nat × Cell)) (tb te : Nat) (A B : List LN),
    Rep c g L ((cellsCh A none ++ cellsCh B none) ++ X) →
    Sim c X tb te (pushChildMultiIdentifier (headRef A) (headRef B) g)
      (Peg.pushChildMulti c (eraseCh A) (eraseCh B) (eraseSt L tb te))

/-- the witness: `['a','b']` already linked to `.c` (cells 0–3), then `'d'` (cell 4) is appended: the new inner
    identifier has `next = nil`, the other two and the node have `next = .c` -/
theorem PG_pushChildMultiIdentifier_unshared :
    let h : Heap :=
      [ nodeCell 0 iA (.multi [⟨1, .key iA "a"⟩, ⟨2, .key iA "b"⟩] none) (some (.child, 3)),
        innerCell ⟨1, .key iA "a"⟩ (some (.child, 3)), innerCell ⟨2, .key iA "b"⟩ (some (.child, 3)),
        nodeCell 3 iA (.child "c") none, nodeCell 4 iA (.child "d") none ]
    ∃ g', pushChildMultiIdentifier (some (.multi, 0)) (some (.child, 4)) { g0 with heap := h } = .ok g' ∧
      rd g'.heap (some 0) (·.identifiers) = .ok [some (.child, 1), some (.child, 2), some (.child, 4)] ∧
      rd g'.heap (some 0) (·.next) = .ok (some (.child, 3)) ∧
      rd g'.heap (some 1) (·.next) = .ok (some (.child, 3)) ∧
      rd g'.heap (some 4) (·.next) = .ok none :=
  ⟨_, rfl, rfl, rfl, rfl, rfl⟩

/-! ## 6. The stacks -/

/-- `push(x)` appends; under the abstraction it is `Peg.push` -/
theorem PG_push (c : Peg.Ctx) (g : PS) (L : LSt) (X : List (Nat × Cell)) (it : LItem) (tb te : Nat)
    (hrep : Rep c g L (cellsItem it ++ X)) (hwf : wfItem it) :
    ∃ g', push (gitem it) g = .ok g' ∧ Rep c g' { L with stack := L.stack ++ [it] } X ∧
      eraseSt { L with stack := L.stack ++ [it] } tb te = Peg.push (eraseItem it) (eraseSt L tb te) :=
  push_tie c g L X it tb te hrep hwf

/-- `pop()` is `Peg.pop`: the last entry, or "index out of range" on an empty frame -/
theorem PG_pop (c : Peg.Ctx) (g : PS) (L : LSt) (X : List (Nat × Cell)) (tb te : Nat) (hrep : Rep c g L X) :
    match Peg.pop (eraseSt L tb te) with
    | .ok (x, st') => ∃ it s, L.stack = s ++ [it] ∧
        pop g = .ok (gitem it, { g with params := s.map gitem }) ∧
        Rep c { g with params := s.map gitem } { L with stack := s } (cellsItem it ++ X) ∧ wfItem it ∧
        eraseItem it = x ∧ eraseSt { L with stack := s } tb te = st'
    | .error e => ∃ e', pop g = .error e' ∧ absErr e' = some e :=
  pop_tie c g L X tb te hrep

/-- `saveParams()` is `Peg.saveParams` -/
theorem PG_saveParams (c : Peg.Ctx) (g : PS) (L : LSt) (X : List (Nat × Cell)) (tb te : Nat) (hrep : Rep c g L X) :
    ∃ g' L', saveParams g = .ok g' ∧ Rep c g' L' X ∧ eraseSt L' tb te = Peg.saveParams (eraseSt L tb te) :=
  saveParams_tie c g L X tb te hrep

/-- `loadParams()` is `Peg.loadParams` -/
theorem PG_loadParams (c : Peg.Ctx) (g : PS) (L : LSt) (X : List (Nat × Cell)) (tb te : Nat) (hrep : Rep c g L X) :
    ∃ g' L', loadParams g = .ok g' ∧ Rep c g' L' X ∧ eraseSt L' tb te = Peg.loadParams (eraseSt L tb te) :=
  loadParams_tie c g L X tb te hrep

example : Rep ctx0 g3 L3 [] ∧ (eraseSt L3 0 0).stack.length = 3 := ⟨rep3, rfl⟩

-- OBLIGATIONS: PG_setNext_chain PG_setNext_append PG_setNodeChain PG_setNodeChain_step PG_setNodeChain_body
--   PG_updateValueGroup PG_updateRootValueGroup PG_deleteRootIdentifier PG_setLastNodeText PG_setConnectedText
--   PG_setConnectedText_postfix PG_setConnectedText_full_false PG_updateAccessorMode PG_setAccessorMode_node
--   PG_pushRootIdentifier PG_pushCurrentRootIdentifier PG_pushChildSingleIdentifier PG_pushChildWildcardIdentifier
--   PG_pushFunction PG_pushRecursiveChildIdentifier PG_pushUnionQualifier PG_pushFilterQualifier
--   PG_pushScriptQualifier PG_pushSlicePositiveStepSubscript PG_pushSliceNegativeStepSubscript
--   PG_pushIndexSubscript PG_pushWildcardSubscript PG_toInt_toFloat PG_pushLogical PG_pushLogicalNot
--   PG_createBasicCompareQuery PG_pushCompareRegex PG_pushBasicCompareParameter PG_pushCompareParameterLiteral
--   PG_pushCompareParameterRoot PG_pushChildMultiIdentifier PG_pushChildMultiIdentifier_unshared
--   PG_push PG_pop PG_saveParams PG_loadParams

end ParserGen
end JPV
