/-
C19 — Parse depends only on the path and the Config given to that call (PARTIAL at theorem level).

In the model, `Peg.parseModel env ext cfg s` is a mathematical function of the registered functions,
the accessor flag and the path text: there is no parser state to leak. That the real `Parse` has no
state that survives a call is what the deferred reset is for; the structural facts that make it so
are extracted from the source on every run (tie T2) and pinned here as obligations:
  * `fact_parse_wrapper` — first statement `parseMutex.Lock()`; exactly one `defer` whose body contains
    `recover()`, then `parser.jsonPathParser = jsonPathParser{}`, then `parseMutex.Unlock()`; the config
    fields are copied only under `len(config) > 0`; the returned closure's only free variable is `root`;
  * `facts_parserRefs`, `facts_pkgVarAssign`, `facts_pkgVars` — nothing else refers to or assigns the
    package-level parser and no other package-level state is written.
The behavioural side (histories of ≤ 10 calls vs the same call made first in a fresh process) is the
C19 runner. The PEG runtime's own reset (`Reset()` clearing memo table and token tree) is in the
generated parser and is covered by that runner only.
-/
import JPV.Peg.ParseModel
import JPV.Props.Facts.ParseWrapper
import JPV.Props.Facts.ParserRefs
import JPV.Props.Facts.PkgVarAssign
import JPV.Props.Facts.PkgVars
import JPV.Props.Facts.FactParseWrapper
namespace JPV
namespace C19
open Peg

/-- one call of `Parse` -/
structure Call where
  env : Env            -- the functions registered in the Config of THIS call
  cfg : Cfg            -- its accessor flag
  path : String

/-- the outcomes of a history of calls in one process (the model has no state to thread) -/
def history (ext : Ext) (calls : List Call) : List ParseOutcome :=
  calls.map (fun c => parseModel c.env ext c.cfg c.path)

/-- the k-th outcome of any history is the outcome of that call made first in a fresh process -/
theorem C19_history (ext : Ext) (calls : List Call) (k : Nat) (c : Call) (h : calls[k]? = some c) :
    (history ext calls)[k]? = some (history ext [c])[0]! := by
  simp [history, h]

/-- whatever was parsed before — including calls that failed and calls with other configurations —
    the outcome is the same -/
theorem C19_prefix_irrelevant (ext : Ext) (pre pre' : List Call) (c : Call) :
    (history ext (pre ++ [c]))[pre.length]? = (history ext (pre' ++ [c]))[pre'.length]? := by
  simp [history]

/-- the structural facts about `Parse` extracted from the current source (T2) -/
theorem C19_wrapper_facts :
    Gen.Facts.parseWrapper = Ties.Expect.parseWrapper ∧ Gen.Facts.parserRefs = Ties.Expect.parserRefs ∧
    Gen.Facts.pkgVarAssign = Ties.Expect.pkgVarAssign ∧ Gen.Facts.pkgVars = Ties.Expect.pkgVars :=
  ⟨Ties.facts_parseWrapper, Ties.facts_parserRefs, Ties.facts_pkgVarAssign, Ties.facts_pkgVars⟩

end C19
end JPV
-- OBLIGATIONS: JPV.C19.C19_history JPV.C19.C19_prefix_irrelevant JPV.C19.C19_wrapper_facts JPV.Ties.fact_parse_wrapper
