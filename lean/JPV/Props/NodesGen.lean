/-
NodesGen — tie T1 for the navigation nodes (obligations of C01 C03 C07 C15).

`Gen/NodesGo.lean` is regenerated on every run by the generator `nodes`
(harness/cmd/translate/nodes.go) from the Go `retrieve` / `retrieveMap` / `retrieveList` methods of

  syntax_basic_node.go (retrieveAnyValueNext, retrieveMapNext, retrieveListNext),
  syntax_node_identifier_{root,current_root,child_single,child_wildcard,child_multi,recursive_child}.go,
  syntax_node_qualifier_{union,filter}.go

statement by statement, over the vocabulary of JPV/NavNode.lean. The theorems below say that every
one of these methods IS the corresponding equation of the hand-written model `Impl.retrieve`
(JPV/Impl/Retrieve.lean) on which C01 (refinement), C03 (totality), C07 (order), C15 (error
selection) and the accessor properties rest:

    retrieve env (n :: rest) prev root cur aloc st = Gen.NodesGo.<method> (receiver of n) root ⟨cur, aloc⟩ st

The receiver of a node is built from the model's data only (`NodeTie.basicRecv` …): its Info, its
accessor flag, and as `next` the model's evaluation of the rest of the chain (`none` at the end
of the chain, so that the result pushes of the three helpers — plain value / Accessor with the
captured container and key — are compared too). Inner names of a multi-name node and its union
twin are again the GENERATED methods.

Hypotheses, and why each is there:
  * `keysNodup cur` (wildcard, multi, filter): an object value lists every key once — true of every
    Go map; the Go code reaches a member by `srcMap[key]`, the model by position in the entry list.
  * `cur.wf` (recursive descent): the document is canonical (entries in ascending key order, DESIGN
    §12.1; the harness serialises maps that way): the Go loop walks `getSortedKeys`, the model's
    pre-order enumeration `containersLoc` walks the entries as listed.
  * `valSize cur ≤ fuel` (recursive descent): the condition-only `for` is translated with fuel;
    the number of values in the document is enough.
  * `rest ≠ []` (recursive descent): the Go method calls `i.next.retrieve` without a nil test (the
    parser never builds `..` without a successor); the model has no nil-dereference outcome.
  * `wfQ env q` (filter): the query never answers with an empty list (`Refine.computeQ_ok`); the
    model indexes `valueList[0]` unconditionally, the Go code only when the lengths differ.
A change of any of these Go methods that alters what is looked up, in which order, what is handed
to `next` with which location, what is recorded as deepest error or pushed to the buffer makes the
generator stop (`untranslatable`) or one of these proofs fail.
-/
import JPV.Lemmas.NodeTie
import JPV.Registry
namespace JPV
namespace NodesGen
open Impl NavNode NodeTie Gen.NodesGo

/-! ### the three helpers of `syntaxBasicNode` -/

/-- `retrieveAnyValueNext`: run the rest of the chain on the value with no handle; at the end of
    the chain push it (as an Accessor without `Set` in accessor mode) -/
theorem anyNext_tie (env : Env) (i : Info) (rest : List N) (root v : Val) (st : St) :
    syntaxBasicNode_retrieveAnyValueNext (basicRecv env i rest) root v st = retrieve env rest i root v none st :=
  anyNext_eq env i rest root v st

/-- `retrieveMapNext`: look the key up (own MemberNotExist when absent), then the rest of the
    chain on the member located at (map, key); at the end of the chain push it -/
theorem mapNext_tie (env : Env) (i : Info) (rest : List N) (root : Val) (m : GoMap) (k : String) (st : St) :
    syntaxBasicNode_retrieveMapNext (basicRecv env i rest) root m k st =
      (match Val.lookup k m.kvs with
       | none => .ok (st, some (.member i))
       | some v => retrieve env rest i root v (some (m.loc ++ [.key k])) st) :=
  mapNext_eq env i rest root m k st

/-- `retrieveListNext`: index (a Go panic when out of range), then the rest of the chain on the
    element located at (slice, index); at the end of the chain push it -/
theorem listNext_tie (env : Env) (i : Info) (rest : List N) (root : Val) (l : GoList) (ix : Int) (st : St) :
    syntaxBasicNode_retrieveListNext (basicRecv env i rest) root l ix st =
      (match (if ix < 0 then none else l.xs[ix.toNat]?) with
       | none => .error .indexOutOfRange
       | some v => retrieve env rest i root v (some (l.loc ++ [.idx ix.toNat])) st) :=
  listNext_eq env i rest root l ix st

/-! ### one theorem per node kind -/

/-- `$` -/
theorem root_tie (env : Env) (i : Info) (rest : List N) (prev : Info) (root cur : Val) (aloc : Option Loc) (st : St) :
    retrieve env (.root i :: rest) prev root cur aloc st =
      syntaxRootIdentifier_retrieve (rootRecv env i rest) root ⟨cur, aloc⟩ st :=
  root_eq env i rest prev root cur aloc st

/-- `@` -/
theorem cur_tie (env : Env) (i : Info) (rest : List N) (prev : Info) (root cur : Val) (aloc : Option Loc) (st : St) :
    retrieve env (.cur i :: rest) prev root cur aloc st =
      syntaxCurrentRootIdentifier_retrieve (rootRecv env i rest) root ⟨cur, aloc⟩ st :=
  cur_eq env i rest prev root cur aloc st

/-- `.name` / `['name']` -/
theorem child_tie (env : Env) (i : Info) (k : String) (rest : List N) (prev : Info) (root cur : Val)
    (aloc : Option Loc) (st : St) :
    retrieve env (.child i k :: rest) prev root cur aloc st =
      syntaxChildSingleIdentifier_retrieve (singleRecv env i k rest) root ⟨cur, aloc⟩ st :=
  child_eq env i k rest prev root cur aloc st

/-- `.*` / `[*]` on an object whose keys are pairwise different, on an array, on anything else -/
theorem wild_tie (env : Env) (i : Info) (rest : List N) (prev : Info) (root cur : Val) (aloc : Option Loc) (st : St)
    (hk : keysNodup cur) :
    retrieve env (.wild i :: rest) prev root cur aloc st =
      syntaxChildWildcardIdentifier_retrieve (wildRecv env i rest) root ⟨cur, aloc⟩ st :=
  wild_eq env i rest prev root cur aloc st hk

/-- the statement without the hypothesis on the representation of objects: false, the entry list
    `[("a", 1), ("a", 2)]` (not a Go map) is walked by position in the model (1, 2) and by key in
    the code (1, 1) -/
def wild_tie_full : Prop :=
  ∀ (env : Env) (i : Info) (rest : List N) (prev : Info) (root cur : Val) (aloc : Option Loc) (st : St),
    retrieve env (.wild i :: rest) prev root cur aloc st =
      syntaxChildWildcardIdentifier_retrieve (wildRecv env i rest) root ⟨cur, aloc⟩ st

example : keysNodup (.obj [("a", .num 1), ("b", .arr [.null])]) ∧ keysNodup (.arr [.num 1, .num 1]) ∧
    keysNodup (.str "x") := by
  refine ⟨?_, trivial, trivial⟩
  show List.Nodup ["a", "b"]
  decide

/-- the values in the buffer of an outcome -/
def outVals (r : M (St × Option RtErr)) : List Val :=
  match r with
  | .ok (st, _) => st.out.map Res.val
  | .error _ => []

/-- the refutation announced at `wild_tie_full` -/
theorem wild_tie_full_false : ¬ wild_tie_full := by
  intro h
  have h1 := h Registry.env ⟨"", "", false, false⟩ [] default .null (.obj [("a", .num 1), ("a", .num 2)]) none {}
  have h2 := congrArg outVals h1
  have hs : sortKV [("a", Val.num 1), ("a", Val.num 2)] = [("a", Val.num 1), ("a", Val.num 2)] := by
    simp [sortKV, insertKV]
  have hl : outVals (retrieve Registry.env [N.wild ⟨"", "", false, false⟩] default .null (.obj [("a", .num 1), ("a", .num 2)]) none {})
      = [.num 1, .num 2] := by
    simp [retrieve, hs, loopAcc, stepAcc, endGroup, finishGroup, St.push, outVals, bind, Except.bind, Res.val]
  have hr : outVals (syntaxChildWildcardIdentifier_retrieve (wildRecv Registry.env ⟨"", "", false, false⟩ []) .null
      ⟨.obj [("a", .num 1), ("a", .num 2)], none⟩ {}) = [.num 1, .num 1] := by
    simp [syntaxChildWildcardIdentifier_retrieve, typeSwitch, syntaxChildWildcardIdentifier_retrieveMap, getSortedKeys, hs,
      forRange, syntaxBasicNode_retrieveMapNext, mapIndex, Val.lookup, wildRecv, basicRecv, nextOf, St.push, outVals,
      bind, Except.bind, pure, Except.pure, goLen, Res.val]
  rw [hl, hr] at h2
  simp at h2

/-- `['a','b',*]`: inner names are the generated single / wildcard methods sharing the tail; with
    only `*` inside and an array as current value the union twin (generated union method with one
    wildcard subscript per name) takes over -/
theorem multi_tie (env : Env) (i : Info) (ids : List MId) (twin : Option Info) (rest : List N) (prev : Info)
    (root cur : Val) (aloc : Option Loc) (st : St) (hk : keysNodup cur) :
    retrieve env (.multi i ids twin :: rest) prev root cur aloc st =
      syntaxChildMultiIdentifier_retrieve (multiRecv env i ids twin rest) root ⟨cur, aloc⟩ st :=
  multi_eq env i ids twin rest prev root cur aloc st hk

/-- `[0,2:5,*]`: the subscripts are the model's `subIndexes` (tied to the Go `getIndexes` by C11) -/
theorem union_tie (env : Env) (i : Info) (subs : List SubI) (rest : List N) (prev : Info) (root cur : Val)
    (aloc : Option Loc) (st : St) :
    retrieve env (.union i subs :: rest) prev root cur aloc st =
      syntaxUnionQualifier_retrieve (unionRecv env i subs rest) root ⟨cur, aloc⟩ st :=
  union_eq env i subs rest prev root cur aloc st

/-- `[?(…)]` with the query left abstract: it only has to answer with a non-empty list -/
theorem filter_tie_of_nonempty (env : Env) (i : Info) (q : Q) (rest : List N) (prev : Info) (root cur : Val)
    (aloc : Option Loc) (st : St) (hk : keysNodup cur)
    (hq : ∀ ms vl st1, computeQ env q root ms st = .ok (vl, st1) → vl.cells ≠ []) :
    retrieve env (.filter i q :: rest) prev root cur aloc st =
      syntaxFilterQualifier_retrieve (filterRecv env i q rest) root ⟨cur, aloc⟩ st :=
  filter_eq env i q rest prev root cur aloc st hk hq

/-- `[?(…)]` with a well-formed query (what `Build.build` produces, `C01Build.build_wf`) -/
theorem filter_tie (env : Env) (i : Info) (q : Q) (rest : List N) (prev : Info) (root cur : Val)
    (aloc : Option Loc) (st : St) (hk : keysNodup cur) (hq : wfQ env q = true) :
    retrieve env (.filter i q :: rest) prev root cur aloc st =
      syntaxFilterQualifier_retrieve (filterRecv env i q rest) root ⟨cur, aloc⟩ st := by
  apply filter_eq env i q rest prev root cur aloc st hk
  intro ms vl st1 h
  obtain ⟨vl', st1', h', _, hinv, _⟩ := computeQ_ok env q hq root ms st
  rw [h] at h'
  cases h'
  exact hinv.ne

example : wfQ Registry.env (.cmp (.pcur [.child ⟨".a", ".a", false, false⟩ "a"]) (.lit (.num 1)) (.directEq .num)) = true := by
  decide

/-! ### recursive descent: the explicit stack is the pre-order enumeration -/

/-- For every `next` (arbitrary receiver), every canonical container and enough fuel, the stack
    loop of `syntaxRecursiveChildIdentifier.retrieve` (`targetNodes`, children pushed in reverse
    sorted order, popped from the end) calls `next` on exactly the containers of the pre-order
    enumeration whose kind is required (`nextMapRequired` / `nextListRequired`), in that order,
    each with its location, folding the deepest-error bookkeeping like every other fan-out loop. -/
theorem descLoop_eq_preorder (r : RecursiveRecv) (root cur : Val) (aloc : Option Loc) (st : St)
    (hc : cur.isContainer = true) (hw : cur.wf = true) (fuel : Nat) (hf : valSize cur ≤ fuel) :
    syntaxRecursiveChildIdentifier_retrieve fuel r root ⟨cur, aloc⟩ st =
      (do
        let acc ← loopAcc (fun (cl : Val × Loc) st => callNext r.basic.next root ⟨cl.1, some cl.2⟩ st)
          ((containersLoc cur (aloc.getD [])).filter (fun cl => if isObj cl.1 then r.nextMapRequired else r.nextListRequired))
          (st, 0, none)
        .ok (endGroup r.basic.errorRuntime acc)) :=
  NodeTie.descLoop_eq_preorder r root cur aloc st hc hw fuel hf

/-- the same, read off with a `next` that records what it is handed: the buffer grows by exactly
    the filtered pre-order list of (container, location) pairs -/
theorem descLoop_visits (r : RecursiveRecv) (hn : r.basic.next = some logNext) (root cur : Val) (aloc : Option Loc)
    (st : St) (hc : cur.isContainer = true) (hw : cur.wf = true) (fuel : Nat) (hf : valSize cur ≤ fuel) :
    ∃ e, syntaxRecursiveChildIdentifier_retrieve fuel r root ⟨cur, aloc⟩ st =
      .ok ({ st with out := (st.out ++
        List.map (fun cl => Res.acc cl.1 (some cl.2))
          (List.filter (fun cl => if isObj cl.1 then r.nextMapRequired else r.nextListRequired)
            (containersLoc cur (aloc.getD [])))) }, e) :=
  NodeTie.descLoop_visits r hn root cur aloc st hc hw fuel hf

/-- the number of values of the document bounds the number of iterations -/
theorem desc_fuel_enough (cur : Val) (loc : Loc) : (containersLoc cur loc).length ≤ valSize cur :=
  containersLoc_length_le cur loc

/-- `..` -/
theorem desc_tie (env : Env) (i : Info) (mr lr : Bool) (rest : List N) (hrest : rest ≠ []) (prev : Info)
    (root cur : Val) (aloc : Option Loc) (st : St) (hw : cur.wf = true) (fuel : Nat) (hf : valSize cur ≤ fuel) :
    retrieve env (.desc i mr lr :: rest) prev root cur aloc st =
      syntaxRecursiveChildIdentifier_retrieve fuel (descRecv env i mr lr rest) root ⟨cur, aloc⟩ st :=
  desc_eq env i mr lr rest hrest prev root cur aloc st hw fuel hf

/-- the statement for documents that are not canonical: false — on `{"b":[],"a":[]}` (entries not
    in key order) the model visits `b` before `a`, the code `a` before `b` (and a Go map has no
    entry order at all: the canonical form is how the model represents it) -/
def desc_tie_full : Prop :=
  ∀ (env : Env) (i : Info) (mr lr : Bool) (rest : List N), rest ≠ [] → ∀ (prev : Info)
    (root cur : Val) (aloc : Option Loc) (st : St) (fuel : Nat), valSize cur ≤ fuel →
    retrieve env (.desc i mr lr :: rest) prev root cur aloc st =
      syntaxRecursiveChildIdentifier_retrieve fuel (descRecv env i mr lr rest) root ⟨cur, aloc⟩ st

def i0 : Info := ⟨"", "", false, false⟩
def docBA : Val := .obj [("b", .arr [.num 1]), ("a", .arr [.num 2])]

/-- the refutation announced at `desc_tie_full`: `$..@`-like chain on `{"b":[1],"a":[2]}` -/
theorem desc_tie_full_false : ¬ desc_tie_full := by
  intro h
  have h1 := h Registry.env i0 true true [.cur i0] (by simp) default .null docBA none {} 10 (by decide)
  have h2 := congrArg outVals h1
  have hnext : nextOf Registry.env i0 [.cur i0] = some (fun _ v st => .ok (st.push (.plain v.v), none)) := by
    simp only [nextOf]
    congr 1
    funext root v st
    simp [retrieve, i0]
  have hl : outVals (retrieve Registry.env [.desc i0 true true, .cur i0] default .null docBA none {})
      = [docBA, .arr [.num 1], .arr [.num 2]] := by
    simp [retrieve, docBA, Val.isContainer, containersLoc, containersLocKVs, containersLocList, isObj, loopAcc, stepAcc,
      endGroup, finishGroup, St.push, outVals, bind, Except.bind, Res.val, i0]
  have hr : outVals (syntaxRecursiveChildIdentifier_retrieve 10 (descRecv Registry.env i0 true true [.cur i0]) .null
      ⟨docBA, none⟩ {}) = [docBA, .arr [.num 2], .arr [.num 1]] := by
    simp only [descRecv, basicRecv, hnext]
    rfl
  rw [hl, hr] at h2
  simp [docBA] at h2

/-- non-vacuity: a canonical document with nesting in both kinds of container, its size, a
    non-empty rest -/
example :
    (Val.obj [("a", .arr [.obj [("x", .num 1)], .num 2]), ("b", .obj [("c", .arr [])])]).wf = true ∧
    valSize (Val.obj [("a", .arr [.obj [("x", .num 1)], .num 2]), ("b", .obj [("c", .arr [])])]) ≤ 8 ∧
    [N.wild ⟨"[*]", "[*]", true, false⟩] ≠ [] ∧
    (containersLoc (Val.obj [("a", .arr [.obj [("x", .num 1)], .num 2]), ("b", .obj [("c", .arr [])])]) []).map (·.2) =
      [[], [.key "a"], [.key "a", .idx 0], [.key "b"], [.key "b", .key "c"]] := by
  refine ⟨by decide, by decide, by simp, by decide⟩

end NodesGen
end JPV

-- OBLIGATIONS: anyNext_tie mapNext_tie listNext_tie root_tie cur_tie child_tie wild_tie multi_tie union_tie filter_tie_of_nonempty filter_tie descLoop_eq_preorder descLoop_visits desc_fuel_enough desc_tie wild_tie_full_false desc_tie_full_false
