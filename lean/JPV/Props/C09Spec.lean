/-
C09 — filter Boolean algebra and comparison dualities (specification level).

For any filter sub-expressions A and B over the members of one container, `A && B` selects the
intersection, `A || B` the union and `!path` the complement of what the parts select, in container
order; `x != y` selects exactly the complement of `x == y`. Swapping the operands of a comparison
while mirroring the operator never changes the selection, and against a number literal `<=`/`>=`
select exactly the union of `<`/`>` and `==`.

`Spec.verdicts env q root ms` is the list of verdicts of the filter expression `q`, one per member
of `ms`; a filter step keeps the members whose verdict is `true` (`C09_filter_selects`).
-/
import JPV.Lemmas.SpecFilter
import JPV.Registry
namespace JPV
namespace C09
open Spec SpecFil

/-! ### one verdict per member; a filter keeps the members with verdict `true`, in order -/

theorem C09_verdicts_length (env : Env) (q : Query) (root : Val) (ms : List Val) :
    (verdicts env q root ms).length = ms.length :=
  verdicts_length env root q ms

/-- is member number `i` selected by the filter expression `q` -/
def selected (env : Env) (q : Query) (root : Val) (ms : List Val) (i : Nat) : Bool :=
  (verdicts env q root ms).getD i false

/-- a filter step selects exactly the members whose verdict is `true`, in container order -/
theorem C09_filter_selects (env : Env) (t : String) (q : Query) (root cur : Val) :
    sel env (.filter t q) root cur =
      if cur.isContainer then
        (List.range cur.members.length).filterMap
          (fun i => if selected env q root cur.members i then cur.members[i]? else none)
      else [] := by
  cases h : cur.isContainer <;> simp only [sel, selected, keep_spec, h] <;> rfl

/-! ### `&&`, `||`, `!` -/

theorem C09_and (env : Env) (a b : Query) (root : Val) (ms : List Val) :
    verdicts env (.and a b) root ms = List.zipWith (· && ·) (verdicts env a root ms) (verdicts env b root ms) := by
  simp only [verdicts]

theorem C09_or (env : Env) (a b : Query) (root : Val) (ms : List Val) :
    verdicts env (.or a b) root ms = List.zipWith (· || ·) (verdicts env a root ms) (verdicts env b root ms) := by
  simp only [verdicts]

/-- `!path` is the pointwise negation of `path` -/
theorem C09_not (env : Env) (p : Path) (root : Val) (ms : List Val) :
    verdicts env (.exist true p) root ms = (verdicts env (.exist false p) root ms).map (!·) := by
  simp only [verdicts, List.map_map]
  congr 1
  funext m
  simp only [Function.comp_apply]
  cases (firstOf (evalPath env p root m)).isSome <;> rfl

/-- intersection: member `i` is selected by `A && B` iff by both -/
theorem C09_and_selected (env : Env) (a b : Query) (root : Val) (ms : List Val) (i : Nat) :
    selected env (.and a b) root ms i = (selected env a root ms i && selected env b root ms i) := by
  simp only [selected, C09_and, List.getD_eq_getElem?_getD, List.getElem?_zipWith]
  cases (verdicts env a root ms)[i]? <;> cases (verdicts env b root ms)[i]? <;> simp

/-- union: member `i` is selected by `A || B` iff by one of them -/
theorem C09_or_selected (env : Env) (a b : Query) (root : Val) (ms : List Val) (i : Nat) :
    selected env (.or a b) root ms i = (selected env a root ms i || selected env b root ms i) := by
  simp only [selected, C09_or, List.getD_eq_getElem?_getD, List.getElem?_zipWith]
  have ha := verdicts_length env root a ms
  have hb := verdicts_length env root b ms
  by_cases hi : i < ms.length
  · rw [List.getElem?_eq_getElem (by omega), List.getElem?_eq_getElem (by omega)]; rfl
  · rw [List.getElem?_eq_none (by omega), List.getElem?_eq_none (by omega)]; rfl

/-- complement: a member of the container is selected by `!path` iff it is not selected by `path` -/
theorem C09_not_selected (env : Env) (p : Path) (root : Val) (ms : List Val) (i : Nat) (hi : i < ms.length) :
    selected env (.exist true p) root ms i = !selected env (.exist false p) root ms i := by
  simp only [selected, C09_not, List.getD_eq_getElem?_getD, List.getElem?_map]
  have h := verdicts_length env root (.exist false p) ms
  rw [List.getElem?_eq_getElem (by omega)]; rfl

/-! ### `!=` is the complement of `==` -/

theorem C09_ne_complement (env : Env) (l r : Operand) (root : Val) (ms : List Val) :
    verdicts env (.cmp .ne l r) root ms = (verdicts env (.cmp .eq l r) root ms).map (!·) := by
  simp only [verdicts_cmp_map, List.map_map]
  congr 1

theorem C09_ne_selected (env : Env) (l r : Operand) (root : Val) (ms : List Val) (i : Nat) (hi : i < ms.length) :
    selected env (.cmp .ne l r) root ms i = !selected env (.cmp .eq l r) root ms i := by
  simp only [selected, C09_ne_complement, List.getD_eq_getElem?_getD, List.getElem?_map]
  have h := verdicts_length env root (.cmp .eq l r) ms
  rw [List.getElem?_eq_getElem (by omega)]; rfl

/-! ### mirroring -/

/-- **C09_mirror**: `l op r` and `r (mirror op) l` give the same verdict for every member, for
    all six operators and all operand kinds (`mirror`: `==`↦`==`, `!=`↦`!=`, `<`↦`>`, `<=`↦`>=`,
    `>`↦`<`, `>=`↦`<=`) -/
theorem C09_mirror (env : Env) (op : CmpOp) (l r : Operand) (root : Val) (ms : List Val) :
    verdicts env (.cmp op l r) root ms = verdicts env (.cmp (mirror op) r l) root ms := by
  simp only [verdicts_cmp_map]
  rw [cornerOf_comm env l r, hasLitOf_comm l r]
  congr 1
  funext m
  exact cmpHolds_mirror op _ _ _ _

theorem C09_mirror_table :
    mirror .eq = .eq ∧ mirror .ne = .ne ∧ mirror .lt = .gt ∧ mirror .le = .ge ∧ mirror .gt = .lt ∧ mirror .ge = .le :=
  ⟨rfl, rfl, rfl, rfl, rfl, rfl⟩

/-- consequence for what a filter step selects -/
theorem C09_mirror_sel (env : Env) (t t' : String) (op : CmpOp) (l r : Operand) (root cur : Val) :
    sel env (.filter t (.cmp op l r)) root cur = sel env (.filter t' (.cmp (mirror op) r l)) root cur := by
  simp only [sel, C09_mirror env op l r]

/-! ### `<=` / `>=` against a number literal -/

/-- number literal on the right: `x <= n` ⇔ `x < n || x == n` -/
theorem C09_le_union (env : Env) (l : Operand) (n : Int) (root : Val) (ms : List Val) :
    verdicts env (.cmp .le l (.lit (.num n))) root ms =
      List.zipWith (· || ·) (verdicts env (.cmp .lt l (.lit (.num n))) root ms)
                            (verdicts env (.cmp .eq l (.lit (.num n))) root ms) := by
  simp only [verdicts_cmp_map, zipWith_map_map]
  congr 1
  funext m
  have hl : hasLitOf l (.lit (.num n)) = true := by simp [hasLitOf, operandIsLit]
  rw [hl]
  exact (cmpHolds_le_split _ _ _ (Or.inl ⟨.num n, n, rfl, rfl⟩)).1

theorem C09_ge_union (env : Env) (l : Operand) (n : Int) (root : Val) (ms : List Val) :
    verdicts env (.cmp .ge l (.lit (.num n))) root ms =
      List.zipWith (· || ·) (verdicts env (.cmp .gt l (.lit (.num n))) root ms)
                            (verdicts env (.cmp .eq l (.lit (.num n))) root ms) := by
  simp only [verdicts_cmp_map, zipWith_map_map]
  congr 1
  funext m
  have hl : hasLitOf l (.lit (.num n)) = true := by simp [hasLitOf, operandIsLit]
  rw [hl]
  exact (cmpHolds_le_split _ _ _ (Or.inl ⟨.num n, n, rfl, rfl⟩)).2

/-- number literal on the left: `n <= x` ⇔ `n < x || n == x` -/
theorem C09_le_union_left (env : Env) (r : Operand) (n : Int) (root : Val) (ms : List Val) :
    verdicts env (.cmp .le (.lit (.num n)) r) root ms =
      List.zipWith (· || ·) (verdicts env (.cmp .lt (.lit (.num n)) r) root ms)
                            (verdicts env (.cmp .eq (.lit (.num n)) r) root ms) := by
  simp only [verdicts_cmp_map, zipWith_map_map]
  congr 1
  funext m
  have hl : hasLitOf (.lit (.num n)) r = true := by simp [hasLitOf, operandIsLit]
  rw [hl]
  exact (cmpHolds_le_split _ _ _ (Or.inr ⟨.num n, n, rfl, rfl⟩)).1

theorem C09_ge_union_left (env : Env) (r : Operand) (n : Int) (root : Val) (ms : List Val) :
    verdicts env (.cmp .ge (.lit (.num n)) r) root ms =
      List.zipWith (· || ·) (verdicts env (.cmp .gt (.lit (.num n)) r) root ms)
                            (verdicts env (.cmp .eq (.lit (.num n)) r) root ms) := by
  simp only [verdicts_cmp_map, zipWith_map_map]
  congr 1
  funext m
  have hl : hasLitOf (.lit (.num n)) r = true := by simp [hasLitOf, operandIsLit]
  rw [hl]
  exact (cmpHolds_le_split _ _ _ (Or.inr ⟨.num n, n, rfl, rfl⟩)).2

/-- The restriction to a *number literal* is necessary: between two paths `==` is structural
    equality (and the both-absent case), so `<=` is not `<` or `==` there — e.g. on the members
    `[{}]`, `@.a <= @.b` does not hold but `@.a == @.b` does (both absent). -/
example :
    let pa : Operand := .path (.mk .cur [.child ".a" "a"] [])
    let pb : Operand := .path (.mk .cur [.child ".b" "b"] [])
    verdicts Registry.env (.cmp .le pa pb) .null [.obj []] = [false] ∧
    verdicts Registry.env (.cmp .lt pa pb) .null [.obj []] = [false] ∧
    verdicts Registry.env (.cmp .eq pa pb) .null [.obj []] = [true] := ⟨rfl, rfl, rfl⟩

/-! ### concrete instances (both sides evaluated) -/

private def ms3 : List Val := [.obj [("a", .num 1)], .obj [("a", .jnum 2)], .obj [("b", .num 3)], .str "x"]
private def pa : Operand := .path (.mk .cur [.child ".a" "a"] [])

example : verdicts Registry.env (.cmp .le pa (.lit (.num 2))) .null ms3 = [true, true, false, false] := rfl
example : verdicts Registry.env (.cmp .lt pa (.lit (.num 2))) .null ms3 = [true, false, false, false] := rfl
example : verdicts Registry.env (.cmp .eq pa (.lit (.num 2))) .null ms3 = [false, true, false, false] := rfl
example : verdicts Registry.env (.cmp .ge (.lit (.num 2)) pa) .null ms3 = [true, true, false, false] := rfl
example : verdicts Registry.env (.cmp .ne pa (.lit (.num 2))) .null ms3 = [true, false, true, true] := rfl
example : verdicts Registry.env (.exist true (.mk .cur [.child ".a" "a"] [])) .null ms3 = [false, false, true, true] := rfl
example : selected Registry.env (.and (.exist false (.mk .cur [.child ".a" "a"] [])) (.cmp .gt pa (.lit (.num 1)))) .null ms3 1 = true := rfl
example : (1 : Nat) < ms3.length := by decide

end C09
end JPV
-- OBLIGATIONS: JPV.C09.C09_verdicts_length JPV.C09.C09_filter_selects JPV.C09.C09_and JPV.C09.C09_or JPV.C09.C09_not JPV.C09.C09_and_selected JPV.C09.C09_or_selected JPV.C09.C09_not_selected JPV.C09.C09_ne_complement JPV.C09.C09_ne_selected JPV.C09.C09_mirror JPV.C09.C09_mirror_table JPV.C09.C09_mirror_sel JPV.C09.C09_le_union JPV.C09.C09_ge_union JPV.C09.C09_le_union_left JPV.C09.C09_ge_union_left
