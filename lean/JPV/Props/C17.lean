/-
C17 — the accepted language is the grammar (translation validation; the theorem part).
`Gen.grammar` IS jsonpath.peg (regenerated every run); `parseModel` executes it. The equality of
the generated parser jsonpath.peg.go with it on all strings is checked by execution (T3), not proved.
What is proved here: where the `unrecognized input` error points, and what `near` is.
-/
import JPV.Lemmas.ParseModel
import JPV.Peg.ExtDriver
import JPV.Registry
namespace JPV.Props
open JPV.Peg

/-- every `ErrorInvalidSyntax` of the model carries as `near` the path from rune `pos` on -/
theorem C17_near (env : Env) (ext : Ext) (cfg : Cfg) (s : String) (pos : Nat) (reason near : String)
    (h : parseModel env ext cfg s = .syntaxErr pos reason near) :
    near = String.ofList (s.toList.drop pos) := by
  unfold parseModel parseInput at h
  split at h
  · cases h
  · split at h
    · cases h
    · cases h
    · split at h
      · cases h
      · rename_i st _
        cases st <;> simp only [outcomeOfStop] at h <;> try (cases h)
        simp [nearOf]

/-- **C17_position.** Whenever the model answers `unrecognized input` at `pos`: `pos` lies inside the
    path (or at its end), `near` is exactly the rest of the path from that rune on, the first
    alternative `jsonpath END` failed, and `pos` is where `jsonpath?` stopped. -/
theorem C17_position (env : Env) (ext : Ext) (cfg : Cfg) (s : String) (pos : Nat) (near : String)
    (h : parseModel env ext cfg s = .syntaxErr pos "unrecognized input" near) :
    pos ≤ s.length ∧ near = String.ofList (s.toList.drop pos) ∧
    ∃ fuel toks,
      run Gen.grammar fuel exprAlt1 s.toList.toArray 0 = .fail ∧
      run Gen.grammar fuel (.opt (.rule "jsonpath")) s.toList.toArray 0 = .ok pos toks := by
  have hnear := C17_near env ext cfg s pos _ near h
  unfold parseModel parseInput at h
  split at h
  · cases h
  · split at h
    · cases h
    · cases h
    · rename_i p toks hrec
      split at h
      · cases h
      · rename_i st hexec
        cases st <;> simp only [outcomeOfStop] at h <;> try (cases h)
        rename_i pos' r
        simp only [ParseOutcome.syntaxErr.injEq] at h
        obtain ⟨rfl, hr, _⟩ := h
        have hr' := Reason.msg_unrec r hr
        subst hr'
        rcases exec_error _ _ _ hexec with hx | hx
        · obtain ⟨f', t1, hfail, hopt⟩ :=
            unrec_position ⟨env, ext, cfg.accessor, s.toList.toArray⟩ _ p pos' toks hrec hx
          refine ⟨?_, hnear, f', t1, hfail, hopt⟩
          have := run_le_size (g := Gen.grammar) (inp := s.toList.toArray) f' _ 0 pos' t1
            (Nat.zero_le _) hopt
          simpa [String.length_toList] using this
        · cases hx

example : parseModel Registry.env driverExt ⟨false⟩ "$.a]" = .syntaxErr 3 "unrecognized input" "]" := by rfl
example : parseModel Registry.env driverExt ⟨false⟩ "$[?(@.a=='é]" =
    .syntaxErr 1 "unrecognized input" "[?(@.a=='é]" := by rfl

/-- the regenerated action blocks are the ones the model was written against (else `parseModel`
    answers `unmodelled` for every path and the statements above hold vacuously) -/
theorem C17_actions_as_expected : actionsAsExpected = true := actions_as_expected

-- OBLIGATIONS: C17_near C17_position C17_actions_as_expected

end JPV.Props
