/-
C19 over the explicit global state — `Parse` depends only on the path and the Config given to that call.

`Gen.ParseWrapGo.Parse` is /repo/jsonpath.go `Parse`, regenerated statement by statement on every run over
the state of `Glob/State.lean`: the package variable `parser` (embedded `jsonPathParser`, `Buffer`, the PEG
runtime), `parseMutex`, the pools, and a log. `parser.Parse(); parser.Execute()` is the opaque `ops.runActions`,
a function of the embedded jsonPathParser and the buffer — ANY such function: the theorems below hold for
every `ops`, i.e. whatever the actions leave on the stacks and however they panic.

  C19_reset                for EVERY prior state: when `Parse` has returned — normally or through the
                           recovered panic — the embedded jsonPathParser is `jsonPathParser{}` and the mutex free
  C19_no_escape            and it does return: no panic leaves `Parse`, and it blocks only on a held mutex
  C19_history_state        in any history of Parse calls and calls of parsed functions that starts at rest, the
                           k-th outcome is the outcome of that call in a fresh process
  C19_config_not_retained  a call without Config after a call with Config runs the actions on a parser with
                           no functions and no accessor flag
  C19_parse_is_parseModel  with the operations taken from the existing model (`Glob/Tie.lean`), the regenerated
                           wrapper at rest IS `Peg.parseModel` — which is what C02/C17/C18 are about
  C19_functions_captured   the tree a successful call closes over carries the functions of THAT call
No hypothesis on `runActions` is needed: that the action model reads functions and flag only from the
fields the wrapper sets is by construction of `Glob.ctxOf` (the only `Peg.Ctx` ever built) — see Glob/Tie.lean.
-/
import JPV.Lemmas.GlobHistory
import JPV.Glob.Tie
namespace JPV
namespace C19State
open Glob Gen.ParseWrapGo Peg
variable {ι : Type}

/-- **C19_reset** -/
theorem C19_reset (ops : Ops ι) (w : World) (s : String) (config : List Config) :
    (w.mutex = false →
      (Parse ops s config w).1.parser.jsonPathParser = JsonPathParser.zero ∧ (Parse ops s config w).1.mutex = false) ∧
    (w.mutex = true → Parse ops s config w = (w, .blocked)) :=
  ⟨Parse_reset ops s config w, Parse_blocked ops s config w⟩

/-- **C19_no_escape**: with the mutex free `Parse` returns `(f, err)`; every panic is recovered -/
theorem C19_no_escape (ops : Ops ι) (w : World) (s : String) (config : List Config) (hw : w.mutex = false) :
    ∃ f err, (Parse ops s config w).2 = .returned f err := by
  rw [Parse_ret ops s config w hw]
  cases pureParse ops s config w.parser.jsonPathParser <;> exact ⟨_, _, rfl⟩

/-- **C19_history_state**: histories mix `Parse` calls (any path, any Config, failing or not) with calls of
    parsed functions; `AtRest`: what `C19_reset` establishes, true of a fresh process (`atRest_zero`) -/
theorem C19_history_state (ops : Ops ι) (w : World) (hw : AtRest w) (l : List (Op ι)) (k : Nat) (s : String)
    (config : List Config) (h : l[k]? = some (.parse s config)) :
    (runOps ops w l)[k]? = some (.parsed (Parse ops s config World.zero).2) ∧ AtRest (endWorld ops w l) :=
  ⟨runOps_parse ops l w hw k s config h, endWorld_atRest ops l w hw⟩

/-- what a call without Config runs the actions on, spelled out -/
theorem pureParse_noConfig (ops : Ops ι) (s : String) :
    pureParse ops s [] JsonPathParser.zero =
      (match ops.runActions { unescapeRegex := true } s with
       | (jp', none) => .fn jp'.root
       | (_, some stop) => if ops.isError stop then .err (.action stop) else .nothing) := rfl

/-- **C19_config_not_retained** -/
theorem C19_config_not_retained (ops : Ops ι) (w : World) (hw : w.mutex = false) (s1 : String) (config1 : List Config)
    (s2 : String) :
    (Parse ops s2 [] (Parse ops s1 config1 w).1).2 = (pureParse ops s2 [] JsonPathParser.zero).toRet ops ∧
    (armed JsonPathParser.zero []).filterFunctions = (fun _ => none) ∧
    (armed JsonPathParser.zero []).aggregateFunctions = (fun _ => none) ∧
    (armed JsonPathParser.zero []).accessorMode = false := by
  have h := Parse_reset ops s1 config1 w hw
  refine ⟨?_, rfl, rfl, rfl⟩
  rw [Parse_ret ops s2 [] _ h.2, h.1]

/-- **C19_parse_is_parseModel**: at rest, the regenerated wrapper over the model's operations returns what
    `Peg.parseModel` says, for the functions and the flag of THIS call's Config (none: no functions, no flag) -/
theorem C19_parse_is_parseModel (ext : Ext) (regex : String → String → Bool) (w : World) (hw : AtRest w)
    (s : String) (config : List Config) :
    ∃ r : PRet, (Parse (modelOps ext regex) s config w).2 = r.toRet (modelOps ext regex) ∧
      r.outcome s.toList.toArray = parseModel (envOf regex config) ext (cfgOf config) s := by
  refine ⟨pureParse (modelOps ext regex) s config JsonPathParser.zero, ?_, pureParse_model ext regex s config⟩
  rw [Parse_ret _ s config w hw.2, hw.1]

/-- the same for a call without Config after any call with a Config -/
theorem C19_config_not_retained_model (ext : Ext) (regex : String → String → Bool) (w : World) (hw : w.mutex = false)
    (s1 : String) (config1 : List Config) (s2 : String) :
    ∃ r : PRet, (Parse (modelOps ext regex) s2 [] (Parse (modelOps ext regex) s1 config1 w).1).2 = r.toRet (modelOps ext regex) ∧
      r.outcome s2.toList.toArray = parseModel ⟨fun _ => none, fun _ => none, regex⟩ ext ⟨false⟩ s2 :=
  C19_parse_is_parseModel ext regex _ (Parse_reset _ s1 config1 w hw) s2 []

/-- **C19_functions_captured** -/
theorem C19_functions_captured (ext : Ext) (regex : String → String → Bool) (s : String) (config : List Config)
    (t : Tree) (h : pureParse (modelOps ext regex) s config JsonPathParser.zero = .fn (some t)) :
    t.ffn = (envOf regex config).ffn ∧ t.afn = (envOf regex config).afn :=
  pureParse_model_fn ext regex s config (some t) h t rfl

/-! ### the hypotheses are satisfiable by non-trivial cases -/

/-- a dirty prior state: a stale root, stale stacks, a config left behind, a used runtime, mutex free -/
def dirty : World :=
  { parser := { jsonPathParser := { root := some ⟨[.root default], fun _ => none, fun _ => none⟩,
                                    paramsList := [[.null]], params := [.bool true, .str "x"],
                                    unescapeRegex := true, filterFunctions := fun _ => some some, accessorMode := true },
                Buffer := "$.old", rt := .used },
    pools := { result := [⟨⟨.container, [], [.plain (.num 1)]⟩⟩] } }

/-- operations whose action run fails on "bad" leaving rubbish on the stacks, and otherwise succeeds -/
def junkOps : Ops Unit :=
  { runActions := fun jp s =>
      if s == "bad" then ({ jp with params := .null :: jp.params, paramsList := [.null] :: jp.paramsList }, some (.invalidArgument s))
      else ({ jp with root := some ⟨[.root default], jp.filterFunctions, jp.aggregateFunctions⟩ }, none),
    isError := fun _ => true,
    retrieve := fun _ pools _ _ _ c => (pools, c, .ret none) }

example : dirty.mutex = false ∧ dirty.parser.jsonPathParser.params ≠ [] := by decide
example : (Parse junkOps "bad" [{ accessorMode := true }] dirty).1.parser.jsonPathParser.params = [] := by
  rw [((C19_reset junkOps dirty "bad" _).1 rfl).1]; rfl
example : ¬ AtRest dirty := by intro h; have := congrArg JsonPathParser.accessorMode h.1; simp [dirty, JsonPathParser.zero] at this
example : AtRest (Parse junkOps "bad" [] dirty).1 := Parse_reset junkOps "bad" [] dirty rfl
example : ([.parse "bad" [{ accessorMode := true }], .call none .null {} (), .parse "$" []] : List (Op Unit))[2]? =
    some (.parse "$" []) := rfl

end C19State
end JPV
-- OBLIGATIONS: JPV.C19State.C19_reset JPV.C19State.C19_no_escape JPV.C19State.C19_history_state JPV.C19State.C19_config_not_retained JPV.C19State.C19_parse_is_parseModel JPV.C19State.C19_config_not_retained_model JPV.C19State.C19_functions_captured
