/-
C18Err — C18 for FAILING evaluations: two spellings of a path fail with the same KIND of error
(member-not-exist / type-unmatched with the same expected and found types / function-failed) at
the same STEP, although the recorded texts — and so the error messages — differ.

The difficulty: the evaluator keeps the "deepest" error by comparing the LENGTHS of connected
texts (`addDeepest`), and a spelling changes those lengths. What does not change is their ORDER:
in a built tree connected texts get strictly shorter from node to node of the chain as written
(`CE.ConnOK (Fails.flat ch)`, `ES.build_connOK_flat`), so whether one error is deeper than another
is decided by the POSITIONS of the two nodes, which the spellings share.

  SameShape ch ch'       the trees are equal up to the recorded texts (`SP.eraseTexts`; what
                         `SP.build_same` proves of two abstract paths equal up to step texts)
  SamePos ch ch' a b     `a`, `b` are the `j`-th Info (`Fails.errInfos`) of the `k`-th node of
                         `Fails.flat ch`, `Fails.flat ch'` — a position, no text
  SameErr ch ch' e e'    same constructor, same expected / found type names, Infos at the same position

  C18E_fails_shape       step 2: the denotations of ALL local failures (`Fails.fails`, C15) of two
                         trees of the same shape are equal position by position up to texts
  C18E_order_shape       step 3: under the text invariant of built trees the order (< and =) of the
                         lengths of connected texts at two positions is the same in both trees
  C18E_best_shape        … so the winner of the deepest-error bookkeeping sits at the same position
  C18E_run_same          every tree pair: same panic / same values and logs / `SameErr`
  C18E_same_error        HEADLINE, for `Build.build … = .ok`: both succeed with the same results, or
                         both fail with `SameErr` — no hypothesis on the document
  C18E_spellings_same_error   the same for the trees `Parse` answers for two spelled strings
  C18E_full_false        without the text invariant the statement is false (in the model): two trees
                         of one shape whose lengths are ordered differently name different steps.
                         `Parse` builds no such tree — step 3 is a THEOREM about the library.
-/
import JPV.Lemmas.C18ErrShape
import JPV.Lemmas.C18ErrFails
import JPV.Props.C03
import JPV.Props.C15
import JPV.Props.C18Spell
namespace JPV
namespace C18Err
open Impl TSem Fails C18E
open CE (ConnOK stepTexts fnText)

/-- equal up to the recorded texts (`text`, `connectedText`) of every Info, filters included -/
def SameShape (ch ch' : List N) : Prop := SP.eraseTexts ch = SP.eraseTexts ch'

/-- the same kind of error, the same expected / found types, Infos at the same position -/
abbrev SameErr (ch ch' : List N) (e e' : RtErr) : Prop := ErrRel (SamePos ch ch') e e'

theorem errRel_mono {R R' : Info → Info → Prop} (h : ∀ a b, R a b → R' a b) {e e' : RtErr} (he : ErrRel R e e') :
    ErrRel R' e e' := by
  cases e <;> cases e' <;> first | exact he.elim | exact h _ _ he | exact ⟨h _ _ he.1, he.2⟩

theorem allRel_mono {R R' : Info → Info → Prop} (h : ∀ a b, R a b → R' a b) :
    ∀ {l l' : List RtErr}, allRel R l l' → allRel R' l l'
  | [], [], _ => trivial
  | [], _ :: _, h' => h'.elim
  | _ :: _, [], h' => h'.elim
  | _ :: _, _ :: _, h' => ⟨errRel_mono h h'.1, allRel_mono h h'.2⟩

/-- `SameErr` spelled out -/
theorem C18E_sameErr_cases {R : Info → Info → Prop} {e e' : RtErr} (h : ErrRel R e e') :
    (∃ i i', e = .member i ∧ e' = .member i' ∧ R i i') ∨
    (∃ i i' x f, e = .type i x f ∧ e' = .type i' x f ∧ R i i') ∨
    (∃ i i', e = .func i ∧ e' = .func i' ∧ R i i') := by
  cases e <;> cases e' <;> first
    | exact h.elim
    | exact Or.inl ⟨_, _, rfl, rfl, h⟩
    | exact Or.inr (Or.inr ⟨_, _, rfl, rfl, h⟩)
    | (obtain ⟨h1, rfl, rfl⟩ := h; exact Or.inr (Or.inl ⟨_, _, _, _, rfl, rfl, h1⟩))

/-! ### step 2: the failures of two trees of one shape -/

/-- The local failures of two trees equal up to texts are equal position by position: the same
    number of failures, the `k`-th ones of the same kind with the same expected / found types, at
    the same position of the trees. No hypothesis on the texts. -/
theorem C18E_fails_shape (env : Env) (ch ch' : List N) (hs : SameShape ch ch') (root cur : Val) :
    allRel (SamePos ch ch') (fails env ch root cur) (fails env ch' root cur) :=
  allRel_mono (fun _ _ h => samePos_of_rflat h) (fails_same (same_of_erase_flat ch ch' hs) root cur)

theorem C18E_fails_shape_get (env : Env) (ch ch' : List N) (hs : SameShape ch ch') (root cur : Val) :
    (fails env ch root cur).length = (fails env ch' root cur).length ∧
    ∀ (k : Nat) (e : RtErr), (fails env ch root cur)[k]? = some e →
      ∃ e', (fails env ch' root cur)[k]? = some e' ∧ SameErr ch ch' e e' :=
  ⟨allRel_length (C18E_fails_shape env ch ch' hs root cur), allRel_get (C18E_fails_shape env ch ch' hs root cur)⟩

/-! ### step 3: the order of the lengths is decided by the shape -/

/-- Under the text invariant of built trees, for two pairs of Infos at the same positions the
    lengths of the connected texts compare alike in both trees. -/
theorem C18E_order_shape (ch ch' : List N) (hc : ConnOK (flat ch)) (hc' : ConnOK (flat ch'))
    (a a' b b' : Info) (ha : Rflat ch ch' a a') (hb : Rflat ch ch' b b') :
    (a.conn.utf8ByteSize < b.conn.utf8ByteSize ↔ a'.conn.utf8ByteSize < b'.conn.utf8ByteSize) ∧
    (a.conn.utf8ByteSize = b.conn.utf8ByteSize ↔ a'.conn.utf8ByteSize = b'.conn.utf8ByteSize) :=
  (oc_flat hc hc' a a' b b' ha hb).2.2

/-- what two runs have in common -/
inductive SameRun (ch ch' : List N) : Outcome × St → Outcome × St → Prop
  | ok (rs : List Res) (st : St) : SameRun ch ch' (.ok rs, st) (.ok rs, st)
  | err (e e' : RtErr) (st : St) (h : SameErr ch ch' e e') : SameRun ch ch' (.err e, st) (.err e', st)
  | panic (p : Panic) : SameRun ch ch' (.panic p, {}) (.panic p, {})

/-- Two trees of one shape that both satisfy the text invariant are evaluated in lock step: the same
    results (wrapping, call log, write log included), or errors of the same kind and types at the
    same position. -/
theorem C18E_run_same (env : Env) (ch ch' : List N) (hs : SameShape ch ch')
    (hc : ConnOK (flat ch)) (hc' : ConnOK (flat ch')) (d : Val) :
    SameRun ch ch' (Impl.run env ch d) (Impl.run env ch' d) := by
  have hsim := C18E.sim_chain env True (Rflat ch ch') (fun _ => oc_flat hc hc') ch ch' (same_of_erase_flat ch ch' hs)
    default default rfl d d (some []) {}
  unfold Impl.run
  cases h1 : retrieve env ch default d d (some []) {} with
  | error p =>
    cases h2 : retrieve env ch' default d d (some []) {} with
    | error p' =>
      rw [h1, h2] at hsim
      have : p = p' := hsim
      subst this
      exact .panic p
    | ok y => rw [h1, h2] at hsim; exact hsim.elim
  | ok x =>
    cases h2 : retrieve env ch' default d d (some []) {} with
    | error p' => rw [h1, h2] at hsim; exact hsim.elim
    | ok y =>
      rw [h1, h2] at hsim
      obtain ⟨st, e⟩ := x
      obtain ⟨st', e'⟩ := y
      obtain ⟨hst, he⟩ := hsim
      simp only [] at hst he
      subst hst
      cases e with
      | none =>
        cases e' with
        | none => exact .ok _ _
        | some _ => exact he.elim
      | some err =>
        cases e' with
        | none => exact he.elim
        | some err' => exact .err _ _ _ (errRel_mono (fun _ _ h => samePos_of_rflat h) (he trivial))

/-- The winner of the deepest-error bookkeeping sits at the same position in both trees: when the
    run on `ch` reports `e` (by C15 a failure with the shortest connected text, not a type error when
    avoidable), the run on `ch'` reports an error of the same kind and types at the same position,
    and that one has the shortest connected text among the failures of `ch'`. -/
theorem C18E_best_shape (env : Env) (ch ch' : List N) (hwf' : wfChain env ch' = true) (hs : SameShape ch ch')
    (hc : ConnOK (flat ch)) (hc' : ConnOK (flat ch')) (d : Val) (e : RtErr) (st : St)
    (h : Impl.run env ch d = (.err e, st)) :
    ∃ e', Impl.run env ch' d = (.err e', st) ∧ SameErr ch ch' e e' ∧ e' ∈ fails env ch' d d ∧
      ∀ f ∈ fails env ch' d d, C15.depth e' ≤ C15.depth f := by
  have hr := C18E_run_same env ch ch' hs hc hc' d
  rw [h] at hr
  generalize hx : Impl.run env ch' d = x at hr
  cases hr with
  | err _ e' _ he =>
    exact ⟨e', rfl, he, C15.C15_sound env ch' hwf' d e' st hx, C15.C15_deepest env ch' hwf' hc' d e' st hx⟩

/-! ### the headline: the trees `Build.build` answers -/

/-- **C18 for failing evaluations.** Two abstract paths equal up to the texts of their steps
    (`SP.stripS`: what two spellings of one path parse to), both built: on every document the two
    functions both succeed with the same results, or both fail — with errors of the same kind, the
    same expected and found types, naming the same step (position) of their trees.
    `htexts`: every written element has a non-empty source text (as in C15). -/
theorem C18E_same_error (env : Env) (cfg : Cfg) (hd hd' : Head) (steps steps' : List Step) (pfns pfns' : List Fn)
    (ch ch' : List N) (h : SP.stripS (.mk hd steps pfns) = SP.stripS (.mk hd' steps' pfns'))
    (htexts : ∀ t ∈ steps.flatMap stepTexts ++ pfns.map fnText, t ≠ "")
    (htexts' : ∀ t ∈ steps'.flatMap stepTexts ++ pfns'.map fnText, t ≠ "")
    (hb : Build.build env cfg (.mk hd steps pfns) = .ok ch) (hb' : Build.build env cfg (.mk hd' steps' pfns') = .ok ch')
    (d : Val) :
    (∃ rs st, Impl.run env ch d = (.ok rs, st) ∧ Impl.run env ch' d = (.ok rs, st)) ∨
    (∃ e e' st, Impl.run env ch d = (.err e, st) ∧ Impl.run env ch' d = (.err e', st) ∧ SameErr ch ch' e e') := by
  have hrel := SP.build_same env cfg _ _ h
  rw [hb, hb'] at hrel
  have hs : SameShape ch ch' := hrel
  have hc := ES.build_connOK_flat env cfg hd steps pfns ch htexts hb
  have hc' := ES.build_connOK_flat env cfg hd' steps' pfns' ch' htexts' hb'
  have hr := C18E_run_same env ch ch' hs hc hc' d
  generalize hx : Impl.run env ch d = x at hr
  generalize hy : Impl.run env ch' d = y at hr
  cases hr with
  | ok rs st => exact Or.inl ⟨rs, st, rfl, rfl⟩
  | err e e' st he => exact Or.inr ⟨e, e', st, rfl, rfl, he⟩
  | panic p => exact absurd hx (C03.C03_no_panic env ch (BW.build_wf env cfg true _ ch hb) d p {})

/-- the shape of two built trees, for use with `C18E_fails_shape` -/
theorem C18E_built_shape (env : Env) (cfg : Cfg) (p p' : Path) (ch ch' : List N) (h : SP.stripS p = SP.stripS p')
    (hb : Build.build env cfg p = .ok ch) (hb' : Build.build env cfg p' = .ok ch') : SameShape ch ch' := by
  have hrel := SP.build_same env cfg _ _ h
  rw [hb, hb'] at hrel
  exact hrel

/-! ### strings: the trees `Parse` answers for two spellings -/

/-- Two spelled paths with the same erasure (`SPath.erase`: blanks, quote kinds, dot / bracket
    notation, number spellings, redundant parentheses forgotten), both accepted by the parser model:
    the two parsed functions both succeed with the same results or fail with the same kind of error
    at the same step. -/
theorem C18E_spellings_same_error (env : Env) (ext : Peg.Ext) (cfg : Cfg) (a b : Spell.SPath)
    (ha : C18Spell.inDomain a = true) (hb : C18Spell.inDomain b = true)
    (hexta : SP.ExtOKS ext a) (hextb : SP.ExtOKS ext b)
    (henva : SP.EnvOKS env a) (henvb : SP.EnvOKS env b) (h : a.erase = b.erase)
    (hd hd' : Head) (steps steps' : List Step) (pfns pfns' : List Fn)
    (hta : Spell.texts a = .mk hd steps pfns) (htb : Spell.texts b = .mk hd' steps' pfns')
    (htexts : ∀ t ∈ steps.flatMap stepTexts ++ pfns.map fnText, t ≠ "")
    (htexts' : ∀ t ∈ steps'.flatMap stepTexts ++ pfns'.map fnText, t ≠ "")
    (ch ch' : List N) (hpa : Peg.parseModel env ext cfg (Spell.printS a) = .ok ch)
    (hpb : Peg.parseModel env ext cfg (Spell.printS b) = .ok ch') (d : Val) :
    (∃ rs st, Impl.run env ch d = (.ok rs, st) ∧ Impl.run env ch' d = (.ok rs, st)) ∨
    (∃ e e' st, Impl.run env ch d = (.err e, st) ∧ Impl.run env ch' d = (.err e', st) ∧ SameErr ch ch' e e') := by
  have h1 := C18Spell.SpellParse_exact env ext cfg a ha hexta henva
  have h2 := C18Spell.SpellParse_exact env ext cfg b hb hextb henvb
  rw [hpa] at h1
  rw [hpb] at h2
  generalize hx : Build.build env cfg (Spell.texts a) = x at h1
  generalize hy : Build.build env cfg (Spell.texts b) = y at h2
  cases h1
  cases h2
  have hst := SP.stripS_texts a b h
  rw [hta] at hx
  rw [htb] at hy
  rw [hta, htb] at hst
  exact C18E_same_error env cfg hd hd' steps steps' pfns pfns' ch ch' hst htexts htexts' hx hy d

/-! ### non-vacuity: `$.a.b` and `$['a'][ "b" ]` on `{"a":{"c":1}}` -/

namespace Ex
def p : Path := .mk .root [.child ".a" "a", .child ".b" "b"] []
def p' : Path := .mk .root [.child "['a']" "a", .child "[ \"b\" ]" "b"] []
def doc : Val := .obj [("a", .obj [("c", .num 1)])]
def ia : Info := ⟨".a", ".a.b", false, false⟩
def ib : Info := ⟨".b", ".b", false, false⟩
def ia' : Info := ⟨"['a']", "['a'][ \"b\" ]", false, false⟩
def ib' : Info := ⟨"[ \"b\" ]", "[ \"b\" ]", false, false⟩
def ch : List N := [.child ia "a", .child ib "b"]
def ch' : List N := [.child ia' "a", .child ib' "b"]

theorem built : Build.build Registry.env ⟨false⟩ p = .ok ch := by
  simp [p, ch, ia, ib, Build.build, Build.buildPath, Build.stepsPre, Build.stepPre, Build.mkInfos,
    Build.assemble, Build.finish, Build.deleteHead, Build.markVg, Build.suffixTexts, Build.lastAfnIdx,
    Pre.text, Pre.isAfn, N.info, bind, Except.bind, List.zipIdx]
  decide

theorem built' : Build.build Registry.env ⟨false⟩ p' = .ok ch' := by
  simp [p', ch', ia', ib', Build.build, Build.buildPath, Build.stepsPre, Build.stepPre, Build.mkInfos,
    Build.assemble, Build.finish, Build.deleteHead, Build.markVg, Build.suffixTexts, Build.lastAfnIdx,
    Pre.text, Pre.isAfn, N.info, bind, Except.bind, List.zipIdx]
  decide

theorem same : SP.stripS p = SP.stripS p' := by
  simp [p, p', SP.stripS, SP.stripSPath, SP.stripSSteps, SP.stripSStep]

theorem reported : ∃ st, Impl.run Registry.env ch doc = (.err (.member ib), st) := by
  apply C15.run_eq
  simp [Impl.run, retrieve, ch, doc, Val.lookup, ext]

theorem reported' : ∃ st, Impl.run Registry.env ch' doc = (.err (.member ib'), st) := by
  apply C15.run_eq
  simp [Impl.run, retrieve, ch', doc, Val.lookup, ext]
end Ex

/-- the hypotheses of `C18E_same_error` hold for the pair, both runs fail, and the theorem places the
    two errors — whose texts are `.b` and `[ "b" ]` — at the same position: slot 0 of node 1 -/
example : ∃ e e' st, Impl.run Registry.env Ex.ch Ex.doc = (.err e, st) ∧
    Impl.run Registry.env Ex.ch' Ex.doc = (.err e', st) ∧ SameErr Ex.ch Ex.ch' e e' ∧
    e = .member Ex.ib ∧ e' = .member Ex.ib' ∧ e.info.text ≠ e'.info.text := by
  have h := C18E_same_error Registry.env ⟨false⟩ .root .root _ _ [] [] Ex.ch Ex.ch' Ex.same (by decide) (by decide)
    Ex.built Ex.built' Ex.doc
  obtain ⟨st, hr⟩ := Ex.reported
  obtain ⟨st', hr'⟩ := Ex.reported'
  rcases h with ⟨rs, st0, h1, _⟩ | ⟨e, e', st0, h1, h2, he⟩
  · rw [hr] at h1; cases h1
  · rw [hr] at h1
    rw [hr'] at h2
    cases h1
    cases h2
    exact ⟨_, _, _, hr, hr', he, rfl, rfl, by decide⟩

/-! ### without the text invariant the statement is false in the model -/

/-- the statement for ALL trees of one shape -/
def C18E_full : Prop :=
  ∀ (env : Env) (ch ch' : List N), wfChain env ch = true → wfChain env ch' = true → SameShape ch ch' →
    ∀ (d : Val), SameRun ch ch' (Impl.run env ch d) (Impl.run env ch' d)

namespace Cex
def iw : Info := ⟨"[*]", "[*].a.b", true, false⟩
def ik : Info := ⟨".a", ".a.b", false, false⟩
def im : Info := ⟨".b", ".b", false, false⟩
/-- connected texts as `Parse` records them: shorter from node to node -/
def ch : List N := [.wild iw, .child ik "a", .child im "b"]
def ik' : Info := ⟨".a", ".a", false, false⟩
def im' : Info := ⟨".b", ".b.b", false, false⟩
/-- the same shape, the connected text of the last node LONGER than that of the node before -/
def ch' : List N := [.wild iw, .child ik' "a", .child im' "b"]
def doc : Val := .arr [.obj [], .obj [("a", .obj [])]]

theorem reported : ∃ st, Impl.run Registry.env ch doc = (.err (.member im), st) := by
  apply C15.run_eq
  simp [Impl.run, retrieve, ch, doc, Val.lookup, loopAcc, stepAcc, addDeepest, endGroup, finishGroup,
    ext, bind, Except.bind, List.zipIdx, RtErr.info, RtErr.isType, ik, im, iw]
  rfl

theorem reported' : ∃ st, Impl.run Registry.env ch' doc = (.err (.member ik'), st) := by
  apply C15.run_eq
  simp [Impl.run, retrieve, ch', doc, Val.lookup, loopAcc, stepAcc, addDeepest, endGroup, finishGroup,
    ext, bind, Except.bind, List.zipIdx, RtErr.info, RtErr.isType, ik', im', iw]
  rfl
end Cex

theorem C18E_full_false : ¬ C18E_full := by
  intro h
  obtain ⟨st, hr⟩ := Cex.reported
  obtain ⟨st', hr'⟩ := Cex.reported'
  have := h Registry.env Cex.ch Cex.ch' (by decide) (by decide) rfl Cex.doc
  rw [hr, hr'] at this
  cases this with
  | err _ _ _ he =>
    -- `.member im` and `.member ik'` would sit at the same position
    obtain ⟨k, j, n, n', h1, h2, h3, h4⟩ := (he : SamePos Cex.ch Cex.ch' Cex.im Cex.ik')
    have hk : k < 3 := by
      rcases Nat.lt_or_ge k 3 with hk | hk
      · exact hk
      · have : (flat Cex.ch)[k]? = none := List.getElem?_eq_none (by simpa [Cex.ch, flat, flatN] using hk)
        rw [this] at h1; cases h1
    have hflat : flat Cex.ch = Cex.ch := rfl
    have hflat' : flat Cex.ch' = Cex.ch' := rfl
    rw [hflat] at h1
    rw [hflat'] at h2
    match k, hk with
    | 0, _ =>
      simp only [Cex.ch, List.getElem?_cons_zero, Option.some.injEq] at h1
      subst h1
      rcases j with _ | j <;> simp [errInfos, N.info, Cex.iw, Cex.im] at h3
    | 1, _ =>
      simp only [Cex.ch, List.getElem?_cons_succ, List.getElem?_cons_zero, Option.some.injEq] at h1
      subst h1
      rcases j with _ | j <;> simp [errInfos, N.info, Cex.ik, Cex.im] at h3
    | 2, _ =>
      simp only [Cex.ch', List.getElem?_cons_succ, List.getElem?_cons_zero, Option.some.injEq] at h2
      subst h2
      rcases j with _ | j <;> simp [errInfos, N.info, Cex.ik', Cex.im'] at h4

end C18Err
end JPV

-- OBLIGATIONS: JPV.C18Err.C18E_fails_shape JPV.C18Err.C18E_fails_shape_get JPV.C18Err.C18E_order_shape
--   JPV.C18Err.C18E_run_same JPV.C18Err.C18E_best_shape JPV.C18Err.C18E_same_error JPV.C18Err.C18E_built_shape
--   JPV.C18Err.C18E_spellings_same_error JPV.C18Err.C18E_sameErr_cases JPV.C18Err.C18E_full_false
--   JPV.C18E.sim_chain JPV.C18E.same_of_erase_flat JPV.C18E.oc_flat JPV.C18E.fails_same JPV.C18E.den_same
