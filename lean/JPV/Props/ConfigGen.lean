/-
Props/ConfigGen — what the setters of config.go (regenerated: Gen/ConfigGo.lean) do.

C12 / C14 / C19 speak about "the functions registered in the Config" and "accessor mode enabled": a name denotes the
function LAST registered under exactly that name, in the table of its kind; registering one name changes no other
entry, nothing in the other table and not the accessor flag; SetAccessorMode changes nothing else. A seeded change
(round 8) that also registered a lower-cased alias of every name was noticed by no check before this tie existed.
-/
import JPV.Gen.ConfigGo
namespace JPV
namespace ConfigGen
open JPV.Gen.ConfigGo

/-- what a name denotes in a table (nil map: nothing) -/
def lookup {φ : Type} (m : GoMap φ) (k : String) : Option φ :=
  match m with
  | none => none
  | some l => (l.find? (fun e => e.1 == k)).map (·.2)

theorem lookup_store_same {φ : Type} (l : List (String × φ)) (k : String) (v : φ) :
    lookup (some (GoMap.store l k v)) k = some v := by
  simp [lookup, GoMap.store]

theorem find_filter_ne {φ : Type} (l : List (String × φ)) (k k' : String) (h : k' ≠ k) :
    (l.filter (fun e => e.1 != k)).find? (fun e => e.1 == k') = l.find? (fun e => e.1 == k') := by
  induction l with
  | nil => rfl
  | cons e l ih =>
    by_cases he : e.1 = k
    · have hk : (e.1 == k') = false := by
        rw [he]; exact beq_false_of_ne (fun e' => h e'.symm)
      have hd : (e.1 != k) = false := by simp [he]
      rw [List.filter_cons, hd, List.find?_cons, hk]
      simpa using ih
    · have hd : (e.1 != k) = true := by simp [he]
      rw [List.filter_cons, hd]
      simp only [if_true, List.find?_cons]
      cases (e.1 == k') <;> simp [ih]

theorem lookup_store_other {φ : Type} (l : List (String × φ)) (k k' : String) (v : φ) (h : k' ≠ k) :
    lookup (some (GoMap.store l k v)) k' = lookup (some l) k' := by
  have hne : (k == k') = false := beq_false_of_ne (fun e => h e.symm)
  simp only [lookup, GoMap.store, List.find?_cons, hne]
  rw [find_filter_ne l k k' h]

/-- **CG_filter_set.** After `SetFilterFunction id f` the name `id` denotes `f` … -/
theorem CG_filter_set {α β : Type} (c : Config α β) (id : String) (f : α) :
    lookup (SetFilterFunction c id f).filterFunctions id = some f := by
  unfold SetFilterFunction
  cases h : c.filterFunctions with
  | none => simp [h, lookup, GoMap.store]
  | some l => simp [h, lookup_store_same]

/-- … every OTHER name (names are case sensitive: no alias is created) denotes what it denoted before … -/
theorem CG_filter_frame {α β : Type} (c : Config α β) (id id' : String) (f : α) (h : id' ≠ id) :
    lookup (SetFilterFunction c id f).filterFunctions id' = lookup c.filterFunctions id' := by
  unfold SetFilterFunction
  cases hc : c.filterFunctions with
  | none =>
    have hne : (id == id') = false := by simpa using fun e => h e.symm
    simp [hc, lookup, GoMap.store, hne]
  | some l => simp [hc, lookup_store_other l id id' f h]

/-- … and the aggregate table and the accessor flag are untouched. -/
theorem CG_filter_others {α β : Type} (c : Config α β) (id : String) (f : α) :
    (SetFilterFunction c id f).aggregateFunctions = c.aggregateFunctions ∧
    (SetFilterFunction c id f).accessorMode = c.accessorMode := by
  unfold SetFilterFunction
  cases c.filterFunctions <;> simp

theorem CG_aggregate_set {α β : Type} (c : Config α β) (id : String) (f : β) :
    lookup (SetAggregateFunction c id f).aggregateFunctions id = some f := by
  unfold SetAggregateFunction
  cases h : c.aggregateFunctions with
  | none => simp [h, lookup, GoMap.store]
  | some l => simp [h, lookup_store_same]

theorem CG_aggregate_frame {α β : Type} (c : Config α β) (id id' : String) (f : β) (h : id' ≠ id) :
    lookup (SetAggregateFunction c id f).aggregateFunctions id' = lookup c.aggregateFunctions id' := by
  unfold SetAggregateFunction
  cases hc : c.aggregateFunctions with
  | none =>
    have hne : (id == id') = false := by simpa using fun e => h e.symm
    simp [hc, lookup, GoMap.store, hne]
  | some l => simp [hc, lookup_store_other l id id' f h]

theorem CG_aggregate_others {α β : Type} (c : Config α β) (id : String) (f : β) :
    (SetAggregateFunction c id f).filterFunctions = c.filterFunctions ∧
    (SetAggregateFunction c id f).accessorMode = c.accessorMode := by
  unfold SetAggregateFunction
  cases c.aggregateFunctions <;> simp

/-- **CG_accessor.** SetAccessorMode sets the flag and nothing else. -/
theorem CG_accessor {α β : Type} (c : Config α β) :
    (SetAccessorMode c).accessorMode = true ∧ (SetAccessorMode c).filterFunctions = c.filterFunctions ∧
    (SetAccessorMode c).aggregateFunctions = c.aggregateFunctions := by
  simp [SetAccessorMode]

/-- the method set of *Config is exactly the three setters -/
theorem CG_methods : methods = ["SetAccessorMode", "SetAggregateFunction", "SetFilterFunction"] := rfl

/-- non-vacuity: names differing only in case are different names -/
example : lookup (SetFilterFunction (SetFilterFunction (⟨none, none, false⟩ : Config Nat Nat) "max" 1) "Max" 2).filterFunctions "max"
    = some 1 := by
  rw [CG_filter_frame _ "Max" "max" 2 (by decide), CG_filter_set]

end ConfigGen
end JPV

-- OBLIGATIONS: CG_filter_set CG_filter_frame CG_filter_others CG_aggregate_set CG_aggregate_frame CG_aggregate_others CG_accessor CG_methods
