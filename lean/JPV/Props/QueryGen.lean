/-
Props/QueryGen — tie T1 for the filter query code (obligations for C03 C04 C09 C10).

`Gen/QueriesGo.lean` is REGENERATED from /repo on every run by the generator `queries`
(harness/cmd/translate/queries.go): the `compute` methods of

  syntax_query_logical_and.go / _or.go / _not.go      andCompute / orCompute / notCompute
  syntax_basic_compare_query.go                        compareQueryCompute
  syntax_basic_compare_parameter.go                    compareParameterCompute
  syntax_query_param_literal.go / _root.go / _current_root.go
                                                       literalCompute / rootCompute / currentRootCompute

statement by statement, over the vocabulary of JPV/QueryNode.lean. The theorems below say that the
hand-written model (`Impl.computeQ`, `Impl.computeP`, `Impl.pcurLoop`, with `andMerge`, `orMerge`,
`notFlip`, `valStep`, `comparator`, `emptyL`, `fullL`, `St.sub/back/wrote` of Impl/Basic.lean) IS
that code: same list returned (cells and origin tag), same write log, same sub-evaluation state,
same panic, for all inputs and with no well-formedness hypothesis. A source change that alters what
one of these methods returns, writes, calls or indexes makes the generator stop
(`untranslatable: file:line: …`) or makes the proof of the corresponding theorem fail.
Only statements here; proofs are in Lemmas/QueryTie.lean.
-/
import JPV.Lemmas.QueryTie
namespace JPV
namespace QueryGen
open Impl FnNode QueryNode QueryTie

/-! ## 1. logical operators -/

/-- `(*syntaxLogicalAnd).compute` is the `.and` equation of `computeQ` -/
theorem QG_and_is_go (env : Env) (a b : Q) (root : Val) (ms : List Val) (st : St) :
    computeQ env (.and a b) root ms st = Gen.QueriesGo.andCompute (recvAnd env a b) root ms st :=
  and_tie env a b root ms st

/-- `(*syntaxLogicalOr).compute` is the `.or` equation of `computeQ` -/
theorem QG_or_is_go (env : Env) (a b : Q) (root : Val) (ms : List Val) (st : St) :
    computeQ env (.or a b) root ms st = Gen.QueriesGo.orCompute (recvOr env a b) root ms st :=
  or_tie env a b root ms st

/-- `(*syntaxLogicalNot).compute` is the `.not` equation of `computeQ` -/
theorem QG_not_is_go (env : Env) (a : Q) (root : Val) (ms : List Val) (st : St) :
    computeQ env (.not a) root ms st = Gen.QueriesGo.notCompute (recvNot env a) root ms st :=
  not_tie env a root ms st

/-- the receivers are the model's sub-queries, nothing else -/
example (env : Env) (a b : Q) :
    (recvAnd env a b).leftQuery = computeQ env a ∧ (recvAnd env a b).rightQuery = computeQ env b ∧
    (recvOr env a b).leftQuery = computeQ env a ∧ (recvOr env a b).rightQuery = computeQ env b ∧
    (recvNot env a).query = computeQ env a := ⟨rfl, rfl, rfl, rfl, rfl⟩

/-! ### the loops: forward index loop with in-place edits = structural recursion with a write count -/

/-- **`&&`.** Any loop body that does what the Go body does (`andBody`: read `right[i]`; marker ⇒
    `left[i] = emptyEntity`, logged, `continue`; else read `left[i]`, set the flag if it is not the marker),
    run over `range right` from flag `false`, is `andMerge`: same cells, same flag, same number of
    logged writes, same panic when `left` is the shorter list. -/
theorem QG_and_loop (body : Nat → VL × Bool × St → M (VL × Bool × St)) (ro o : Org) (rs ls : List Cell) (st : St)
    (hbody : ∀ i l h st, body i (l, h, st) = andBody ⟨ro, rs⟩ i l h st) :
    forRange rs.length (⟨o, ls⟩, false, st) body = mergeOut o [] false st (andMerge ls rs) :=
  and_range body ro o rs ls st hbody

/-- **`||`.** Likewise for `orMerge`, when `right` is not the longer list. (When it is, the model says
    "index out of range" at the first missing cell, the Go loop only when that cell of `right` is not
    the marker; `QG_len` shows the case does not arise.) -/
theorem QG_or_loop (body : Nat → VL × St → M (VL × St)) (ro o : Org) (rs ls : List Cell) (st : St)
    (hbody : ∀ i l st, body i (l, st) = orBody ⟨ro, rs⟩ i l st) (hle : rs.length ≤ ls.length) :
    forRange rs.length (⟨o, ls⟩, st) body = orOut o [] st (orMerge ls rs) :=
  or_range body ro o rs ls st hbody hle

/-- the statement without the length hypothesis is false: the Go loop skips marker cells of `right`
    without touching `left` -/
def QG_or_loop_full : Prop :=
  ∀ (ro o : Org) (rs ls : List Cell) (st : St),
    forRange rs.length (⟨o, ls⟩, st) (fun i s => orBody ⟨ro, rs⟩ i s.1 s.2) = orOut o [] st (orMerge ls rs)

theorem QG_or_loop_full_false : ¬ QG_or_loop_full := by
  intro h
  have := h .fresh .fresh [.empty] [] {}
  simp [forRange, forFrom, orBody, getCell, orMerge, orOut, bind, Except.bind] at this

/-- **`!`.** The flip loop is `notFlip`, with one logged write per cell. -/
theorem QG_not_loop (body : Nat → VL × Bool × St → M (VL × Bool × St)) (o : Org) (cs : List Cell) (st : St)
    (hbody : ∀ i l h st, body i (l, h, st) = notBody i l h st) :
    forRange cs.length (⟨o, cs⟩, false, st) body =
      .ok (⟨o, (notFlip cs).2⟩, (notFlip cs).1, st.wrote o cs.length) :=
  not_range body o cs st hbody

/-- **`@`-operand.** The per-member loop of `syntaxQueryParamCurrentRoot.compute` (cut the container to
    length 0, run the chain on the member, marker on error, else `hasValue = true` and
    `container.result[0]`) is `pcurLoop`; the flag is "some cell is not the marker". -/
theorem QG_pcur_loop (env : Env) (ch : List N) (root : Val) (ms : List Val)
    (body : Nat → Own × Bool × Buf × St → M (Own × Bool × Buf × St)) (st : St)
    (hbody : ∀ i r h c st, body i (r, h, c, st) = pcurBody (recvPath env ch) root ms i r h c st) :
    forRange ms.length (makeOwn ms.length, false, ([] : Buf), st) body =
      pcurOut [] false (lastBuf env ch root ms [] st) (pcurLoop env ch root ms st) :=
  pcur_range env ch root ms body st hbody

/-- every list a query returns has one cell or one cell per member — for every tree, no
    well-formedness needed. This is what makes `left[index]` in the `||` loop safe. -/
theorem QG_len (env : Env) (q : Q) (root : Val) (ms : List Val) (st : St) (v : VL × St)
    (h : computeQ env q root ms st = .ok v) : v.1.cells.length = ms.length ∨ v.1.cells.length = 1 :=
  computeQ_len env q root ms st v h

/-! ## 2. the parameter nodes -/

/-- `(*syntaxQueryParamLiteral).compute`: a fresh one-element list holding `literal[0]` -/
theorem QG_lit_is_go (env : Env) (v : Val) (root : Val) (ms : List Val) (st : St) :
    computeP env (.lit v) root ms st = Gen.QueriesGo.literalCompute (recvLit v) root ms st :=
  lit_tie env v root ms st

/-- `(*syntaxQueryParamRoot).compute`: own container, chain on the root, `emptyList` on error,
    a fresh one-element list for exactly one result, else `fullList` -/
theorem QG_proot_is_go (env : Env) (ch : List N) (root : Val) (ms : List Val) (st : St) :
    computeP env (.proot ch) root ms st = Gen.QueriesGo.rootCompute (recvPath env ch) root ms st :=
  proot_tie env ch root ms st

/-- `(*syntaxQueryParamCurrentRoot).compute`, including the per-member loop -/
theorem QG_pcur_is_go (env : Env) (ch : List N) (root : Val) (ms : List Val) (st : St) :
    computeP env (.pcur ch) root ms st = Gen.QueriesGo.currentRootCompute (recvPath env ch) root ms st :=
  pcur_tie env ch root ms st

/-- the literal's receiver is the slice in the tree; the path receivers run the chain with
    `prev = default`, no accessor location -/
example (env : Env) (ch : List N) (v : Val) :
    (recvLit v).literal = ⟨.literal, [.val v]⟩ ∧
    (recvPath env ch).paramRetrieve = fun root cur st => retrieve env ch default root cur none st := ⟨rfl, rfl⟩

/-- an existence test is the parameter node itself: `[?(@.a)]`, `[?($.a)]` -/
theorem QG_exist_pcur_is_go (env : Env) (ch : List N) (root : Val) (ms : List Val) (st : St) :
    computeQ env (.exist (.pcur ch)) root ms st = Gen.QueriesGo.currentRootCompute (recvPath env ch) root ms st :=
  exist_tie env (.pcur ch) root ms st

theorem QG_exist_proot_is_go (env : Env) (ch : List N) (root : Val) (ms : List Val) (st : St) :
    computeQ env (.exist (.proot ch)) root ms st = Gen.QueriesGo.rootCompute (recvPath env ch) root ms st :=
  exist_tie env (.proot ch) root ms st

/-! ## 3. compare parameter and compare query -/

/-- `(*syntaxBasicCompareParameter).compute` around any of the three parameter nodes (each of them the
    regenerated code, `goP`): for a `$`-path the input list is replaced by `[]interface{}{root}` -/
theorem QG_param_is_go (env : Env) (p : P) (root : Val) (ms : List Val) (st : St) :
    computeP env p root ms st = Gen.QueriesGo.compareParameterCompute (recvParam env p) root ms st :=
  param_tie env p root ms st

/-- `(*syntaxBasicCompareQuery).compute`: both operands through the regenerated compare parameter,
    `validate` twice (`valStep`), `comparator(leftValues, rightValues[0])`, `leftValues` / `emptyList`;
    both operands missing: `fullList` for DeepEQ only, else `emptyList` -/
theorem QG_cmp_is_go (env : Env) (l r : P) (c : Cmp) (root : Val) (ms : List Val) (st : St) :
    computeQ env (.cmp l r c) root ms st = Gen.QueriesGo.compareQueryCompute (recvCmp env l r c) root ms st :=
  cmp_tie env l r c root ms st

/-- what the compare query's receiver is made of: regenerated operands, the model's `valStep` and
    `comparator` (tied to the validators' and comparators' source by Props/Ties.lean) -/
example (env : Env) (l r : P) (c : Cmp) :
    (recvCmp env l r c).leftParam = Gen.QueriesGo.compareParameterCompute (recvParam env l) ∧
    (recvCmp env l r c).rightParam = Gen.QueriesGo.compareParameterCompute (recvParam env r) ∧
    (recvCmp env l r c).validate = valStep c ∧
    (recvCmp env l r c).comparatorIsDeepEQ = (c == .deepEq) ∧
    (∀ lv r0 st, (recvCmp env l r c).comparator lv (.val r0) st =
      (comparator env c r0 lv.cells).map (fun x => (x.1, { lv with cells := x.2.1 }, st.wrote lv.org x.2.2))) :=
  ⟨rfl, rfl, rfl, rfl, fun lv r0 st => by
    simp only [recvCmp, bind, Except.bind, Except.map]⟩

/-! ## 4. a whole query -/

/-- **Every query, at every level, is the regenerated code.** `goQ` is built from the generated
    methods only (the chains of path operands and `validate` / `comparator` are the receivers'). -/
theorem QG_query_is_go (env : Env) (q : Q) : computeQ env q = goQ env q :=
  computeQ_eq_goQ env q

/-! ## 5. the regenerated code run on concrete lists -/

section
private def constQ (vl : VL) : Compute := fun _ _ st => .ok (vl, st)
private def s0 : St := {}

/-- `&&` of two per-member lists: one logged write to the left list (origin `fresh`) -/
example : Gen.QueriesGo.andCompute ⟨constQ ⟨.fresh, [.val (.num 1), .val (.num 2), .empty]⟩,
      constQ ⟨.fresh, [.val (.num 7), .empty, .val (.num 9)]⟩⟩ .null [.null, .null, .null] s0 =
    .ok (⟨.fresh, [.val (.num 1), .empty, .empty]⟩, { s0 with writes := [.fresh] }) := rfl

/-- `||`: the right list's cell is copied over the left one -/
example : Gen.QueriesGo.orCompute ⟨constQ ⟨.fresh, [.val (.num 1), .empty, .empty]⟩,
      constQ ⟨.fresh, [.empty, .empty, .val (.num 9)]⟩⟩ .null [.null, .null, .null] s0 =
    .ok (⟨.fresh, [.val (.num 1), .empty, .val (.num 9)]⟩, { s0 with writes := [.fresh] }) := rfl

/-- `!` of the whole-match marker list is `emptyList`, nothing is written -/
example : Gen.QueriesGo.notCompute ⟨constQ fullL⟩ .null [.null, .null] s0 = .ok (emptyL, s0) := rfl

/-- `!` of a per-member list flips every cell in place: one write per cell -/
example : Gen.QueriesGo.notCompute ⟨constQ ⟨.fresh, [.empty, .val (.num 2)]⟩⟩ .null [.null, .null] s0 =
    .ok (⟨.fresh, [.val (.bool true), .empty]⟩, { s0 with writes := [.fresh, .fresh] }) := rfl

/-- both operands missing under DeepEQ: `fullList`, not the input list -/
example : Gen.QueriesGo.compareQueryCompute
      ⟨constQ emptyL, constQ emptyL, fun vl st => (false, vl, st), fun vl _ st => .ok (false, vl, st), true⟩
      .null [.null, .null] s0 = .ok (fullL, s0) := rfl
end

end QueryGen
end JPV
-- OBLIGATIONS: JPV.QueryGen.QG_and_is_go JPV.QueryGen.QG_or_is_go JPV.QueryGen.QG_not_is_go JPV.QueryGen.QG_and_loop JPV.QueryGen.QG_or_loop JPV.QueryGen.QG_or_loop_full_false JPV.QueryGen.QG_not_loop JPV.QueryGen.QG_pcur_loop JPV.QueryGen.QG_len JPV.QueryGen.QG_lit_is_go JPV.QueryGen.QG_proot_is_go JPV.QueryGen.QG_pcur_is_go JPV.QueryGen.QG_exist_pcur_is_go JPV.QueryGen.QG_exist_proot_is_go JPV.QueryGen.QG_param_is_go JPV.QueryGen.QG_cmp_is_go JPV.QueryGen.QG_query_is_go
