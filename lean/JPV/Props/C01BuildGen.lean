/-
C01 (upper half), tie T1: the subscript code *as regenerated from /repo* (Gen.SliceGo, re-translated on
every run) selects the specification's indices for every subscript the parser builds.
Composition of `SliceLemmas.gen_eq_impl` (regenerated Go = hand model, JPV/Lemmas/Slice.lean) with
`C01Build.subIndexes_eq_spec` (hand model = Spec). Bounds: written numbers fit a Go int, arrays < 2^62.
-/
import JPV.Lemmas.Slice
import JPV.Props.C01Build
namespace JPV
namespace C01Build

theorem gen_subIndexes_eq_spec (sub : Sub) (n : Nat)
    (hsub : SliceLemmas.SubInRange (Build.subI sub)) (hn : n < SliceLemmas.maxLen) :
    Gen.SliceGo.getIndexes (Build.subI sub) n =
      .ok ((Spec.subIndices sub n).map (fun (i : Nat) => (i : Int))) := by
  rw [SliceLemmas.gen_eq_impl _ _ hsub hn, subIndexes_eq_spec]

example : Gen.SliceGo.getIndexes (Build.subI (.slice (some (-2)) none (some (-3)))) 7 = .ok [5, 2] := by
  rw [gen_subIndexes_eq_spec _ _ (by simp [Build.subI, Build.bound, SliceLemmas.SubInRange, SliceLemmas.I64]) (by decide)]
  rfl

end C01Build
end JPV

-- OBLIGATIONS: JPV.C01Build.gen_subIndexes_eq_spec
