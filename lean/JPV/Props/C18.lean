/-
C18 — equivalent spellings of a path behave identically (PARTIAL at theorem level).

Two spellings of a path that the grammar declares equivalent (spaces, quotes, `+`/zeros on
integers, `.*`/`[*]`, `.name`/`['name']`, omitted `$`) parse to the same abstract path except for
the source texts recorded per step (`Step.t`, `Fn.t`) — that is what the recogniser and the action
stack machine do, and it is checked by execution on every run (T3: real parser vs `parseModel` vs
`Build.build`, three-way, per spelling). What is proved here: the recorded texts never influence
what is selected — neither in the specification nor in the implementation model.
Not a theorem: that every spelling the grammar allows parses to the same abstract path (a statement
about the recogniser on all strings), and that failing spellings name the same step.
-/
import JPV.Props.Transport
namespace JPV
namespace C18
open Spec

def stripFn : Fn → Fn
  | .ffn _ n => .ffn "" n
  | .afn _ n => .afn "" n

mutual
def stripStep : Step → Step
  | .child _ k => .child "" k
  | .wild _ => .wild ""
  | .multi _ ns => .multi "" ns
  | .union _ ss => .union "" ss
  | .filter _ q => .filter "" (stripQuery q)
  | .desc s => .desc (stripStep s)
def stripSteps : List Step → List Step
  | [] => []
  | s :: ss => stripStep s :: stripSteps ss
def stripQuery : Query → Query
  | .or a b => .or (stripQuery a) (stripQuery b)
  | .and a b => .and (stripQuery a) (stripQuery b)
  | .exist n p => .exist n (stripPath p)
  | .cmp op l r => .cmp op (stripOperand l) (stripOperand r)
  | .regex p re => .regex (stripPath p) re
def stripOperand : Operand → Operand
  | .lit l => .lit l
  | .path p => .path (stripPath p)
def stripPath : Path → Path
  | .mk h steps fns => .mk h (stripSteps steps) (fns.map stripFn)
end

theorem applyFns_strip (env : Env) : ∀ (fns : List Fn) (single : Bool) (vs : List Val),
    applyFns env (fns.map stripFn) single vs = applyFns env fns single vs
  | [], _, _ => rfl
  | .ffn t n :: rest, single, vs => by
    simp only [List.map_cons, stripFn, applyFns]
    cases env.ffn n with
    | none => rfl
    | some f => exact applyFns_strip env rest single _
  | .afn t n :: rest, single, vs => by
    simp only [List.map_cons, stripFn, applyFns]
    cases env.afn n with
    | none => rfl
    | some f =>
      simp only []
      split
      · rfl
      · split
        · exact applyFns_strip env rest true _
        · rfl

theorem isVgStep_strip (s : Step) : isVgStep (stripStep s) = isVgStep s := by
  cases s with
  | union t ss => cases ss with
    | nil => rfl
    | cons a as => cases as <;> rfl
  | _ => rfl

theorem any_vg_strip : ∀ (ss : List Step), (stripSteps ss).any isVgStep = ss.any isVgStep
  | [] => rfl
  | s :: ss => by simp only [stripSteps, List.any_cons, isVgStep_strip, any_vg_strip ss]

theorem operandIsLit_strip (o : Operand) : operandIsLit (stripOperand o) = operandIsLit o := by
  cases o <;> rfl

mutual
theorem sel_strip (env : Env) : ∀ (s : Step) (root cur : Val), sel env (stripStep s) root cur = sel env s root cur
  | .child t k, root, cur => by cases cur <;> simp only [stripStep, sel]
  | .wild t, root, cur => by simp only [stripStep, sel]
  | .multi t ns, root, cur => by cases cur <;> simp only [stripStep, sel]
  | .union t ss, root, cur => by cases cur <;> simp only [stripStep, sel]
  | .filter t q, root, cur => by
    simp only [stripStep, sel, verdicts_strip env q root]
  | .desc s, root, cur => by
    simp only [stripStep, sel]
    congr 1
    funext c
    exact sel_strip env s root c
theorem evalSteps_strip (env : Env) : ∀ (ss : List Step) (root : Val) (vs : List Val),
    evalSteps env (stripSteps ss) root vs = evalSteps env ss root vs
  | [], _, _ => by simp only [stripSteps, evalSteps]
  | s :: ss, root, vs => by
    simp only [stripSteps, evalSteps]
    have : (fun v => sel env (stripStep s) root v) = (fun v => sel env s root v) := by
      funext v; exact sel_strip env s root v
    rw [this]
    exact evalSteps_strip env ss root _
theorem verdicts_strip (env : Env) : ∀ (q : Query) (root : Val) (ms : List Val),
    verdicts env (stripQuery q) root ms = verdicts env q root ms
  | .or a b, root, ms => by simp only [stripQuery, verdicts, verdicts_strip env a, verdicts_strip env b]
  | .and a b, root, ms => by simp only [stripQuery, verdicts, verdicts_strip env a, verdicts_strip env b]
  | .exist n p, root, ms => by
    simp only [stripQuery, verdicts]
    congr 1
    funext m
    rw [evalPath_strip env p root m]
  | .cmp op l r, root, ms => by
    simp only [stripQuery, verdicts, operandVals_strip env l, operandVals_strip env r, operandIsLit_strip]
  | .regex p re, root, ms => by
    simp only [stripQuery, verdicts]
    congr 1
    funext m
    rw [evalPath_strip env p root m]
theorem operandVals_strip (env : Env) : ∀ (o : Operand) (root : Val) (ms : List Val),
    operandVals env (stripOperand o) root ms = operandVals env o root ms
  | .lit l, _, _ => by simp only [stripOperand, operandVals]
  | .path p, root, ms => by
    simp only [stripOperand, operandVals]
    congr 1
    funext m
    rw [evalPath_strip env p root m]
theorem evalPath_strip (env : Env) : ∀ (p : Path) (root cur : Val),
    evalPath env (stripPath p) root cur = evalPath env p root cur
  | .mk h steps fns, root, cur => by
    simp only [stripPath, evalPath, any_vg_strip, evalSteps_strip env steps, applyFns_strip]
end

/-- **the recorded texts never influence what the specification selects** -/
theorem C18_text_irrelevant_spec (env : Env) (p p' : Path) (h : stripPath p = stripPath p') (d : Val) :
    Spec.run env p d = Spec.run env p' d := by
  unfold Spec.run
  rw [← evalPath_strip env p, ← evalPath_strip env p', h]

/-- … nor what the implementation model returns: two spellings that parse to abstract paths equal
    up to recorded texts return the same values, or both fail -/
theorem C18_text_irrelevant (env : Env) (cfg : Cfg) (p p' : Path) (ch ch' : List N)
    (h : stripPath p = stripPath p') (hb : Build.build env cfg p = .ok ch) (hb' : Build.build env cfg p' = .ok ch')
    (d : Val) (hd : d.wf = true) :
    Transport.retrieveVals env cfg p d = Transport.retrieveVals env cfg p' d := by
  rw [Transport.retrieveVals_eq_spec env cfg p ch d hb hd, Transport.retrieveVals_eq_spec env cfg p' ch' d hb' hd]
  exact C18_text_irrelevant_spec env p p' h d

/-- non-vacuity: `$.a[*]` and `$['a'] [ * ]` differ only in recorded texts -/
example : stripPath (.mk .root [.child ".a" "a", .wild "[*]"] []) =
    stripPath (.mk .root [.child "['a']" "a", .wild "[ * ]"] []) := by
  simp [stripPath, stripSteps, stripStep]

end C18
end JPV
-- OBLIGATIONS: JPV.C18.C18_text_irrelevant_spec JPV.C18.C18_text_irrelevant JPV.C18.evalPath_strip
