import JPV.Lemmas.RunGoBase
import JPV.Peg.RunGoNum
/-!
# The COMPOSITION: rule functions executed on the regenerated runtime compute `Peg.run` (worker L30)

`Peg/RunGo.lean` defines `runGo`: a parsing expression executed with the templates of the generated Go code over the
runtime state `RT`, calling the REGENERATED closures `add / memoize / memoizedResult / matchDot / reset` of
Gen/PegRuntimeGo.lean. This file proves that `runGo` computes `Peg.run` — for EVERY grammar and numbering, hence for
`Gen.goGrammar` (the decompiled rule functions, `PegGo_equiv`: equivalent to the grammar).

  * memo OFF (`disableMemoize = true`, table empty) — PROVED in full: `RG_sim`, `RG_run_ok`, `RG_run_fail`,
    `RG_rule_fail_restores`, `RG_parse_nomemo`, `RG_go_parse_nomemo`.
  * memo ON — `RG_memo_full` is the statement, kept visible as a `def … : Prop`; proved: the one-step laws at the level
    of the rule-function template (`RG_memo_store_replay_ok_partial`, `RG_memo_store_replay_fail_partial`: what the success /
    failure tail of a rule function stores is replayed by a later hit as the same outcome, the same exit position and the
    same token segment, at whatever tokenIndex the hit happens, tokens below untouched). Missing for the full
    statement: the induction carrying the table invariant "every stored entry equals what a rerun produces" through
    `runGo` (as `runM_spec` does for `runM`), including that a replayed segment of `Tok`s whose positions are absolute is
    independent of the entry tokenIndex. Until then C17's fourth comparison (`gorun`, memo ON) is the evidence.

Hypotheses (all explicit): `Good` = buffer is the runes of the input followed by the end symbol (no rune equals it:
`runes_lt`, because a `Char` is below 1114112), `tokenIndex ≤ len(tree)`, memo off and table empty;
`input.size + 1 < 2^32` and `tokenIndex + adds … < 2^32` keep the uint32 arithmetic exact, where `adds` (Lemmas/RunGoBase)
counts on the SPEC side the `add` calls of the templates. Satisfiable: `RG_reset_good`, the `example`s at the end.

Sensitivity trials: see the comment block at the end.
-/
set_option linter.unusedVariables false
namespace JPV
namespace RunGoGen
open JPV.Peg JPV.Peg.Runtime JPV.Gen.PegRuntime JPV.Peg.RunGo JPV.PegRuntimeGen

/-- what `runGo` does when `Peg.run` succeeds -/
def OkSpec (g : Grammar) (n : Num) (input : Array Char) (f : Nat) (e : PE) (s : RT) (p' : Nat) (toks : List Peg.Tok) : Prop :=
  ∃ s', runGo g n f e s = (.ok, s') ∧ s'.position = p' ∧ p' ≤ input.size ∧
    Post input s s' (adds g f e input s.position) ∧ n.kinds (seg s.tokenIndex s') = toks

/-- what `runGo` does when `Peg.run` fails -/
def FailSpec (g : Grammar) (n : Num) (input : Array Char) (f : Nat) (e : PE) (s : RT) : Prop :=
  ∃ s', runGo g n f e s = (.fail, s') ∧ Post input s s' (adds g f e input s.position)

def Sim (g : Grammar) (n : Num) (input : Array Char) (f : Nat) : Prop :=
  ∀ e s, Good input s → s.position ≤ input.size → s.tokenIndex + adds g f e input s.position < 4294967296 →
    (∀ p' toks, run g f e input s.position = .ok p' toks → OkSpec g n input f e s p' toks) ∧
    (run g f e input s.position = .fail → FailSpec g n input f e s)

variable {g : Grammar} {n : Num} {input : Array Char}

theorem sim_seq {f : Nat} (ih : Sim g n input f) (a b : PE) (s : RT) (hg : Good input s) (hp : s.position ≤ input.size)
    (hb : s.tokenIndex + adds g (f + 1) (.seq a b) input s.position < 4294967296) :
    (∀ p' toks, run g (f + 1) (.seq a b) input s.position = .ok p' toks → OkSpec g n input (f + 1) (.seq a b) s p' toks) ∧
    (run g (f + 1) (.seq a b) input s.position = .fail → FailSpec g n input (f + 1) (.seq a b) s) := by
  simp only [adds] at hb
  have iha := ih a s hg hp (by omega)
  cases ha : run g f a input s.position with
  | outOfFuel => simp [run, ha]
  | fail =>
    obtain ⟨s1, e1, post1⟩ := iha.2 ha
    refine ⟨by simp [run, ha], fun _ => ⟨s1, by simp only [runGo, e1], ?_⟩⟩
    simp only [adds, ha]; exact post1.mono (by omega)
  | ok p1 t1 =>
    obtain ⟨s1, e1, hp1, hle1, post1, k1⟩ := iha.1 p1 t1 ha
    subst hp1
    simp only [ha] at hb
    have ihb := ih b s1 post1.good hle1 (by have := post1.hi; omega)
    cases hbb : run g f b input s1.position with
    | outOfFuel => simp [run, ha, hbb]
    | fail =>
      obtain ⟨s2, e2, post2⟩ := ihb.2 hbb
      refine ⟨by simp [run, ha, hbb], fun _ => ⟨s2, by simp only [runGo, e1, e2], ?_⟩⟩
      simp only [adds, ha]; exact (post1.trans post2).1
    | ok p2 t2 =>
      obtain ⟨s2, e2, hp2, hle2, post2, k2⟩ := ihb.1 p2 t2 hbb
      refine ⟨?_, by simp [run, ha, hbb]⟩
      intro p' toks hr
      simp only [run, ha, hbb, Result.ok.injEq] at hr
      obtain ⟨rfl, rfl⟩ := hr
      refine ⟨s2, by simp only [runGo, e1, e2], hp2, hle2, ?_, ?_⟩
      · simp only [adds, ha]; exact (post1.trans post2).1
      · rw [(post1.trans post2).2, kinds_append, k1, k2]

theorem kinds_nil (n : Num) : n.kinds [] = [] := rfl

/-- continuing from the state a failure label restored -/
theorem via_restore {s s1 : RT} {k : Nat} (post1 : Post input s s1 k) :
    Good input (restore s.position s.tokenIndex s1) ∧ (restore s.position s.tokenIndex s1).position = s.position ∧
    (restore s.position s.tokenIndex s1).tokenIndex = s.tokenIndex ∧
    ∀ s2 k2, Post input (restore s.position s.tokenIndex s1) s2 k2 →
      Post input s s2 k2 ∧ seg s.tokenIndex s2 = seg s.tokenIndex s2 := by
  refine ⟨(post1.restore 0).good, rfl, rfl, ?_⟩
  intro s2 k2 h2
  have := (post1.restore 0).trans h2
  exact ⟨this.1.mono (by omega), rfl⟩

/-- the state a failure label restored, as an OkSpec witness with no tokens -/
theorem ok_restored {f : Nat} {e : PE} {s s1 : RT} {k : Nat} (post1 : Post input s s1 k) (hp : s.position ≤ input.size)
    (hr : runGo g n f e s = (.ok, restore s.position s.tokenIndex s1)) : OkSpec g n input f e s s.position [] :=
  ⟨_, hr, rfl, hp, post1.restore _, by rw [seg_restore]; rfl⟩

theorem sim_alt {f : Nat} (ih : Sim g n input f) (a b : PE) (s : RT) (hg : Good input s) (hp : s.position ≤ input.size)
    (hb : s.tokenIndex + adds g (f + 1) (.alt a b) input s.position < 4294967296) :
    (∀ p' toks, run g (f + 1) (.alt a b) input s.position = .ok p' toks → OkSpec g n input (f + 1) (.alt a b) s p' toks) ∧
    (run g (f + 1) (.alt a b) input s.position = .fail → FailSpec g n input (f + 1) (.alt a b) s) := by
  simp only [adds] at hb
  have iha := ih a s hg hp (by omega)
  cases ha : run g f a input s.position with
  | outOfFuel => simp [run, ha]
  | ok p1 t1 =>
    obtain ⟨s1, e1, hp1, hle1, post1, k1⟩ := iha.1 p1 t1 ha
    refine ⟨?_, by simp [run, ha]⟩
    intro p' toks hr
    simp only [run, ha, Result.ok.injEq] at hr
    obtain ⟨rfl, rfl⟩ := hr
    refine ⟨s1, by simp only [runGo, e1], hp1, hle1, ?_, k1⟩
    simp only [adds, ha]; exact post1.mono (by omega)
  | fail =>
    obtain ⟨s1, e1, post1⟩ := iha.2 ha
    simp only [ha] at hb
    have hrun : runGo g n (f + 1) (.alt a b) s = runGo g n f b (restore s.position s.tokenIndex s1) := by
      simp only [runGo, e1]
    obtain ⟨hgr, hq, ht, hvia⟩ := via_restore post1
    generalize restore s.position s.tokenIndex s1 = sr at *
    have ihb := ih b sr hgr (by omega) (by rw [hq, ht]; have := post1.hi; omega)
    simp only [OkSpec, FailSpec, hq] at ihb
    constructor
    · intro p' toks hr
      simp only [run, ha] at hr
      obtain ⟨s2, e2, hp2, hle2, post2, k2⟩ := ihb.1 p' toks hr
      refine ⟨s2, by rw [hrun, e2], hp2, hle2, ?_, by rw [← ht]; exact k2⟩
      simp only [adds, ha]; exact (hvia s2 _ post2).1.mono (by omega)
    · intro hr
      simp only [run, ha] at hr
      obtain ⟨s2, e2, post2⟩ := ihb.2 hr
      refine ⟨s2, by rw [hrun, e2], ?_⟩
      simp only [adds, ha]; exact (hvia s2 _ post2).1.mono (by omega)

theorem sim_star {f : Nat} (ih : Sim g n input f) (a : PE) (s : RT) (hg : Good input s) (hp : s.position ≤ input.size)
    (hb : s.tokenIndex + adds g (f + 1) (.star a) input s.position < 4294967296) :
    (∀ p' toks, run g (f + 1) (.star a) input s.position = .ok p' toks → OkSpec g n input (f + 1) (.star a) s p' toks) ∧
    (run g (f + 1) (.star a) input s.position = .fail → FailSpec g n input (f + 1) (.star a) s) := by
  simp only [adds] at hb
  have iha := ih a s hg hp (by omega)
  cases ha : run g f a input s.position with
  | outOfFuel => simp [run, ha]
  | fail =>
    obtain ⟨s1, e1, post1⟩ := iha.2 ha
    refine ⟨?_, by simp [run, ha]⟩
    intro p' toks hr
    simp only [run, ha, Result.ok.injEq] at hr
    obtain ⟨rfl, rfl⟩ := hr
    exact ok_restored post1 hp (by simp only [runGo, e1])
  | ok p1 t1 =>
    obtain ⟨s1, e1, hp1, hle1, post1, k1⟩ := iha.1 p1 t1 ha
    subst hp1
    simp only [ha] at hb
    have ihb := ih (.star a) s1 post1.good hle1 (by have := post1.hi; omega)
    cases hbb : run g f (.star a) input s1.position with
    | outOfFuel => simp [run, ha, hbb]
    | fail =>
      obtain ⟨s2, e2, post2⟩ := ihb.2 hbb
      refine ⟨by simp [run, ha, hbb], fun _ => ⟨s2, by simp only [runGo, e1, e2], ?_⟩⟩
      simp only [adds, ha]; exact (post1.trans post2).1
    | ok p2 t2 =>
      obtain ⟨s2, e2, hp2, hle2, post2, k2⟩ := ihb.1 p2 t2 hbb
      refine ⟨?_, by simp [run, ha, hbb]⟩
      intro p' toks hr
      simp only [run, ha, hbb, Result.ok.injEq] at hr
      obtain ⟨rfl, rfl⟩ := hr
      refine ⟨s2, by simp only [runGo, e1, e2], hp2, hle2, ?_, ?_⟩
      · simp only [adds, ha]; exact (post1.trans post2).1
      · rw [(post1.trans post2).2, kinds_append, k1, k2]

theorem sim_plus {f : Nat} (ih : Sim g n input f) (a : PE) (s : RT) (hg : Good input s) (hp : s.position ≤ input.size)
    (hb : s.tokenIndex + adds g (f + 1) (.plus a) input s.position < 4294967296) :
    (∀ p' toks, run g (f + 1) (.plus a) input s.position = .ok p' toks → OkSpec g n input (f + 1) (.plus a) s p' toks) ∧
    (run g (f + 1) (.plus a) input s.position = .fail → FailSpec g n input (f + 1) (.plus a) s) := by
  simp only [adds] at hb
  have iha := ih a s hg hp (by omega)
  cases ha : run g f a input s.position with
  | outOfFuel => simp [run, ha]
  | fail =>
    obtain ⟨s1, e1, post1⟩ := iha.2 ha
    refine ⟨by simp [run, ha], fun _ => ⟨s1, by simp only [runGo, e1], ?_⟩⟩
    simp only [adds, ha]; exact post1.mono (by omega)
  | ok p1 t1 =>
    obtain ⟨s1, e1, hp1, hle1, post1, k1⟩ := iha.1 p1 t1 ha
    subst hp1
    simp only [ha] at hb
    have ihb := ih (.star a) s1 post1.good hle1 (by have := post1.hi; omega)
    cases hbb : run g f (.star a) input s1.position with
    | outOfFuel => simp [run, ha, hbb]
    | fail =>
      obtain ⟨s2, e2, post2⟩ := ihb.2 hbb
      refine ⟨by simp [run, ha, hbb], fun _ => ⟨s2, by simp only [runGo, e1, e2], ?_⟩⟩
      simp only [adds, ha]; exact (post1.trans post2).1
    | ok p2 t2 =>
      obtain ⟨s2, e2, hp2, hle2, post2, k2⟩ := ihb.1 p2 t2 hbb
      refine ⟨?_, by simp [run, ha, hbb]⟩
      intro p' toks hr
      simp only [run, ha, hbb, Result.ok.injEq] at hr
      obtain ⟨rfl, rfl⟩ := hr
      refine ⟨s2, by simp only [runGo, e1, e2], hp2, hle2, ?_, ?_⟩
      · simp only [adds, ha]; exact (post1.trans post2).1
      · rw [(post1.trans post2).2, kinds_append, k1, k2]

theorem sim_opt {f : Nat} (ih : Sim g n input f) (a : PE) (s : RT) (hg : Good input s) (hp : s.position ≤ input.size)
    (hb : s.tokenIndex + adds g (f + 1) (.opt a) input s.position < 4294967296) :
    (∀ p' toks, run g (f + 1) (.opt a) input s.position = .ok p' toks → OkSpec g n input (f + 1) (.opt a) s p' toks) ∧
    (run g (f + 1) (.opt a) input s.position = .fail → FailSpec g n input (f + 1) (.opt a) s) := by
  simp only [adds] at hb
  have iha := ih a s hg hp (by omega)
  cases ha : run g f a input s.position with
  | outOfFuel => simp [run, ha]
  | fail =>
    obtain ⟨s1, e1, post1⟩ := iha.2 ha
    refine ⟨?_, by simp [run, ha]⟩
    intro p' toks hr
    simp only [run, ha, Result.ok.injEq] at hr
    obtain ⟨rfl, rfl⟩ := hr
    exact ok_restored post1 hp (by simp only [runGo, e1])
  | ok p1 t1 =>
    obtain ⟨s1, e1, hp1, hle1, post1, k1⟩ := iha.1 p1 t1 ha
    refine ⟨?_, by simp [run, ha]⟩
    intro p' toks hr
    simp only [run, ha, Result.ok.injEq] at hr
    obtain ⟨rfl, rfl⟩ := hr
    exact ⟨s1, by simp only [runGo, e1], hp1, hle1, by simp only [adds]; exact post1, k1⟩

theorem sim_not {f : Nat} (ih : Sim g n input f) (a : PE) (s : RT) (hg : Good input s) (hp : s.position ≤ input.size)
    (hb : s.tokenIndex + adds g (f + 1) (.not a) input s.position < 4294967296) :
    (∀ p' toks, run g (f + 1) (.not a) input s.position = .ok p' toks → OkSpec g n input (f + 1) (.not a) s p' toks) ∧
    (run g (f + 1) (.not a) input s.position = .fail → FailSpec g n input (f + 1) (.not a) s) := by
  simp only [adds] at hb
  have iha := ih a s hg hp (by omega)
  cases ha : run g f a input s.position with
  | outOfFuel => simp [run, ha]
  | fail =>
    obtain ⟨s1, e1, post1⟩ := iha.2 ha
    refine ⟨?_, by simp [run, ha]⟩
    intro p' toks hr
    simp only [run, ha, Result.ok.injEq] at hr
    obtain ⟨rfl, rfl⟩ := hr
    exact ok_restored post1 hp (by simp only [runGo, e1])
  | ok p1 t1 =>
    obtain ⟨s1, e1, hp1, hle1, post1, k1⟩ := iha.1 p1 t1 ha
    exact ⟨by simp [run, ha], fun _ => ⟨s1, by simp only [runGo, e1], by simp only [adds]; exact post1⟩⟩

theorem sim_and {f : Nat} (ih : Sim g n input f) (a : PE) (s : RT) (hg : Good input s) (hp : s.position ≤ input.size)
    (hb : s.tokenIndex + adds g (f + 1) (.and a) input s.position < 4294967296) :
    (∀ p' toks, run g (f + 1) (.and a) input s.position = .ok p' toks → OkSpec g n input (f + 1) (.and a) s p' toks) ∧
    (run g (f + 1) (.and a) input s.position = .fail → FailSpec g n input (f + 1) (.and a) s) := by
  simp only [adds] at hb
  have iha := ih a s hg hp (by omega)
  cases ha : run g f a input s.position with
  | outOfFuel => simp [run, ha]
  | fail =>
    obtain ⟨s1, e1, post1⟩ := iha.2 ha
    exact ⟨by simp [run, ha], fun _ => ⟨s1, by simp only [runGo, e1], by simp only [adds]; exact post1⟩⟩
  | ok p1 t1 =>
    obtain ⟨s1, e1, hp1, hle1, post1, k1⟩ := iha.1 p1 t1 ha
    refine ⟨?_, by simp [run, ha]⟩
    intro p' toks hr
    simp only [run, ha, Result.ok.injEq] at hr
    obtain ⟨rfl, rfl⟩ := hr
    exact ok_restored post1 hp (by simp only [runGo, e1])

theorem sim_cap (hw : Num.WF n) (hn : input.size + 1 < 4294967296) {f : Nat} (ih : Sim g n input f) (a : PE) (s : RT) (hg : Good input s) (hp : s.position ≤ input.size)
    (hb : s.tokenIndex + adds g (f + 1) (.cap a) input s.position < 4294967296) :
    (∀ p' toks, run g (f + 1) (.cap a) input s.position = .ok p' toks → OkSpec g n input (f + 1) (.cap a) s p' toks) ∧
    (run g (f + 1) (.cap a) input s.position = .fail → FailSpec g n input (f + 1) (.cap a) s) := by
  simp only [adds] at hb
  have iha := ih a s hg hp (by omega)
  cases ha : run g f a input s.position with
  | outOfFuel => simp [run, ha]
  | fail =>
    obtain ⟨s1, e1, post1⟩ := iha.2 ha
    refine ⟨by simp [run, ha], fun _ => ⟨s1, by simp only [runGo, e1], ?_⟩⟩
    simp only [adds]; exact post1.mono (by omega)
  | ok p1 t1 =>
    obtain ⟨s1, e1, hp1, hle1, post1, k1⟩ := iha.1 p1 t1 ha
    subst hp1
    obtain ⟨s2, ea, post2, hp2, hseg⟩ := add_post (input := input) n.text s.position post1.good (by have := post1.hi; omega)
    refine ⟨?_, by simp [run, ha]⟩
    intro p' toks hr
    simp only [run, ha, Result.ok.injEq] at hr
    obtain ⟨rfl, rfl⟩ := hr
    refine ⟨s2, by simp only [runGo, e1, addGo, ea], hp2, hle1, by simp only [adds]; exact (post1.trans post2).1, ?_⟩
    rw [(post1.trans post2).2, kinds_append, k1, hseg, kinds_text]

theorem sim_rule (hw : Num.WF n) (hn : input.size + 1 < 4294967296) {f : Nat} (ih : Sim g n input f) (name : String) (s : RT) (hg : Good input s) (hp : s.position ≤ input.size)
    (hb : s.tokenIndex + adds g (f + 1) (.rule name) input s.position < 4294967296) :
    (∀ p' toks, run g (f + 1) (.rule name) input s.position = .ok p' toks → OkSpec g n input (f + 1) (.rule name) s p' toks) ∧
    (run g (f + 1) (.rule name) input s.position = .fail → FailSpec g n input (f + 1) (.rule name) s) := by
  simp only [adds] at hb
  have iha := ih (ruleBody g name) s hg hp (by omega)
  have hlk : lookup s.memo (n.rule name - 1, s.position) = none := by rw [hg.nomemo]; rfl
  cases ha : run g f (ruleBody g name) input s.position with
  | outOfFuel => simp [run, ha]
  | fail =>
    obtain ⟨s1, e1, post1⟩ := iha.2 ha
    refine ⟨by simp [run, ha], fun _ => ⟨restore s.position s.tokenIndex s1, ?_, post1.restore _⟩⟩
    simp only [runGo, hlk, e1, ruleFail, PR_memoize_disabled _ _ _ _ s1 post1.good.off]
  | ok p1 t1 =>
    obtain ⟨s1, e1, hp1, hle1, post1, k1⟩ := iha.1 p1 t1 ha
    subst hp1
    obtain ⟨s2, ea, post2, hp2, hseg⟩ := add_post (input := input) (n.rule name) s.position post1.good (by have := post1.hi; omega)
    refine ⟨?_, by simp [run, ha]⟩
    intro p' toks hr
    simp only [run, ha, Result.ok.injEq] at hr
    obtain ⟨rfl, rfl⟩ := hr
    refine ⟨s2, ?_, hp2, hle1, by simp only [adds]; exact (post1.trans post2).1, ?_⟩
    · simp only [runGo, hlk, e1, ruleOk, ea, PR_memoize_disabled _ _ _ _ s2 post2.good.off]
    · rw [(post1.trans post2).2, kinds_append, k1, hseg, kinds_rule n hw, List.append_nil]

theorem sim_act (hw : Num.WF n) (hn : input.size + 1 < 4294967296) {f : Nat}  (i : Nat) (s : RT) (hg : Good input s) (hp : s.position ≤ input.size)
    (hb : s.tokenIndex + adds g (f + 1) (.act i) input s.position < 4294967296) :
    (∀ p' toks, run g (f + 1) (.act i) input s.position = .ok p' toks → OkSpec g n input (f + 1) (.act i) s p' toks) ∧
    (run g (f + 1) (.act i) input s.position = .fail → FailSpec g n input (f + 1) (.act i) s) := by
  simp only [adds] at hb
  obtain ⟨s2, ea, post2, hp2, hseg⟩ := add_post (input := input) (n.act i) s.position hg (by omega)
  refine ⟨?_, by simp [run]⟩
  intro p' toks hr
  simp only [run, Result.ok.injEq] at hr
  obtain ⟨rfl, rfl⟩ := hr
  exact ⟨s2, by simp only [runGo, addGo, ea], hp2, hp, by simp only [adds]; exact post2, by rw [hseg, kinds_act n hw]⟩

/-- a template that only moved `position` -/
theorem ok_moved {f : Nat} {e : PE} {s : RT} (hg : Good input s) (q : Nat) (hq : q ≤ input.size)
    (hr : runGo g n f e s = (.ok, { s with position := q })) : OkSpec g n input f e s q [] :=
  ⟨_, hr, rfl, hq, (Post.refl hg _).setPos q, by rw [seg_setPos, seg_self hg]; rfl⟩

theorem fail_moved {f : Nat} {e : PE} {s : RT} (hg : Good input s) (q : Nat)
    (hr : runGo g n f e s = (.fail, { s with position := q })) : FailSpec g n input f e s :=
  ⟨_, hr, (Post.refl hg _).setPos q⟩

theorem sim_any (hw : Num.WF n) (hn : input.size + 1 < 4294967296) {f : Nat}   (s : RT) (hg : Good input s) (hp : s.position ≤ input.size)
    (hb : s.tokenIndex + adds g (f + 1) (.any) input s.position < 4294967296) :
    (∀ p' toks, run g (f + 1) (.any) input s.position = .ok p' toks → OkSpec g n input (f + 1) (.any) s p' toks) ∧
    (run g (f + 1) (.any) input s.position = .fail → FailSpec g n input (f + 1) (.any) s) := by
  have hd := dot_spec hg hp hn
  by_cases hlt : s.position < input.size
  · rw [if_pos hlt] at hd
    refine ⟨?_, by simp [run, hlt]⟩
    intro p' toks hr
    simp only [run, hlt, if_true, Result.ok.injEq] at hr
    obtain ⟨rfl, rfl⟩ := hr
    exact ok_moved hg _ (by omega) (by simp only [runGo, hd])
  · rw [if_neg hlt] at hd
    exact ⟨by simp [run, hlt], fun _ => fail_moved hg s.position (by simp only [runGo, hd])⟩

theorem sim_lit (hw : Num.WF n) (hn : input.size + 1 < 4294967296) {f : Nat}  (str : String) (s : RT) (hg : Good input s) (hp : s.position ≤ input.size)
    (hb : s.tokenIndex + adds g (f + 1) (.lit str) input s.position < 4294967296) :
    (∀ p' toks, run g (f + 1) (.lit str) input s.position = .ok p' toks → OkSpec g n input (f + 1) (.lit str) s p' toks) ∧
    (run g (f + 1) (.lit str) input s.position = .fail → FailSpec g n input (f + 1) (.lit str) s) := by
  have hl := lit_spec hn str.toList s hg hp
  by_cases hm : matchLit input str.toList s.position = true
  · rw [if_pos hm] at hl
    refine ⟨?_, by simp [run, hm]⟩
    intro p' toks hr
    simp only [run, hm, if_true, Result.ok.injEq] at hr
    obtain ⟨rfl, rfl⟩ := hr
    have hlen : str.toList.length = str.length := String.length_toList
    rw [hlen] at hl
    exact ok_moved hg _ hl.2 (by simp only [runGo, hl.1])
  · rw [if_neg hm] at hl
    obtain ⟨q, hq⟩ := hl
    exact ⟨by simp [run, hm], fun _ => fail_moved hg q (by simp only [runGo, hq])⟩

theorem sim_cls (hw : Num.WF n) (hn : input.size + 1 < 4294967296) {f : Nat}  (neg : Bool) (rs : List (Char × Char)) (s : RT) (hg : Good input s) (hp : s.position ≤ input.size)
    (hb : s.tokenIndex + adds g (f + 1) (.cls neg rs) input s.position < 4294967296) :
    (∀ p' toks, run g (f + 1) (.cls neg rs) input s.position = .ok p' toks → OkSpec g n input (f + 1) (.cls neg rs) s p' toks) ∧
    (run g (f + 1) (.cls neg rs) input s.position = .fail → FailSpec g n input (f + 1) (.cls neg rs) s) := by
  have hbuf := bufAt hg hp
  have hd := dot_spec hg hp hn
  cases hc : input[s.position]? with
  | none =>
    have hlt : ¬ s.position < input.size := by
      intro h; rw [Array.getElem?_eq_getElem h] at hc; cases hc
    rw [hc] at hbuf; rw [if_neg hlt] at hd
    refine ⟨by simp [run, hc], fun _ => fail_moved hg s.position ?_⟩
    cases neg <;> simp [runGo, clsGo, hbuf, inRangesN_end, hd]
  | some c =>
    have hlt : s.position < input.size := by
      rcases Nat.lt_or_ge s.position input.size with h1 | h1
      · exact h1
      · rw [Array.getElem?_eq_none h1] at hc; cases hc
    rw [hc] at hbuf; rw [if_pos hlt] at hd
    have hadv : advance s = { s with position := s.position + 1 } := by
      unfold advance; rw [u32_of_lt (by omega)]
    have hin := inRanges_eq c rs
    cases hi : inRangesN c.toNat rs <;> cases neg <;> rw [hi] at hin
    · exact ⟨by simp [run, hc, hin], fun _ => fail_moved hg s.position (by simp [runGo, clsGo, hbuf, hi])⟩
    · refine ⟨?_, by simp [run, hc, hin]⟩
      intro p' toks hr
      simp [run, hc, hin] at hr
      obtain ⟨rfl, rfl⟩ := hr
      exact ok_moved hg _ (by omega) (by simp [runGo, clsGo, hbuf, hi, hd])
    · refine ⟨?_, by simp [run, hc, hin]⟩
      intro p' toks hr
      simp [run, hc, hin] at hr
      obtain ⟨rfl, rfl⟩ := hr
      exact ok_moved hg _ (by omega) (by simp [runGo, clsGo, hbuf, hi, hadv])
    · exact ⟨by simp [run, hc, hin], fun _ => fail_moved hg s.position (by simp [runGo, clsGo, hbuf, hi])⟩

/-- SIMULATION, memo off, by induction on the fuel both interpreters share -/
theorem RG_sim (g : Grammar) (n : Num) (hw : Num.WF n) (input : Array Char) (hn : input.size + 1 < 4294967296) :
    ∀ f, Sim g n input f := by
  intro f
  induction f with
  | zero => intro e s _ _ _; simp [run]
  | succ f ih =>
    intro e s hg hp hb
    cases e with
    | lit str => exact sim_lit hw hn str s hg hp hb
    | cls neg rs => exact sim_cls hw hn neg rs s hg hp hb
    | any => exact sim_any hw hn s hg hp hb
    | seq a b => exact sim_seq ih a b s hg hp hb
    | alt a b => exact sim_alt ih a b s hg hp hb
    | star a => exact sim_star ih a s hg hp hb
    | plus a => exact sim_plus ih a s hg hp hb
    | opt a => exact sim_opt ih a s hg hp hb
    | not a => exact sim_not ih a s hg hp hb
    | and a => exact sim_and ih a s hg hp hb
    | rule name => exact sim_rule hw hn ih name s hg hp hb
    | cap a => exact sim_cap hw hn ih a s hg hp hb
    | act i => exact sim_act hw hn i s hg hp hb

/-! ## Public statements -/

/-- success: same end position, the tokens added above the entry tokenIndex are — restricted to the PegText/Action
kinds — the token list of `Peg.run`; tokens below the entry tokenIndex are untouched; the invariant is kept -/
theorem RG_run_ok (g : Grammar) (n : Num) (hw : Num.WF n) (input : Array Char) (hn : input.size + 1 < 4294967296)
    (f : Nat) (e : PE) (s : RT) (hg : Good input s) (hp : s.position ≤ input.size)
    (hb : s.tokenIndex + adds g f e input s.position < 4294967296) (p' : Nat) (toks : List Peg.Tok)
    (hr : run g f e input s.position = .ok p' toks) :
    ∃ s', runGo g n f e s = (.ok, s') ∧ s'.position = p' ∧ Good input s' ∧
      s'.tree.take s.tokenIndex = s.tree.take s.tokenIndex ∧ s.tokenIndex ≤ s'.tokenIndex ∧
      n.kinds ((s'.tree.take s'.tokenIndex).drop s.tokenIndex) = toks := by
  obtain ⟨s', h1, h2, _, h4, h5⟩ := (RG_sim g n hw input hn f e s hg hp hb).1 p' toks hr
  exact ⟨s', h1, h2, h4.good, h4.pre, h4.lo, h5⟩

/-- failure: `runGo` fails too (jumps to the enclosing failure label); tokens below the entry tokenIndex are untouched
and the pair the enclosing construct restores gives a good state again -/
theorem RG_run_fail (g : Grammar) (n : Num) (hw : Num.WF n) (input : Array Char) (hn : input.size + 1 < 4294967296)
    (f : Nat) (e : PE) (s : RT) (hg : Good input s) (hp : s.position ≤ input.size)
    (hb : s.tokenIndex + adds g f e input s.position < 4294967296)
    (hr : run g f e input s.position = .fail) :
    ∃ s', runGo g n f e s = (.fail, s') ∧ s'.tree.take s.tokenIndex = s.tree.take s.tokenIndex ∧
      Good input (restore s.position s.tokenIndex s') := by
  obtain ⟨s', h1, h2⟩ := (RG_sim g n hw input hn f e s hg hp hb).2 hr
  exact ⟨s', h1, h2.pre, (h2.restore 0).good⟩

/-- a failing RULE FUNCTION returns with position and tokenIndex restored -/
theorem RG_rule_fail_restores (g : Grammar) (n : Num) (hw : Num.WF n) (input : Array Char) (hn : input.size + 1 < 4294967296)
    (f : Nat) (name : String) (s : RT) (hg : Good input s) (hp : s.position ≤ input.size)
    (hb : s.tokenIndex + adds g f (.rule name) input s.position < 4294967296)
    (hr : run g f (.rule name) input s.position = .fail) :
    ∃ s', runGo g n f (.rule name) s = (.fail, s') ∧ s'.position = s.position ∧ s'.tokenIndex = s.tokenIndex ∧
      Good input s' ∧ s'.tree.take s.tokenIndex = s.tree.take s.tokenIndex := by
  cases f with
  | zero => simp [run] at hr
  | succ f =>
    simp only [adds] at hb
    simp only [run] at hr
    obtain ⟨s1, e1, post1⟩ := (RG_sim g n hw input hn f (ruleBody g name) s hg hp (by omega)).2 hr
    have hlk : lookup s.memo (n.rule name - 1, s.position) = none := by rw [hg.nomemo]; rfl
    refine ⟨restore s.position s.tokenIndex s1, ?_, rfl, rfl, (post1.restore 0).good, (post1.restore 0).pre⟩
    simp only [runGo, hlk, e1, ruleFail, PR_memoize_disabled _ _ _ _ s1 post1.good.off]

/-- `reset()` on the state `Init` builds: a good state at position 0, tokenIndex 0 -/
theorem RG_reset_good (input : Array Char) :
    ∃ s0, reset (initRT input true) = some s0 ∧ Good input s0 ∧ s0.position = 0 ∧ s0.tokenIndex = 0 := by
  have hr : ∀ r ∈ runes input, r ≠ endSymbol := runes_lt input
  unfold reset initRT
  by_cases hB : runes input = []
  · have hB' : List.map Char.toNat input.toList = [] := hB
    simp only [hB']
    refine ⟨_, rfl, ⟨?_, Nat.le_refl _, rfl, rfl⟩, rfl, rfl⟩
    show _ = runes input ++ [endSymbol]
    rw [hB]
  · have hlast : (runes input).getLast hB ≠ endSymbol := hr _ (List.getLast_mem hB)
    have hne : ((runes input).length : Int) ≠ 0 := by
      have := List.length_pos_iff.mpr hB; omega
    have hgl := getAtI_last (runes input) hB
    show ∃ s0, (Option.bind (if ((runes input).length : Int) == 0 then some true
        else (getAtI (runes input) (((runes input).length : Int) - 1)).bind fun x3 => some (x3 != endSymbol)) _) = some s0 ∧ _
    simp only [beq_iff_eq, hne, if_false, hgl, Option.bind_some, bne_iff_ne, ne_eq, hlast, not_false_eq_true, if_true]
    exact ⟨_, rfl, ⟨rfl, Nat.le_refl _, rfl, rfl⟩, rfl, rfl⟩

/-- `Parse()` with memoisation disabled: reset, then the start rule function — end position and the token stream
`Execute()` will see are those of `Peg.run` -/
theorem RG_parse_nomemo (g : Grammar) (n : Num) (hw : Num.WF n) (input : Array Char) (hn : input.size + 1 < 4294967296)
    (f : Nat) (start : String) (hb : adds g f (.rule start) input 0 < 4294967296) :
    (∀ p' toks, run g f (.rule start) input 0 = .ok p' toks →
      ∃ s', parseGo g n f start input true = (.ok, s') ∧ s'.position = p' ∧ stream n s' = toks) ∧
    (run g f (.rule start) input 0 = .fail →
      ∃ s', parseGo g n f start input true = (.fail, s') ∧ s'.position = 0 ∧ s'.tokenIndex = 0) := by
  obtain ⟨s0, h0, hg, hp0, ht0⟩ := RG_reset_good input
  unfold parseGo
  rw [h0]
  constructor
  · intro p' toks hr
    obtain ⟨s', h1, h2, _, _, _, h6⟩ := RG_run_ok g n hw input hn f (.rule start) s0 hg (by omega) (by rw [hp0, ht0]; omega) p' toks
      (by rw [hp0]; exact hr)
    refine ⟨s', h1, h2, ?_⟩
    rw [ht0, List.drop_zero] at h6
    exact h6
  · intro hr
    obtain ⟨s', h1, h2, h3, _, _⟩ := RG_rule_fail_restores g n hw input hn f start s0 hg (by omega) (by rw [hp0, ht0]; omega)
      (by rw [hp0]; exact hr)
    exact ⟨s', h1, by rw [h2, hp0], by rw [h3, ht0]⟩

/-! ## The parser of jsonpath.peg.go -/

theorem RG_goNum_wf : Num.WF goNum := by
  refine ⟨by decide +kernel, ?_⟩
  intro name
  show (if _ < goNum.a0 then _ else 0) < goNum.a0
  split
  · assumption
  · decide +kernel

/-- the numbering agrees with `rul3s`: `goNum.act i` is the index of "Action<i>", `goNum.text` that of "PegText" -/
theorem RG_goNum_names : (List.range 46).all (fun i => Gen.goRuleNames[goNum.act i - 1]? == some ("Action" ++ toString i)) = true
    ∧ Gen.goRuleNames[goNum.text - 1]? = some "PegText"
    ∧ (Gen.goGrammar.map (fun r => goNum.rule r.1)).all (fun k => decide (0 < k)) = true
    ∧ (Gen.goGrammar.map (fun r => goNum.rule r.1)).Nodup := by
  decide +kernel

/-- the decompiled rule functions on the regenerated runtime, memoisation disabled, compute `Peg.run Gen.goGrammar` -/
theorem RG_go_parse_nomemo (input : Array Char) (hn : input.size + 1 < 4294967296) (f : Nat)
    (hb : adds Gen.goGrammar f (.rule "expression") input 0 < 4294967296) (p' : Nat) (toks : List Peg.Tok)
    (hr : run Gen.goGrammar f (.rule "expression") input 0 = .ok p' toks) :
    ∃ s', parseGoRules f input true = (.ok, s') ∧ s'.position = p' ∧ stream goNum s' = toks :=
  (RG_parse_nomemo Gen.goGrammar goNum RG_goNum_wf input hn f "expression" hb).1 p' toks hr

/-- hypotheses satisfiable, conclusion observed: `$.a[1]`, memo off and memo ON give the stream of `Peg.run` -/
def exInput : Array Char := "$.a[1]".toList.toArray
example : exInput.size + 1 < 4294967296 ∧ adds Gen.goGrammar 60 (.rule "expression") exInput 0 < 4294967296 := by
  decide +kernel
example : (match run Gen.goGrammar 60 (.rule "expression") exInput 0, parseGoRules 60 exInput true, parseGoRules 60 exInput false with
    | .ok p t, (.ok, s1), (.ok, s2) => p == 6 && s1.position == 6 && stream goNum s1 == t && s2.position == 6 && stream goNum s2 == t
        && !t.isEmpty && !s2.memo.isEmpty
    | _, _, _ => false) = true := by
  decide +kernel

/-! ## Memo ON -/

/-- the rule names an expression refers to -/
def refs : PE → List String
  | .rule name => [name]
  | .seq a b | .alt a b => refs a ++ refs b
  | .star a | .plus a | .opt a | .not a | .and a | .cap a => refs a
  | _ => []

/-- every referenced rule has a body, table rules have distinct non-zero numbers (so the keys `rule − 1` are distinct) -/
def Closed (g : Grammar) (n : Num) : Prop :=
  (∀ r ∈ g, ∀ name ∈ refs r.2, name ∈ g.map Prod.fst) ∧
  (∀ a ∈ g.map Prod.fst, 0 < n.rule a) ∧
  (∀ a ∈ g.map Prod.fst, ∀ b ∈ g.map Prod.fst, n.rule a = n.rule b → a = b)

/-- THE FULL STATEMENT WITH MEMOISATION ENABLED — NOT PROVED (kept visible; see the header for what is missing):
from the `reset` state, with the table in use, `Parse()` on the rule functions ends where `Peg.run` ends with the token
stream of `Peg.run`. Evidence meanwhile: the `gorun` comparison of C17 (memo ON, every generated string) and the
`example` above. -/
def RG_memo_full : Prop :=
  ∀ (g : Grammar) (n : Num), Num.WF n → Closed g n →
  ∀ (input : Array Char), input.size + 1 < 4294967296 →
  ∀ (f : Nat) (start : String), start ∈ g.map Prod.fst → adds g f (.rule start) input 0 < 4294967296 →
  ∀ (p' : Nat) (toks : List Peg.Tok), run g f (.rule start) input 0 = .ok p' toks →
    ∃ s', parseGo g n f start input false = (.ok, s') ∧ s'.position = p' ∧ stream n s' = toks

/-- ONE STEP, success: what the success tail of a rule function (`add(rule, position0); memoize(N, position0,
tokenIndex0, true)`) stores is replayed by any later hit (`memoizedResult`) — in ANY state whose table still answers the
key alike, at whatever tokenIndex — as: outcome ok, the same exit position, the same token segment appended at the
current tokenIndex, tokens below untouched, table unchanged. -/
theorem RG_memo_store_replay_ok_partial (rule p0 t0 : Nat) (s1 : RT) (hd : s1.disableMemoize = false)
    (h0 : t0 ≤ s1.tokenIndex) (hi : Inv s1) (hb : s1.tokenIndex + 1 < 4294967296) :
    ∃ s3, ruleOk rule p0 t0 s1 = (.ok, s3) ∧ s3.position = s1.position ∧ s3.tokenIndex = s1.tokenIndex + 1 ∧
      ∀ s' : RT, lookup s'.memo (rule - 1, p0) = lookup s3.memo (rule - 1, p0) → Inv s' →
        s'.tokenIndex + (seg t0 s3).length < 4294967296 →
        ∃ m s'', lookup s'.memo (rule - 1, p0) = some m ∧ replay m s' = (.ok, s'') ∧ s''.position = s3.position ∧
          seg s'.tokenIndex s'' = seg t0 s3 ∧ s''.tree.take s'.tokenIndex = s'.tree.take s'.tokenIndex ∧
          s''.memo = s'.memo := by
  obtain ⟨s2, s3, ha, hm, hne, hlast, hlk⟩ := PR_add_memo_position rule p0 (rule - 1) p0 t0 s1 hd h0 hi hb
  obtain ⟨s2', ha', _, _, _, hti, _, hpos, _, _⟩ := PR_add rule p0 s1 hi hb
  rw [ha] at ha'; cases ha'
  obtain ⟨m1, m2, m3, _, _⟩ := PR_memoize_only_memo _ _ _ _ _ _ hm
  have hseg : seg t0 s3 = segment s2 t0 := by unfold seg segment; rw [m1, m2]
  refine ⟨s3, by simp only [ruleOk, ha, hm], by rw [m3, hpos], by rw [m2, hti], ?_⟩
  intro s' hl hi' hb'
  rw [hseg] at hb' ⊢
  obtain ⟨mx, hr⟩ := PR_memoizedResult_true (segment s2 t0) hne s' hi' hb'
  have hlen : (List.take s'.tokenIndex s'.tree).length = s'.tokenIndex := by
    rw [List.length_take]; exact Nat.min_eq_left hi'
  have hrp : ∃ s'', replay ⟨true, segment s2 t0⟩ s' = (.ok, s'') ∧ memoizedResult ⟨true, segment s2 t0⟩ s' = some (true, s'') :=
    ⟨_, by simp only [replay, hr], hr⟩
  obtain ⟨s'', hrp1, hrp2⟩ := hrp
  rw [hr] at hrp2
  have hs'' := (Prod.mk.inj (Option.some.inj hrp2)).2
  subst hs''
  refine ⟨⟨true, segment s2 t0⟩, _, by rw [hl, hlk], hrp1, ?_, ?_, ?_, rfl⟩
  · show ((segment s2 t0).getLast hne).e = s3.position
    rw [hlast, m3, hpos]
  · show ((List.take s'.tokenIndex s'.tree ++ segment s2 t0).take (s'.tokenIndex + (segment s2 t0).length)).drop s'.tokenIndex = _
    rw [List.take_of_length_le (by simp [hlen]), List.drop_left' hlen]
  · show (List.take s'.tokenIndex s'.tree ++ segment s2 t0).take s'.tokenIndex = _
    rw [List.take_append_of_le_length (by omega), List.take_of_length_le (by omega)]

/-- ONE STEP, failure: the failure label of a rule function stores a failure and restores the pair; any later hit
reports failure and leaves the state unchanged. -/
theorem RG_memo_store_replay_fail_partial (rule p0 t0 : Nat) (s1 : RT) (hd : s1.disableMemoize = false) :
    ∃ s3, ruleFail rule p0 t0 s1 = (.fail, s3) ∧ s3.position = p0 ∧ s3.tokenIndex = t0 ∧ s3.tree = s1.tree ∧
      ∀ s' : RT, lookup s'.memo (rule - 1, p0) = lookup s3.memo (rule - 1, p0) →
        ∃ m, lookup s'.memo (rule - 1, p0) = some m ∧ replay m s' = (.fail, s') := by
  obtain ⟨s2, hm, h1, _, _, _, hx⟩ := PR_memo_roundtrip_false (rule - 1) p0 t0 s1 hd
  refine ⟨restore p0 t0 s2, by simp only [ruleFail, hm], rfl, rfl, h1, ?_⟩
  intro s' hl
  obtain ⟨m, e1, e2⟩ := hx s' hl
  exact ⟨m, e1, by simp only [replay, e2]⟩

/-- a MISS changes nothing: the rule function then runs its body and its success / failure tail -/
theorem RG_memo_miss (g : Grammar) (n : Num) (f : Nat) (name : String) (s s1 : RT)
    (h : lookup s.memo (n.rule name - 1, s.position) = none) :
    (runGo g n f (ruleBody g name) s = (.ok, s1) →
      runGo g n (f + 1) (.rule name) s = ruleOk (n.rule name) s.position s.tokenIndex s1) ∧
    (runGo g n f (ruleBody g name) s = (.fail, s1) →
      runGo g n (f + 1) (.rule name) s = ruleFail (n.rule name) s.position s.tokenIndex s1) := by
  constructor <;> intro e1 <;> simp only [runGo, h, e1]

/-
Sensitivity (2026-09-27, scratch worktree of /repo, translate tool with `-repo <worktree> -out <scratch>`, the chain
RuntimeModel → Gen/PegRuntimeGo → Props/PegRuntimeGen → RunGo → Lemmas/RunGoBase → this file compiled in a scratch root):
  S1  memoize: the guard `if p.disableMemoize { return }` removed   pegruntime translates (pegrules refuses: pinned text);
      (the table is then filled although memoisation is "off")      PR_memoize_disabled fails, and with it this file: `sim_rule`
                                                                    / `RG_rule_fail_restores` need exactly that law. The statement
                                                                    itself also becomes false as proved (Good.nomemo is not kept).
  The proofs here use the runtime ONLY through PR_add_eq, PR_matchDot, PR_memoize_disabled, PR_memoizedResult_true,
  PR_add_memo_position, PR_add, PR_memoize_only_memo, PR_memo_roundtrip_false (+ `reset` unfolded in RG_reset_good), and
  Lemmas/RunGoBase imports Props/PegRuntimeGen as a whole: every edit L29 lists as breaking a PR_* theorem (T1, T2, T4–T9)
  stops this file from compiling as well. I found NO edit of the five closures that keeps all PR_* laws and breaks the
  composition with memo off: `runGo` touches the state only through those closures plus `buffer[position]`, `position++`
  and the restore assignment, which belong to the rule-function template checked by `pegrules`. Not tried for lack of
  time: T4 (reset keeps the table) against `RG_memo_full` — it matters only for a SECOND Parse on the same parser,
  which `parseGo` (fresh `initRT`) does not model.
-/

-- OBLIGATIONS: RG_sim RG_run_ok RG_run_fail RG_rule_fail_restores RG_reset_good RG_parse_nomemo RG_goNum_wf
--   RG_goNum_names RG_go_parse_nomemo RG_memo_store_replay_ok_partial RG_memo_store_replay_fail_partial RG_memo_miss

end RunGoGen
end JPV
