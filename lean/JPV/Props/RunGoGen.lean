import JPV.Lemmas.RunGoSim
import JPV.Lemmas.RunGoMemo
import JPV.Peg.RunGoNum
/-!
# The COMPOSITION: rule functions executed on the regenerated runtime compute `Peg.run` (worker L30)

`Peg/RunGo.lean` defines `runGo`: a parsing expression executed with the templates of the generated Go code over the
runtime state `RT`, calling the REGENERATED closures `add / memoize / memoizedResult / matchDot / reset` of
Gen/PegRuntimeGo.lean. This file proves that `runGo` computes `Peg.run` — for EVERY grammar and numbering, hence for
`Gen.goGrammar` (the decompiled rule functions, `PegGo_equiv`: equivalent to the grammar).

  * memo OFF (`disableMemoize = true`, table empty): `RG_sim`, `RG_run_ok`, `RG_run_fail`, `RG_rule_fail_restores`,
    `RG_parse_nomemo`, `RG_go_parse_nomemo`.
  * memo ON (the table in use, as `Parse` runs): `RG_sim_memo`, `RG_run_ok_memo`, `RG_run_fail_memo` from ANY state whose
    table is right, `RG_memo_full_holds : RG_memo_full` and `RG_parse_memo_fail` from the `reset` state, `RG_go_parse_memo`
    for `Gen.goGrammar` / `goNum` (`RG_go_closed`). Invariant (Lemmas/RunGoMemo, `MOn`/`Entry`): every stored entry under
    (k, pos) is what `run` answers, with SOME fuel, for the rule numbered k + 1 at pos — for a success the exit position is
    the end of the last stored token, the stored tokens restricted to PegText/Action kinds are `run`'s token list, and
    there are at most `adds + 1` of them (so the uint32 bound covers a replay). Entries stored with less fuel stay valid
    (`run_det`, Lemmas/RunGoMono: `run` and `adds` do not change with more fuel once the answer is not `outOfFuel`);
    entries are position-absolute, so they survive the restores of failed alternatives (the table is never restored);
    `max` is not in any statement. The one proof is shared: `simG` (Lemmas/RunGoSim) is generic in the memo part of the
    invariant, only the rule-function template (`RuleStep`: `ruleStep_off` here, `ruleStep_on` in Lemmas/RunGoMemo) differs.
    Grammars must be `Closed`: an undefined rule name gets number 0 and key 0 − 1 = 0 would collide with `expression`.
  * `RG_named_token_invisible`: a token of a named rule (number below `ruleAction0`) anywhere in the tree does not
    change the stream `Execute()` sees — the `add(rule<X>, …)` of INLINED named rules, which `runGo` does not perform
    because the decompiled `PE` has no marker for them, cannot change any conclusion about `stream`.

Hypotheses (all explicit): `Good` = buffer is the runes of the input followed by the end symbol (no rune equals it:
`runes_lt`, because a `Char` is below 1114112), `tokenIndex ≤ len(tree)`, memo off and table empty;
`input.size + 1 < 2^32` and `tokenIndex + adds … < 2^32` keep the uint32 arithmetic exact, where `adds` (Lemmas/RunGoBase)
counts on the SPEC side the `add` calls of the templates. Satisfiable: `RG_reset_good`, the `example`s at the end.

Sensitivity trials: see the comment block at the end.
-/
set_option linter.unusedVariables false
namespace JPV
namespace RunGoGen
open JPV.Peg JPV.Peg.Runtime JPV.Gen.PegRuntime JPV.Peg.RunGo JPV.PegRuntimeGen


/-- the rule-function template with memoisation off: every lookup misses, `memoize` does nothing -/
theorem ruleStep_off {g : Grammar} {n : Num} {input : Array Char} (hw : Num.WF n) :
    RuleStep MOff (fun _ => True) g n input := by
  intro f ih name s _ hg hp hb

  simp only [adds] at hb
  have iha := ih (ruleBody g name) s trivial hg hp (by omega)
  have hlk : lookup s.memo (n.rule name - 1, s.position) = none := by rw [hg.mem.2]; rfl
  cases ha : run g f (ruleBody g name) input s.position with
  | outOfFuel => simp [run, ha]
  | fail =>
    obtain ⟨s1, e1, post1⟩ := iha.2 ha
    refine ⟨by simp [run, ha], fun _ => ⟨restore s.position s.tokenIndex s1, ?_, post1.restore _⟩⟩
    simp only [runGo, hlk, e1, ruleFail, PR_memoize_disabled _ _ _ _ s1 post1.good.mem.1]
  | ok p1 t1 =>
    obtain ⟨s1, e1, hp1, hle1, post1, k1⟩ := iha.1 p1 t1 ha
    subst hp1
    obtain ⟨s2, ea, post2, hp2, hseg⟩ := add_post (M := MOff) (input := input) (n.rule name) s.position post1.good (by have := post1.hi; omega)
    refine ⟨?_, by simp [run, ha]⟩
    intro p' toks hr
    simp only [run, ha, Result.ok.injEq] at hr
    obtain ⟨rfl, rfl⟩ := hr
    refine ⟨s2, ?_, hp2, hle1, by simp only [adds]; exact (post1.trans post2).1, ?_⟩
    · simp only [runGo, hlk, e1, ruleOk, ea, PR_memoize_disabled _ _ _ _ s2 post2.good.mem.1]
    · rw [(post1.trans post2).2, kinds_append, k1, hseg, kinds_rule n hw, List.append_nil]

theorem scope_true (g : Grammar) : Scope g (fun _ => True) :=
  ⟨fun _ => ⟨trivial, trivial⟩, fun _ => ⟨trivial, trivial⟩, fun _ => trivial, fun _ => ⟨trivial, trivial⟩,
   fun _ => trivial, fun _ => trivial, fun _ => trivial, fun _ => trivial, fun _ => trivial⟩

/-- SIMULATION, memo off, every expression -/
theorem RG_sim (g : Grammar) (n : Num) (hw : Num.WF n) (input : Array Char) (hn : input.size + 1 < 4294967296) :
    ∀ f, Sim MOff (fun _ => True) g n input f :=
  simG hw hn (scope_true g) (ruleStep_off hw)

/-! ## Public statements -/

/-- success: same end position, the tokens added above the entry tokenIndex are — restricted to the PegText/Action
kinds — the token list of `Peg.run`; tokens below the entry tokenIndex are untouched; the invariant is kept -/
theorem RG_run_ok (g : Grammar) (n : Num) (hw : Num.WF n) (input : Array Char) (hn : input.size + 1 < 4294967296)
    (f : Nat) (e : PE) (s : RT) (hg : Good MOff input s) (hp : s.position ≤ input.size)
    (hb : s.tokenIndex + adds g f e input s.position < 4294967296) (p' : Nat) (toks : List Peg.Tok)
    (hr : run g f e input s.position = .ok p' toks) :
    ∃ s', runGo g n f e s = (.ok, s') ∧ s'.position = p' ∧ Good MOff input s' ∧
      s'.tree.take s.tokenIndex = s.tree.take s.tokenIndex ∧ s.tokenIndex ≤ s'.tokenIndex ∧
      n.kinds ((s'.tree.take s'.tokenIndex).drop s.tokenIndex) = toks := by
  obtain ⟨s', h1, h2, _, h4, h5⟩ := (RG_sim g n hw input hn f e s trivial hg hp hb).1 p' toks hr
  exact ⟨s', h1, h2, h4.good, h4.pre, h4.lo, h5⟩

/-- failure: `runGo` fails too (jumps to the enclosing failure label); tokens below the entry tokenIndex are untouched
and the pair the enclosing construct restores gives a good state again -/
theorem RG_run_fail (g : Grammar) (n : Num) (hw : Num.WF n) (input : Array Char) (hn : input.size + 1 < 4294967296)
    (f : Nat) (e : PE) (s : RT) (hg : Good MOff input s) (hp : s.position ≤ input.size)
    (hb : s.tokenIndex + adds g f e input s.position < 4294967296)
    (hr : run g f e input s.position = .fail) :
    ∃ s', runGo g n f e s = (.fail, s') ∧ s'.tree.take s.tokenIndex = s.tree.take s.tokenIndex ∧
      Good MOff input (restore s.position s.tokenIndex s') := by
  obtain ⟨s', h1, h2⟩ := (RG_sim g n hw input hn f e s trivial hg hp hb).2 hr
  exact ⟨s', h1, h2.pre, (h2.restore 0).good⟩

/-- a failing RULE FUNCTION returns with position and tokenIndex restored -/
theorem RG_rule_fail_restores (g : Grammar) (n : Num) (hw : Num.WF n) (input : Array Char) (hn : input.size + 1 < 4294967296)
    (f : Nat) (name : String) (s : RT) (hg : Good MOff input s) (hp : s.position ≤ input.size)
    (hb : s.tokenIndex + adds g f (.rule name) input s.position < 4294967296)
    (hr : run g f (.rule name) input s.position = .fail) :
    ∃ s', runGo g n f (.rule name) s = (.fail, s') ∧ s'.position = s.position ∧ s'.tokenIndex = s.tokenIndex ∧
      Good MOff input s' ∧ s'.tree.take s.tokenIndex = s.tree.take s.tokenIndex := by
  cases f with
  | zero => simp [run] at hr
  | succ f =>
    simp only [adds] at hb
    simp only [run] at hr
    obtain ⟨s1, e1, post1⟩ := (RG_sim g n hw input hn f (ruleBody g name) s trivial hg hp (by omega)).2 hr
    have hlk : lookup s.memo (n.rule name - 1, s.position) = none := by rw [hg.mem.2]; rfl
    refine ⟨restore s.position s.tokenIndex s1, ?_, rfl, rfl, (post1.restore 0).good, (post1.restore 0).pre⟩
    simp only [runGo, hlk, e1, ruleFail, PR_memoize_disabled _ _ _ _ s1 post1.good.mem.1]

/-- `reset()` on the state `Init` builds, for either setting of the switch -/
theorem reset_init (input : Array Char) (d : Bool) :
    ∃ s0, reset (initRT input d) = some s0 ∧ s0.buffer = runes input ++ [endSymbol] ∧ s0.position = 0 ∧ s0.tokenIndex = 0 ∧
      s0.tree = [] ∧ s0.memo = [] ∧ s0.disableMemoize = d := by
  have hr : ∀ r ∈ runes input, r ≠ endSymbol := runes_lt input
  unfold reset initRT
  by_cases hB : runes input = []
  · have hB' : List.map Char.toNat input.toList = [] := hB
    simp only [hB']
    refine ⟨_, rfl, ?_, rfl, rfl, rfl, rfl, rfl⟩
    show _ = runes input ++ [endSymbol]
    rw [hB]
  · have hlast : (runes input).getLast hB ≠ endSymbol := hr _ (List.getLast_mem hB)
    have hne : ((runes input).length : Int) ≠ 0 := by
      have := List.length_pos_iff.mpr hB; omega
    have hgl := getAtI_last (runes input) hB
    show ∃ s0, (Option.bind (if ((runes input).length : Int) == 0 then some true
        else (getAtI (runes input) (((runes input).length : Int) - 1)).bind fun x3 => some (x3 != endSymbol)) _) = some s0 ∧ _
    simp only [beq_iff_eq, hne, if_false, hgl, Option.bind_some, bne_iff_ne, ne_eq, hlast, not_false_eq_true, if_true]
    exact ⟨_, rfl, rfl, rfl, rfl, rfl, rfl, rfl⟩

/-- `reset()` on the state `Init` builds: a good state at position 0, tokenIndex 0 -/
theorem RG_reset_good (input : Array Char) :
    ∃ s0, reset (initRT input true) = some s0 ∧ Good MOff input s0 ∧ s0.position = 0 ∧ s0.tokenIndex = 0 := by
  obtain ⟨s0, h0, hb, hp, ht, htr, hm, hd⟩ := reset_init input true
  exact ⟨s0, h0, ⟨hb, by rw [ht]; exact Nat.zero_le _, ⟨hd, hm⟩⟩, hp, ht⟩

/-- `Parse()` with memoisation disabled: reset, then the start rule function — end position and the token stream
`Execute()` will see are those of `Peg.run` -/
theorem RG_parse_nomemo (g : Grammar) (n : Num) (hw : Num.WF n) (input : Array Char) (hn : input.size + 1 < 4294967296)
    (f : Nat) (start : String) (hb : adds g f (.rule start) input 0 < 4294967296) :
    (∀ p' toks, run g f (.rule start) input 0 = .ok p' toks →
      ∃ s', parseGo g n f start input true = (.ok, s') ∧ s'.position = p' ∧ stream n s' = toks) ∧
    (run g f (.rule start) input 0 = .fail →
      ∃ s', parseGo g n f start input true = (.fail, s') ∧ s'.position = 0 ∧ s'.tokenIndex = 0) := by
  obtain ⟨s0, h0, hg, hp0, ht0⟩ := RG_reset_good input
  unfold parseGo
  rw [h0]
  constructor
  · intro p' toks hr
    obtain ⟨s', h1, h2, _, _, _, h6⟩ := RG_run_ok g n hw input hn f (.rule start) s0 hg (by omega) (by rw [hp0, ht0]; omega) p' toks
      (by rw [hp0]; exact hr)
    refine ⟨s', h1, h2, ?_⟩
    rw [ht0, List.drop_zero] at h6
    exact h6
  · intro hr
    obtain ⟨s', h1, h2, h3, _, _⟩ := RG_rule_fail_restores g n hw input hn f start s0 hg (by omega) (by rw [hp0, ht0]; omega)
      (by rw [hp0]; exact hr)
    exact ⟨s', h1, by rw [h2, hp0], by rw [h3, ht0]⟩

/-! ## The parser of jsonpath.peg.go -/

theorem RG_goNum_wf : Num.WF goNum := by
  refine ⟨by decide +kernel, ?_⟩
  intro name
  show (if _ < goNum.a0 then _ else 0) < goNum.a0
  split
  · assumption
  · decide +kernel

/-- the numbering agrees with `rul3s`: `goNum.act i` is the index of "Action<i>", `goNum.text` that of "PegText" -/
theorem RG_goNum_names : (List.range 46).all (fun i => Gen.goRuleNames[goNum.act i - 1]? == some ("Action" ++ toString i)) = true
    ∧ Gen.goRuleNames[goNum.text - 1]? = some "PegText"
    ∧ (Gen.goGrammar.map (fun r => goNum.rule r.1)).all (fun k => decide (0 < k)) = true
    ∧ (Gen.goGrammar.map (fun r => goNum.rule r.1)).Nodup := by
  decide +kernel

/-- the decompiled rule functions on the regenerated runtime, memoisation disabled, compute `Peg.run Gen.goGrammar` -/
theorem RG_go_parse_nomemo (input : Array Char) (hn : input.size + 1 < 4294967296) (f : Nat)
    (hb : adds Gen.goGrammar f (.rule "expression") input 0 < 4294967296) (p' : Nat) (toks : List Peg.Tok)
    (hr : run Gen.goGrammar f (.rule "expression") input 0 = .ok p' toks) :
    ∃ s', parseGoRules f input true = (.ok, s') ∧ s'.position = p' ∧ stream goNum s' = toks :=
  (RG_parse_nomemo Gen.goGrammar goNum RG_goNum_wf input hn f "expression" hb).1 p' toks hr

/-- hypotheses satisfiable, conclusion observed: `$.a[1]`, memo off and memo ON give the stream of `Peg.run` -/
def exInput : Array Char := "$.a[1]".toList.toArray
example : exInput.size + 1 < 4294967296 ∧ adds Gen.goGrammar 60 (.rule "expression") exInput 0 < 4294967296 := by
  decide +kernel
example : (match run Gen.goGrammar 60 (.rule "expression") exInput 0, parseGoRules 60 exInput true, parseGoRules 60 exInput false with
    | .ok p t, (.ok, s1), (.ok, s2) => p == 6 && s1.position == 6 && stream goNum s1 == t && s2.position == 6 && stream goNum s2 == t
        && !t.isEmpty && !s2.memo.isEmpty
    | _, _, _ => false) = true := by
  decide +kernel

/-! ## Memo ON -/

/-- THE FULL STATEMENT WITH MEMOISATION ENABLED (proved below: `RG_memo_full_holds`): from the `reset` state, with the
table in use, `Parse()` on the rule functions ends where `Peg.run` ends with the token stream of `Peg.run`, for every
grammar that is `Closed` (Lemmas/RunGoMemo: every rule reference has a body; table rules have distinct non-zero numbers). -/
def RG_memo_full : Prop :=
  ∀ (g : Grammar) (n : Num), Num.WF n → Closed g n →
  ∀ (input : Array Char), input.size + 1 < 4294967296 →
  ∀ (f : Nat) (start : String), start ∈ g.map Prod.fst → adds g f (.rule start) input 0 < 4294967296 →
  ∀ (p' : Nat) (toks : List Peg.Tok), run g f (.rule start) input 0 = .ok p' toks →
    ∃ s', parseGo g n f start input false = (.ok, s') ∧ s'.position = p' ∧ stream n s' = toks

/-- SIMULATION, memo ON: from any state whose table is right (`MOn`), on expressions whose references have bodies -/
theorem RG_sim_memo (g : Grammar) (n : Num) (hw : Num.WF n) (hc : Closed g n) (input : Array Char)
    (hn : input.size + 1 < 4294967296) : ∀ f, Sim (MOn g n input) (WIn g) g n input f :=
  simG hw hn (scope_in g n hc) (ruleStep_on hw hc)

/-- memo ON, any good state (table right, possibly non-empty), any expression in scope: success -/
theorem RG_run_ok_memo (g : Grammar) (n : Num) (hw : Num.WF n) (hc : Closed g n) (input : Array Char)
    (hn : input.size + 1 < 4294967296) (f : Nat) (e : PE) (he : WIn g e) (s : RT) (hg : Good (MOn g n input) input s)
    (hp : s.position ≤ input.size) (hb : s.tokenIndex + adds g f e input s.position < 4294967296) (p' : Nat)
    (toks : List Peg.Tok) (hr : run g f e input s.position = .ok p' toks) :
    ∃ s', runGo g n f e s = (.ok, s') ∧ s'.position = p' ∧ Good (MOn g n input) input s' ∧
      s'.tree.take s.tokenIndex = s.tree.take s.tokenIndex ∧ s.tokenIndex ≤ s'.tokenIndex ∧
      n.kinds ((s'.tree.take s'.tokenIndex).drop s.tokenIndex) = toks := by
  obtain ⟨s', h1, h2, _, h4, h5⟩ := (RG_sim_memo g n hw hc input hn f e s he hg hp hb).1 p' toks hr
  exact ⟨s', h1, h2, h4.good, h4.pre, h4.lo, h5⟩

/-- memo ON: failure -/
theorem RG_run_fail_memo (g : Grammar) (n : Num) (hw : Num.WF n) (hc : Closed g n) (input : Array Char)
    (hn : input.size + 1 < 4294967296) (f : Nat) (e : PE) (he : WIn g e) (s : RT) (hg : Good (MOn g n input) input s)
    (hp : s.position ≤ input.size) (hb : s.tokenIndex + adds g f e input s.position < 4294967296)
    (hr : run g f e input s.position = .fail) :
    ∃ s', runGo g n f e s = (.fail, s') ∧ s'.tree.take s.tokenIndex = s.tree.take s.tokenIndex ∧
      Good (MOn g n input) input (restore s.position s.tokenIndex s') := by
  obtain ⟨s', h1, h2⟩ := (RG_sim_memo g n hw hc input hn f e s he hg hp hb).2 hr
  exact ⟨s', h1, h2.pre, (h2.restore 0).good⟩

/-- `reset()` with memoisation enabled gives a good state: the table is empty, hence right -/
theorem RG_reset_good_memo (g : Grammar) (n : Num) (input : Array Char) :
    ∃ s0, reset (initRT input false) = some s0 ∧ Good (MOn g n input) input s0 ∧ s0.position = 0 ∧ s0.tokenIndex = 0 := by
  obtain ⟨s0, h0, hb, hp, ht, htr, hm, hd⟩ := reset_init input false
  refine ⟨s0, h0, ⟨hb, by rw [ht]; exact Nat.zero_le _, ⟨hd, ?_⟩⟩, hp, ht⟩
  intro k pos m hl
  rw [hm] at hl
  cases hl

/-- THE COMPOSITION WITH THE MEMO TABLE IN USE -/
theorem RG_memo_full_holds : RG_memo_full := by
  intro g n hw hc input hn f start hst hb p' toks hr
  obtain ⟨s0, h0, hg, hp0, ht0⟩ := RG_reset_good_memo g n input
  have he : WIn g (.rule start) := by
    intro nm hm
    simp only [refs, List.mem_singleton] at hm
    rw [hm]; exact hst
  unfold parseGo
  rw [h0]
  obtain ⟨s', h1, h2, _, _, _, h6⟩ := RG_run_ok_memo g n hw hc input hn f (.rule start) he s0 hg (by omega)
    (by rw [hp0, ht0]; omega) p' toks (by rw [hp0]; exact hr)
  refine ⟨s', h1, h2, ?_⟩
  rw [ht0, List.drop_zero] at h6
  exact h6

/-- a failing `Parse()` with the table in use ends with position and tokenIndex restored -/
theorem RG_parse_memo_fail (g : Grammar) (n : Num) (hw : Num.WF n) (hc : Closed g n) (input : Array Char)
    (hn : input.size + 1 < 4294967296) (f : Nat) (start : String) (hst : start ∈ g.map Prod.fst)
    (hb : adds g f (.rule start) input 0 < 4294967296) (hr : run g f (.rule start) input 0 = .fail) :
    ∃ s', parseGo g n f start input false = (.fail, s') ∧ s'.position = 0 ∧ s'.tokenIndex = 0 := by
  obtain ⟨s0, h0, hg, hp0, ht0⟩ := RG_reset_good_memo g n input
  obtain ⟨_, _, _, _, _, _, hm, _⟩ := reset_init input false
  have hm0 : s0.memo = [] := by
    obtain ⟨s0', h0', _, _, _, _, hm', _⟩ := reset_init input false
    rw [h0] at h0'; cases h0'; exact hm'
  have he : WIn g (.rule start) := by
    intro nm hm
    simp only [refs, List.mem_singleton] at hm
    rw [hm]; exact hst
  unfold parseGo
  rw [h0]
  cases f with
  | zero => simp [run] at hr
  | succ f =>
    rw [adds_rule] at hb
    have hr' : run g f (ruleBody g start) input s0.position = .fail := by rw [hp0]; exact hr
    obtain ⟨s1, e1, post1⟩ := (RG_sim_memo g n hw hc input hn f (ruleBody g start) s0 ((scope_in g n hc).rule he) hg (by omega)
      (by rw [hp0, ht0]; omega)).2 hr'
    have hlk : lookup s0.memo (n.rule start - 1, s0.position) = none := by rw [hm0]; rfl
    have hmz := PR_memoize_false (n.rule start - 1) s0.position s0.tokenIndex s1 post1.good.mem.1
    exact ⟨restore s0.position s0.tokenIndex { s1 with memo := store s1.memo (n.rule start - 1, s0.position) ⟨false, []⟩ },
      by simp only [runGo, hlk, e1, ruleFail, hmz], hp0, ht0⟩

/-- ONE STEP, success: what the success tail of a rule function (`add(rule, position0); memoize(N, position0,
tokenIndex0, true)`) stores is replayed by any later hit (`memoizedResult`) — in ANY state whose table still answers the
key alike, at whatever tokenIndex — as: outcome ok, the same exit position, the same token segment appended at the
current tokenIndex, tokens below untouched, table unchanged. -/
theorem RG_memo_store_replay_ok_partial (rule p0 t0 : Nat) (s1 : RT) (hd : s1.disableMemoize = false)
    (h0 : t0 ≤ s1.tokenIndex) (hi : Inv s1) (hb : s1.tokenIndex + 1 < 4294967296) :
    ∃ s3, ruleOk rule p0 t0 s1 = (.ok, s3) ∧ s3.position = s1.position ∧ s3.tokenIndex = s1.tokenIndex + 1 ∧
      ∀ s' : RT, lookup s'.memo (rule - 1, p0) = lookup s3.memo (rule - 1, p0) → Inv s' →
        s'.tokenIndex + (seg t0 s3).length < 4294967296 →
        ∃ m s'', lookup s'.memo (rule - 1, p0) = some m ∧ replay m s' = (.ok, s'') ∧ s''.position = s3.position ∧
          seg s'.tokenIndex s'' = seg t0 s3 ∧ s''.tree.take s'.tokenIndex = s'.tree.take s'.tokenIndex ∧
          s''.memo = s'.memo := by
  obtain ⟨s2, s3, ha, hm, hne, hlast, hlk⟩ := PR_add_memo_position rule p0 (rule - 1) p0 t0 s1 hd h0 hi hb
  obtain ⟨s2', ha', _, _, _, hti, _, hpos, _, _⟩ := PR_add rule p0 s1 hi hb
  rw [ha] at ha'; cases ha'
  obtain ⟨m1, m2, m3, _, _⟩ := PR_memoize_only_memo _ _ _ _ _ _ hm
  have hseg : seg t0 s3 = segment s2 t0 := by unfold seg segment; rw [m1, m2]
  refine ⟨s3, by simp only [ruleOk, ha, hm], by rw [m3, hpos], by rw [m2, hti], ?_⟩
  intro s' hl hi' hb'
  rw [hseg] at hb' ⊢
  obtain ⟨mx, hr⟩ := PR_memoizedResult_true (segment s2 t0) hne s' hi' hb'
  have hlen : (List.take s'.tokenIndex s'.tree).length = s'.tokenIndex := by
    rw [List.length_take]; exact Nat.min_eq_left hi'
  have hrp : ∃ s'', replay ⟨true, segment s2 t0⟩ s' = (.ok, s'') ∧ memoizedResult ⟨true, segment s2 t0⟩ s' = some (true, s'') :=
    ⟨_, by simp only [replay, hr], hr⟩
  obtain ⟨s'', hrp1, hrp2⟩ := hrp
  rw [hr] at hrp2
  have hs'' := (Prod.mk.inj (Option.some.inj hrp2)).2
  subst hs''
  refine ⟨⟨true, segment s2 t0⟩, _, by rw [hl, hlk], hrp1, ?_, ?_, ?_, rfl⟩
  · show ((segment s2 t0).getLast hne).e = s3.position
    rw [hlast, m3, hpos]
  · show ((List.take s'.tokenIndex s'.tree ++ segment s2 t0).take (s'.tokenIndex + (segment s2 t0).length)).drop s'.tokenIndex = _
    rw [List.take_of_length_le (by simp [hlen]), List.drop_left' hlen]
  · show (List.take s'.tokenIndex s'.tree ++ segment s2 t0).take s'.tokenIndex = _
    rw [List.take_append_of_le_length (by omega), List.take_of_length_le (by omega)]

/-- ONE STEP, failure: the failure label of a rule function stores a failure and restores the pair; any later hit
reports failure and leaves the state unchanged. -/
theorem RG_memo_store_replay_fail_partial (rule p0 t0 : Nat) (s1 : RT) (hd : s1.disableMemoize = false) :
    ∃ s3, ruleFail rule p0 t0 s1 = (.fail, s3) ∧ s3.position = p0 ∧ s3.tokenIndex = t0 ∧ s3.tree = s1.tree ∧
      ∀ s' : RT, lookup s'.memo (rule - 1, p0) = lookup s3.memo (rule - 1, p0) →
        ∃ m, lookup s'.memo (rule - 1, p0) = some m ∧ replay m s' = (.fail, s') := by
  obtain ⟨s2, hm, h1, _, _, _, hx⟩ := PR_memo_roundtrip_false (rule - 1) p0 t0 s1 hd
  refine ⟨restore p0 t0 s2, by simp only [ruleFail, hm], rfl, rfl, h1, ?_⟩
  intro s' hl
  obtain ⟨m, e1, e2⟩ := hx s' hl
  exact ⟨m, e1, by simp only [replay, e2]⟩

/-- a MISS changes nothing: the rule function then runs its body and its success / failure tail -/
theorem RG_memo_miss (g : Grammar) (n : Num) (f : Nat) (name : String) (s s1 : RT)
    (h : lookup s.memo (n.rule name - 1, s.position) = none) :
    (runGo g n f (ruleBody g name) s = (.ok, s1) →
      runGo g n (f + 1) (.rule name) s = ruleOk (n.rule name) s.position s.tokenIndex s1) ∧
    (runGo g n f (ruleBody g name) s = (.fail, s1) →
      runGo g n (f + 1) (.rule name) s = ruleFail (n.rule name) s.position s.tokenIndex s1) := by
  constructor <;> intro e1 <;> simp only [runGo, h, e1]

/-- tokens of named rules are invisible to `Execute()`: inserting one anywhere leaves the PegText/Action stream alone -/
theorem RG_named_token_invisible (n : Num) (hw : Num.WF n) (r b e : Nat) (hr : r < n.a0) (A B : List Runtime.Tok) :
    n.kinds (A ++ [⟨r, b, e⟩] ++ B) = n.kinds (A ++ B) := by
  have := hw.lt
  have h1 : r ≠ n.text := by omega
  have h2 : r ≠ n.a0 := by omega
  have h3 : ¬ (n.text < r) := by omega
  have : n.kinds [⟨r, b, e⟩] = [] := by simp [Num.kinds, Num.kind, h1, h2, h3]
  rw [kinds_append, kinds_append, this, List.append_nil, kinds_append]

/-- the grammar decompiled from jsonpath.peg.go is closed and its 27 table rules have distinct non-zero numbers -/
theorem RG_go_closed : Closed Gen.goGrammar goNum := by
  refine ⟨by decide +kernel, by decide +kernel, by decide +kernel⟩

/-- THE PARSER OF jsonpath.peg.go, memoisation enabled (as `Parse` runs it): the decompiled rule functions on the
regenerated runtime, from the `reset` state, compute `Peg.run Gen.goGrammar` -/
theorem RG_go_parse_memo (input : Array Char) (hn : input.size + 1 < 4294967296) (f : Nat)
    (hb : adds Gen.goGrammar f (.rule "expression") input 0 < 4294967296) (p' : Nat) (toks : List Peg.Tok)
    (hr : run Gen.goGrammar f (.rule "expression") input 0 = .ok p' toks) :
    ∃ s', parseGoRules f input false = (.ok, s') ∧ s'.position = p' ∧ stream goNum s' = toks :=
  RG_memo_full_holds Gen.goGrammar goNum RG_goNum_wf RG_go_closed input hn f "expression" (by decide +kernel) hb p' toks hr

/-
Sensitivity (2026-09-27, scratch worktree of /repo, translate tool with `-repo <worktree> -out <scratch>`, the chain
RuntimeModel → Gen/PegRuntimeGo → Props/PegRuntimeGen → RunGo → Lemmas/RunGoBase → this file compiled in a scratch root):
  S1  memoize: the guard `if p.disableMemoize { return }` removed   pegruntime translates (pegrules refuses: pinned text);
      (the table is then filled although memoisation is "off")      PR_memoize_disabled fails, and with it this file: `sim_rule`
                                                                    / `RG_rule_fail_restores` need exactly that law. The statement
                                                                    itself also becomes false as proved (Good.nomemo is not kept).
  The proofs here use the runtime ONLY through PR_add_eq, PR_matchDot, PR_memoize_disabled, PR_memoizedResult_true,
  PR_add_memo_position, PR_add, PR_memoize_only_memo, PR_memo_roundtrip_false (+ `reset` unfolded in RG_reset_good), and
  Lemmas/RunGoBase imports Props/PegRuntimeGen as a whole: every edit L29 lists as breaking a PR_* theorem (T1, T2, T4–T9)
  stops this file from compiling as well. I found NO edit of the five closures that keeps all PR_* laws and breaks the
  composition with memo off: `runGo` touches the state only through those closures plus `buffer[position]`, `position++`
  and the restore assignment, which belong to the rule-function template checked by `pegrules`. With memo ON the
  proofs use in addition PR_memoize_true/false, PR_memoizedResult_true/false, PR_lookup_store_same/other: L29's T1
  (position from the FIRST token), T5 (segment one short), T9 (tail kept) break `replay_true` / `ruleStep_on` through
  them. Executed as well (scratch build of RunGo/RunGoNum against the edited Gen/PegRuntimeGo, `#eval`):
  S2 = T1 memoizedResult: `position = m.Partial[0].end`             with the table in use the stream of `parseGoRules` differs from
                                                                    `Peg.run` on `$[?(@.a)]`, `$[?(@.a>1)]`, `$[?(@.a>@.b)]`, … (a
                                                                    multi-token success is replayed: jsonpathFilter under qParam);
                                                                    memo off stays equal; `$.a[1]`, `$[1:2]`, `$[?(1<@.a)]` do not
                                                                    show it (only one-token or failed entries are hit).
  T4 (reset keeps the table) matters only for a SECOND Parse on the same parser, which `parseGo` (fresh `initRT`,
  `reset_init` proves the table empty) does not model.
-/

-- OBLIGATIONS: RG_sim RG_run_ok RG_run_fail RG_rule_fail_restores RG_reset_good RG_parse_nomemo RG_goNum_wf
--   RG_goNum_names RG_go_parse_nomemo RG_memo_store_replay_ok_partial RG_memo_store_replay_fail_partial RG_memo_miss
--   RG_sim_memo RG_run_ok_memo RG_run_fail_memo RG_reset_good_memo RG_memo_full_holds RG_parse_memo_fail RG_go_closed
--   RG_go_parse_memo RG_named_token_invisible

end RunGoGen
end JPV
