/-
C11 — index and slice arithmetic.

"For every array length and every integer start, end and step (each possibly omitted, negative, zero or
as large as the integer type allows), `[start:end:step]` selects exactly the elements a Python slice with
those bounds selects, in that order (step 0 selects nothing), and `[n]` selects element n counted from the
front, or from the back when n is negative, or nothing when out of range. No combination panics, loops
or selects an index outside the array."

`Gen.SliceGo.*` is regenerated from /repo's syntax_subscript_{index,slice_positive_step,slice_negative_step,
wildcard}.go on every run (translator generator `slices`): Go `int` is `Int` with explicit 64-bit
wrap-around on every + and -, a panic is `.error`, a loop is a recursion on fuel. Every theorem below that
mentions `Gen.SliceGo` is therefore re-proved against what the code says now.

Bounds: each written number fits a Go `int` (`I64`), the array is shorter than 2^62 (`maxLen`; Go cannot
allocate a `[]interface{}` of 2^59 elements). Nothing else is assumed.
-/
import JPV.Lemmas.Slice

namespace JPV
namespace C11
open JPV.SliceLemmas

/-- **Slices.** For the subscript object the parser action builds from the written `[s:e:t]`
    (`Build.subI`: omitted step → 1, sign of the step picks the implementation, omitted bounds flagged),
    the regenerated Go code returns — without panic, within fuel `n + 2` — exactly Python's indices in
    Python's order. -/
theorem C11_slice_eq_python (s e t : Option Int) (n : Nat)
    (hs : I64opt s) (he : I64opt e) (ht : I64opt t) (hn : n < maxLen) :
    Gen.SliceGo.getIndexes (Build.subI (.slice s e t)) n
      = .ok ((pySlice s e t n).map (fun (i : Nat) => (i : Int))) := by
  rw [gen_eq_impl _ n (subInRange_subI s e t hs he ht) hn, impl_eq_py]

/-- the hypotheses are satisfiable at the edge of the integer type; this is the input of defect D5
    (`$[1::9223372036854775807]` on three elements), which now selects element 1 as Python does -/
example :
    Gen.SliceGo.getIndexes (Build.subI (.slice (some 1) none (some 9223372036854775807))) 3 = .ok [1] := by
  rw [C11_slice_eq_python _ _ _ 3 (by decide) (by decide) (by decide) (by decide)]; exact congrArg _ (by decide)

example :
    Gen.SliceGo.getIndexes (Build.subI (.slice none (some (-9223372036854775808)) (some (-2)))) 5
      = .ok [4, 2, 0] := by
  rw [C11_slice_eq_python _ _ _ 5 (by decide) (by decide) (by decide) (by decide)]; exact congrArg _ (by decide)

/-- **Step 0 selects nothing.** -/
theorem C11_step_zero (s e : Option Int) (n : Nat) (hs : I64opt s) (he : I64opt e) (hn : n < maxLen) :
    Gen.SliceGo.getIndexes (Build.subI (.slice s e (some 0))) n = .ok [] := by
  rw [C11_slice_eq_python s e (some 0) n hs he (by unfold I64opt I64; omega) hn, pySlice_zero]; rfl

example : Gen.SliceGo.getIndexes (Build.subI (.slice (some 1) (some 4) (some 0))) 6 = .ok [] :=
  C11_step_zero _ _ 6 (by decide) (by decide) (by decide)

/-- **Index.** `[k]` is Python's `xs[k]` without the exception -/
theorem C11_index (k : Int) (n : Nat) (hk : I64 k) (hn : n < maxLen) :
    Gen.SliceGo.getIndexes (.idx k) n = .ok ((pyIndex k n).map Int.ofNat) := by
  rw [gen_eq_impl (.idx k) n hk hn, impl_idx_eq_py]

example : Gen.SliceGo.getIndexes (.idx (-2)) 5 = .ok [3] := by
  rw [C11_index (-2) 5 (by decide) (by decide)]; exact congrArg _ (by decide)

example : Gen.SliceGo.getIndexes (.idx (-9223372036854775808)) 5 = .ok [] := by
  rw [C11_index _ 5 (by decide) (by decide)]; exact congrArg _ (by decide)

/-- **Wildcard.** `[*]` on an array is every index, ascending -/
theorem C11_wild (n : Nat) (hn : n < maxLen) :
    Gen.SliceGo.getIndexes .wild n = .ok ((List.range n).map Int.ofNat) := by
  rw [gen_eq_impl .wild n trivial hn]; rfl

example : Gen.SliceGo.getIndexes .wild 3 = .ok [0, 1, 2] := by
  rw [C11_wild 3 (by decide)]; exact congrArg _ (by decide)

/-- **The regenerated code is the hand-written model** the evaluator (`Impl.retrieve`) uses — for every
    subscript object with int64 fields, not only those the parser builds; in particular it never panics and
    never runs out of fuel. -/
theorem C11_gen_total (sub : SubI) (n : Nat) (hsub : SubInRange sub) (hn : n < maxLen) :
    Gen.SliceGo.getIndexes sub n = .ok (Impl.subIndexes sub n) :=
  gen_eq_impl sub n hsub hn

/-- the tie in the form the evaluator needs -/
theorem C11_gen_eq_impl (sub : SubI) (n : Nat) (r : List Int) (hsub : SubInRange sub) (hn : n < maxLen)
    (h : Gen.SliceGo.getIndexes sub n = .ok r) : Impl.subIndexes sub n = r := by
  rw [gen_eq_impl sub n hsub hn] at h
  exact Except.ok.inj h

example : SubInRange (.sliceNeg ⟨7, false⟩ ⟨0, true⟩ ⟨-9223372036854775808, false⟩) := by
  unfold SubInRange; decide

/-- **Every selected index is inside the array.** -/
theorem C11_in_range (sub : SubI) (n : Nat) (r : List Int) (hsub : SubInRange sub) (hn : n < maxLen)
    (h : Gen.SliceGo.getIndexes sub n = .ok r) : ∀ i ∈ r, 0 ≤ i ∧ i < n := by
  intro i hi
  rw [← C11_gen_eq_impl sub n r hsub hn h] at hi
  exact impl_mem_range sub n i hi

/-- the same on the Python side: `pySlice` never leaves the array (a sanity check of the specification) -/
theorem C11_py_in_range (s e t : Option Int) (n : Nat) : ∀ i ∈ pySlice s e t n, i < n := by
  intro i hi
  have h : ((i : Nat) : Int) ∈ (pySlice s e t n).map (fun (i : Nat) => (i : Int)) :=
    List.mem_map.mpr ⟨i, hi, rfl⟩
  rw [← impl_eq_py] at h
  have := impl_mem_range _ n _ h
  omega

example : (2 : Nat) ∈ pySlice (some (-2)) none (some 5) 4 := by decide

end C11
end JPV

-- OBLIGATIONS: JPV.C11.C11_slice_eq_python JPV.C11.C11_step_zero JPV.C11.C11_index JPV.C11.C11_wild JPV.C11.C11_gen_total JPV.C11.C11_gen_eq_impl JPV.C11.C11_in_range JPV.C11.C11_py_in_range
