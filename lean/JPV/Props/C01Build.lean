/-
C01 (upper half) — `Build` followed by the tree denotation `TSem` equals the specification `Spec`.

    Impl.retrieve  ⊑  TSem.den            (lower half: JPV/Lemmas/Refine.lean)
    TSem.den / semQ / pden on `Build.build p`  =  Spec.evalPath / verdicts / operandVals on `p`   (this file)

Only statements and short proofs here; the work is in JPV/Lemmas/{ValWf,SubIdx,DenBasic,CmpSem,CmpGlue,
Assemble,SpecLemmas,StepSem,BuildDen}.lean.
-/
import JPV.Lemmas.BuildDen
import JPV.Lemmas.BuildWf
namespace JPV
namespace C01Build
open TSem Impl Build BD

/-! ### 1. canonical documents -/

/-- canonical entry lists are already in the order `getSortedKeys` produces -/
theorem sortKV_of_keysAsc (kvs : List (String × Val)) :
    Val.keysAsc (kvs.map (·.1)) = true → Impl.sortKV kvs = kvs :=
  ValWf.sortKV_of_keysAsc kvs

/-- canonical values only contain canonical values -/
theorem wf_inherited (v : Val) (hw : v.wf = true) :
    (∀ m ∈ v.members, m.wf = true) ∧ (∀ c ∈ v.containers, c.wf = true) ∧
    (∀ kvs k x, v = .obj kvs → Val.lookup k kvs = some x → x.wf = true) ∧
    (∀ xs (i : Nat) x, v = .arr xs → xs[i]? = some x → x.wf = true) :=
  ⟨ValWf.wf_members hw, ValWf.wf_containers v hw,
   fun _ _ _ e h => ValWf.wf_lookup (e ▸ hw) h, fun _ _ _ e h => ValWf.wf_getElem? (e ▸ hw) h⟩

example : Impl.sortKV [("a", .num 1), ("b", .null), ("c", .arr [])] = [("a", .num 1), ("b", .null), ("c", .arr [])] :=
  sortKV_of_keysAsc _ (by decide)

/-! ### 2. subscripts -/

/-- the subscript the parser builds selects exactly the specification's indices
    (unbounded integers; every `Sub`, every length) -/
theorem subIndexes_eq_spec (sub : Sub) (n : Nat) :
    Impl.subIndexes (Build.subI sub) n = (Spec.subIndices sub n).map (fun (i : Nat) => (i : Int)) :=
  SubIdx.subIndexes_eq_spec sub n

/-- … and every index it yields is a position of the array -/
theorem subIndexes_in_range (sub : Sub) (n : Nat) :
    ∀ x ∈ Impl.subIndexes (Build.subI sub) n, 0 ≤ x ∧ x < (n : Int) :=
  SubIdx.subIndexes_range sub n

example : Impl.subIndexes (Build.subI (.slice (some (-2)) none (some (-3)))) 7 = [5, 2] := by decide
example : Spec.subIndices (.slice (some (-2)) none (some (-3))) 7 = [5, 2] := by decide

/-! ### 3. chains, queries, operands -/

/-- **build_den**: a built chain, started at the value its head names (`$`: the root, `@`: the
    member), selects what the specification's `evalPath` selects (`[]` where the specification has
    an error). -/
theorem build_den (env : Env) (cfg : Cfg) (top : Bool) (p : Path) (ch : List N)
    (hb : Build.buildPath env cfg top p = .ok ch) (root cur : Val) (hr : root.wf = true)
    (hc : cur.wf = true) :
    TSem.den env ch root (startOf (Path.head p) root cur) = (Spec.evalPath env p root cur).getD [] :=
  (path_ok env cfg root hr p top ch hb cur hc).1

/-- for an `@`-path the start value is the member itself -/
theorem build_den_cur (env : Env) (cfg : Cfg) (top : Bool) (steps : List Step) (fns : List Fn) (ch : List N)
    (hb : Build.buildPath env cfg top (.mk .cur steps fns) = .ok ch) (root cur : Val)
    (hr : root.wf = true) (hc : cur.wf = true) :
    TSem.den env ch root cur = (Spec.evalPath env (.mk .cur steps fns) root cur).getD [] :=
  build_den env cfg top _ ch hb root cur hr hc

/-- started at the root, every built chain agrees with the specification -/
theorem build_den_root (env : Env) (cfg : Cfg) (top : Bool) (p : Path) (ch : List N)
    (hb : Build.buildPath env cfg top p = .ok ch) (root : Val) (hr : root.wf = true) :
    TSem.den env ch root root = (Spec.evalPath env p root root).getD [] := by
  have := build_den env cfg top p ch hb root root hr hr
  obtain ⟨h, steps, fns⟩ := p
  cases h <;> exact this

/-- a chain whose head is not flagged as a value group yields at most one value: what
    `buildP … true` (comparison operands) relies on -/
theorem build_single (env : Env) (cfg : Cfg) (top : Bool) (p : Path) (ch : List N)
    (hb : Build.buildPath env cfg top p = .ok ch) (root cur : Val) (hr : root.wf = true)
    (hc : cur.wf = true) (hvg : chainVg ch = false) :
    ((Spec.evalPath env p root cur).getD []).length ≤ 1 :=
  (path_ok env cfg root hr p top ch hb cur hc).2 hvg

/-- the statement of `build_den` with an arbitrary start value: FALSE for `$`-paths, because
    `deleteRootIdentifier` removes the `$` node and leaves the choice of the start value to the
    caller (`pden` passes the root for `.proot`, the member for `.pcur`). -/
def build_den_full : Prop :=
  ∀ (env : Env) (cfg : Cfg) (top : Bool) (p : Path) (ch : List N),
    Build.buildPath env cfg top p = .ok ch → ∀ root cur : Val, root.wf = true → cur.wf = true →
    TSem.den env ch root cur = (Spec.evalPath env p root cur).getD []

def noEnv : Env := ⟨fun _ => none, fun _ => none, fun _ _ => false⟩

/-- witness: `$.a`, root `{"a":1}`, start value `{"a":2}` -/
theorem build_den_full_false : ¬ build_den_full := by
  intro h
  have hb : Build.buildPath noEnv ⟨true⟩ false (.mk .root [.child ".a" "a"] []) =
      .ok [.child ⟨".a", "", false, false⟩ "a"] := by
    simp only [buildPath_eq, stepsPre, stepPre]
    rfl
  have := h noEnv ⟨true⟩ false _ _ hb (.obj [("a", .num 1)]) (.obj [("a", .num 2)]) (by decide) (by decide)
  have e1 : TSem.den noEnv [.child ⟨".a", "", false, false⟩ "a"] (.obj [("a", .num 1)]) (.obj [("a", .num 2)])
      = [.num 2] := rfl
  have e2 : (Spec.evalPath noEnv (.mk .root [.child ".a" "a"] []) (.obj [("a", .num 1)])
      (.obj [("a", .num 2)])).getD [] = [.num 1] := rfl
  rw [e1, e2] at this
  cases this

/-- **build_semQ**: a built filter query gives the specification's verdicts, member by member -/
theorem build_semQ (env : Env) (cfg : Cfg) (q : Query) (tq : Q) (hb : Build.buildQ env cfg q = .ok tq)
    (root : Val) (ms : List Val) (hr : root.wf = true) (hms : ∀ m ∈ ms, m.wf = true) :
    TSem.semQ env tq root ms = Spec.verdicts env q root ms :=
  query_ok env cfg root hr q tq hb ms hms

/-- **build_operand**: a built comparison operand denotes the specification's operand values
    (`none` ↔ the `emptyEntity` marker) -/
theorem build_operand (env : Env) (cfg : Cfg) (o : Operand) (tp : P)
    (hb : Build.buildOperand env cfg o = .ok tp)
    (root : Val) (ms : List Val) (hr : root.wf = true) (hms : ∀ m ∈ ms, m.wf = true) :
    TSem.pden env tp root ms = (Spec.operandVals env o root ms).map ocell := by
  rw [pden_eq, operandVals_eq, List.map_map]
  apply List.map_congr_left
  intro m hm
  exact (operand_ok env cfg root hr o tp hb ms hms).2 m hm

/-! ### 4. the property -/

/-- **C01_build**: for every path the parser accepts and every canonical document, the tree
    denotation of the built chain returns exactly what the specification returns
    (same values, same order, same multiplicity; `none` = error on both sides). -/
theorem C01_build (env : Env) (cfg : Cfg) (p : Path) (ch : List N) (d : Val)
    (hb : Build.build env cfg p = .ok ch) (hd : d.wf = true) :
    TSem.run env ch d = Spec.run env p d := by
  unfold TSem.run Spec.run
  rw [build_den_root env cfg true p ch hb d hd]
  cases Spec.evalPath env p d d with
  | none => rfl
  | some l => cases l <;> rfl

/-! ### 5. built trees are well formed (the hypothesis of the lower half, `run_refines`) -/

/-- **build_wf**: in a built chain every function is registered, every comparison operand is a
    single-valued chain, and the right operand of a comparison is never an `@`-path -/
theorem build_wf (env : Env) (cfg : Cfg) (top : Bool) (p : Path) (ch : List N)
    (hb : Build.buildPath env cfg top p = .ok ch) : wfChain env ch = true :=
  BW.build_wf env cfg top p ch hb

theorem buildQ_wf (env : Env) (cfg : Cfg) (q : Query) (tq : Q)
    (hb : Build.buildQ env cfg q = .ok tq) : wfQ env tq = true :=
  BW.buildQ_wf env cfg q tq hb

/-- a chain `buildPath` does not flag as a value group is a single-valued chain -/
theorem build_singleChain (env : Env) (cfg : Cfg) (top : Bool) (p : Path) (ch : List N)
    (hb : Build.buildPath env cfg top p = .ok ch) (hvg : chainVg ch = false) : singleChain ch = true :=
  (BW.path_wf env cfg p top ch hb).2 hvg

/-! ### a non-trivial instance: `$..[?(@.a>1)].a.max()` -/

def maxFn : List Val → Option Val
  | [] => none
  | v :: vs => (vs.foldl (fun acc x => match acc, x.asNum? with
      | some a, some b => some (if a < b then b else a)
      | _, _ => none) v.asNum?).map Val.num

def exEnv : Env where
  ffn := fun _ => none
  afn := fun n => if n = "max" then some maxFn else none
  regex := fun _ _ => false

/-- `$..[?(@.a>1)].a.max()`: recursive descent, filter with a comparison, child, aggregate -/
def exPath : Path :=
  .mk .root
    [.desc (.filter "[?(@.a>1)]" (.cmp .gt (.path (.mk .cur [.child ".a" "a"] [])) (.lit (.num 1)))),
     .child ".a" "a"]
    [.afn ".max()" "max"]

/-- `{"x":[{"a":1},{"a":2},{"a":3}]}` -/
def exDoc : Val := .obj [("x", .arr [.obj [("a", .num 1)], .obj [("a", .num 2)], .obj [("a", .num 3)]])]

/-- the hypotheses of `C01_build` hold for this instance and both sides compute `[3]` -/
example : ∃ ch, Build.build exEnv ⟨true⟩ exPath = .ok ch ∧ exDoc.wf = true ∧
    TSem.run exEnv ch exDoc = some [.num 3] ∧ Spec.run exEnv exPath exDoc = some [.num 3] ∧
    wfChain exEnv ch = true := by
  refine ⟨?ch, ?h1, by decide, ?h2, rfl, ?h3⟩
  case h1 =>
    simp only [Build.build, exPath, buildPath_eq, stepsPre, stepPre, stepPre_desc, buildQ, buildOperand, buildP_eq]
    rfl
  case h2 => rfl
  case h3 => rfl

/-- `build_semQ` / `build_operand` on `@.a > 1` over the members `[{"a":1},{"a":2},{"a":3}]` -/
example : ∃ tq, Build.buildQ exEnv ⟨true⟩ (.cmp .gt (.path (.mk .cur [.child ".a" "a"] [])) (.lit (.num 1))) = .ok tq ∧
    TSem.semQ exEnv tq exDoc [.obj [("a", .num 1)], .obj [("a", .num 2)], .obj [("a", .num 3)]] = [false, true, true] := by
  refine ⟨?tq, ?h1, ?h2⟩
  case h1 =>
    simp only [buildPath_eq, stepsPre, stepPre, buildQ, buildOperand, buildP_eq]
    rfl
  case h2 => rfl

end C01Build
end JPV

-- OBLIGATIONS: JPV.C01Build.sortKV_of_keysAsc JPV.C01Build.wf_inherited JPV.C01Build.subIndexes_eq_spec
--   JPV.C01Build.subIndexes_in_range JPV.C01Build.build_den JPV.C01Build.build_den_cur JPV.C01Build.build_den_root
--   JPV.C01Build.build_single JPV.C01Build.build_den_full_false JPV.C01Build.build_semQ JPV.C01Build.build_operand
--   JPV.C01Build.C01_build JPV.C01Build.build_wf JPV.C01Build.buildQ_wf JPV.C01Build.build_singleChain
