/-
C20 — values that are not decoded JSON are opaque leaves, never crash.
`Val.opq ty cls` models any Go value `encoding/json` does not produce (its reflect type name and
its DeepEqual class; class 0 = equal to nothing). The general theorems (C01, C03: no panic for every
`Val`, hence for documents with opaque leaves anywhere) already cover them; this file states what
happens AT such a leaf.
-/
import JPV.Props.C03
import JPV.Lemmas.Refine
namespace JPV
namespace C20
open Impl TSem

/-- nothing panics, whatever opaque values the document contains (instance of C03) -/
theorem C20_no_panic (env : Env) (ch : List N) (hwf : wfChain env ch = true) (d : Val) :
    ∀ p st, Impl.run env ch d ≠ (.panic p, st) := C03.C03_no_panic env ch hwf d

/-- every navigation step applied to an opaque value fails with ErrorTypeUnmatched naming its Go type -/
theorem C20_navigation (env : Env) (rest : List N) (prev : Info) (root : Val) (ty : String) (c : Nat)
    (aloc : Option Loc) (st : St) :
    (∀ i k, retrieve env (.child i k :: rest) prev root (.opq ty c) aloc st = .ok (st, some (.type i "object" ty))) ∧
    (∀ i, retrieve env (.wild i :: rest) prev root (.opq ty c) aloc st = .ok (st, some (.type i "object/array" ty))) ∧
    (∀ i ids tw, retrieve env (.multi i ids tw :: rest) prev root (.opq ty c) aloc st = .ok (st, some (.type i "object" ty))) ∧
    (∀ i subs, retrieve env (.union i subs :: rest) prev root (.opq ty c) aloc st = .ok (st, some (.type i "array" ty))) ∧
    (∀ i q, retrieve env (.filter i q :: rest) prev root (.opq ty c) aloc st = .ok (st, some (.type i "object/array" ty))) ∧
    (∀ i a b, retrieve env (.desc i a b :: rest) prev root (.opq ty c) aloc st = .ok (st, some (.type i "object/array" ty))) := by
  refine ⟨?_, ?_, ?_, ?_, ?_, ?_⟩
  · intro i k; simp only [retrieve, typeErr, Val.goTypeName]
  · intro i; simp only [retrieve, typeErr, Val.goTypeName]
  · intro i ids tw; cases tw <;> simp only [retrieve, typeErr, Val.goTypeName]
  · intro i subs; simp only [retrieve, typeErr, Val.goTypeName]
  · intro i q; simp [retrieve, typeErr, Val.goTypeName, Val.isContainer]
  · intro i a b; simp [retrieve, typeErr, Val.goTypeName, Val.isContainer]

/-- it selects nothing through a navigation step -/
theorem C20_navigation_den (env : Env) (rest : List N) (root : Val) (ty : String) (c : Nat) :
    (∀ i k, den env (.child i k :: rest) root (.opq ty c) = []) ∧
    (∀ i, den env (.wild i :: rest) root (.opq ty c) = []) ∧
    (∀ i subs, den env (.union i subs :: rest) root (.opq ty c) = []) := by
  refine ⟨?_, ?_, ?_⟩ <;> intros <;> simp only [den]

/-- literal, ordering and regex comparisons never match it: every typed validator blanks it -/
theorem C20_comparisons (cmp : Cmp) (h : cmp ≠ .deepEq) (ty : String) (c : Nat) :
    vc cmp (.val (.opq ty c)) = .empty := by
  unfold vc
  cases cmp with
  | deepEq => exact absurd rfl h
  | directEq t => cases t <;> rfl
  | lt => rfl
  | le => rfl
  | gt => rfl
  | ge => rfl
  | regex re => rfl

/-- it can be returned (the end of a chain appends it), tested for existence (a present operand
    cell), and compared for deep equality by its class -/
theorem C20_opaque_ok (env : Env) (root : Val) (ty ty' : String) (c c' : Nat) :
    den env [] root (.opq ty c) = [.opq ty c] ∧
    cellNonEmpty (headCell [Val.opq ty c]) = true ∧
    Val.beq (.opq ty c) (.opq ty' c') = (ty == ty' && c == c' && c != 0) := by
  refine ⟨by simp only [den], rfl, rfl⟩

/-- deep equality: the any-value validator keeps it, so `==` between two paths decides by `Val.beq` -/
theorem C20_deepEq_keeps (ty : String) (c : Nat) : vc .deepEq (.val (.opq ty c)) = .val (.opq ty c) := rfl

end C20
end JPV
-- OBLIGATIONS: JPV.C20.C20_no_panic JPV.C20.C20_navigation JPV.C20.C20_navigation_den JPV.C20.C20_comparisons
--   JPV.C20.C20_opaque_ok JPV.C20.C20_deepEq_keeps
