/-
C04 — retrieval never modifies the source document.
In the model every in-place edit the Go code performs on a filter value list (validators
blanking mistyped cells, comparators blanking non-matching cells, `!`/`&&`/`||` merging)
is logged with the origin of the list written: `fresh` (allocated by this evaluation),
`input` (the list handed to `compute` — for an array: the caller's own slice), `gEmpty` /
`gFull` (the package-level marker lists), `literal` (the slice stored in the parsed tree).
The theorem: on a well-formed tree every logged write is to a fresh list — in particular
never to the caller's data, never to the markers, never to the tree.  This is also what
licenses treating lists as values in the functional model (DESIGN §4.5).
-/
import JPV.Lemmas.Refine
import JPV.Registry
namespace JPV
namespace C04
open Impl TSem

theorem C04_writes_only_fresh (env : Env) (ch : List N) (hwf : wfChain env ch = true) (d : Val) :
    ∀ w ∈ (Impl.run env ch d).2.writes, w = Org.fresh := by
  rcases run_refines env ch hwf d with ⟨rs, st', h1, _, _, hw⟩ | ⟨e, st', h1, _, hw⟩ <;>
    (rw [h1]; exact hw)

/-- in particular no write reaches the list handed to `compute` (the caller's slice) -/
theorem C04_no_write_to_input (env : Env) (ch : List N) (hwf : wfChain env ch = true) (d : Val) :
    Org.input ∉ (Impl.run env ch d).2.writes := by
  intro h
  have := C04_writes_only_fresh env ch hwf d _ h
  simp at this

/-- accessor mode only changes the wrapping of results: the same statement holds for trees
    built with the accessor flag (the theorem is for every tree) -/
theorem C04_accessor_no_set (env : Env) (ch : List N) (hwf : wfChain env ch = true) (d : Val) :
    ∀ w ∈ (Impl.run env ch d).2.writes, w ≠ Org.input ∧ w ≠ Org.gEmpty ∧ w ≠ Org.gFull ∧ w ≠ Org.literal := by
  intro w hw
  have := C04_writes_only_fresh env ch hwf d w hw
  subst this
  simp

/-- non-vacuity: the hypothesis holds for the tree of `$[?(!@[0])]`; on `[[1],[],[2]]` that
    tree does perform writes (`#eval (Impl.run Registry.env ch d).2.writes` gives three
    `fresh` entries: the `!` flips a per-member list in place) -/
example : wfChain Registry.env [.filter ⟨"f", "f", true, false⟩
      (.not (.exist (.pcur [.union ⟨"[0]", "", false, false⟩ [.idx 0]])))] = true := by
  decide

end C04
end JPV
-- OBLIGATIONS: JPV.C04.C04_writes_only_fresh JPV.C04.C04_no_write_to_input JPV.C04.C04_accessor_no_set
