/-
Props/C02Time — C02 "Parse returns in bounded time for every string": the MEMOISED recogniser (L22; also C17).

`Peg.run` has no memo table: on nested filters `$[?(@[?(@[?(@…` every level re-parses its operand four times
(600·4^(k-1) − 100 interpreter calls for k levels: 153 500 for k = 5, 2.5·10⁹ for k = 12, 1.7·10²⁰ for k = 30).
The generated parser memoises every rule function by (rule, position) — `memoize`/`memoizedResult` in
jsonpath.peg.go, 27 rule functions — and a seeded change that switched this off made Parse take minutes on 87
characters.  `Peg.runM` (Peg/Memo.lean) is `run` with that table and two counters (`steps`: interpreter calls,
`evals`: rule bodies evaluated = memo misses).  Here, for the regenerated grammar `Gen.grammar` (jsonpath.peg, 59
rules) and for the decompiled rule functions `Gen.goGrammar` (jsonpath.peg.go, 27 rules), on EVERY input:

  * C02_memo_transparent       the memoised recogniser returns exactly what `recognise` returns, from the empty
                               table (and `_rule`: from any table whose entries are answers of `run`, for any
                               rule at any position, preserving that invariant); `parseModelM = parseModel`;
  * C02_linear_rule_evals      at most 59·(n+1) rule bodies are evaluated — each (rule, position) at most once;
  * C02_memo_steps             at most `stepBound` interpreter calls, and in closed form (jsonpath.peg nests no
                               loops inside a rule body) at most 526·(n+1)².
    Not linear: only RULES are memoised (as in the generated code), so a loop inside a rule body may rescan the
    rest of the input once per starting position; 526·(n+1)² is what the packrat argument gives for every
    grammar without nested loops.  Measured on nested filters: 44 calls per character.

Nothing is assumed: the fuel hypotheses of Lemmas/PegMemo.lean are discharged by `C02_fuel_adequate_rule`
(Props/C02Fuel.lean).  `T` is any memo table (`MemoTable`): the association list used for the kernel-checked
examples below, `Std.HashMap` in the driver jpv-pegm.
-/
import JPV.Props.C02Fuel
import JPV.Lemmas.PegMemoBound
import JPV.Peg.MemoHash
namespace JPV.Props
open JPV.Peg

variable {T : Type} [MemoTable T]

/-! ## 1. Memoisation is transparent -/

/-- **C02_memo_transparent_rule.** Any rule of jsonpath.peg, at any position, from ANY memo table whose entries are
    answers of the plain interpreter: the memoising interpreter returns what the plain one returns, and the
    table it leaves has the same property. -/
theorem C02_memo_transparent_rule (x : String) (input : Array Char) (pos : Nat) (hpos : pos ≤ input.size)
    (st : MState T) (hinv : Inv Gen.grammar input st.table) :
    (runM Gen.grammar (fuelFor input.size) (ruleBody Gen.grammar x) input pos st).1 =
        run Gen.grammar (fuelFor input.size) (ruleBody Gen.grammar x) input pos ∧
      Inv Gen.grammar input (runM Gen.grammar (fuelFor input.size) (ruleBody Gen.grammar x) input pos st).2.table :=
  runM_eq_run _ _ _ st hinv (C02_fuel_adequate_rule x input pos hpos)

/-- **C02_memo_transparent.** The recogniser with the memo table of the generated parser returns exactly what
    `recognise` returns — on every input. -/
theorem C02_memo_transparent (input : Array Char) : recogniseM T input = recognise input :=
  runM_empty_eq_run _ _ _ (C02_fuel_adequate input)

/-- hence it succeeds on every input (`C02_recognise_total`) -/
theorem C02_memo_recognise_total (input : Array Char) : ∃ pos toks, recogniseM T input = .ok pos toks := by
  rw [C02_memo_transparent]; exact C02_recognise_total input

/-- **C02_parseModelM_eq.** `Parse` modelled with the memoising recogniser (what jpv-pegm runs) IS `parseModel`. -/
theorem C02_parseModelM_eq (env : Env) (ext : Ext) (cfg : Cfg) (s : String) :
    parseModelM T env ext cfg s = parseModel env ext cfg s := by
  simp only [parseModelM, parseInputM, parseModel, parseInput, C02_memo_transparent]
  by_cases hA : (!actionsAsExpected) = true
  · rw [if_pos hA, if_pos hA]
  · rw [if_neg hA, if_neg hA]
    cases recognise s.toList.toArray with
    | ok p t =>
      simp only
      cases exec ⟨env, ext, cfg.accessor, s.toList.toArray⟩ t <;> rfl
    | _ => rfl

/-! ## 2. Each (rule, position) is evaluated at most once -/

theorem C02_rules_count : Gen.grammar.length = 59 ∧ Gen.goGrammar.length = 27 := by decide +kernel

/-- **C02_linear_rule_evals.** On an input of n characters the memoising recogniser evaluates at most 59·(n+1)
    rule bodies. -/
theorem C02_linear_rule_evals (input : Array Char) :
    (recogniseMS T input).2.evals ≤ 59 * (input.size + 1) := by
  have h := runM_rule_evals_le (T := T) _ _ 0 (Nat.zero_le _) (C02_fuel_adequate input)
  rw [C02_rules_count.1] at h
  exact h

/-! ## 3. The number of interpreter calls -/

/-- **C02_memo_steps.** At most `stepBound` interpreter calls: the work of `expression` itself plus, for every
    rule and every position, the work of the rule's body there (`Peg.work`: a reference costs 1, a loop at most
    one iteration per character left). -/
theorem C02_memo_steps (input : Array Char) :
    (recogniseMS T input).2.steps ≤ stepBound Gen.grammar (ruleBody Gen.grammar "expression") input.size :=
  runM_steps_le _ _ (C02_fuel_adequate input)

/-- no rule body of jsonpath.peg nests a loop in a loop -/
theorem C02_grammar_loops_flat :
    (Gen.grammar.all fun r => Nat.ble (starDepth (ruleBody Gen.grammar r.1)) 1) = true := by decide +kernel

/-- the constant: work of `expression` + Σ over the rules of the work of the body, with no character left -/
theorem C02_grammar_const :
    work (ruleBody Gen.grammar "expression") 0 + grammarConst Gen.grammar = 526 := by decide +kernel

theorem C02_stepBound_quadratic (n : Nat) :
    stepBound Gen.grammar (ruleBody Gen.grammar "expression") n ≤ 526 * ((n + 1) * (n + 1)) := by
  rw [← C02_grammar_const]
  apply stepBound_le_quadratic
  · exact Nat.le_of_ble_eq_true (show Nat.ble (starDepth (ruleBody Gen.grammar "expression")) 1 = true by decide +kernel)
  · intro r hr
    exact Nat.le_of_ble_eq_true (List.all_eq_true.mp C02_grammar_loops_flat r hr)

/-- **C02_memo_steps_quadratic.** At most 526·(n+1)² interpreter calls on an input of n characters. -/
theorem C02_memo_steps_quadratic (input : Array Char) :
    (recogniseMS T input).2.steps ≤ 526 * ((input.size + 1) * (input.size + 1)) :=
  Nat.le_trans (C02_memo_steps input) (C02_stepBound_quadratic _)

/-! ## 4. The decompiled rule functions of jsonpath.peg.go (27 memoised functions) -/

/-- the rule functions of jsonpath.peg.go with their memo table, from the empty table -/
def goRecogniseMS (T : Type) [MemoTable T] (input : Array Char) : Result × MState T :=
  runM Gen.goGrammar (fuelFor input.size) (ruleBody Gen.goGrammar "expression") input 0 MState.init

/-- **C02_go_memo_transparent.** … return what `recognise` returns. -/
theorem C02_go_memo_transparent (input : Array Char) : (goRecogniseMS T input).1 = recognise input := by
  rw [← C02_go_recognise input]
  exact runM_empty_eq_run _ _ _ (C02_go_fuel_adequate input)

/-- **C02_go_linear_rule_evals.** … run at most 27·(n+1) rule-function bodies. -/
theorem C02_go_linear_rule_evals (input : Array Char) :
    (goRecogniseMS T input).2.evals ≤ 27 * (input.size + 1) := by
  have h := runM_rule_evals_le (T := T) _ _ 0 (Nat.zero_le _) (C02_go_fuel_adequate input)
  rw [C02_rules_count.2] at h
  exact h

/-- **C02_go_memo_steps.** … in at most `stepBound` interpreter calls (the inlined bodies nest loops two deep:
    a cubic polynomial in n). -/
theorem C02_go_memo_steps (input : Array Char) :
    (goRecogniseMS T input).2.steps ≤ stepBound Gen.goGrammar (ruleBody Gen.goGrammar "expression") input.size :=
  runM_steps_le _ _ (C02_go_fuel_adequate input)

/-! ## 5. Examples -/

/-- k nested filters `$[?(@[?(@ … )])]`, 1 + 6k characters -/
def deepFilter (k : Nat) : Array Char :=
  ("$" ++ String.join (List.replicate k "[?(@") ++ String.join (List.replicate k ")]")).toList.toArray

theorem deepFilter12_size : (deepFilter 12).size = 73 := by decide +kernel
theorem deepFilter30_size : (deepFilter 30).size = 181 := by decide +kernel

/-- 12 nested filters, 73 characters.  Plain interpreter (`runC`, compiled): 2 516 582 300 calls.
    Memoised (measured, and checked by the kernel below): 623 rule bodies, 3 218 calls.
    Proved, without running anything: -/
example : (recogniseMS T (deepFilter 12)).2.evals ≤ 4366 := by
  have h := C02_linear_rule_evals (T := T) (deepFilter 12)
  rw [deepFilter12_size] at h; exact h
example : (recogniseMS T (deepFilter 12)).2.steps ≤ 278291 := by
  have h := C02_memo_steps (T := T) (deepFilter 12)
  rw [deepFilter12_size] at h
  exact Nat.le_trans h (by decide +kernel)
example : recogniseM T (deepFilter 12) = recognise (deepFilter 12) := C02_memo_transparent _
/-- 30 levels (181 characters; the plain interpreter would need 1.7·10²⁰ calls) -/
example : (recogniseMS T (deepFilter 30)).2.evals ≤ 10738 := by
  have h := C02_linear_rule_evals (T := T) (deepFilter 30)
  rw [deepFilter30_size] at h; exact h
example : (recogniseMS T (deepFilter 30)).2.steps ≤ 17423224 := by
  have h := C02_memo_steps_quadratic (T := T) (deepFilter 30)
  rw [deepFilter30_size] at h; exact h
/-- the kernel runs both interpreters on 2 levels (13 characters): 2300 calls against 578, 113 rule bodies
    (`runC` is `run` with a call counter: `Peg.runC_fst`) -/
example : (runC Gen.grammar (fuelFor 13) (ruleBody Gen.grammar "expression") (deepFilter 2) 0 0).2 = 2300 := by
  decide +kernel
example : ((recogniseMS ListMemo (deepFilter 2)).2.steps, (recogniseMS ListMemo (deepFilter 2)).2.evals) = (578, 113) := by
  decide +kernel
/-- and the memoised one on 12 levels -/
example : ((recogniseMS ListMemo (deepFilter 12)).2.steps, (recogniseMS ListMemo (deepFilter 12)).2.evals) = (3218, 623) := by
  decide +kernel

-- OBLIGATIONS: C02_memo_transparent_rule C02_memo_transparent C02_memo_recognise_total C02_parseModelM_eq
--   C02_rules_count C02_linear_rule_evals C02_memo_steps C02_grammar_loops_flat C02_grammar_const
--   C02_stepBound_quadratic C02_memo_steps_quadratic C02_go_memo_transparent C02_go_linear_rule_evals
--   C02_go_memo_steps

end JPV.Props
