/-
C05 over the explicit global state — a parsed function is pure although it works in a recycled buffer.

`Gen.ParseWrapGo.Parse_func ops root` is the function literal returned by /repo/jsonpath.go `Parse`, and
`getContainer` / `putContainer` are /repo/cache.go's, regenerated statement by statement on every run over
the state of `Glob/State.lean`: `resultSyncPool` is a list of recycled containers, `Get` returns ANY of
them or a new one (`Choice`, universally quantified), a container's slice has elements, stale cells beyond
its length and a provenance tag. `root.retrieve` is the opaque `ops.retrieve`; what it must satisfy is
`RetrieveOK ops spec` (entered with an EMPTY container and truncated pools it leaves `spec tree doc`, and it
returns the pools truncated) — `Impl.retrieve` does (`C05_model_retrieveOK`), with `spec` = `Impl.run`.

  C05_put_truncates        `putContainer` puts back exactly the container it is given, truncated: the pool
                           invariant "every recycled container has length 0" is re-established on every exit
  C05_pool_independent     under that invariant the value of a call does not depend on which container `Get`
                           returned, on what the pools hold, on the stale cells, on the oracles; and the
                           invariant holds again afterwards
  C05_invariant_needed     without the invariant it does: a container recycled with one element in it changes
                           the result (so the `[:0]` in `putContainer` carries the property)
  C05_result_owned         (no assumption on `retrieve`) a returned result is a slice MADE after `retrieve`,
                           len = cap, holding the container's elements; the container goes back truncated
  C05_history_state        any sequence of calls of parsed functions — one function or several, interleaved
                           with `Parse` calls, sharing parser, mutex and pools — returns the list of the
                           individual results; with the model's operations these are `Impl.run`'s
-/
import JPV.Lemmas.GlobHistory
import JPV.Glob.Tie
namespace JPV
namespace C05State
open Glob Gen.ParseWrapGo Impl
variable {ι : Type}

/-- **C05_put_truncates** -/
theorem C05_put_truncates (c : Container) (w : World) :
    (putContainer c w).pools.result = ⟨c.result.truncate0⟩ :: w.pools.result ∧
    (c.result.truncate0).elems = [] ∧
    (w.pools.Truncated → (putContainer c w).pools.Truncated) :=
  ⟨(putContainer_pools c w).1, rfl, putContainer_truncated c w⟩

/-- **C05_pool_independent** -/
theorem C05_pool_independent (ops : Ops ι) (spec : Tree → Val → List Res × RetrRes) (hops : RetrieveOK ops spec)
    (root : Option Tree) (d : Val) (w w' : World) (hw : w.pools.Truncated) (hw' : w'.pools.Truncated)
    (ch ch' : Choice) (o o' : ι) :
    (Parse_func ops root d ch o w).2 = (Parse_func ops root d ch' o' w').2 ∧
    (Parse_func ops root d ch o w).2 = callSpec spec root d ∧
    (Parse_func ops root d ch o w).1.pools.Truncated := by
  have h := func_spec ops spec hops root d ch o w hw
  have h' := func_spec ops spec hops root d ch' o' w' hw'
  exact ⟨h.1.trans h'.1.symm, h.1, h.2⟩

/-- **C05_result_owned** -/
theorem C05_result_owned (ops : Ops ι) (root : Option Tree) (d : Val) (ch : Choice) (o : ι) (w : World) :
    let g := getContainer ch w
    let r := g.2.retrieve ops root d d g.1 o
    (Parse_func ops root d ch o w).1.pools.result = ⟨r.1.result.truncate0⟩ :: r.2.1.pools.result ∧
    ∀ res err, (Parse_func ops root d ch o w).2 = .returned (some res) err →
      res = ⟨.made, r.1.result.elems, []⟩ ∧ err = none ∧ r.2.2 = .ret none :=
  func_owned ops root d ch o w

/-- a call touches neither the global parser nor the mutex -/
theorem C05_parser_untouched (ops : Ops ι) (root : Option Tree) (d : Val) (ch : Choice) (o : ι) (w : World) :
    (Parse_func ops root d ch o w).1.parser = w.parser ∧ (Parse_func ops root d ch o w).1.mutex = w.mutex :=
  func_rest ops root d ch o w

/-- **C05_history_state** (any operations satisfying `RetrieveOK`) -/
theorem C05_history_state (ops : Ops ι) (spec : Tree → Val → List Res × RetrRes) (hops : RetrieveOK ops spec)
    (w : World) (hw : w.pools.Truncated) (l : List (Op ι)) (k : Nat) (root : Option Tree) (d : Val) (ch : Choice) (o : ι)
    (h : l[k]? = some (.call root d ch o)) :
    (runOps ops w l)[k]? = some (.called (callSpec spec root d)) ∧ (endWorld ops w l).pools.Truncated :=
  ⟨runOps_call ops spec hops l w hw k root d ch o h, endWorld_truncated ops spec hops l w hw⟩

/-- `Impl.retrieve` satisfies the requirement, with `Impl.run` as its specification -/
theorem C05_model_retrieveOK (ext : Peg.Ext) (regex : String → String → Bool) :
    RetrieveOK (modelOps ext regex) (runSpec regex) := modelOps_retrieveOK ext regex

/-- **C05_history_state** for the model: the k-th outcome is `Impl.run` of that tree on that document -/
theorem C05_history_run (ext : Peg.Ext) (regex : String → String → Bool) (w : World) (hw : w.pools.Truncated)
    (l : List (Op Unit)) (k : Nat) (t : Tree) (d : Val) (ch : Choice)
    (h : l[k]? = some (.call (some t) d ch ())) :
    (runOps (modelOps ext regex) w l)[k]? = some (.called (callRetOfRun (Impl.run ⟨t.ffn, t.afn, regex⟩ t.ch d).1)) := by
  rw [← callSpec_runSpec]
  exact (C05_history_state _ _ (modelOps_retrieveOK ext regex) w hw l k (some t) d ch () h).1

/-! ### the invariant is needed; the hypotheses are satisfiable -/

/-- the tree of the path `$` with nothing after it: `retrieve` appends the document -/
def dollar : Tree := ⟨[.root ⟨"$", "$", false, false⟩], fun _ => none, fun _ => none⟩

/-- a pool holding one container that was NOT truncated -/
def stalePool : World := { pools := { result := [⟨⟨.container, [.plain (.str "old")], []⟩⟩] } }

theorem run_dollar (regex : String → String → Bool) (pools : Pools) (d : Val) (c : Container) :
    retrieveImpl regex dollar pools () d d c =
      (pools, ⟨⟨c.result.org, c.result.elems ++ [.plain d], c.result.spare.drop 1⟩⟩, .ret none) := by
  simp [retrieveImpl, dollar, Impl.retrieve, St.push]

/-- **C05_invariant_needed**: the same call returns one value with a new container, two with the stale one -/
theorem C05_invariant_needed (ext : Peg.Ext) (regex : String → String → Bool) :
    (Parse_func (modelOps ext regex) (some dollar) (.num 7) {} () stalePool).2 =
      .returned (some ⟨.made, [.plain (.num 7)], []⟩) none ∧
    (Parse_func (modelOps ext regex) (some dollar) (.num 7) { pick := some 0 } () stalePool).2 =
      .returned (some ⟨.made, [.plain (.str "old"), .plain (.num 7)], []⟩) none := by
  have hr := run_dollar regex
  constructor <;>
  · rw [func_value]
    simp [getContainer, World.resultPoolGet, poolGet, dropIdxs, stalePool, World.retrieve, World.ev, modelOps, hr,
      resultSyncPool_New, Container.new]

/-- an operation that, like an aggregate-function node, takes a container OF ITS OWN from the shared pool
    (any one: its oracle is a `Choice`), fills it, copies from it, and puts it back truncated -/
def innerOps : Ops Choice :=
  { runActions := fun jp _ => (jp, none), isError := fun _ => true,
    retrieve := fun _ pools ch d _ c =>
      let g := poolGet Container.new ch pools.result
      let inner : Slice := { g.1.result with elems := g.1.result.elems ++ [.plain d] }
      ({ pools with result := ⟨inner.truncate0⟩ :: g.2 },
       ⟨{ c.result with elems := c.result.elems ++ inner.elems }⟩, .ret none) }

/-- `RetrieveOK` is satisfiable by an operation that does change the pools -/
theorem innerOps_retrieveOK : RetrieveOK innerOps (fun _ d => ([.plain d], .ret none)) where
  result := by
    intro t pools o d c hp hc
    have hg : (poolGet Container.new o pools.result).1.result.elems = [] := by
      rcases poolGet_fst Container.new o pools.result with h | h
      · rw [h]; rfl
      · exact hp _ h
    simp [innerOps, hc, hg]
  pools := by
    intro t pools o a b c hp x hx
    simp only [innerOps] at hx
    rcases List.mem_cons.mp hx with h | h
    · subst h; rfl
    · exact hp x (poolGet_snd_mem _ _ _ _ h)

/-- one function called three times with another function's call and a `Parse` in between, on a pool that
    already holds a (truncated) container with stale cells -/
example : ([.call (some dollar) (.num 1) {} (), .call none .null { pick := some 0 } (), .parse "$.a" [],
            .call (some dollar) (.num 2) { drop := [0] } (), .call (some dollar) (.num 1) { pick := some 5 } ()] : List (Op Unit))[3]? =
    some (.call (some dollar) (.num 2) { drop := [0] } ()) := rfl
example : ({ pools := { result := [⟨⟨.container, [], [.plain (.str "stale")]⟩⟩] } } : World).pools.Truncated := by
  intro c hc; rw [List.mem_singleton.mp hc]

example : World.zero.pools.Truncated := by intro c hc; cases hc
example : ¬ stalePool.pools.Truncated := by
  intro h; have := h _ (List.mem_singleton.mpr rfl); simp at this

end C05State
end JPV
-- OBLIGATIONS: JPV.C05State.C05_put_truncates JPV.C05State.C05_pool_independent JPV.C05State.C05_result_owned JPV.C05State.C05_parser_untouched JPV.C05State.C05_history_state JPV.C05State.C05_model_retrieveOK JPV.C05State.C05_history_run JPV.C05State.C05_invariant_needed
