/-
C15 (ties T1/T2) — the pieces of the model that the C15 theorems rest on, against what the Go
source says NOW (Gen/ErrorsGo.lean, regenerated from /repo on every run by the generator `errors`):

  * `Impl.addDeepest` is `addDeepestError` (syntax_basic_node.go), statement by statement;
  * what `Impl.stepAcc` does with a branch error is what every `if err := …; err != nil { … }` of
    every fan-out loop does (record only while `len(container.result) == 0`, through `addDeepestError`);
  * `Impl.finishGroup` is the statement sequence after the last loop of every such method;
  * the value-group methods are exactly the seven the model has loops for, with the calls the
    model's branches make;
  * every `retrieve` tests `current` for the dynamic types the model matches on, and the type
    error it builds carries the expected-kind text the model writes (`typeErr i "object" …`);
  * every runtime error literal names the receiver's own node (`errorBasicRuntime: R.errorRuntime`).
A change of any of these in /repo makes a theorem below false (or the generator refuses the
source), and the run fails.
-/
import JPV.Gen.ErrorsGo
import JPV.Props.C15
namespace JPV
namespace C15
open Impl Gen.ErrorsGo

/-! ### T1: `addDeepestError`, the record sites, the finish sections -/

/-- `Impl.addDeepest` is the regenerated `addDeepestError` with the model's reading of the two
    primitives: `len(connectedText)` of the error's node, and "is an ErrorTypeUnmatched" -/
theorem addDeepest_tie (err : RtErr) (dl : Nat) (de : Option RtErr) :
    addDeepestError CE.tl RtErr.isType err dl de = Impl.addDeepest err dl de := by
  cases de <;> rfl

/-- what the model does with the error of a branch, as a function of the buffer length -/
def modelRecord (resultLen : Nat) (err : RtErr) (dl : Nat) (de : Option RtErr) : Nat × Option RtErr :=
  if resultLen == 0 then Impl.addDeepest err dl de else (dl, de)

theorem stepAcc_record (st' : St) (err : RtErr) (dl : Nat) (de : Option RtErr) :
    stepAcc (.ok (st', some err)) dl de = .ok (st', modelRecord st'.out.length err dl de) := by
  unfold stepAcc modelRecord
  cases h : st'.out with
  | nil => simp [bind, Except.bind, h]
  | cons a b => simp [bind, Except.bind, h]

/-- every record site of every fan-out loop in the source does exactly that -/
theorem record_tie : ∀ s ∈ recordSites CE.tl RtErr.isType, ∀ (resultLen : Nat) (err : RtErr) (dl : Nat)
    (de : Option RtErr), s.2 resultLen err dl de = modelRecord resultLen err dl de := by
  intro s hs n err dl de
  simp only [recordSites, List.mem_cons, List.not_mem_nil, or_false] at hs
  rcases hs with rfl | rfl | rfl | rfl | rfl | rfl | rfl | rfl <;>
    (simp only [modelRecord, ← addDeepest_tie]; rfl)

/-- `Impl.finishGroup` is the statement sequence after the last loop, in every one of them -/
theorem finish_tie : ∀ s ∈ finishSites (ε := RtErr), ∀ (i : Info) (st : St) (de : Option RtErr),
    s.2 (.member i) st.out.length de = Impl.finishGroup i st de := by
  intro s hs i st de
  simp only [finishSites, List.mem_cons, List.not_mem_nil, or_false] at hs
  rcases hs with rfl | rfl | rfl | rfl | rfl | rfl | rfl <;>
    (cases h : st.out <;> cases de <;> simp [Impl.finishGroup, h,
      finish_syntaxChildMultiIdentifier_retrieveMap, finish_syntaxChildWildcardIdentifier_retrieveMap,
      finish_syntaxChildWildcardIdentifier_retrieveList, finish_syntaxRecursiveChildIdentifier_retrieve,
      finish_syntaxFilterQualifier_retrieveMap, finish_syntaxFilterQualifier_retrieveList,
      finish_syntaxUnionQualifier_retrieve])

/-! ### T2: which methods, which calls, which returns -/

/-- the value-group methods: the seven the model has a loop for (`Impl.retrieve`: wild on an
    object / on an array, multi on an object, desc (two sites: object and array targets), union,
    filter on an object / on an array) -/
theorem groupFunctions_tie : groupFunctions =
    [["syntaxChildMultiIdentifier.retrieveMap", "1"],
     ["syntaxChildWildcardIdentifier.retrieveList", "1"],
     ["syntaxChildWildcardIdentifier.retrieveMap", "1"],
     ["syntaxFilterQualifier.retrieveList", "1"],
     ["syntaxFilterQualifier.retrieveMap", "1"],
     ["syntaxRecursiveChildIdentifier.retrieve", "2"],
     ["syntaxUnionQualifier.retrieve", "1"]] := rfl

/-- the call whose error each site records: the branch of the model's loop (`retrieveMapNext` /
    `retrieveListNext` = look the member up and run the rest of the chain; `next.retrieve` on a
    container below; an inner identifier's own `retrieve`) -/
theorem recordCalls_tie : recordCalls =
    [("record_syntaxChildMultiIdentifier_retrieveMap_1", "identifier.retrieve(root, srcMap, container)"),
     ("record_syntaxChildWildcardIdentifier_retrieveMap_1", "self.retrieveMapNext(root, srcMap, key, container)"),
     ("record_syntaxChildWildcardIdentifier_retrieveList_1", "self.retrieveListNext(root, srcList, index, container)"),
     ("record_syntaxRecursiveChildIdentifier_retrieve_1", "self.next.retrieve(root, typedNodes, container)"),
     ("record_syntaxRecursiveChildIdentifier_retrieve_2", "self.next.retrieve(root, typedNodes, container)"),
     ("record_syntaxFilterQualifier_retrieveMap_1", "self.retrieveMapNext(root, srcMap, (*sortKeys)[index], container)"),
     ("record_syntaxFilterQualifier_retrieveList_1", "self.retrieveListNext(root, srcList, index, container)"),
     ("record_syntaxUnionQualifier_retrieve_1", "self.retrieveListNext(root, srcArray, index, container)")] := rfl

/-- every return statement of the retrieve methods: delegation, `nil`, the recorded error, or an
    error literal naming the receiver's OWN node (`…:self`) — the model's `.member i` / `.type i` /
    `.func i` with `i` the Info of the node being evaluated; an aggregate passes its parameter
    chain's error on (`err`) -/
theorem returns_tie : returns =
    [["syntaxAggregateFunction.retrieve", "err", "functionFailed:self:err", "call:self.retrieveAnyValueNext"],
     ["syntaxBasicNode.retrieveAnyValueNext", "call:self.next.retrieve", "nil"],
     ["syntaxBasicNode.retrieveListNext", "call:self.next.retrieve", "nil"],
     ["syntaxBasicNode.retrieveMapNext", "memberNotExist:self", "call:self.next.retrieve", "nil"],
     ["syntaxChildMultiIdentifier.retrieve", "call:self.unionQualifier.retrieve", "call:self.retrieveMap",
       "typeUnmatched:self:msgTypeObject:foundType"],
     ["syntaxChildMultiIdentifier.retrieveMap", "nil", "memberNotExist:self", "deepestError"],
     ["syntaxChildSingleIdentifier.retrieve", "call:self.retrieveMapNext", "typeUnmatched:self:msgTypeObject:foundType"],
     ["syntaxChildWildcardIdentifier.retrieve", "call:self.retrieveMap", "call:self.retrieveList",
       "typeUnmatched:self:msgTypeObjectOrArray:foundType"],
     ["syntaxChildWildcardIdentifier.retrieveList", "nil", "memberNotExist:self", "deepestError"],
     ["syntaxChildWildcardIdentifier.retrieveMap", "nil", "memberNotExist:self", "deepestError"],
     ["syntaxCurrentRootIdentifier.retrieve", "call:self.retrieveAnyValueNext"],
     ["syntaxFilterFunction.retrieve", "functionFailed:self:err", "call:self.retrieveAnyValueNext"],
     ["syntaxFilterQualifier.retrieve", "call:self.retrieveMap", "call:self.retrieveList",
       "typeUnmatched:self:msgTypeObjectOrArray:foundType"],
     ["syntaxFilterQualifier.retrieveList", "memberNotExist:self", "nil", "memberNotExist:self", "deepestError"],
     ["syntaxFilterQualifier.retrieveMap", "memberNotExist:self", "nil", "memberNotExist:self", "deepestError"],
     ["syntaxRecursiveChildIdentifier.retrieve", "typeUnmatched:self:msgTypeObjectOrArray:foundType", "nil",
       "memberNotExist:self", "deepestError"],
     ["syntaxRootIdentifier.retrieve", "call:self.retrieveAnyValueNext"],
     ["syntaxUnionQualifier.retrieve", "typeUnmatched:self:msgTypeArray:foundType", "nil", "memberNotExist:self",
       "deepestError"]] := rfl

/-- what can end an iteration before the branch is run: the `continue` of a multi-name node on an
    absent key (the model's `.ok (st, none)` branch) and of a filter on a member its query rejected
    (the model loops over the selected members only); nothing in the other loops -/
theorem loopGuards_tie : loopGuards =
    [["record_syntaxChildMultiIdentifier_retrieveMap_1", "if singleIdentifier, ok := identifier.(*syntaxChildSingleIdentifier); ok { if _, ok = srcMap[singleIdentifier.identifier]; !ok { continue } }"],
     ["record_syntaxChildWildcardIdentifier_retrieveList_1"],
     ["record_syntaxChildWildcardIdentifier_retrieveMap_1"],
     ["record_syntaxFilterQualifier_retrieveList_1", "if isEachResult { if valueList[index] == emptyEntity { continue } }"],
     ["record_syntaxFilterQualifier_retrieveMap_1", "if isEachResult { if valueList[index] == emptyEntity { continue } }"],
     ["record_syntaxRecursiveChildIdentifier_retrieve_1"],
     ["record_syntaxRecursiveChildIdentifier_retrieve_2"],
     ["record_syntaxUnionQualifier_retrieve_1"]] := rfl

/-- what can return before the loop: the whole-match "no" of a filter (the model's
    `if !isEach && c0.isEmpty then .ok (st1, some (.member i))`) and the type dispatch of the two
    nodes that loop in `retrieve` itself -/
theorem preLoopReturns_tie : preLoopReturns =
    [["syntaxChildMultiIdentifier_retrieveMap"],
     ["syntaxChildWildcardIdentifier_retrieveList"],
     ["syntaxChildWildcardIdentifier_retrieveMap"],
     ["syntaxFilterQualifier_retrieveList", "if !isEachResult { if valueList[0] == emptyEntity { return ErrorMemberNotExist{ errorBasicRuntime: f.errorRuntime, } } }"],
     ["syntaxFilterQualifier_retrieveMap", "if !isEachResult { if valueList[0] == emptyEntity { return ErrorMemberNotExist{ errorBasicRuntime: f.errorRuntime, } } }"],
     ["syntaxRecursiveChildIdentifier_retrieve", "switch current.(type) { case map[string]interface{}, []interface{}: default: foundType := msgTypeNull if current != nil { foundType = reflect.TypeOf(current).String() } return ErrorTypeUnmatched{ errorBasicRuntime: i.errorRuntime, expectedType: msgTypeObjectOrArray, foundType: foundType, } }"],
     ["syntaxUnionQualifier_retrieve", "if !ok { foundType := msgTypeNull if current != nil { foundType = reflect.TypeOf(current).String() } return ErrorTypeUnmatched{ errorBasicRuntime: u.errorRuntime, expectedType: msgTypeArray, foundType: foundType, } }"]] := rfl

/-! ### T2 → model: the type dispatch of every node -/

def rowOf (ty : String) : List String :=
  (typeDispatch.find? (fun r => r.head? == some ty)).getD []

/-- the text the node's ErrorTypeUnmatched carries as `expectedType` -/
def expectedOf (ty : String) : String := (rowOf ty)[2]?.getD ""

/-- the dynamic types the node's `retrieve` tests `current` for -/
def testedFor (ty : String) : List String := (rowOf ty).drop 4

/-- the dynamic type of a document value, as a Go type switch sees it -/
def dynType : Val → String
  | .obj _ => "map[string]interface{}"
  | .arr _ => "[]interface{}"
  | _ => "other"

def accepts (ty : String) (v : Val) : Bool := (testedFor ty).contains (dynType v)

/-- every type error names the node itself and computes the found type as the model's
    `Val.goTypeName` does: "null" for nil, else `reflect.TypeOf(current).String()` -/
theorem dispatch_shape : typeDispatch.all (fun r => r[1]? == some "self" && r[3]? == some "nullOr(reflect)") = true ∧
    Val.goTypeName .null = msgTypeNull := ⟨by decide, rfl⟩

theorem child_tested : testedFor "syntaxChildSingleIdentifier" = ["map[string]interface{}"] ∧
    expectedOf "syntaxChildSingleIdentifier" = "object" := by decide
theorem wild_tested : testedFor "syntaxChildWildcardIdentifier" = ["[]interface{}", "map[string]interface{}"] ∧
    expectedOf "syntaxChildWildcardIdentifier" = "object/array" := by decide
theorem multi_tested : testedFor "syntaxChildMultiIdentifier" = ["[]interface{}", "map[string]interface{}"] ∧
    expectedOf "syntaxChildMultiIdentifier" = "object" := by decide
theorem desc_tested : testedFor "syntaxRecursiveChildIdentifier" = ["[]interface{}", "map[string]interface{}"] ∧
    expectedOf "syntaxRecursiveChildIdentifier" = "object/array" := by decide
theorem filter_tested : testedFor "syntaxFilterQualifier" = ["[]interface{}", "map[string]interface{}"] ∧
    expectedOf "syntaxFilterQualifier" = "object/array" := by decide
theorem union_tested : testedFor "syntaxUnionQualifier" = ["[]interface{}"] ∧
    expectedOf "syntaxUnionQualifier" = "array" := by decide

section dispatch
variable (env : Env) (rest : List N) (prev : Info) (root cur : Val) (aloc : Option Loc) (st : St)

/-- `.name` / `['name']`: the model returns the type error — with the expected-kind text of the
    source — exactly on the values the Go method does not test for -/
theorem child_dispatch (i : Info) (k : String) :
    (accepts "syntaxChildSingleIdentifier" cur = true ↔ ∃ kvs, cur = .obj kvs) ∧
    (accepts "syntaxChildSingleIdentifier" cur = false →
      retrieve env (.child i k :: rest) prev root cur aloc st =
        .ok (st, some (.type i (expectedOf "syntaxChildSingleIdentifier") cur.goTypeName))) := by
  simp only [accepts, child_tested]
  cases cur <;> simp [dynType, retrieve, typeErr]

theorem wild_dispatch (i : Info) :
    (accepts "syntaxChildWildcardIdentifier" cur = true ↔ cur.isContainer = true) ∧
    (accepts "syntaxChildWildcardIdentifier" cur = false →
      retrieve env (.wild i :: rest) prev root cur aloc st =
        .ok (st, some (.type i (expectedOf "syntaxChildWildcardIdentifier") cur.goTypeName))) := by
  simp only [accepts, wild_tested]
  cases cur <;> simp [dynType, retrieve, typeErr, Val.isContainer]

theorem desc_dispatch (i : Info) (mr lr : Bool) :
    (accepts "syntaxRecursiveChildIdentifier" cur = true ↔ cur.isContainer = true) ∧
    (accepts "syntaxRecursiveChildIdentifier" cur = false →
      retrieve env (.desc i mr lr :: rest) prev root cur aloc st =
        .ok (st, some (.type i (expectedOf "syntaxRecursiveChildIdentifier") cur.goTypeName))) := by
  simp only [accepts, desc_tested]
  cases cur <;> simp [dynType, retrieve, typeErr, Val.isContainer]

theorem filter_dispatch (i : Info) (q : Q) :
    (accepts "syntaxFilterQualifier" cur = true ↔ cur.isContainer = true) ∧
    (accepts "syntaxFilterQualifier" cur = false →
      retrieve env (.filter i q :: rest) prev root cur aloc st =
        .ok (st, some (.type i (expectedOf "syntaxFilterQualifier") cur.goTypeName))) := by
  simp only [accepts, filter_tested]
  cases cur <;> simp [dynType, retrieve, typeErr, Val.isContainer]

theorem union_dispatch (i : Info) (subs : List SubI) :
    (accepts "syntaxUnionQualifier" cur = true ↔ ∃ xs, cur = .arr xs) ∧
    (accepts "syntaxUnionQualifier" cur = false →
      retrieve env (.union i subs :: rest) prev root cur aloc st =
        .ok (st, some (.type i (expectedOf "syntaxUnionQualifier") cur.goTypeName))) := by
  simp only [accepts, union_tested]
  cases cur <;> simp [dynType, retrieve, typeErr]

/-- multi-name: `current` is tested for a slice only under `isAllWildcard` (the union twin, see
    `returns_tie`: `call:self.unionQualifier.retrieve`), for a map always -/
theorem multi_dispatch (i : Info) (ids : List MId) (twin : Option Info) :
    (accepts "syntaxChildMultiIdentifier" cur = true ↔ cur.isContainer = true) ∧
    (accepts "syntaxChildMultiIdentifier" cur = false ∨ (twin = none ∧ ∃ xs, cur = .arr xs) →
      retrieve env (.multi i ids twin :: rest) prev root cur aloc st =
        .ok (st, some (.type i (expectedOf "syntaxChildMultiIdentifier") cur.goTypeName))) := by
  simp only [accepts, multi_tested]
  cases cur <;> cases twin <;> simp [dynType, retrieve, typeErr, Val.isContainer]

end dispatch

end C15
end JPV

-- OBLIGATIONS: addDeepest_tie stepAcc_record record_tie finish_tie groupFunctions_tie recordCalls_tie returns_tie loopGuards_tie preLoopReturns_tie dispatch_shape child_tested wild_tested multi_tested desc_tested filter_tested union_tested child_dispatch wild_dispatch desc_dispatch filter_dispatch union_dispatch multi_dispatch
