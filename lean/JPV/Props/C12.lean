/-
C12 — accessor mode changes only the wrapping.

"With accessor mode enabled, a path returns one Accessor per value that the same path returns
without it, in the same order, each Get() yields that value, and a failing path fails with
the same error.  User functions and filter expressions see exactly the same plain values in
both modes."

The two modes differ in the `accessorMode` flag of the nodes of the parsed tree and in nothing
else: `build_erase` — the tree `Parse` builds with the mode off is the tree it builds with the
mode on with every flag cleared (`eraseAcc`), and the same parse error otherwise.
Evaluation looks at the flag in one place, when a value is appended to the result buffer
(`retrieve env [] …`); `sim_chain` (Lemmas/AccSim.lean) relates the two evaluations step by
step, for EVERY tree, document and environment, with no well-formedness hypothesis: they
panic alike, or they return the same values in the same order / the same error, and the same
log of user-function calls (functions inside filters and function parameters included).

The error: `RtErr` stores the Info of the node it names, and that Info contains the flag; so the
plain run's error is the accessor run's error with that flag cleared (`RtErr.eraseAcc`).
Kind, step text, remaining-path text and expected / found type — everything the Go error
value shows — are literally equal (`C12_err_same`).
-/
import JPV.Lemmas.AccSim
import JPV.Lemmas.LocSound
import JPV.Lemmas.AccBuild
import JPV.Acc.Ties
import JPV.Dump
import JPV.Registry
namespace JPV
namespace C12
open Impl

/-- plain-mode outcome `o2` versus accessor-mode outcome `o`: one plain value per result, in
    order; the same error; the same panic -/
def parity : Outcome → Outcome → Prop
  | .ok rs2, .ok rs => rs2 = rs.map (fun r => Res.plain r.val)
  | .err e2, .err e => e2 = e.eraseAcc
  | .panic p2, .panic p => p2 = p
  | _, _ => False

theorem plain_of_not_acc : ∀ (rs : List Res), (∀ r ∈ rs, r.isAcc = false) → rs = rs.map (fun r => Res.plain r.val)
  | [], _ => rfl
  | r :: rs, h => by
    simp only [List.map_cons]
    rw [← plain_of_not_acc rs (fun x hx => h x (List.mem_cons_of_mem _ hx))]
    have := h r List.mem_cons_self
    cases r with
    | plain v => rfl
    | acc v l => simp [Res.isAcc] at this

/-- the two runs, side by side -/
theorem run_sim (env : Env) (ch : List N) (d : Val) :
    parity (Impl.run env (eraseAcc ch) d).1 (Impl.run env ch d).1 ∧
      StEq (Impl.run env (eraseAcc ch) d).2 (Impl.run env ch d).2 := by
  have hsim := sim_chain env ch default d d (some []) {} {} (StEq.refl _)
  rw [eraseI_default] at hsim
  have hplain := retrieve_erased_plain env ch default d d (some []) {}
  rw [eraseI_default] at hplain
  unfold Impl.run
  cases h2 : retrieve env (eraseAcc ch) default d d (some []) {} with
  | error p2 =>
    cases h1 : retrieve env ch default d d (some []) {} with
    | error p =>
      rw [h2, h1] at hsim
      exact ⟨hsim, StEq.refl _⟩
    | ok x => rw [h2, h1] at hsim; exact hsim.elim
  | ok x2 =>
    cases h1 : retrieve env ch default d d (some []) {} with
    | error p => rw [h2, h1] at hsim; exact hsim.elim
    | ok x =>
      rw [h2, h1] at hsim
      obtain ⟨st2, e2⟩ := x2
      obtain ⟨st, e⟩ := x
      obtain ⟨hs, he⟩ := hsim
      simp only [] at hs he
      subst he
      cases e with
      | some err => exact ⟨rfl, hs⟩
      | none =>
        refine ⟨?_, hs⟩
        show st2.out = st.out.map (fun r => Res.plain r.val)
        obtain ⟨R, hR, hP⟩ := hplain st2 none h2
        have hR' : st2.out = R := by simpa using hR
        have h3 : st2.out = st2.out.map (fun r => Res.plain r.val) :=
          plain_of_not_acc st2.out (by rw [hR']; exact hP)
        have h4 : st2.out.map (fun r => Res.plain r.val) = st.out.map (fun r => Res.plain r.val) := by
          have := congrArg (List.map Res.plain) hs.out
          simpa [List.map_map, Function.comp_def] using this
        rw [h3, h4]

/-! ### C12_parity -/

/-- **C12_parity.**  For every tree, the run on the tree without flags (plain mode) and the run
    on the tree (accessor mode) end alike: the plain results are exactly the values of the
    accessor-mode results, one per result, in the same order; or both fail with the same
    error; or both panic with the same panic. -/
theorem C12_parity (env : Env) (ch : List N) (d : Val) :
    parity (Impl.run env (eraseAcc ch) d).1 (Impl.run env ch d).1 :=
  (run_sim env ch d).1

/-- unfolded for successful runs: same number of results, same values, same order -/
theorem C12_parity_ok (env : Env) (ch : List N) (d : Val) (rs : List Res) (st : St)
    (h : Impl.run env ch d = (.ok rs, st)) :
    ∃ st2, Impl.run env (eraseAcc ch) d = (.ok (rs.map (fun r => Res.plain r.val)), st2) := by
  have := C12_parity env ch d
  rw [h] at this
  cases h2 : Impl.run env (eraseAcc ch) d with
  | mk o2 st2 =>
    rw [h2] at this
    cases o2 with
    | ok rs2 => exact ⟨st2, by rw [show rs2 = _ from this]⟩
    | err e => exact this.elim
    | panic p => exact this.elim

/-- unfolded for failing runs -/
theorem C12_parity_err (env : Env) (ch : List N) (d : Val) (e : RtErr) (st : St)
    (h : Impl.run env ch d = (.err e, st)) :
    ∃ st2, Impl.run env (eraseAcc ch) d = (.err e.eraseAcc, st2) := by
  have := C12_parity env ch d
  rw [h] at this
  cases h2 : Impl.run env (eraseAcc ch) d with
  | mk o2 st2 =>
    rw [h2] at this
    cases o2 with
    | ok rs2 => exact this.elim
    | err e2 => exact ⟨st2, by rw [show e2 = _ from this]⟩
    | panic p => exact this.elim

/-- the error is the same error: kind, step text, remaining-path text, value-group flag,
    expected and found type; as the T3 channel prints it, literally the same -/
theorem C12_err_same (e : RtErr) :
    e.eraseAcc.info.text = e.info.text ∧ e.eraseAcc.info.conn = e.info.conn ∧ e.eraseAcc.info.vg = e.info.vg ∧
      e.eraseAcc.isType = e.isType ∧ RtErr.toSexp e.eraseAcc = RtErr.toSexp e := by
  cases e <;> exact ⟨rfl, rfl, rfl, rfl, rfl⟩

/-! ### C12_calls_same -/

/-- **C12_calls_same.**  The two runs make the same user-function calls, in the same order,
    with the same (plain) arguments — filter functions and aggregate functions, at the top
    level, inside function parameters and inside filter expressions.  (After a panic both
    logs are empty: `Impl.run` drops the state.) -/
theorem C12_calls_same (env : Env) (ch : List N) (d : Val) :
    (Impl.run env (eraseAcc ch) d).2.log = (Impl.run env ch d).2.log :=
  (run_sim env ch d).2.log

/-- filters also do the same in-place edits of their working lists -/
theorem C12_writes_same (env : Env) (ch : List N) (d : Val) :
    (Impl.run env (eraseAcc ch) d).2.writes = (Impl.run env ch d).2.writes :=
  (run_sim env ch d).2.writes

/-- filter expressions compute the same verdict list in both modes, from related states (the same
    call log and write log before ⇒ the same list, and the same logs after) -/
theorem C12_filter_same (env : Env) (q : Q) (root : Val) (ms : List Val) (st2 st : St) (h : StEq st2 st) :
    RelM RV (computeQ env (eraseQ q) root ms st2) (computeQ env q root ms st) :=
  sim_query env q root ms st2 st h

/-- **what functions and filters see is plain, in accessor mode too.**  In every tree `Parse` builds
    (either mode) the parameter chain of every aggregate function is non-empty and carries no flag,
    and no filter query carries a flag … -/
theorem C12_sub_flagfree (env : Env) (cfg : Cfg) (p : Path) (ch : List N) (hb : Build.build env cfg p = .ok ch) :
    ∀ n ∈ ch, match n with
      | .afn _ _ param => eraseAcc param = param ∧ param ≠ []
      | .filter _ q => eraseQ q = q
      | _ => True := by
  intro n hn
  have := build_subFree env cfg p ch hb n hn
  cases n <;> first | exact this | trivial

/-- … and a chain that carries no flag appends plain values only to the buffer it is run on: the
    buffer an aggregate function's arguments are taken from, the buffer a filter operand is read
    from, never hold an accessor -/
theorem C12_sub_plain (env : Env) (ch : List N) (hfix : eraseAcc ch = ch) (prev : Info)
    (hprev : ch ≠ [] ∨ prev.acc = false) (root cur : Val) (aloc : Option Loc) (st st' : St) (e : Option RtErr)
    (h : retrieve env ch prev root cur aloc st = .ok (st', e)) :
    ∃ R, st'.out = st.out ++ R ∧ ∀ r ∈ R, r.isAcc = false :=
  retrieve_flagfree_plain env ch hfix prev hprev root cur aloc st st' e h

/-! ### C12_get -/

/-- **C12_get.**  The `i`-th accessor's value is the `i`-th plain result, and its `Get()` on
    the document the run was given returns that value.  (The second part is about locations:
    `d.wf` and `locChain` as in C13.) -/
theorem C12_get (env : Env) (ch : List N) (d : Val) (hd : d.wf = true) (hl : locChain true ch = true)
    (rs : List Res) (st : St) (h : Impl.run env ch d = (.ok rs, st)) :
    ∃ rs2 st2, Impl.run env (eraseAcc ch) d = (.ok rs2, st2) ∧ rs2.length = rs.length ∧
      ∀ (i : Nat) (r : Res), rs[i]? = some r → rs2[i]? = some (Res.plain r.val) ∧ r.get d = some r.val := by
  obtain ⟨st2, h2⟩ := C12_parity_ok env ch d rs st h
  refine ⟨_, st2, h2, by simp, ?_⟩
  intro i r hi
  refine ⟨by simp [hi], ?_⟩
  have hmem : r ∈ rs := List.mem_of_getElem? hi
  match r, hmem with
  | .plain v, _ => rfl
  | .acc v none, _ => rfl
  | .acc v (some loc), hmem =>
    exact run_results (P := LocOK d) h
      (fun st' h' => retrieve_loc_sound env d hd ch true hl default d (some []) (getAt_nil d) {} st' none h')
      _ hmem v loc rfl

/-! ### C12_wrapped -/

/-- **C12_wrapped.**  Which Infos decide: the last node's, and for a trailing multi-name node
    those of its inner identifiers and of its union twin (`lastInfos`).  When they all carry
    the flag every result is an accessor; when none does every result is plain. -/
theorem C12_wrapped (env : Env) (ch : List N) (d : Val) (b : Bool) (hflags : ∀ j ∈ lastInfos ch default, j.acc = b)
    (rs : List Res) (st : St) (h : Impl.run env ch d = (.ok rs, st)) : ∀ r ∈ rs, r.isAcc = b :=
  run_results (P := fun r => r.isAcc = b) h
    (fun st' h' => retrieve_appends env (endHoare d b) ch default d (some []) {} st' none hflags h')

/-- for the tree `Parse` builds with accessor mode on, all results are accessors … -/
theorem C12_wrapped_build (env : Env) (p : Path) (ch : List N) (hb : Build.build env ⟨true⟩ p = .ok ch)
    (d : Val) (rs : List Res) (st : St) (h : Impl.run env ch d = (.ok rs, st)) : ∀ r ∈ rs, r.isAcc = true :=
  C12_wrapped env ch d true (build_flags env p ch hb default) rs st h

/-! ### the two modes of `Parse` -/

/-- **C12 for `Parse`.**  The same path parsed with accessor mode on and off: the same parse
    error, or two trees whose runs on any document are in `parity`, with the same call log;
    every accessor-mode result is an accessor. -/
theorem C12_build (env : Env) (p : Path) :
    (∀ pe, Build.build env ⟨true⟩ p = .error pe → Build.build env ⟨false⟩ p = .error pe) ∧
    (∀ chA, Build.build env ⟨true⟩ p = .ok chA →
      ∃ chP, Build.build env ⟨false⟩ p = .ok chP ∧ ∀ d,
        parity (Impl.run env chP d).1 (Impl.run env chA d).1 ∧
        (Impl.run env chP d).2.log = (Impl.run env chA d).2.log ∧
        (∀ rs st, Impl.run env chA d = (.ok rs, st) → ∀ r ∈ rs, r.isAcc = true)) := by
  have he := build_erase env p
  refine ⟨?_, ?_⟩
  · intro pe h
    rw [he, h]; rfl
  · intro chA h
    refine ⟨eraseAcc chA, by rw [he, h]; rfl, fun d => ⟨C12_parity env chA d, C12_calls_same env chA d, ?_⟩⟩
    intro rs st hr
    exact C12_wrapped_build env p chA h d rs st hr

/-! ### ties to the source (Gen/AccessorGo.lean is regenerated from /repo on every run) -/

/-- evaluation reads `accessorMode` in one place only — as the condition that chooses the wrapping in
    the three `retrieve…Next` helpers — and every other mention is the parser setting it
    (what `sim_chain` proves of the model) -/
theorem C12_tie_flag :
    Gen.AccessorGo.flagUses = Acc.Ties.expectFlagUses ∧
    (Gen.AccessorGo.flagUses.filter (fun r => r.getD 1 "" == "if" || r.getD 1 "" == "use")).map (fun r => r.getD 0 "") =
      ["Parse", "syntaxBasicNode.retrieveAnyValueNext", "syntaxBasicNode.retrieveListNext",
       "syntaxBasicNode.retrieveMapNext"] :=
  ⟨Acc.Ties.T_flagUses, Acc.Ties.T_flag_read_once⟩

/-- in each helper the value appended in plain mode is the value handed on to the rest of the chain
    and the value `Get` returns at creation (C12_parity, C12_get) -/
theorem C12_tie_helpers :
    Gen.AccessorGo.helpers = Acc.Ties.expectHelpers ∧ Gen.AccessorGo.helpers.all Acc.Ties.Helper.ok = true :=
  ⟨Acc.Ties.T_helpers, Acc.Ties.T_helpers_ok⟩

/-- who clears the flag (filter operands, what feeds an aggregate) and how a multi-name node hands it
    to its inner identifiers and union twin (`Build.mkInfos`, `Build.mid`; C12_wrapped, `build_erase`);
    results are appended only by the helpers -/
theorem C12_tie_modes :
    Gen.AccessorGo.modeCalls = Acc.Ties.expectModeCalls ∧
    Gen.AccessorGo.resultWrites = Acc.Ties.expectResultWrites ∧
    Gen.AccessorGo.retrieveCalls = Acc.Ties.expectRetrieveCalls :=
  ⟨Acc.Ties.T_modeCalls, Acc.Ties.T_resultWrites, Acc.Ties.T_retrieveCalls⟩

/-! ### non-vacuity -/

section Examples

def ia (t c : String) (acc : Bool) : Info := ⟨t, c, false, acc⟩

/-- the tree of `$.a[1].twice()` in accessor mode -/
def chF : List N :=
  [.child (ia ".a" ".a[1].twice()" true) "a", .union (ia "[1]" "[1].twice()" true) [.idx 1],
   .ffn (ia ".twice()" ".twice()" true) "twice"]

def doc : Val := .obj [("a", .arr [.num 1, .num 2]), ("b", .null)]

theorem erase_chF : eraseAcc chF =
    [.child (ia ".a" ".a[1].twice()" false) "a", .union (ia "[1]" "[1].twice()" false) [.idx 1],
     .ffn (ia ".twice()" ".twice()" false) "twice"] := by
  simp [chF, eraseAcc, eraseN, eraseI, ia]

/-- accessor mode: one accessor, value 4, one call of `twice` with the plain argument 2 -/
theorem run_acc : Impl.run Registry.env chF doc =
    (.ok [.acc (.num 4) none], { out := [.acc (.num 4) none], log := [.ffn "twice" (.num 2)], writes := [] }) := by
  simp [Impl.run, retrieve, chF, doc, ia, Val.lookup, subIndexes, loopAcc, stepAcc, endGroup, finishGroup, ext,
    St.push, St.call, bind, Except.bind, Registry.env, Registry.ffn]

/-- plain mode: the plain value 4, the same call -/
theorem run_plain : Impl.run Registry.env (eraseAcc chF) doc =
    (.ok [.plain (.num 4)], { out := [.plain (.num 4)], log := [.ffn "twice" (.num 2)], writes := [] }) := by
  rw [erase_chF]
  simp [Impl.run, retrieve, doc, ia, Val.lookup, subIndexes, loopAcc, stepAcc, endGroup, finishGroup, ext,
    St.push, St.call, bind, Except.bind, Registry.env, Registry.ffn]

/-- C12_parity / C12_calls_same / C12_wrapped are not vacuous: the two runs above are related as
    the theorems say, with a non-empty result list and a non-empty call log -/
example : parity (Impl.run Registry.env (eraseAcc chF) doc).1 (Impl.run Registry.env chF doc).1 ∧
    (Impl.run Registry.env chF doc).2.log = [.ffn "twice" (.num 2)] ∧
    (∀ j ∈ lastInfos chF default, j.acc = true) := by
  rw [run_acc, run_plain]
  refine ⟨rfl, rfl, ?_⟩
  intro j hj
  simp [chF, lastInfos, tailInfos] at hj
  subst hj
  rfl

/-- C12_parity_err: a failing path — `$.c` on the same document: member error at `.c` in both modes -/
example : (Impl.run Registry.env [.child (ia ".c" ".c" true) "c"] doc).1 = .err (.member (ia ".c" ".c" true)) ∧
    (Impl.run Registry.env (eraseAcc [.child (ia ".c" ".c" true) "c"]) doc).1 = .err (.member (ia ".c" ".c" false)) := by
  constructor <;>
    simp [Impl.run, retrieve, doc, ia, Val.lookup, eraseAcc, eraseN, eraseI]

/-- C12_sub_plain: a flag-free, non-empty parameter chain (that of `$.a.max()`) -/
example : eraseAcc [N.child (ia ".a" ".a" false) "a"] = [N.child (ia ".a" ".a" false) "a"] ∧
    [N.child (ia ".a" ".a" false) "a"] ≠ [] := by
  constructor
  · simp [eraseAcc, eraseN, eraseI, ia]
  · simp

/-- C12_filter_same: related states exist that are not equal — the buffers hold an accessor and a
    plain value with the same value -/
example : StEq { out := [.plain (.num 4)], log := [.ffn "twice" (.num 2)] }
    { out := [.acc (.num 4) none], log := [.ffn "twice" (.num 2)] } := ⟨rfl, rfl, rfl⟩

/-- C12_get: its hypotheses hold for the run above -/
example : doc.wf = true ∧ locChain true chF = true := ⟨by decide, by decide⟩

/-- C12_build / C12_wrapped_build: `Parse` accepts `$.a[1].twice()` with accessor mode on -/
example : ∃ ch, Build.build Registry.env ⟨true⟩
    (.mk .root [.child ".a" "a", .union "[1]" [.idx 1]] [.ffn ".twice()" "twice"]) = .ok ch := by
  simp [Build.build, Build.buildPath, Build.stepsPre, Build.stepPre, Build.mkInfos, Build.assemble, Build.finish,
    bind, Except.bind, Build.suffixTexts, Build.lastAfnIdx, Pre.text, List.zipIdx, Pre.isAfn, Build.fnPre,
    Registry.env, Registry.ffn]

end Examples

end C12
end JPV
-- OBLIGATIONS: JPV.C12.C12_parity JPV.C12.C12_parity_ok JPV.C12.C12_parity_err JPV.C12.C12_err_same JPV.C12.C12_calls_same JPV.C12.C12_writes_same JPV.C12.C12_filter_same JPV.C12.C12_sub_flagfree JPV.C12.C12_sub_plain JPV.C12.C12_get JPV.C12.C12_wrapped JPV.C12.C12_wrapped_build JPV.C12.C12_build JPV.C12.C12_tie_flag JPV.C12.C12_tie_helpers JPV.C12.C12_tie_modes
