/-
Transport — the laws proved on `Spec` (C08 C09 C10) restated for the implementation model:
`Impl.run ∘ Build.build` (what `Parse(path)(doc)` does) and `Impl.computeQ ∘ Build.buildQ`
(what a filter's query computes through the list protocol), via the two refinement halves.
-/
import JPV.Props.C01
import JPV.Props.C08Spec
import JPV.Props.C09Spec
import JPV.Props.C10Spec
namespace JPV
namespace Transport
open Impl TSem Spec

/-- the values `Retrieve(path, d, cfg)` returns in the model; `none`: any error -/
def retrieveVals (env : Env) (cfg : Cfg) (p : Path) (d : Val) : Option (List Val) :=
  match Build.build env cfg p with
  | .ok ch => (match (Impl.run env ch d).1 with
    | .ok rs => some (rs.map Res.val)
    | _ => none)
  | .error _ => none

theorem retrieveVals_eq_spec (env : Env) (cfg : Cfg) (p : Path) (ch : List N) (d : Val)
    (hb : Build.build env cfg p = .ok ch) (hd : d.wf = true) : retrieveVals env cfg p d = Spec.run env p d := by
  unfold retrieveVals
  rw [hb]
  rcases C01.C01_refines env cfg p ch d hb hd with ⟨vs, rs, st, hs, hr, hv, _⟩ | ⟨e, st, hs, hr⟩
  · simp [hr, hs, hv]
  · simp [hr, hs]

/-- the per-member verdicts a filter's query yields through the list protocol -/
def selected (env : Env) (cfg : Cfg) (q : Query) (root : Val) (ms : List Val) : Option (List Bool) :=
  match Build.buildQ env cfg q with
  | .ok tq => (match computeQ env tq root ms {} with
    | .ok (vl, _) => some (absVL vl.cells ms.length)
    | .error _ => none)
  | .error _ => none

theorem selected_eq_spec (env : Env) (cfg : Cfg) (q : Query) (tq : Q) (root : Val) (ms : List Val)
    (hb : Build.buildQ env cfg q = .ok tq) (hr : root.wf = true) (hms : ∀ m ∈ ms, m.wf = true) :
    selected env cfg q root ms = some (verdicts env q root ms) := by
  unfold selected
  rw [hb]
  have hwf := C01Build.buildQ_wf env cfg q tq hb
  obtain ⟨vl, st1, h1, _, _, habs⟩ := computeQ_ok env tq hwf root ms {}
  simp only [h1]
  rw [habs, C01Build.build_semQ env cfg q tq hb root ms hr hms]

/-! ### C08 on the implementation model -/

theorem flatMap_congr_mem {α β : Type} (l : List α) (f g : α → List β) (h : ∀ x ∈ l, f x = g x) :
    l.flatMap f = l.flatMap g := by
  induction l with
  | nil => rfl
  | cons x xs ih =>
    simp only [List.flatMap_cons]
    rw [h x (List.mem_cons_self), ih (fun y hy => h y (List.mem_cons_of_mem _ hy))]

/-- **C08 (steps compose), for the implementation model.** `hbQ` says `$`+Q parses. -/
theorem C08_compose_impl (env : Env) (cfg : Cfg) (P Q : List Step) (fns : List Fn)
    (hf : ∀ f ∈ fns, SpecAlg.isFfn f = true) (hQ : ∀ s ∈ Q, SpecAlg.rootFree s) (d : Val) (hd : d.wf = true)
    (chPQ chP chQ : List N)
    (hbPQ : Build.build env cfg (.mk .root (P ++ Q) fns) = .ok chPQ)
    (hbP : Build.build env cfg (.mk .root P []) = .ok chP)
    (hbQ : Build.build env cfg (.mk .root Q fns) = .ok chQ) :
    retrieveVals env cfg (.mk .root (P ++ Q) fns) d =
      SpecAlg.nonEmpty? (((retrieveVals env cfg (.mk .root P []) d).getD []).flatMap
        (fun v => (retrieveVals env cfg (.mk .root Q fns) v).getD [])) := by
  rw [retrieveVals_eq_spec env cfg _ chPQ d hbPQ hd, retrieveVals_eq_spec env cfg _ chP d hbP hd,
    C08.C08_compose_run env P Q fns hf hQ d]
  congr 1
  apply flatMap_congr_mem
  intro v hv
  rw [retrieveVals_eq_spec env cfg _ chQ v hbQ (C08.C08_prefix_wf env P d hd v hv)]

/-! ### C09 on the implementation model -/

theorem buildQ_and_inv (env : Env) (cfg : Cfg) (a b : Query) (tq : Q) (h : Build.buildQ env cfg (.and a b) = .ok tq) :
    ∃ ta tb, Build.buildQ env cfg a = .ok ta ∧ Build.buildQ env cfg b = .ok tb := by
  rw [Build.buildQ] at h
  cases ha : Build.buildQ env cfg a with
  | error e => simp [ha, bind, Except.bind] at h
  | ok ta =>
    cases hb : Build.buildQ env cfg b with
    | error e => simp [ha, hb, bind, Except.bind] at h
    | ok tb => exact ⟨ta, tb, rfl, rfl⟩

theorem buildQ_or_inv (env : Env) (cfg : Cfg) (a b : Query) (tq : Q) (h : Build.buildQ env cfg (.or a b) = .ok tq) :
    ∃ ta tb, Build.buildQ env cfg a = .ok ta ∧ Build.buildQ env cfg b = .ok tb := by
  rw [Build.buildQ] at h
  cases ha : Build.buildQ env cfg a with
  | error e => simp [ha, bind, Except.bind] at h
  | ok ta =>
    cases hb : Build.buildQ env cfg b with
    | error e => simp [ha, hb, bind, Except.bind] at h
    | ok tb => exact ⟨ta, tb, rfl, rfl⟩

/-- `A && B` selects the intersection of what the parts select, member by member, through
    the list protocol (per-member lists, whole-match lists of length 1, in-place merging). -/
theorem C09_and_impl (env : Env) (cfg : Cfg) (a b : Query) (tq : Q) (root : Val) (ms : List Val)
    (hb : Build.buildQ env cfg (.and a b) = .ok tq) (hr : root.wf = true) (hms : ∀ m ∈ ms, m.wf = true) :
    ∃ sa sb, selected env cfg a root ms = some sa ∧ selected env cfg b root ms = some sb ∧
      selected env cfg (.and a b) root ms = some (List.zipWith (· && ·) sa sb) := by
  obtain ⟨ta, tb, ha, hb'⟩ := buildQ_and_inv env cfg a b tq hb
  exact ⟨_, _, selected_eq_spec env cfg a ta root ms ha hr hms, selected_eq_spec env cfg b tb root ms hb' hr hms,
    by rw [selected_eq_spec env cfg _ tq root ms hb hr hms, C09.C09_and]⟩

theorem C09_or_impl (env : Env) (cfg : Cfg) (a b : Query) (tq : Q) (root : Val) (ms : List Val)
    (hb : Build.buildQ env cfg (.or a b) = .ok tq) (hr : root.wf = true) (hms : ∀ m ∈ ms, m.wf = true) :
    ∃ sa sb, selected env cfg a root ms = some sa ∧ selected env cfg b root ms = some sb ∧
      selected env cfg (.or a b) root ms = some (List.zipWith (· || ·) sa sb) := by
  obtain ⟨ta, tb, ha, hb'⟩ := buildQ_or_inv env cfg a b tq hb
  exact ⟨_, _, selected_eq_spec env cfg a ta root ms ha hr hms, selected_eq_spec env cfg b tb root ms hb' hr hms,
    by rw [selected_eq_spec env cfg _ tq root ms hb hr hms, C09.C09_or]⟩

/-- `!path` selects the complement of `path` -/
theorem C09_not_impl (env : Env) (cfg : Cfg) (p : Path) (t1 t2 : Q) (root : Val) (ms : List Val)
    (h1 : Build.buildQ env cfg (.exist true p) = .ok t1) (h2 : Build.buildQ env cfg (.exist false p) = .ok t2)
    (hr : root.wf = true) (hms : ∀ m ∈ ms, m.wf = true) :
    selected env cfg (.exist true p) root ms = (selected env cfg (.exist false p) root ms).map (·.map (!·)) := by
  rw [selected_eq_spec env cfg _ t1 root ms h1 hr hms, selected_eq_spec env cfg _ t2 root ms h2 hr hms, C09.C09_not]
  rfl

/-- `x != y` selects exactly the complement of `x == y` -/
theorem C09_ne_impl (env : Env) (cfg : Cfg) (l r : Operand) (t1 t2 : Q) (root : Val) (ms : List Val)
    (h1 : Build.buildQ env cfg (.cmp .ne l r) = .ok t1) (h2 : Build.buildQ env cfg (.cmp .eq l r) = .ok t2)
    (hr : root.wf = true) (hms : ∀ m ∈ ms, m.wf = true) :
    selected env cfg (.cmp .ne l r) root ms = (selected env cfg (.cmp .eq l r) root ms).map (·.map (!·)) := by
  rw [selected_eq_spec env cfg _ t1 root ms h1 hr hms, selected_eq_spec env cfg _ t2 root ms h2 hr hms,
    C09.C09_ne_complement]
  rfl

/-- swapping the operands while mirroring the operator never changes the selection — whichever
    operand the parser decides to evaluate per member, whichever comparator it picks -/
theorem C09_mirror_impl (env : Env) (cfg : Cfg) (op : CmpOp) (l r : Operand) (t1 t2 : Q) (root : Val) (ms : List Val)
    (h1 : Build.buildQ env cfg (.cmp op l r) = .ok t1) (h2 : Build.buildQ env cfg (.cmp (SpecFil.mirror op) r l) = .ok t2)
    (hr : root.wf = true) (hms : ∀ m ∈ ms, m.wf = true) :
    selected env cfg (.cmp op l r) root ms = selected env cfg (.cmp (SpecFil.mirror op) r l) root ms := by
  rw [selected_eq_spec env cfg _ t1 root ms h1 hr hms, selected_eq_spec env cfg _ t2 root ms h2 hr hms, C09.C09_mirror]

/-- against a number literal `<=` selects the union of `<` and `==` -/
theorem C09_le_union_impl (env : Env) (cfg : Cfg) (l : Operand) (n : Int) (t1 t2 t3 : Q) (root : Val) (ms : List Val)
    (h1 : Build.buildQ env cfg (.cmp .le l (.lit (.num n))) = .ok t1)
    (h2 : Build.buildQ env cfg (.cmp .lt l (.lit (.num n))) = .ok t2)
    (h3 : Build.buildQ env cfg (.cmp .eq l (.lit (.num n))) = .ok t3)
    (hr : root.wf = true) (hms : ∀ m ∈ ms, m.wf = true) :
    ∃ s2 s3, selected env cfg (.cmp .lt l (.lit (.num n))) root ms = some s2 ∧
      selected env cfg (.cmp .eq l (.lit (.num n))) root ms = some s3 ∧
      selected env cfg (.cmp .le l (.lit (.num n))) root ms = some (List.zipWith (· || ·) s2 s3) :=
  ⟨_, _, selected_eq_spec env cfg _ t2 root ms h2 hr hms, selected_eq_spec env cfg _ t3 root ms h3 hr hms,
    by rw [selected_eq_spec env cfg _ t1 root ms h1 hr hms, C09.C09_le_union]⟩

/-! ### C10 on the implementation model -/

/-- the json.Number decoding of a document selects the same members: the evaluator's answer on
    `d.toJnum` is its answer on `d`, decoded the other way (function-free paths) -/
theorem C10_decoding_invariant_impl (env : Env) (cfg : Cfg) (p : Path) (ch : List N) (hp : SpecJn.fnFree p)
    (d : Val) (hd : d.wf = true) (hpl : d.plainNums = true) (hb : Build.build env cfg p = .ok ch) :
    retrieveVals env cfg p d.toJnum = (retrieveVals env cfg p d).map (·.map Val.toJnum) := by
  have hdj : d.toJnum.wf = true := by rw [C10.C10_toJnum_wf]; exact hd
  rw [retrieveVals_eq_spec env cfg p ch _ hb hdj, retrieveVals_eq_spec env cfg p ch d hb hd,
    C10.C10_decoding_invariant env p hp d hpl]

end Transport
end JPV
-- OBLIGATIONS: JPV.Transport.retrieveVals_eq_spec JPV.Transport.selected_eq_spec JPV.Transport.C08_compose_impl
--   JPV.Transport.C09_and_impl JPV.Transport.C09_or_impl JPV.Transport.C09_not_impl JPV.Transport.C09_ne_impl
--   JPV.Transport.C09_mirror_impl JPV.Transport.C09_le_union_impl JPV.Transport.C10_decoding_invariant_impl
