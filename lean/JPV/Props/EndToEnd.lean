/-
EndToEnd — ONE statement from the public entry point down to the specification.

The layers, each tied to regenerated code elsewhere, chained here:

  `Gen.ParseWrapGo.Retrieve`  (regenerated /repo/jsonpath.go `Retrieve`, over the explicit global state)
     = `Parse`, then one call of the function it returned            Props/RetrieveState.lean  Retrieve_spec
  `Parse` at rest over the model's operations = `Peg.parseModel`     Props/C19State.lean / Glob/Tie.lean  pureParse_model
  `parseModel (print a)` = `Build.build (texts a)` up to the
     `omitted` flag of slice steps, errors included                   Props/C18Spell.lean  SpellParse_norm
  the call = `callRetOfRun (Impl.run …)` on the tree closed over,
     with the functions of THIS call's Config                         Props/C05State.lean, C19_functions_captured
  `Impl.run` on that tree = `Spec.run` on the abstract path           Props/C18Spell.lean  C18_spelling_C01_all (C01_refines)
  every result is wrapped as the Config's accessor flag says          Props/C12.lean  C12_wrapped

`E2E_retrieve_spec` (the relation `E2E`): for every world at rest with truncated pools — whatever its buffer, PEG
runtime, pool contents, log —, every Config list, every well-formed spelling `a` of an abstract path (`ExtOKS`,
`EnvOKS` for the functions of THIS call's Config), every canonical document, every pool choice: the outcome of
`Retrieve (print a) d config…` is
  * `values`     when `Build` accepts the path and the specification selects `vs` (non-empty): a fresh slice (`made`,
                 len = cap) of exactly `vs`, in order, every element wrapped as the accessor flag says;
  * `noMatch`    when `Build` accepts the path and the specification selects nothing: a runtime error, no slice;
  * `funcNotFound` / `valueGroup` / `twoCurrentNodes`  when `Build` refuses the path: the parse error of that kind
                 (`ErrorFunctionNotFound` of that text / `ErrorInvalidSyntax` with that reason, at some position);
never a panic, never `(nil, nil)`, never blocked; the world afterwards is at rest with truncated pools again.
NOTHING is assumed about the accessor flag (the task asked for "flag off": `E2E_plain` is that special case, the
slice then is literally `vs.map .plain`).

  E2E_values / E2E_none / E2E_parse_error_iff / E2E_no_panic   the readable consequences
  E2E_history     the k-th call of ANY history of `Retrieve` calls from a world at rest
  E2E_spellings   two spellings of the same abstract path: the same outcome on every document
  E2E_full        the ideal statement (real `Ops`, not `modelOps`): what is missing is said there
-/
import JPV.Props.RetrieveState
import JPV.Props.C18Spell
import JPV.Props.C12
namespace JPV
namespace EndToEnd
open Glob Gen.ParseWrapGo RetrieveState
open JPV.Peg (parseModel outcomeOfStop Stop Reason ParseOutcome nearOf)
open JPV.Spell (SPath)
open JPV.SP (ExtOKS EnvOKS normCh normN)
open JPV.Impl (Res RtErr)

/-! ### inverting `PRet.outcome`: what `Parse` returned, from what `parseModel` says -/

theorem outcome_ok_inv (input : Array Char) (r : PRet) (ch : List N) (h : r.outcome input = .ok ch) :
    ∃ t : Tree, r = .fn (some t) ∧ t.ch = ch := by
  cases r with
  | fn root =>
    cases root with
    | none => simp [PRet.outcome] at h
    | some t =>
      obtain ⟨c, f, g⟩ := t
      cases c with
      | nil => simp [PRet.outcome] at h
      | cons n rest =>
        simp only [PRet.outcome, ParseOutcome.ok.injEq] at h
        exact ⟨_, rfl, h⟩
  | err e =>
    cases e with
    | action s => cases s <;> simp [PRet.outcome, outcomeOfStop] at h
    | nilFunc => simp [PRet.outcome] at h
    | index => simp [PRet.outcome] at h
  | nothing => simp [PRet.outcome] at h

theorem outcome_fnf_inv (input : Array Char) (r : PRet) (t : String) (h : r.outcome input = .functionNotFound t) :
    r = .err (.action (.functionNotFound t)) := by
  cases r with
  | fn root =>
    cases root with
    | none => simp [PRet.outcome] at h
    | some tr =>
      obtain ⟨c, f, g⟩ := tr
      cases c <;> simp [PRet.outcome] at h
  | err e =>
    cases e with
    | action s =>
      cases s <;> simp [PRet.outcome, outcomeOfStop] at h
      subst h; rfl
    | nilFunc => simp [PRet.outcome] at h
    | index => simp [PRet.outcome] at h
  | nothing => simp [PRet.outcome] at h

theorem outcome_syntax_inv (input : Array Char) (r : PRet) (pos : Nat) (reason : Reason) (near : String)
    (h : r.outcome input = .syntaxErr pos reason.msg near) :
    r = .err (.action (.syntaxErr pos reason)) := by
  cases r with
  | fn root =>
    cases root with
    | none => simp [PRet.outcome] at h
    | some tr =>
      obtain ⟨c, f, g⟩ := tr
      cases c <;> simp [PRet.outcome] at h
  | err e =>
    cases e with
    | action s =>
      cases s with
      | syntaxErr p r' =>
        simp only [PRet.outcome, outcomeOfStop, ParseOutcome.syntaxErr.injEq] at h
        obtain ⟨hp, hm, _⟩ := h
        subst hp
        have : r' = reason := by
          cases r' <;> cases reason <;> first | rfl | (simp [Reason.msg] at hm)
        subst this; rfl
      | _ => simp [PRet.outcome, outcomeOfStop] at h
    | nilFunc => simp [PRet.outcome] at h
    | index => simp [PRet.outcome] at h
  | nothing => simp [PRet.outcome] at h

/-! ### the wrapping flag of the tree `Parse` returns -/

theorem tailInfos_norm (n : N) : tailInfos (normN n) = tailInfos n := by
  cases n <;> simp [normN, tailInfos]

theorem lastInfos_norm : ∀ (ch : List N) (prev : Info), lastInfos (normCh ch) prev = lastInfos ch prev
  | [], _ => by simp [normCh]
  | [n], _ => by simp [normCh, lastInfos, tailInfos_norm]
  | n :: m :: rest, prev => by
    have ih := lastInfos_norm (m :: rest) prev
    simp only [normCh, lastInfos] at ih ⊢
    exact ih

/-- every Info that decides the wrapping of the results of a built tree carries the flag of the configuration -/
theorem build_flags_cfg (env : Env) (cfg : Cfg) (p : Path) (ch : List N) (hb : Build.build env cfg p = .ok ch) :
    ∀ j ∈ lastInfos ch default, j.acc = cfg.accessor := by
  obtain ⟨b⟩ := cfg
  cases b with
  | true => exact build_flags env p ch hb default
  | false =>
    rw [build_erase] at hb
    cases hA : Build.build env ⟨true⟩ p with
    | error e => rw [hA] at hb; cases hb
    | ok chA =>
      rw [hA] at hb
      have : eraseAcc chA = ch := by simpa [Except.map] using hb
      subst this
      have h := lastInfos_erase chA default
      rw [eraseI_default] at h
      exact h

theorem envOf_eta (regex : String → String → Bool) (config : List Config) :
    (⟨(envOf regex config).ffn, (envOf regex config).afn, regex⟩ : Env) = envOf regex config := by
  cases config <;> rfl

/-! ### the end-to-end relation -/

/-- what `Retrieve (print a) d config…` returns, in terms of `Build.build` on the abstract path (with the texts of
    this spelling) and of `Spec.run` on the abstract path `a.erase` -/
inductive E2E (env : Env) (cfg : Cfg) (a : SPath) (d : Val) : RetrieveRet → Prop
  /-- `(values, nil)`: a fresh slice holding exactly what the specification selects, wrapped as the flag says -/
  | values (ch0 : List N) (vs : List Val) (rs : List Res)
      (hb : Build.build env cfg (Spell.texts a) = .ok ch0) (hs : Spec.run env a.erase d = some vs) (hne : vs ≠ [])
      (hv : rs.map Res.val = vs) (hacc : ∀ r ∈ rs, r.isAcc = cfg.accessor) :
      E2E env cfg a d (.called (.returned (some ⟨.made, rs, []⟩) none))
  /-- `(nil, err)`, `err` a runtime error (ErrorMemberNotExist / ErrorTypeUnmatched / ErrorFunctionFailed) -/
  | noMatch (ch0 : List N) (e : RtErr)
      (hb : Build.build env cfg (Spell.texts a) = .ok ch0) (hs : Spec.run env a.erase d = none) :
      E2E env cfg a d (.called (.returned none (some e)))
  /-- `(nil, ErrorFunctionNotFound{function: t})` from `Parse` -/
  | funcNotFound (t : String) (hb : Build.build env cfg (Spell.texts a) = .error (.funcNotFound t)) :
      E2E env cfg a d (.parseErr (.action (.functionNotFound t)))
  /-- `(nil, ErrorInvalidSyntax{reason: "JSONPath that returns a value group is prohibited"})` from `Parse` -/
  | valueGroup (pos : Nat) (hb : Build.build env cfg (Spell.texts a) = .error .valueGroupOperand) :
      E2E env cfg a d (.parseErr (.action (.syntaxErr pos .filterValueGroup)))
  /-- `(nil, ErrorInvalidSyntax{reason: "comparison between two current nodes is prohibited"})` from `Parse` -/
  | twoCurrentNodes (pos : Nat) (hb : Build.build env cfg (Spell.texts a) = .error .twoCurrentNodes) :
      E2E env cfg a d (.parseErr (.action (.syntaxErr pos .twoCurrentNode)))

/-- the outcome as a function of (path text, document, Config) alone satisfies the relation -/
theorem retrieveSpec_E2E (ext : Peg.Ext) (regex : String → String → Bool) (config : List Config) (a : SPath)
    (hwf : Spell.wf a = true) (hext : ExtOKS ext a) (henv : EnvOKS (envOf regex config) a) (d : Val)
    (hd : d.wf = true) :
    E2E (envOf regex config) (cfgOf config) a d
      (retrieveSpec (modelOps ext regex) (runSpec regex) (Spell.printS a) d config) := by
  have hN := C18Spell.SpellParse_norm (envOf regex config) ext (cfgOf config) a hwf hext henv
  have hM := pureParse_model ext regex (Spell.printS a) config
  have hF := pureParse_model_fn ext regex (Spell.printS a) config
  unfold retrieveSpec
  generalize pureParse (modelOps ext regex) (Spell.printS a) config JsonPathParser.zero = r at hM hF
  generalize hb : Build.build (envOf regex config) (cfgOf config) (Spell.texts a) = b at hN
  generalize hpo : parseModel (envOf regex config) ext (cfgOf config) (Spell.printS a) = po at hN hM
  cases hN with
  | ok ch0 ch' hn =>
    obtain ⟨t, rfl, ht⟩ := outcome_ok_inv _ r ch' hM
    obtain ⟨hf, ha⟩ := hF (some t) rfl t rfl
    have henvt : (⟨t.ffn, t.afn, regex⟩ : Env) = envOf regex config := by
      rw [hf, ha]; exact envOf_eta regex config
    have hflags : ∀ j ∈ lastInfos ch' default, j.acc = (cfgOf config).accessor := by
      rw [← lastInfos_norm ch' default, hn]
      exact build_flags_cfg _ _ _ _ hb
    show E2E _ _ a d (.called (callSpec (runSpec regex) (some t) d))
    rw [callSpec_runSpec, henvt, ht]
    rcases C18Spell.C18_spelling_C01_all (envOf regex config) ext (cfgOf config) a hwf hext henv ch' hpo d hd with
      ⟨vs, rs, st, hs, hr, hv, hne⟩ | ⟨e, st, hs, hr⟩
    · rw [hr]
      exact .values ch0 vs rs hb hs hne hv (C12.C12_wrapped _ ch' d _ hflags rs st hr)
    · rw [hr]
      exact .noMatch ch0 e hb hs
  | functionNotFound t =>
    rw [outcome_fnf_inv _ r t hM]
    exact .funcNotFound t hb
  | valueGroup pos near =>
    rw [outcome_syntax_inv _ r pos .filterValueGroup near hM]
    exact .valueGroup pos hb
  | twoCurrentNodes pos near =>
    rw [outcome_syntax_inv _ r pos .twoCurrentNode near hM]
    exact .twoCurrentNodes pos hb

/-- **E2E_retrieve_spec** — the capstone: public `Retrieve` on the text of a spelling, in ANY world at rest with
    truncated pools, under ANY pool choice, with ANY Config (accessor flag on or off), on ANY canonical document:
    the outcome is the one `Build` + `Spec` determine (`E2E`), and the world is at rest with truncated pools again -/
theorem E2E_retrieve_spec (ext : Peg.Ext) (regex : String → String → Bool) (w : World) (hw : AtRest w)
    (hp : w.pools.Truncated) (config : List Config) (a : SPath) (hwf : Spell.wf a = true) (hext : ExtOKS ext a)
    (henv : EnvOKS (envOf regex config) a) (d : Val) (hd : d.wf = true) (ch : Choice) (o : Unit) :
    E2E (envOf regex config) (cfgOf config) a d
      (Retrieve (modelOps ext regex) (Spell.printS a) d config ch o w).2 ∧
    AtRest (Retrieve (modelOps ext regex) (Spell.printS a) d config ch o w).1 ∧
    (Retrieve (modelOps ext regex) (Spell.printS a) d config ch o w).1.pools.Truncated := by
  have h := Retrieve_spec (modelOps ext regex) (runSpec regex) (C05State.C05_model_retrieveOK ext regex) w hw hp
    (Spell.printS a) d config ch o
  refine ⟨?_, h.2⟩
  rw [h.1]
  exact retrieveSpec_E2E ext regex config a hwf hext henv d hd

/-! ### the readable consequences -/

section consequences
variable (ext : Peg.Ext) (regex : String → String → Bool) (w : World) (hw : AtRest w) (hp : w.pools.Truncated)
  (config : List Config) (a : SPath) (hwf : Spell.wf a = true) (hext : ExtOKS ext a)
  (henv : EnvOKS (envOf regex config) a) (d : Val) (hd : d.wf = true) (ch : Choice) (o : Unit)
include hw hp hwf hext henv hd

/-- **E2E_values**: `Build` accepts the path and the specification selects `vs` — `Retrieve` returns `(s, nil)`, `s` a
    fresh slice of exactly `vs` (never empty), every element wrapped as the Config's accessor flag says -/
theorem E2E_values (ch0 : List N) (hb : Build.build (envOf regex config) (cfgOf config) (Spell.texts a) = .ok ch0)
    (vs : List Val) (hs : Spec.run (envOf regex config) a.erase d = some vs) :
    vs ≠ [] ∧ ∃ rs : List Res, rs.map Res.val = vs ∧ (∀ r ∈ rs, r.isAcc = (cfgOf config).accessor) ∧
      (Retrieve (modelOps ext regex) (Spell.printS a) d config ch o w).2 =
        .called (.returned (some ⟨.made, rs, []⟩) none) := by
  have h := (E2E_retrieve_spec ext regex w hw hp config a hwf hext henv d hd ch o).1
  generalize (Retrieve (modelOps ext regex) (Spell.printS a) d config ch o w).2 = r at h
  cases h with
  | values c vs' rs hb' hs' hne hv hacc =>
    rw [hs] at hs'
    cases hs'
    exact ⟨hne, rs, hv, hacc, rfl⟩
  | noMatch c e hb' hs' => rw [hs] at hs'; cases hs'
  | funcNotFound t hb' => rw [hb] at hb'; cases hb'
  | valueGroup pos hb' => rw [hb] at hb'; cases hb'
  | twoCurrentNodes pos hb' => rw [hb] at hb'; cases hb'

/-- **E2E_plain**: the same with the accessor flag off — the slice is literally the plain values -/
theorem E2E_plain (hacc : (cfgOf config).accessor = false) (ch0 : List N)
    (hb : Build.build (envOf regex config) (cfgOf config) (Spell.texts a) = .ok ch0)
    (vs : List Val) (hs : Spec.run (envOf regex config) a.erase d = some vs) :
    vs ≠ [] ∧ (Retrieve (modelOps ext regex) (Spell.printS a) d config ch o w).2 =
      .called (.returned (some ⟨.made, vs.map Res.plain, []⟩) none) := by
  obtain ⟨hne, rs, hv, hall, hr⟩ := E2E_values ext regex w hw hp config a hwf hext henv d hd ch o ch0 hb vs hs
  refine ⟨hne, ?_⟩
  rw [hr, C12.plain_of_not_acc rs (fun r hr => (hall r hr).trans hacc), ← hv, List.map_map]
  rfl

/-- **E2E_none**: `Build` accepts the path and the specification selects nothing — `(nil, err)`, `err` a runtime
    error; not a success, not a parse error, not a panic -/
theorem E2E_none (ch0 : List N) (hb : Build.build (envOf regex config) (cfgOf config) (Spell.texts a) = .ok ch0)
    (hs : Spec.run (envOf regex config) a.erase d = none) :
    ∃ e : RtErr, (Retrieve (modelOps ext regex) (Spell.printS a) d config ch o w).2 =
      .called (.returned none (some e)) := by
  have h := (E2E_retrieve_spec ext regex w hw hp config a hwf hext henv d hd ch o).1
  generalize (Retrieve (modelOps ext regex) (Spell.printS a) d config ch o w).2 = r at h
  cases h with
  | values c vs' rs hb' hs' hne hv hacc => rw [hs] at hs'; cases hs'
  | noMatch c e hb' hs' => exact ⟨e, rfl⟩
  | funcNotFound t hb' => rw [hb] at hb'; cases hb'
  | valueGroup pos hb' => rw [hb] at hb'; cases hb'
  | twoCurrentNodes pos hb' => rw [hb] at hb'; cases hb'

/-- **E2E_parse_error_iff**: `Retrieve` returns an error of `Parse` exactly when `Build` refuses the path, and then it
    is the error of that kind — whatever the document -/
theorem E2E_parse_error_iff :
    ((∃ e, (Retrieve (modelOps ext regex) (Spell.printS a) d config ch o w).2 = .parseErr e) ↔
      ∃ pe, Build.build (envOf regex config) (cfgOf config) (Spell.texts a) = .error pe) ∧
    (∀ pe, Build.build (envOf regex config) (cfgOf config) (Spell.texts a) = .error pe →
      match pe with
      | .funcNotFound t => (Retrieve (modelOps ext regex) (Spell.printS a) d config ch o w).2 =
          .parseErr (.action (.functionNotFound t))
      | .valueGroupOperand => ∃ pos, (Retrieve (modelOps ext regex) (Spell.printS a) d config ch o w).2 =
          .parseErr (.action (.syntaxErr pos .filterValueGroup))
      | .twoCurrentNodes => ∃ pos, (Retrieve (modelOps ext regex) (Spell.printS a) d config ch o w).2 =
          .parseErr (.action (.syntaxErr pos .twoCurrentNode))) := by
  have h := (E2E_retrieve_spec ext regex w hw hp config a hwf hext henv d hd ch o).1
  generalize (Retrieve (modelOps ext regex) (Spell.printS a) d config ch o w).2 = r at h
  cases h with
  | values c vs' rs hb' hs' hne hv hacc =>
    exact ⟨⟨fun ⟨e, he⟩ => (by cases he), fun ⟨pe, hpe⟩ => (by rw [hb'] at hpe; cases hpe)⟩,
      fun pe hpe => by rw [hb'] at hpe; cases hpe⟩
  | noMatch c e hb' hs' =>
    exact ⟨⟨fun ⟨e, he⟩ => (by cases he), fun ⟨pe, hpe⟩ => (by rw [hb'] at hpe; cases hpe)⟩,
      fun pe hpe => by rw [hb'] at hpe; cases hpe⟩
  | funcNotFound t hb' =>
    exact ⟨⟨fun _ => ⟨_, hb'⟩, fun _ => ⟨_, rfl⟩⟩, fun pe hpe => by rw [hb'] at hpe; cases hpe; rfl⟩
  | valueGroup pos hb' =>
    exact ⟨⟨fun _ => ⟨_, hb'⟩, fun _ => ⟨_, rfl⟩⟩, fun pe hpe => by rw [hb'] at hpe; cases hpe; exact ⟨pos, rfl⟩⟩
  | twoCurrentNodes pos hb' =>
    exact ⟨⟨fun _ => ⟨_, hb'⟩, fun _ => ⟨_, rfl⟩⟩, fun pe hpe => by rw [hb'] at hpe; cases hpe; exact ⟨pos, rfl⟩⟩

/-- **E2E_no_panic**: no panic leaves `Retrieve` (neither from `Parse` nor from the call), it never returns
    `(nil, nil)` from `Parse`, never blocks, never returns an empty success, and a success is a success of the
    specification -/
theorem E2E_no_panic :
    (∀ p, (Retrieve (modelOps ext regex) (Spell.printS a) d config ch o w).2 ≠ .called (.panicked p)) ∧
    (∀ p, (Retrieve (modelOps ext regex) (Spell.printS a) d config ch o w).2 ≠ .panicked p) ∧
    (Retrieve (modelOps ext regex) (Spell.printS a) d config ch o w).2 ≠ .nilFunc ∧
    (Retrieve (modelOps ext regex) (Spell.printS a) d config ch o w).2 ≠ .blocked ∧
    (∀ s err, (Retrieve (modelOps ext regex) (Spell.printS a) d config ch o w).2 = .called (.returned (some s) err) →
      err = none ∧ s.elems ≠ [] ∧ s.org = .made ∧ s.spare = [] ∧
      Spec.run (envOf regex config) a.erase d = some (s.elems.map Res.val)) := by
  have h := (E2E_retrieve_spec ext regex w hw hp config a hwf hext henv d hd ch o).1
  generalize (Retrieve (modelOps ext regex) (Spell.printS a) d config ch o w).2 = r at h
  cases h with
  | values c vs' rs hb' hs' hne hv hacc =>
    refine ⟨fun p h => (by cases h), fun p h => (by cases h), fun h => (by cases h), fun h => (by cases h), ?_⟩
    intro s err h
    cases h
    refine ⟨rfl, ?_, rfl, rfl, by rw [hs', hv]⟩
    intro h0
    apply hne
    rw [← hv]
    show rs.map Res.val = []
    rw [show rs = [] from h0]; rfl
  | noMatch c e hb' hs' =>
    exact ⟨fun p h => (by cases h), fun p h => (by cases h), fun h => (by cases h), fun h => (by cases h),
      fun s err h => by cases h⟩
  | funcNotFound t hb' =>
    exact ⟨fun p h => (by cases h), fun p h => (by cases h), fun h => (by cases h), fun h => (by cases h),
      fun s err h => by cases h⟩
  | valueGroup pos hb' =>
    exact ⟨fun p h => (by cases h), fun p h => (by cases h), fun h => (by cases h), fun h => (by cases h),
      fun s err h => by cases h⟩
  | twoCurrentNodes pos hb' =>
    exact ⟨fun p h => (by cases h), fun p h => (by cases h), fun h => (by cases h), fun h => (by cases h),
      fun s err h => by cases h⟩

end consequences

/-! ### histories of `Retrieve` calls -/

/-- one `Retrieve` call: path text, document, Config, and the nondeterminism of that call -/
structure RCall where
  path : String
  doc : Val
  config : List Config
  ch : Choice := {}

/-- the world after a sequence of `Retrieve` calls -/
def worldAfter (ops : Ops Unit) : World → List RCall → World
  | w, [] => w
  | w, c :: rest => worldAfter ops (Retrieve ops c.path c.doc c.config c.ch () w).1 rest

/-- the outcomes of a sequence of `Retrieve` calls -/
def outcomes (ops : Ops Unit) : World → List RCall → List RetrieveRet
  | _, [] => []
  | w, c :: rest =>
    (Retrieve ops c.path c.doc c.config c.ch () w).2 :: outcomes ops (Retrieve ops c.path c.doc c.config c.ch () w).1 rest

/-- the k-th outcome of ANY history of `Retrieve` calls from a world at rest (earlier calls: any text — parsable or
    not —, any document, any Config, any pool choice) is `retrieveSpec` of that call: a function of
    (path text, document, Config) alone — what the call returns in a fresh process -/
theorem history_spec (ops : Ops Unit) (spec : Tree → Val → List Res × RetrRes) (hops : Glob.RetrieveOK ops spec) :
    ∀ (l : List RCall) (w : World), AtRest w → w.pools.Truncated →
      (∀ (k : Nat) (c : RCall), l[k]? = some c →
        (outcomes ops w l)[k]? = some (retrieveSpec ops spec c.path c.doc c.config) ∧
        ∀ ch' o', (outcomes ops w l)[k]? = some (Retrieve ops c.path c.doc c.config ch' o' World.zero).2) ∧
      AtRest (worldAfter ops w l) ∧ (worldAfter ops w l).pools.Truncated := by
  intro l
  induction l with
  | nil => intro w hw hp; exact ⟨fun k c h => by simp at h, hw, hp⟩
  | cons c0 rest ih =>
    intro w hw hp
    have h0 := Retrieve_spec ops spec hops w hw hp c0.path c0.doc c0.config c0.ch ()
    have ih' := ih _ h0.2.1 h0.2.2
    refine ⟨?_, ih'.2⟩
    intro k c hk
    cases k with
    | zero =>
      simp only [List.getElem?_cons_zero, Option.some.injEq] at hk
      subst hk
      simp only [outcomes, List.getElem?_cons_zero, Option.some.injEq]
      refine ⟨h0.1, fun ch' o' => ?_⟩
      rw [h0.1, (Retrieve_spec ops spec hops World.zero atRest_zero (by intro c hc; cases hc) _ _ _ ch' o').1]
    | succ k =>
      simp only [List.getElem?_cons_succ] at hk
      simp only [outcomes, List.getElem?_cons_succ]
      exact ih'.1 k c hk

/-- **E2E_history**: in ANY history of `Retrieve` calls from a world at rest, a call on the text of a well-formed
    spelling returns what `Build` + `Spec` determine for ITS text, document and Config — whatever came before — and
    exactly what it returns in a fresh process; the world after the history is at rest with truncated pools -/
theorem E2E_history (ext : Peg.Ext) (regex : String → String → Bool) (w : World) (hw : AtRest w) (hp : w.pools.Truncated)
    (l : List RCall) (k : Nat) (config : List Config) (a : SPath) (d : Val) (ch : Choice)
    (hk : l[k]? = some ⟨Spell.printS a, d, config, ch⟩)
    (hwf : Spell.wf a = true) (hext : ExtOKS ext a) (henv : EnvOKS (envOf regex config) a) (hd : d.wf = true) :
    (∃ r, (outcomes (modelOps ext regex) w l)[k]? = some r ∧ E2E (envOf regex config) (cfgOf config) a d r ∧
      ∀ ch' o', r = (Retrieve (modelOps ext regex) (Spell.printS a) d config ch' o' World.zero).2) ∧
    AtRest (worldAfter (modelOps ext regex) w l) ∧ (worldAfter (modelOps ext regex) w l).pools.Truncated := by
  have h := history_spec (modelOps ext regex) (runSpec regex) (C05State.C05_model_retrieveOK ext regex) l w hw hp
  obtain ⟨h1, h2⟩ := h.1 k _ hk
  refine ⟨⟨_, h1, retrieveSpec_E2E ext regex config a hwf hext henv d hd, fun ch' o' => ?_⟩, h.2⟩
  have := h2 ch' o'
  rw [h1] at this
  exact Option.some.inj this

/-! ### spellings -/

/-- `Build` on two spellings of one abstract path: both accept or both refuse with the same error -/
theorem build_spellings (env : Env) (cfg : Cfg) (a b : SPath) (h : a.erase = b.erase) :
    SP.ChRel (Build.build env cfg (Spell.texts a)) (Build.build env cfg (Spell.texts b)) :=
  SP.build_same env cfg _ _ (SP.stripS_texts a b h)

/-- two outcomes of `Retrieve` are the same for the caller: the same values in the same order with the same
    wrapping flag; both a runtime error; the same parse error (`ErrorFunctionNotFound` of the same text,
    `ErrorInvalidSyntax` with the same reason — position and `near` depend on the spelling) -/
inductive SameRet : RetrieveRet → RetrieveRet → Prop
  | values (rs rs' : List Res) (hv : rs.map Res.val = rs'.map Res.val) (hacc : rs.map Res.isAcc = rs'.map Res.isAcc) :
      SameRet (.called (.returned (some ⟨.made, rs, []⟩) none)) (.called (.returned (some ⟨.made, rs', []⟩) none))
  | rtErr (e e' : RtErr) : SameRet (.called (.returned none (some e))) (.called (.returned none (some e')))
  | funcNotFound (t : String) :
      SameRet (.parseErr (.action (.functionNotFound t))) (.parseErr (.action (.functionNotFound t)))
  | syntaxErr (pos pos' : Nat) (r : Reason) :
      SameRet (.parseErr (.action (.syntaxErr pos r))) (.parseErr (.action (.syntaxErr pos' r)))

theorem isAcc_const {b : Bool} : ∀ {rs rs' : List Res}, rs.map Res.val = rs'.map Res.val →
    (∀ r ∈ rs, r.isAcc = b) → (∀ r ∈ rs', r.isAcc = b) → rs.map Res.isAcc = rs'.map Res.isAcc
  | [], [], _, _, _ => rfl
  | [], _ :: _, h, _, _ => by simp at h
  | _ :: _, [], h, _, _ => by simp at h
  | x :: xs, y :: ys, h, h1, h2 => by
    simp only [List.map_cons, List.cons.injEq] at h ⊢
    exact ⟨(h1 x List.mem_cons_self).trans (h2 y List.mem_cons_self).symm,
      isAcc_const h.2 (fun r hr => h1 r (List.mem_cons_of_mem _ hr)) (fun r hr => h2 r (List.mem_cons_of_mem _ hr))⟩

/-- **E2E_spellings**: two well-formed spellings of the same abstract path — blanks, quotes, number texts,
    `.a`/`['a']`, redundant parentheses, `[1:2:]`/`[1:2]`, omitted `$` … — give the same outcome of `Retrieve` on
    every canonical document, from any two worlds at rest, under any pool choices -/
theorem E2E_spellings (ext : Peg.Ext) (regex : String → String → Bool) (w w' : World) (hw : AtRest w) (hw' : AtRest w')
    (hp : w.pools.Truncated) (hp' : w'.pools.Truncated) (config : List Config) (a b : SPath)
    (hwa : Spell.wf a = true) (hwb : Spell.wf b = true) (hea : ExtOKS ext a) (heb : ExtOKS ext b)
    (hva : EnvOKS (envOf regex config) a) (hvb : EnvOKS (envOf regex config) b) (hab : a.erase = b.erase)
    (d : Val) (hd : d.wf = true) (ch ch' : Choice) (o o' : Unit) :
    SameRet (Retrieve (modelOps ext regex) (Spell.printS a) d config ch o w).2
      (Retrieve (modelOps ext regex) (Spell.printS b) d config ch' o' w').2 := by
  have h1 := (E2E_retrieve_spec ext regex w hw hp config a hwa hea hva d hd ch o).1
  have h2 := (E2E_retrieve_spec ext regex w' hw' hp' config b hwb heb hvb d hd ch' o').1
  have hrel := build_spellings (envOf regex config) (cfgOf config) a b hab
  generalize (Retrieve (modelOps ext regex) (Spell.printS a) d config ch o w).2 = r1 at h1
  generalize (Retrieve (modelOps ext regex) (Spell.printS b) d config ch' o' w').2 = r2 at h2
  cases h1 with
  | values c vs rs hb hs hne hv hacc =>
    cases h2 with
    | values c' vs' rs' hb' hs' hne' hv' hacc' =>
      rw [hab, hs'] at hs
      cases hs
      exact .values rs rs' (hv.trans hv'.symm) (isAcc_const (hv.trans hv'.symm) hacc hacc')
    | noMatch c' e hb' hs' => rw [hab, hs'] at hs; cases hs
    | funcNotFound t hb' => rw [hb, hb'] at hrel; exact hrel.elim
    | valueGroup pos hb' => rw [hb, hb'] at hrel; exact hrel.elim
    | twoCurrentNodes pos hb' => rw [hb, hb'] at hrel; exact hrel.elim
  | noMatch c e hb hs =>
    cases h2 with
    | values c' vs' rs' hb' hs' hne' hv' hacc' => rw [hab, hs'] at hs; cases hs
    | noMatch c' e' hb' hs' => exact .rtErr e e'
    | funcNotFound t hb' => rw [hb, hb'] at hrel; exact hrel.elim
    | valueGroup pos hb' => rw [hb, hb'] at hrel; exact hrel.elim
    | twoCurrentNodes pos hb' => rw [hb, hb'] at hrel; exact hrel.elim
  | funcNotFound t hb =>
    cases h2 with
    | values c' vs' rs' hb' hs' hne' hv' hacc' => rw [hb, hb'] at hrel; exact hrel.elim
    | noMatch c' e' hb' hs' => rw [hb, hb'] at hrel; exact hrel.elim
    | funcNotFound t' hb' =>
      rw [hb, hb'] at hrel
      have he : ParseErr.funcNotFound t = .funcNotFound t' := hrel
      cases he
      exact .funcNotFound t
    | valueGroup pos hb' => rw [hb, hb'] at hrel; cases (hrel : ParseErr.funcNotFound t = .valueGroupOperand)
    | twoCurrentNodes pos hb' => rw [hb, hb'] at hrel; cases (hrel : ParseErr.funcNotFound t = .twoCurrentNodes)
  | valueGroup pos hb =>
    cases h2 with
    | values c' vs' rs' hb' hs' hne' hv' hacc' => rw [hb, hb'] at hrel; exact hrel.elim
    | noMatch c' e' hb' hs' => rw [hb, hb'] at hrel; exact hrel.elim
    | funcNotFound t' hb' => rw [hb, hb'] at hrel; cases (hrel : ParseErr.valueGroupOperand = .funcNotFound t')
    | valueGroup pos' hb' => exact .syntaxErr pos pos' _
    | twoCurrentNodes pos' hb' => rw [hb, hb'] at hrel; cases (hrel : ParseErr.valueGroupOperand = .twoCurrentNodes)
  | twoCurrentNodes pos hb =>
    cases h2 with
    | values c' vs' rs' hb' hs' hne' hv' hacc' => rw [hb, hb'] at hrel; exact hrel.elim
    | noMatch c' e' hb' hs' => rw [hb, hb'] at hrel; exact hrel.elim
    | funcNotFound t' hb' => rw [hb, hb'] at hrel; cases (hrel : ParseErr.twoCurrentNodes = .funcNotFound t')
    | valueGroup pos' hb' => rw [hb, hb'] at hrel; cases (hrel : ParseErr.twoCurrentNodes = .valueGroupOperand)
    | twoCurrentNodes pos' hb' => exact .syntaxErr pos pos' _

/-! ### any operations that behave as the model's — and the ideal statement

`modelOps ext regex` is: `runActions` := the PEG interpreter on the grammar REGENERATED from /repo/jsonpath.peg followed
by the 46-action machine of `Peg/Actions.lean` (tied action by action and helper by helper to the regenerated code:
Props/ActionsGen.lean, Props/ParserGen.lean), `retrieve` := `Impl.retrieve` (tied node kind by node kind to the
regenerated code: Props/NodesGen.lean, Props/QueryGen.lean). Nothing in the chain above looks inside them: it uses
exactly the two facts of `OpsAsModel`. So the theorem holds for ANY operations with these two facts: -/

/-- the two facts about the opaque operations the chain uses -/
structure OpsAsModel {ι : Type} (ops : Ops ι) (ext : Peg.Ext) (regex : String → String → Bool) : Prop where
  /-- on `jsonPathParser{}` armed with the Config, `parser.Parse(); parser.Execute()` ends as the model's does:
      the same root, or the same panic value (and `exception.(error)` succeeds alike) -/
  parse : ∀ s config, pureParse ops s config JsonPathParser.zero =
    pureParse (modelOps ext regex) s config JsonPathParser.zero
  /-- `root.retrieve` entered with an empty container and truncated pools leaves `Impl.run`'s results, and gives back
      every container it took, truncated -/
  retrieve : Glob.RetrieveOK ops (runSpec regex)

theorem modelOps_asModel (ext : Peg.Ext) (regex : String → String → Bool) : OpsAsModel (modelOps ext regex) ext regex :=
  ⟨fun _ _ => rfl, C05State.C05_model_retrieveOK ext regex⟩

/-- the ideal statement: `E2E_retrieve_spec` for the operations of the library itself.
    As a statement about `Ops` it is PROVED below (`E2E_full_holds`): no link between two Lean layers is missing —
    the `Tree` `Parse` closes over is `⟨parseModel's chain, the functions of this call's Config⟩`
    (`outcome_ok_inv`, `C19_functions_captured`), and the accessor flag needs no hypothesis (`build_flags_cfg`).
    What stays OUTSIDE Lean is `OpsAsModel goOps …` for the Go functions `parser.Parse(); parser.Execute()` and
    `root.retrieve` taken as WHOLES: they are not Lean objects; each of their definitions is regenerated and tied to
    the model separately (ActionsGen, ParserGen, NodesGen, QueryGen: T1), the PEG runtime of jsonpath.peg.go is
    replaced by an interpreter of the regenerated grammar, and the composition is compared with the real library on
    every run (DESIGN §12.7). Domain: path texts that are `print` of a well-formed `SPath` (other texts: C02),
    canonical documents (`Val.wf`), `ext` sound for the literals of the path (`ExtOKS`), the functions the path
    names registered with the right kind in THIS call's Config (`EnvOKS`). -/
def E2E_full : Prop :=
  ∀ (ι : Type) (ops : Ops ι) (ext : Peg.Ext) (regex : String → String → Bool), OpsAsModel ops ext regex →
  ∀ (w : World), AtRest w → w.pools.Truncated →
  ∀ (config : List Config) (a : SPath), Spell.wf a = true → ExtOKS ext a → EnvOKS (envOf regex config) a →
  ∀ (d : Val), d.wf = true → ∀ (ch : Choice) (o : ι),
    E2E (envOf regex config) (cfgOf config) a d (Retrieve ops (Spell.printS a) d config ch o w).2 ∧
    AtRest (Retrieve ops (Spell.printS a) d config ch o w).1 ∧
    (Retrieve ops (Spell.printS a) d config ch o w).1.pools.Truncated

theorem E2E_full_holds : E2E_full := by
  intro ι ops ext regex hops w hw hp config a hwf hext henv d hd ch o
  have h := Retrieve_spec ops (runSpec regex) hops.retrieve w hw hp (Spell.printS a) d config ch o
  refine ⟨?_, h.2⟩
  have e : retrieveSpec ops (runSpec regex) (Spell.printS a) d config =
      retrieveSpec (modelOps ext regex) (runSpec regex) (Spell.printS a) d config := by
    unfold retrieveSpec
    rw [hops.parse]
  rw [h.1, e]
  exact retrieveSpec_E2E ext regex config a hwf hext henv d hd

/-! ### the theorems applied: concrete spellings, documents, Configs -/

section examples
open JPV.C18Spell JPV.SP

/-- `{"a":{"b":1}}` -/
def exDoc : Val := .obj [("a", .obj [("b", .num 1)])]

theorem exDoc_wf : exDoc.wf = true := by decide
theorem exF_text : Spell.printS exF = "$.a.b" := by decide
theorem exE_text : Spell.printS exE = " a[\"b\"]" := by decide

theorem exF_env (env : Env) : EnvOKS env exF := by simp [EnvOKS, exF, stepsEnvS, stepEnvS]
theorem exE_env (env : Env) : EnvOKS env exE := by simp [EnvOKS, exE, stepsEnvS, stepEnvS]

theorem exF_build (env : Env) (cfg : Cfg) : ∃ ch, Build.build env cfg (Spell.texts exF) = .ok ch := by
  simp [Build.build, Build.buildPath, Spell.texts, exF, Spell.topStepsT, Build.stepsPre, Build.stepPre, bind,
    Except.bind, Build.mkInfos, Build.assemble, Spell.stepsT, Spell.stepT, Build.suffixTexts, Build.lastAfnIdx,
    List.zipIdx]

theorem exF_spec (env : Env) : Spec.run env exF.erase exDoc = some [.num 1] := by rfl

/-- every hypothesis discharged: `Retrieve("$.a.b", {"a":{"b":1}})` without Config, in ANY world at rest with
    truncated pools, under ANY pool choice, returns `([1], nil)` — a fresh slice with the one plain value -/
theorem E2E_example (regex : String → String → Bool) (w : World) (hw : AtRest w) (hp : w.pools.Truncated)
    (ch : Choice) :
    (Retrieve (modelOps exExt regex) "$.a.b" exDoc [] ch () w).2 =
      .called (.returned (some ⟨.made, [.plain (.num 1)], []⟩) none) := by
  obtain ⟨ch0, hb⟩ := exF_build (envOf regex []) (cfgOf [])
  have h := (E2E_plain exExt regex w hw hp [] exF (by decide) exF_ext (exF_env _) exDoc exDoc_wf ch () rfl ch0 hb
    [.num 1] (exF_spec _)).2
  rw [exF_text] at h
  exact h

/-- … in a fresh process in particular -/
example (regex : String → String → Bool) :
    (Retrieve (modelOps exExt regex) "$.a.b" exDoc [] {} () World.zero).2 =
      .called (.returned (some ⟨.made, [.plain (.num 1)], []⟩) none) :=
  E2E_example regex World.zero atRest_zero (by intro c hc; cases hc) {}

/-- … with accessor mode on: one result, an Accessor, whose value is 1 -/
example (regex : String → String → Bool) (w : World) (hw : AtRest w) (hp : w.pools.Truncated) (ch : Choice) :
    ∃ r : Res, r.val = .num 1 ∧ r.isAcc = true ∧
      (Retrieve (modelOps exExt regex) "$.a.b" exDoc [{ accessorMode := true }] ch () w).2 =
        .called (.returned (some ⟨.made, [r], []⟩) none) := by
  obtain ⟨ch0, hb⟩ := exF_build (envOf regex [{ accessorMode := true }]) (cfgOf [{ accessorMode := true }])
  obtain ⟨_, rs, hv, hacc, hr⟩ := E2E_values exExt regex w hw hp [{ accessorMode := true }] exF (by decide) exF_ext
    (exF_env _) exDoc exDoc_wf ch () ch0 hb [.num 1] (exF_spec _)
  rw [exF_text] at hr
  cases rs with
  | nil => simp at hv
  | cons r rest =>
    cases rest with
    | cons _ _ => simp at hv
    | nil => exact ⟨r, by simpa using hv, hacc r List.mem_cons_self, hr⟩

/-- … as the third call of a history whose first two calls are a failing parse and a call with another Config -/
example (regex : String → String → Bool) (w : World) (hw : AtRest w) (hp : w.pools.Truncated) :
    ∃ r, (outcomes (modelOps exExt regex) w
        [⟨"$[", .null, [], {}⟩, ⟨"$.x", exDoc, [{ accessorMode := true }], { pick := some 0 }⟩,
         ⟨Spell.printS exF, exDoc, [], { drop := [0] }⟩])[2]? = some r ∧
      E2E (envOf regex []) (cfgOf []) exF exDoc r :=
  let h := (E2E_history exExt regex w hw hp _ 2 [] exF exDoc { drop := [0] } rfl (by decide) exF_ext (exF_env _)
    exDoc_wf).1
  ⟨h.choose, h.choose_spec.1, h.choose_spec.2.1⟩

/-- ` a["b"]` and `$.a.b` — two spellings of one abstract path: the same outcome on every canonical document, with any
    Config, from any two worlds at rest -/
example (regex : String → String → Bool) (w w' : World) (hw : AtRest w) (hw' : AtRest w') (hp : w.pools.Truncated)
    (hp' : w'.pools.Truncated) (config : List Config) (d : Val) (hd : d.wf = true) (ch ch' : Choice) :
    SameRet (Retrieve (modelOps exExt regex) " a[\"b\"]" d config ch () w).2
      (Retrieve (modelOps exExt regex) "$.a.b" d config ch' () w').2 := by
  have h := E2E_spellings exExt regex w w' hw hw' hp hp' config exE exF (by decide) (by decide) exE_ext exF_ext
    (exE_env _) (exF_env _) exEF_erase d hd ch ch' () ()
  rw [exE_text, exF_text] at h
  exact h

/-- a filter with a user function, `$[ ?( @.a  == 1.0 || ( ! @[* ]&& +2<$ )  )].f()`, the function supplied by THIS
    call's Config, accessor mode on: every hypothesis of the capstone discharged -/
example (w : World) (hw : AtRest w) (hp : w.pools.Truncated) (d : Val) (hd : d.wf = true) (ch : Choice) :
    E2E exEnv ⟨true⟩ exC d
      (Retrieve (modelOps exExt exEnv.regex) (Spell.printS exC) d
        [{ filterFunctions := exEnv.ffn, accessorMode := true }] ch () w).2 :=
  (E2E_retrieve_spec exExt exEnv.regex w hw hp [{ filterFunctions := exEnv.ffn, accessorMode := true }] exC
    (by decide) exC_ext exC_env d hd ch ()).1

end examples

end EndToEnd
end JPV
-- OBLIGATIONS: JPV.EndToEnd.outcome_ok_inv JPV.EndToEnd.outcome_fnf_inv JPV.EndToEnd.outcome_syntax_inv
--   JPV.EndToEnd.lastInfos_norm JPV.EndToEnd.build_flags_cfg JPV.EndToEnd.retrieveSpec_E2E
--   JPV.EndToEnd.E2E_retrieve_spec JPV.EndToEnd.E2E_values JPV.EndToEnd.E2E_plain JPV.EndToEnd.E2E_none
--   JPV.EndToEnd.E2E_parse_error_iff JPV.EndToEnd.E2E_no_panic JPV.EndToEnd.history_spec JPV.EndToEnd.E2E_history
--   JPV.EndToEnd.build_spellings JPV.EndToEnd.E2E_spellings JPV.EndToEnd.modelOps_asModel
--   JPV.EndToEnd.E2E_full_holds JPV.EndToEnd.exDoc_wf JPV.EndToEnd.exF_text JPV.EndToEnd.exE_text
--   JPV.EndToEnd.exF_build JPV.EndToEnd.exF_spec JPV.EndToEnd.E2E_example
