/-
Props/C02Fuel — C02 "Parse is total": the recogniser TERMINATES WITHIN ITS BUDGET (L21; also C17).

`Peg.run` is fuelled (fuel = recursion depth) and `ParseModel.recognise` grants `fuelFor n = 1000 + 64·n` for an
input of n characters; `parseModel` answers `unmodelled` if that runs out.  Here: it never does.

  * Peg/Term.lean        — the executable analysis `wfGrammar g K` (no left recursion: every cycle of rule
                           references consumes a character; no `*`/`+` over a body that can succeed without
                           consuming; at most K levels of recursion per consumed character) and the bound
                           `depthBound g K e n = cost e + K·n` (n = characters left);
  * Lemmas/PegTerm.lean  — `run_terminates`: under `wfGrammar g K`, fuel ≥ `depthBound` ⇒ not `outOfFuel`
                           (induction on the fuel; the measure is cost(e) + K·(characters left): a sequence
                           whose head is advancing lets its tail cost K more, an iteration of `*` costs 1 ≤ K
                           and consumes a character, a rule reference costs 1 + the checked table entry);
  * this file            — the verdict on the REGENERATED grammar `Gen.grammar` (Gen/Grammar.lean, from
                           jsonpath.peg) and on the DECOMPILED rule functions `Gen.goGrammar`
                           (Gen/PegGoRules.lean, from jsonpath.peg.go), evaluated by the kernel with K = 64, the
                           arithmetic against `fuelFor`, and the consequences for `recognise`/`parseModel`.

The analysis accepts `Gen.grammar` for every K ≥ 18 (cost of `expression`: 25 at K = 64, 86 at K = 18), so
1000 + 64·n is ample; the real need on nested filters `$[?(@[?(@…` is 42 levels per 4 characters.
A left-recursive rule or a nullable loop body makes `wfGrammar` false and this file stops checking.
-/
import JPV.Props.C02
import JPV.Props.PegGoGen
import JPV.Lemmas.PegTerm
namespace JPV.Props
open JPV.Peg JPV.Peg.Term

/-! ## 1. The verdicts (kernel evaluation on the regenerated data) -/

/-- jsonpath.peg is well-formed: no left recursion, every loop body consumes, ≤ 64 levels per character -/
theorem C02_grammar_wf : wfGrammar Gen.grammar 64 = true := by decide +kernel

/-- with no character left, the body of no rule needs more than 1000 levels -/
theorem C02_grammar_cost :
    (Gen.grammar.all fun r => Nat.ble (depthBound Gen.grammar 64 r.2 0) 1000) = true := by decide +kernel

/-- the same for the rule functions decompiled from jsonpath.peg.go -/
theorem C02_go_wf : wfGrammar Gen.goGrammar 64 = true := by decide +kernel

theorem C02_go_cost :
    (Gen.goGrammar.all fun r => Nat.ble (depthBound Gen.goGrammar 64 r.2 0) 1000) = true := by decide +kernel

/-! ## 2. The budget suffices -/

theorem depthBound_split (g : Grammar) (K : Nat) (e : PE) (n : Nat) :
    depthBound g K e n = depthBound g K e 0 + K * n := by
  simp [depthBound]

/-- generic step: verdict + cost table ⇒ `fuelFor` suffices for the body of every rule at every position -/
theorem fuelFor_suffices {g : Grammar} (hwf : wfGrammar g 64 = true)
    (hcost : (g.all fun r => Nat.ble (depthBound g 64 r.2 0) 1000) = true)
    (x : String) (input : Array Char) (pos : Nat) (hpos : pos ≤ input.size) :
    run g (fuelFor input.size) (ruleBody g x) input pos ≠ .outOfFuel := by
  apply run_rule_terminates hwf _ x pos hpos
  rw [depthBound_split]
  have h0 : depthBound g 64 (ruleBody g x) 0 ≤ 1000 := by
    rcases ruleBody_cases g x with h | h
    · rw [h]; simp [depthBound, costT]
    · exact Nat.le_of_ble_eq_true (List.all_eq_true.mp hcost _ h)
  have h1 : 64 * (input.size - pos) ≤ 64 * input.size := Nat.mul_le_mul_left 64 (by omega)
  show _ ≤ 1000 + 64 * input.size
  omega

/-- **C02_fuel_adequate_rule.** Every rule of jsonpath.peg, started anywhere inside the input, answers
    (`ok` or `fail`) within the budget `fuelFor` of the whole input. -/
theorem C02_fuel_adequate_rule (x : String) (input : Array Char) (pos : Nat) (hpos : pos ≤ input.size) :
    run Gen.grammar (fuelFor input.size) (ruleBody Gen.grammar x) input pos ≠ .outOfFuel :=
  fuelFor_suffices C02_grammar_wf C02_grammar_cost x input pos hpos

/-- **C02_fuel_adequate.** The recogniser of jsonpath.peg never runs out of fuel: on every input the start
    rule answers within recursion depth 1000 + 64·(number of characters). -/
theorem C02_fuel_adequate (input : Array Char) :
    run Gen.grammar (fuelFor input.size) (ruleBody Gen.grammar "expression") input 0 ≠ .outOfFuel :=
  C02_fuel_adequate_rule "expression" input 0 (Nat.zero_le _)

/-- **C02_recognise_total.** `recognise` — the model of `parser.Parse()` — succeeds on every input: it neither
    runs out of fuel (`C02_fuel_adequate`) nor fails (`C02_expression_never_fails`). -/
theorem C02_recognise_total (input : Array Char) : ∃ pos toks, recognise input = .ok pos toks := by
  unfold recognise
  cases h : run Gen.grammar (fuelFor input.size) (ruleBody Gen.grammar "expression") input 0 with
  | ok pos toks => exact ⟨pos, toks, rfl⟩
  | fail => exact absurd h (C02_expression_never_fails input _)
  | outOfFuel => exact absurd h (C02_fuel_adequate input)

/-- any larger budget gives the same answer -/
theorem C02_recognise_any_fuel (input : Array Char) (fuel : Nat) (h : fuelFor input.size ≤ fuel) :
    run Gen.grammar fuel (ruleBody Gen.grammar "expression") input 0 = recognise input :=
  C02_fuel_mono _ _ _ _ h (C02_fuel_adequate input)

/-! ## 3. Consequences for `parseModel` -/

/-- **C02_outcome_exact.** `parseModel` is the action machine run on the recogniser's tokens — the branches
    `outOfFuel`, `fail` and "unexpected action text" of `parseInput` are dead. -/
theorem C02_outcome_exact (env : Env) (ext : Ext) (cfg : Cfg) (s : String) :
    ∃ pos toks, recognise s.toList.toArray = .ok pos toks ∧
      ((∃ ch, exec ⟨env, ext, cfg.accessor, s.toList.toArray⟩ toks = .ok ch ∧
          parseModel env ext cfg s = .ok ch) ∨
       (∃ st, exec ⟨env, ext, cfg.accessor, s.toList.toArray⟩ toks = .error st ∧
          parseModel env ext cfg s = outcomeOfStop s.toList.toArray st)) := by
  obtain ⟨pos, toks, hrec⟩ := C02_recognise_total s.toList.toArray
  refine ⟨pos, toks, hrec, ?_⟩
  simp only [parseModel, parseInput, actions_as_expected, hrec, Bool.not_true, Bool.false_eq_true, if_false]
  split
  · rename_i ch hex; exact .inl ⟨ch, hex, rfl⟩
  · rename_i st hex; exact .inr ⟨st, hex, rfl⟩

/-- **C02_unmodelled_only_from_exec.** `parseModel` answers `unmodelled` only when an ACTION does (a value the
    action model declines), never because of the recogniser's budget. -/
theorem C02_unmodelled_only_from_exec (env : Env) (ext : Ext) (cfg : Cfg) (s : String)
    (h : parseModel env ext cfg s = .unmodelled) :
    ∃ pos toks, recognise s.toList.toArray = .ok pos toks ∧
      exec ⟨env, ext, cfg.accessor, s.toList.toArray⟩ toks = .error .unmodelled := by
  obtain ⟨pos, toks, hrec, hok | herr⟩ := C02_outcome_exact env ext cfg s
  · obtain ⟨ch, _, hpm⟩ := hok
    rw [hpm] at h; cases h
  · obtain ⟨st, hex, hpm⟩ := herr
    refine ⟨pos, toks, hrec, ?_⟩
    rw [hpm] at h
    have hdoc := C02_actions_total ⟨env, ext, cfg.accessor, s.toList.toArray⟩ _ pos toks hrec st hex
    cases st with
    | unmodelled => exact hex
    | unrepresentable => exact absurd hdoc (by simp [Stop.documented])
    | _ => simp only [outcomeOfStop] at h; cases h

/-! ## 4. The decompiled rule functions of jsonpath.peg.go -/

/-- **C02_go_fuel_adequate.** The rule functions of jsonpath.peg.go (as decompiled) terminate within the same budget. -/
theorem C02_go_fuel_adequate (input : Array Char) :
    run Gen.goGrammar (fuelFor input.size) (ruleBody Gen.goGrammar "expression") input 0 ≠ .outOfFuel :=
  fuelFor_suffices C02_go_wf C02_go_cost "expression" input 0 (Nat.zero_le _)

/-- **C02_go_recognise.** With the budget `fuelFor`, the decompiled recogniser and the grammar's recogniser give
    the same answer on EVERY input — `PegGo_recognise` without its two fuel hypotheses. -/
theorem C02_go_recognise (input : Array Char) :
    run Gen.goGrammar (fuelFor input.size) (ruleBody Gen.goGrammar "expression") input 0 = recognise input :=
  PegGoGen.PegGo_recognise input _ (C02_go_fuel_adequate input) (C02_fuel_adequate input)

/-! ## 5. Examples -/

/-- 30 nested filters `$[?(@[?(@ … )])]` (181 characters): evaluating the recogniser on it takes 3^30 steps
    (no memoisation in the model) — the THEOREM says it answers -/
def deep30 : Array Char :=
  ("$" ++ String.join (List.replicate 30 "[?(@") ++ String.join (List.replicate 30 ")]")).toList.toArray

example : recognise deep30 ≠ .outOfFuel := C02_fuel_adequate deep30
example : ∃ pos toks, recognise deep30 = .ok pos toks := C02_recognise_total deep30
example : run Gen.goGrammar (fuelFor deep30.size) (ruleBody Gen.goGrammar "expression") deep30 0 = recognise deep30 :=
  C02_go_recognise deep30
/-- inside a filter, at any position: `query` answers -/
example (input : Array Char) (pos : Nat) (h : pos ≤ input.size) :
    run Gen.grammar (fuelFor input.size) (ruleBody Gen.grammar "query") input pos ≠ .outOfFuel :=
  C02_fuel_adequate_rule "query" input pos h
/-- the analysis rejects left recursion, a loop over a nullable body, and a K below the depth per character -/
example : wfGrammar [("a", .alt (.seq (.rule "a") (.lit "x")) (.lit "y"))] 64 = false := by decide +kernel
example : wfGrammar [("a", .star (.opt (.lit "x")))] 64 = false := by decide +kernel
example : wfGrammar [("a", .seq (.lit "(") (.opt (.rule "b"))), ("b", .rule "a")] 4 = false := by decide +kernel
example : wfGrammar [("a", .seq (.lit "(") (.opt (.rule "b"))), ("b", .rule "a")] 5 = true := by decide +kernel

-- OBLIGATIONS: C02_grammar_wf C02_grammar_cost C02_go_wf C02_go_cost C02_fuel_adequate_rule C02_fuel_adequate
--   C02_recognise_total C02_recognise_any_fuel C02_outcome_exact C02_unmodelled_only_from_exec
--   C02_go_fuel_adequate C02_go_recognise

end JPV.Props
