/-
Props/TiesOrder — T1 tie for the operand ordering (DESIGN §5.1).

`Build.mkEq` / `Build.mkOrd` (and `rank`, `litTyOfVal`) are shown equal to what pushCompareEQ / NE / GE /
GT / LE / LT and their helpers do, as Lean functions REGENERATED from /repo on every run
(Gen/OperandOrder.lean), read through the interpretation in Ties/Sem.lean; plus termination and
"pushes exactly one query". This module depends on no other generated file.
Only statements here; proofs are in Lemmas/TiesOrder.lean.
(Split out of the former single module Props/Ties.lean; names, namespace and statements unchanged.)
-/
import JPV.Lemmas.TiesOrder
namespace JPV
namespace Ties
open Impl Build

/-! ## 3. operand ordering -/
section
open Gen.OperandOrder

/-- the generator found exactly the six procedures -/
theorem T_order_procedures :
    procedures.map (·.1) =
      ["pushCompareEQ", "pushCompareNE", "pushCompareGE", "pushCompareGT", "pushCompareLE", "pushCompareLT"] :=
  procedures_names

/-- **Termination.** With fuel 3 (hence with any larger fuel) no procedure runs out of fuel, for every
    pair of abstract operands — including the flag/kind combinations the actions never produce. -/
theorem T_order_terminates (n : Nat) (a b : Opnd) (stk : Stack) :
    isOutOfFuel (pushCompareEQ (n + 3) a b stk) = false ∧ isOutOfFuel (pushCompareNE (n + 3) a b stk) = false ∧
    isOutOfFuel (pushCompareGE (n + 3) a b stk) = false ∧ isOutOfFuel (pushCompareGT (n + 3) a b stk) = false ∧
    isOutOfFuel (pushCompareLE (n + 3) a b stk) = false ∧ isOutOfFuel (pushCompareLT (n + 3) a b stk) = false :=
  ⟨pushCompareEQ_no_loop n a b stk, pushCompareNE_no_loop n a b stk, pushCompareGE_no_loop n a b stk,
   pushCompareGT_no_loop n a b stk, pushCompareLE_no_loop n a b stk, pushCompareLT_no_loop n a b stk⟩

/-- the same as a computation over all 6 × 14 × 14 cases; when it fails,
    `#eval looping Gen.OperandOrder.procedures 3` lists the looping (procedure, left, right) triples -/
theorem T_order_no_looping_pair : looping procedures 3 = [] := looping_none

/-- every procedure pushes exactly one query (for `==`/`!=`: when no literal has an unforeseen type) -/
theorem T_order_pushes_one (n : Nat) (a b : Opnd) (stk : Stack) :
    (a.known = true → b.known = true →
      (∃ t, pushCompareEQ (n + 3) a b stk = .ok (t :: stk)) ∧ (∃ t, pushCompareNE (n + 3) a b stk = .ok (t :: stk))) ∧
    (∃ t, pushCompareGE (n + 3) a b stk = .ok (t :: stk)) ∧ (∃ t, pushCompareGT (n + 3) a b stk = .ok (t :: stk)) ∧
    (∃ t, pushCompareLE (n + 3) a b stk = .ok (t :: stk)) ∧ (∃ t, pushCompareLT (n + 3) a b stk = .ok (t :: stk)) :=
  ⟨fun ha hb => ⟨pushCompareEQ_pushes n a b ha hb stk, pushCompareNE_pushes n a b ha hb stk⟩,
   pushCompareGE_pushes n a b stk, pushCompareGT_pushes n a b stk,
   pushCompareLE_pushes n a b stk, pushCompareLT_pushes n a b stk⟩

example : (⟨.literal .float64, true, .fst⟩ : Opnd).known = true := rfl

/-- **`==`.** What the regenerated `pushCompareEQ` pushes for two built operands is `Build.mkEq`:
    same operand order, same comparator, same validator. -/
theorem T_order_eq (n : Nat) (l r : P) (hl : litParsed l = true) (hr : litParsed r = true) (stk : Stack) :
    ∃ t, pushCompareEQ (n + 3) (opndOfP .fst l) (opndOfP .snd r) stk = .ok (t :: stk) ∧
      qOfTag? l r t = some (mkEq l r) :=
  pushCompareEQ_agrees n l r hl hr stk

/-- The statement of `T_order_eq` without the hypothesis on the literals. It is FALSE, and the reason is
    the model, not the code: `Build.litTyOfVal` is total (a `json.Number` literal would get the numeric
    validator, any other value the nil validator) while the Go type switch has cases for float64, bool,
    string, nil only and pushes nothing otherwise. No such literal can be parsed (`litParsed`), so
    `T_order_eq` is the strongest true statement. Witness: `@ == <json.Number 0>`. -/
def T_order_eq_full : Prop :=
  ∀ (n : Nat) (l r : P) (stk : Stack),
    ∃ t, pushCompareEQ (n + 3) (opndOfP .fst l) (opndOfP .snd r) stk = .ok (t :: stk) ∧
      qOfTag? l r t = some (mkEq l r)

theorem T_order_eq_full_false : ¬ T_order_eq_full := by
  intro h
  obtain ⟨t, h1, _⟩ := h 0 (.pcur []) (.lit (.jnum 0)) []
  have h2 : pushCompareEQ 3 (opndOfP .fst (.pcur [])) (opndOfP .snd (.lit (.jnum 0))) [] = .ok [] := rfl
  rw [h2] at h1
  cases h1

/-- **`!=`** is `.not (mkEq …)`. -/
theorem T_order_ne (n : Nat) (l r : P) (hl : litParsed l = true) (hr : litParsed r = true) (stk : Stack) :
    ∃ t, pushCompareNE (n + 3) (opndOfP .fst l) (opndOfP .snd r) stk = .ok (t :: stk) ∧
      qOfTag? l r t = some (.not (mkEq l r)) :=
  pushCompareNE_agrees n l r hl hr stk

/-- **`<  <=  >  >=`** are `Build.mkOrd` (no hypothesis: these do not look at the literal's type). -/
theorem T_order_ord (n : Nat) (l r : P) (stk : Stack) :
    (∃ t, pushCompareLT (n + 3) (opndOfP .fst l) (opndOfP .snd r) stk = .ok (t :: stk) ∧ qOfTag? l r t = some (mkOrd .lt l r)) ∧
    (∃ t, pushCompareLE (n + 3) (opndOfP .fst l) (opndOfP .snd r) stk = .ok (t :: stk) ∧ qOfTag? l r t = some (mkOrd .le l r)) ∧
    (∃ t, pushCompareGT (n + 3) (opndOfP .fst l) (opndOfP .snd r) stk = .ok (t :: stk) ∧ qOfTag? l r t = some (mkOrd .gt l r)) ∧
    (∃ t, pushCompareGE (n + 3) (opndOfP .fst l) (opndOfP .snd r) stk = .ok (t :: stk) ∧ qOfTag? l r t = some (mkOrd .ge l r)) :=
  ⟨pushCompareLT_agrees n l r stk, pushCompareLE_agrees n l r stk,
   pushCompareGT_agrees n l r stk, pushCompareGE_agrees n l r stk⟩

/-- the hypotheses are met by `1 == $.a` (the literal is swapped to the right, typed comparator) -/
example : litParsed (.lit (.num 1)) = true ∧ litParsed (.proot [.child ⟨"a", "", false, false⟩ "a"]) = true := ⟨rfl, rfl⟩
example : pushCompareEQ 3 (opndOfP .fst (.lit (.num 1))) (opndOfP .snd (.proot [])) [] =
    .ok [.cmp ⟨.root, true, .snd⟩ ⟨.literal .float64, true, .fst⟩ (.directEQ .numeric)] := rfl
/-- `1 < 2`: both operands carry isLiteral; one push, no mutual call -/
example : pushCompareLT 3 (opndOfP .fst (.lit (.num 1))) (opndOfP .snd (.lit (.num 2))) [] =
    .ok [.cmp ⟨.literal .float64, true, .fst⟩ ⟨.literal .float64, true, .snd⟩ .lt] := rfl

/-- recorded, not relied upon: the type switch of `pushCompareEQ` has no `default`, so for a literal of
    another type nothing would be pushed (and `pushCompareNE` would pop whatever lies below).
    The literal actions only push float64, bool, string, nil. -/
theorem T_order_eq_other_literal (n : Nat) (a : Opnd) (il : Bool) (s : Side) (stk : Stack) :
    pushCompareEQ (n + 3) a ⟨.literal .other, il, s⟩ stk = .ok stk ∨
    ∃ t, pushCompareEQ (n + 3) a ⟨.literal .other, il, s⟩ stk = .ok (t :: stk) :=
  pushCompareEQ_other n a il s stk
example : pushCompareNE 3 ⟨.currentRoot, false, .fst⟩ ⟨.literal .other, true, .snd⟩ [] = .error .popEmpty := rfl

end

end Ties
end JPV

-- OBLIGATIONS: JPV.Ties.T_order_procedures JPV.Ties.T_order_terminates JPV.Ties.T_order_no_looping_pair JPV.Ties.T_order_pushes_one JPV.Ties.T_order_eq JPV.Ties.T_order_eq_full_false JPV.Ties.T_order_ne JPV.Ties.T_order_ord JPV.Ties.T_order_eq_other_literal
