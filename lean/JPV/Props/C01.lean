/-
C01 — retrieval returns exactly the nodes the path selects, in document order.

`C01_refines`: for every abstract path `p` (every step kind, nested filters, functions),
configuration and canonical document `d`, the function `Parse` returns — modelled by
`Impl.run` on the tree `Build.build` constructs — yields exactly the values `Spec.run`
(the step-by-step definition) selects: same sequence, multiplicity and order; it fails
exactly when the definition selects nothing; it never panics.

The proof composes the two halves of the refinement:
  lower  `run_refines`   (JPV/Lemmas/Refine.lean)   Impl.run ⊑ TSem.den   (shared buffer, deepest error, list protocol)
  upper  `C01_build`     (JPV/Props/C01Build.lean)  TSem on `build p` = Spec
-/
import JPV.Lemmas.Refine
import JPV.Props.C01Build
namespace JPV
namespace C01
open Impl TSem

theorem C01_refines (env : Env) (cfg : Cfg) (p : Path) (ch : List N) (d : Val)
    (hb : Build.build env cfg p = .ok ch) (hd : d.wf = true) :
    (∃ vs rs st, Spec.run env p d = some vs ∧ Impl.run env ch d = (.ok rs, st) ∧ rs.map Res.val = vs ∧ vs ≠ []) ∨
    (∃ e st, Spec.run env p d = none ∧ Impl.run env ch d = (.err e, st)) := by
  have hwf : wfChain env ch = true := C01Build.build_wf env cfg true p ch hb
  have hspec := C01Build.C01_build env cfg p ch d hb hd
  rcases run_refines env ch hwf d with ⟨rs, st, h1, hv, hne, _⟩ | ⟨e, st, h1, hdn, _⟩
  · left
    have hden : den env ch d d ≠ [] := by
      intro h0
      rw [h0] at hv
      simp at hv
      exact hne hv
    refine ⟨den env ch d d, rs, st, ?_, h1, hv, hden⟩
    rw [← hspec]
    unfold TSem.run
    cases hh : den env ch d d with
    | nil => exact absurd hh hden
    | cons a b => rfl
  · right
    refine ⟨e, st, ?_, h1⟩
    rw [← hspec]
    unfold TSem.run
    rw [hdn]

/-- never a panic, for any parsable path and any canonical document -/
theorem C01_no_panic (env : Env) (cfg : Cfg) (p : Path) (ch : List N) (d : Val)
    (hb : Build.build env cfg p = .ok ch) (hd : d.wf = true) : ∀ pn st, Impl.run env ch d ≠ (.panic pn, st) := by
  intro pn st h
  rcases C01_refines env cfg p ch d hb hd with ⟨_, rs, st', _, h1, _⟩ | ⟨e, st', _, h1⟩ <;>
    (rw [h1] at h; simp at h)

end C01
end JPV
-- OBLIGATIONS: JPV.C01.C01_refines JPV.C01.C01_no_panic
