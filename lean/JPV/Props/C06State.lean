/-
C06 over the explicit global state — every access to the global parser happens under the mutex.

In `Glob/State.lean` every primitive that reads or writes the package variable `parser` (its buffer, the
PEG runtime, the embedded jsonPathParser, the run of `Parse()`/`Execute()`) appends `Ev.parser …` to the
world's log, `Lock()`/`Unlock()` append `Ev.lock`/`Ev.unlock`, the pools and `retrieve` their own events.
The generator (parsewrap.go) has no other way to translate a mention of `parser`, so the log of the
regenerated `Parse` lists every access the source makes, in order.

  C06_parse_atomic         the events one `Parse` adds are: `lock`, then accesses to `parser` only, then `unlock`
                           — for every path, Config, prior state and behaviour of the actions (panics included)
  C06_parse_blocked        on a held mutex `Parse` does nothing at all
  C06_func_no_parser       the function `Parse` returns adds pool and retrieve events only: it shares no
                           parser state and takes no lock
  C06_history_log          along any history of both kinds of calls the log stays well-bracketed
That the mutex serialises concurrent callers, and the Go memory model, stay assumptions (Props/C06.lean).
-/
import JPV.Lemmas.GlobHistory
namespace JPV
namespace C06State
open Glob Gen.ParseWrapGo
variable {ι : Type}

/-- **C06_parse_atomic** -/
theorem C06_parse_atomic (ops : Ops ι) (s : String) (config : List Config) (w : World) (hw : w.mutex = false) :
    ∃ mid, (Parse ops s config w).1.log = .unlock :: (mid ++ .lock :: w.log) ∧ ∀ e ∈ mid, e.isParser = true := by
  rcases Parse_atomic ops s config w hw with ⟨l, hl, hh⟩
  rcases hh.mem with ⟨mid, rfl, hm⟩
  exact ⟨mid, hl, hm⟩

/-- the same as a scan: a well-bracketed log stays well-bracketed, and ends with the mutex free -/
theorem C06_parse_okLog (ops : Ops ι) (s : String) (config : List Config) (w : World) (hw : w.mutex = false)
    (hl : okLog w.log = some false) : okLog (Parse ops s config w).1.log = some false :=
  (Parse_atomic ops s config w hw).okLog hl

/-- **C06_parse_blocked** -/
theorem C06_parse_blocked (ops : Ops ι) (s : String) (config : List Config) (w : World) (hw : w.mutex = true) :
    Parse ops s config w = (w, .blocked) := Parse_blocked ops s config w hw

/-- **C06_func_no_parser** -/
theorem C06_func_no_parser (ops : Ops ι) (root : Option Tree) (d : Val) (ch : Choice) (o : ι) (w : World) :
    (∃ mid, (Parse_func ops root d ch o w).1.log = mid ++ w.log ∧
      ∀ e ∈ mid, e.isParser = false ∧ e ≠ .lock ∧ e ≠ .unlock) ∧
    (Parse_func ops root d ch o w).1.parser = w.parser ∧ (Parse_func ops root d ch o w).1.mutex = w.mutex :=
  ⟨(func_quiet ops root d ch o w).noParser, func_rest ops root d ch o w⟩

/-- **C06_history_log** -/
theorem C06_history_log (ops : Ops ι) (l : List (Op ι)) (w : World) (hw : w.mutex = false) (hl : okLog w.log = some false) :
    okLog (endWorld ops w l).log = some false := endWorld_okLog ops l w hw hl

/-! ### the checker does reject what it should; hypotheses satisfiable -/

example : okLog [.unlock, .parser "root", .parser "Buffer", .lock] = some false := by decide
example : okLog [.parser "root", .unlock, .parser "Buffer", .lock] = none := by decide      -- an access after Unlock
example : okLog [.unlock, .parser "root"] = none := by decide                               -- an access without Lock
example : World.zero.mutex = false ∧ okLog World.zero.log = some false := by decide

end C06State
end JPV
-- OBLIGATIONS: JPV.C06State.C06_parse_atomic JPV.C06State.C06_parse_okLog JPV.C06State.C06_parse_blocked JPV.C06State.C06_func_no_parser JPV.C06State.C06_history_log
