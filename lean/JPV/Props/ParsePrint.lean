/-
ParsePrint — parse ∘ print = build: what `Parse` does with the STRING `Print.print p` is what
`Build.build` does with the abstract path `p` (with the step texts the parser records for that
string, `Print.texts p`).

  * `Print.print`   (JPV/Print.lean) is the plainest spelling of /verif/harness/jph/ast.go;
  * `Peg.parseModel` (JPV/Peg/ParseModel.lean) is `Parse` as a function of the path text: the PEG
    interpreter on the grammar REGENERATED from /repo/jsonpath.peg (`Gen.grammar`) followed by the
    46-action stack machine; the rule bodies the recogniser lemmas were proved against are
    re-checked by `rfl` against the regenerated file on every run (`…_body` theorems of
    Lemmas/ParsePrintRec*.lean, Lemmas/EscapeGrammar.lean), the action texts by checksum
    (`actions_as_expected`);
  * `Build.build`   (JPV/Build.lean) is the function all the theorems about abstract paths
    (C01 refinement, C08–C10, C12–C15 …) are stated for.

Hypotheses: `Print.wf p` (the abstract path has a spelling that parses back to it — see
JPV/Print.lean for the five side conditions), `ExtOK ext p` (the standard-library parameter reads
the literals of `p` back) and `EnvOK env p` (the function kinds recorded in `p` are the ones
`pushFunction` decides on — it looks a name up as filter function first; an abstract `.afn` whose
name is also registered as a filter function is built as an aggregate by `Build` and as a filter
function by `Parse`). The side conditions of `wf` are needed: see the examples at the end.
-/
import JPV.Lemmas.ParsePrintSimRec
import JPV.Lemmas.ParsePrintBlank
import JPV.Lemmas.ParsePrintDriverExt
namespace JPV
namespace ParsePrint
open JPV.Peg JPV.Print JPV.PP

/-- **the full-strength statement**: for every abstract path in the domain of the printer, every
    environment and configuration, `Parse` of the printed path answers EXACTLY
    `expected env cfg p` (JPV/Lemmas/ParsePrintSimTop.lean):

      * the tree `Build.build env cfg (texts p)` builds, when it builds one;
      * `ErrorFunctionNotFound{function: t}` when `Build.build` fails with `funcNotFound t`;
      * `ErrorInvalidSyntax{position: errPos env cfg p, reason: …, near: print p from errPos on}`
        when `Build.build` fails with `valueGroupOperand` / `twoCurrentNodes`, where `errPos`
        (JPV/Lemmas/ParsePrintPos.lean) is the rune offset in the printed path of the operand that is
        a value group resp. of the comparison between two `@`-paths. -/
def ParsePrint_full : Prop :=
  ∀ (env : Env) (ext : Ext) (cfg : Cfg) (p : Path), wf p = true → ExtOK ext p → EnvOK env p →
    parseModel env ext cfg (printS p) = expected env cfg p

/-- the full-strength statement holds -/
theorem ParsePrint_exact : ParsePrint_full := by
  intro env ext cfg p hp hext henv
  obtain ⟨h, ss, fns⟩ := p
  cases h with
  | cur => simp [wf] at hp
  | root => exact parse_print_exact env ext cfg ss fns hp hext henv

/-- … in the form "the two outcomes agree" -/
theorem ParsePrint_holds (env : Env) (ext : Ext) (cfg : Cfg) (p : Path) (hp : wf p = true)
    (hext : ExtOK ext p) (henv : EnvOK env p) :
    Agree (Build.build env cfg (texts p)) (parseModel env ext cfg (printS p)) := by
  rw [ParsePrint_exact env ext cfg p hp hext henv]
  exact agree_expected env cfg p

/-- **fragment (d)** = the whole domain: steps of every kind, trailing functions, filters with
    existence tests, comparisons (literal/path operands on either side), regular expressions,
    `&&`/`||`/parentheses, filters nested in the paths of filters. -/
def inFragmentD (p : Path) : Bool := wf p

theorem ParsePrint_fragment_D (env : Env) (ext : Ext) (cfg : Cfg) (p : Path)
    (hp : inFragmentD p = true) (hext : ExtOK ext p) (henv : EnvOK env p) :
    Agree (Build.build env cfg (texts p)) (parseModel env ext cfg (printS p)) :=
  ParsePrint_holds env ext cfg p hp hext henv

/-- **fragment (b)**: paths without filters — child steps in dot and bracket spelling, wildcards,
    multi-name selectors, unions of indices / slices / `*`, `..` in front of any of them, trailing
    filter and aggregate functions. -/
theorem ParsePrint_fragment_B (env : Env) (ext : Ext) (cfg : Cfg) (p : Path)
    (hp : inFragmentB p = true) (hext : ExtOK ext p) (henv : EnvOK env p) :
    Agree (Build.build env cfg (texts p)) (parseModel env ext cfg (printS p)) := by
  obtain ⟨h, ss, fns⟩ := p
  simp only [inFragmentB, Bool.and_eq_true] at hp
  exact ParsePrint_holds env ext cfg _ hp.1 hext henv

/-- **fragment (a)**: paths without filters and functions; parsing the printed path succeeds and
    yields exactly the tree of `Build.build`. -/
theorem ParsePrint_fragment_A (env : Env) (ext : Ext) (cfg : Cfg) (p : Path)
    (hp : inFragmentA p = true) (hext : ExtOK ext p) :
    ∃ ch, parseModel env ext cfg (printS p) = .ok ch ∧ Build.build env cfg (texts p) = .ok ch := by
  obtain ⟨h, ss, fns⟩ := p
  simp only [inFragmentA, Bool.and_eq_true, List.isEmpty_iff] at hp
  obtain ⟨hb, rfl⟩ := hp
  have hb' := hb
  simp only [inFragmentB, Bool.and_eq_true] at hb'
  cases h with
  | cur => simp [wf] at hb'
  | root =>
    have henv : EnvOK env (.mk .root ss []) := by
      unfold EnvOK
      rw [pathEnv]
      exact ⟨stepsEnv_of_noFilter env ss hb'.2, by simp⟩
    have hB := parse_print_B env ext cfg ss [] hb'.1 hb'.2 hext henv
    have hwf := hb'.1
    simp only [wf, pathWf, Bool.and_eq_true] at hwf
    have hnf : ∀ s ∈ ss, noFilterStep s = true := by
      simpa [noFilterSteps, List.all_eq_true] using hb'.2
    have hbuild := build_nf_ok env cfg ss [] (fun s hs => ⟨hnf s hs, stepsWf_mem ss hwf.1 s hs⟩) (by simp)
    rw [hbuild] at hB
    refine ⟨_, ?_, hbuild⟩
    cases hx : parseModel env ext cfg (printS (.mk .root ss [])) with
    | ok ch' => rw [hx] at hB; simp only [Agree] at hB; rw [hB]
    | _ => rw [hx] at hB; simp [Agree] at hB

/-- the success case spelled out: when `Build.build` answers a tree, `Parse` of the printed path
    answers the same tree -/
theorem ParsePrint_ok (env : Env) (ext : Ext) (cfg : Cfg) (p : Path) (hp : wf p = true)
    (hext : ExtOK ext p) (henv : EnvOK env p) (ch : List N)
    (hb : Build.build env cfg (texts p) = .ok ch) : parseModel env ext cfg (printS p) = .ok ch := by
  have h := ParsePrint_holds env ext cfg p hp hext henv
  rw [hb] at h
  cases hx : parseModel env ext cfg (printS p) with
  | ok ch' => rw [hx] at h; simp only [Agree] at h; rw [h]
  | _ => rw [hx] at h; simp [Agree] at h

/-- the error cases spelled out -/
theorem ParsePrint_functionNotFound (env : Env) (ext : Ext) (cfg : Cfg) (p : Path) (hp : wf p = true)
    (hext : ExtOK ext p) (henv : EnvOK env p) (t : String)
    (hb : Build.build env cfg (texts p) = .error (.funcNotFound t)) :
    parseModel env ext cfg (printS p) = .functionNotFound t := by
  have h := ParsePrint_holds env ext cfg p hp hext henv
  rw [hb] at h
  cases hx : parseModel env ext cfg (printS p) with
  | functionNotFound t' => rw [hx] at h; simp only [Agree] at h; rw [h]
  | _ => rw [hx] at h; simp [Agree] at h

/-- a value-group path as an operand of a comparison: `ErrorInvalidSyntax` at the operand -/
theorem ParsePrint_valueGroup (env : Env) (ext : Ext) (cfg : Cfg) (p : Path) (hp : wf p = true)
    (hext : ExtOK ext p) (henv : EnvOK env p)
    (hb : Build.build env cfg (texts p) = .error .valueGroupOperand) :
    parseModel env ext cfg (printS p) =
      .syntaxErr (errPos env cfg p) "JSONPath that returns a value group is prohibited"
        (String.ofList ((print p).drop (errPos env cfg p))) := by
  rw [ParsePrint_exact env ext cfg p hp hext henv, expected, hb]
  rfl

/-- a comparison of two `@`-paths: `ErrorInvalidSyntax` at the comparison -/
theorem ParsePrint_twoCurrentNodes (env : Env) (ext : Ext) (cfg : Cfg) (p : Path) (hp : wf p = true)
    (hext : ExtOK ext p) (henv : EnvOK env p)
    (hb : Build.build env cfg (texts p) = .error .twoCurrentNodes) :
    parseModel env ext cfg (printS p) =
      .syntaxErr (errPos env cfg p) "comparison between two current nodes is prohibited"
        (String.ofList ((print p).drop (errPos env cfg p))) := by
  rw [ParsePrint_exact env ext cfg p hp hext henv, expected, hb]
  rfl

/-! ### C18, first slice: blanks in front of and behind the path are insignificant -/

/-- `Parse` of `␣…␣ print p ␣…␣` agrees with `Build.build` on the recorded texts of the plain spelling -/
theorem ParsePrint_blanks (env : Env) (ext : Ext) (cfg : Cfg) (k m : Nat) (p : Path) (hp : wf p = true)
    (hext : ExtOK ext p) (henv : EnvOK env p) :
    Agree (Build.build env cfg (texts p)) (parseModel env ext cfg (String.ofList (printBlanks k m p))) := by
  obtain ⟨h, ss, fns⟩ := p
  cases h with
  | cur => simp [wf] at hp
  | root => exact parse_print_blanks env ext cfg k m ss fns hp hext henv

/-- … and a tree is the SAME tree as for the plain spelling, recorded texts included -/
theorem ParsePrint_blanks_same (env : Env) (ext : Ext) (cfg : Cfg) (k m : Nat) (p : Path) (hp : wf p = true)
    (hext : ExtOK ext p) (henv : EnvOK env p) (ch : List N)
    (hplain : parseModel env ext cfg (printS p) = .ok ch) :
    parseModel env ext cfg (String.ofList (printBlanks k m p)) = .ok ch := by
  obtain ⟨h, ss, fns⟩ := p
  cases h with
  | cur => simp [wf] at hp
  | root => exact parse_print_blanks_same env ext cfg k m ss fns hp hext henv ch hplain

/-! ### the hypotheses are satisfiable: a concrete environment, a concrete `Ext`, concrete paths -/

/-- one filter function `f`, one aggregate function `g` -/
def exEnv : Env :=
  { ffn := fun n => if n = "f" then some (fun v => some v) else none,
    afn := fun n => if n = "g" then some (fun _ => some .null) else none,
    regex := fun _ _ => true }

/-- the executable `driverExt` (Atoi and the three unescape routines of JPV/Lex/Escape.lean) with
    `ParseFloat` = `Atoi` on integer spellings and every regular expression compiling -/
def exExt : Ext :=
  { driverExt with
    parseFloat := fun s => match atoiModel s with | some n => .ok n | none => .err
    regexCompile := fun _ => .ok }

theorem ex_intOK (n : Int) (h1 : -9223372036854775808 ≤ n) (h2 : n ≤ 9223372036854775807) : intOK exExt n :=
  driver_intOK n h1 h2
theorem ex_numLit (n : Int) (h1 : -9223372036854775808 ≤ n) (h2 : n ≤ 9223372036854775807) :
    litOK exExt (.num n) := by
  have h : atoiModel (String.ofList (intText n)) = some n := driver_intOK n h1 h2
  show (match atoiModel (String.ofList (intText n)) with | some n => FloatRes.ok n | none => .err) = .ok n
  rw [h]
theorem ex_childOK (k : String) : childOK exExt k := driver_childOK k
theorem ex_nameOK (n : Name) : nameOK exExt n := driver_nameOK n
theorem ex_strLit (s : String) : litOK exExt (.str s) := driver_strLit s
theorem ex_atoi0 : exExt.atoi "0" = some 0 := driver_intOK 0 (by decide) (by decide)
theorem ex_atoi1 : exExt.atoi "1" = some 1 := driver_intOK 1 (by decide) (by decide)

/-- `$.a..b\ c[-12,:3,*]['x',*][''][?(!@.z||@<=3&&(@=~/ab/||'it\'s'==null))].f().g()` -/
def exPath : Path :=
  .mk .root
    [.child "" "a", .desc (.child "" "b c"),
     .union "" [.idx (-12), .slice none (some 3) none, .wild],
     .multi "" [.key "x", .wild], .child "" "",
     .filter "" (.or (.exist true (.mk .cur [.child "" "z"] []))
       (.and (.cmp .le (.path (.mk .cur [] [])) (.lit (.num 3)))
         (.or (.regex (.mk .cur [] []) "ab") (.cmp .eq (.lit (.str "it's")) (.lit .null)))))]
    [.ffn "" "f", .afn "" "g"]

example : print exPath =
    "$.a..b\\ c[-12,:3,*]['x',*][''][?(!@.z||@<=3&&(@=~/ab/||'it\\'s'==null))].f().g()".toList := by decide

theorem exPath_wf : wf exPath = true := by decide

theorem exPath_ext : ExtOK exExt exPath := by
  simp only [ExtOK, exPath, pathExt, stepsExt, stepExt, queryExt, operandExt, and_true, true_and]
  refine ⟨ex_childOK _, ex_childOK _, ?_, ?_, ex_childOK _, ex_childOK _, ex_numLit 3 (by decide) (by decide),
    rfl, ex_strLit _, trivial⟩
  · intro s hs
    simp only [List.mem_cons, List.not_mem_nil, or_false] at hs
    rcases hs with rfl | rfl | rfl
    · exact ex_intOK _ (by decide) (by decide)
    · exact ⟨ex_atoi0, ex_intOK _ (by decide) (by decide), ex_atoi1⟩
    · trivial
  · intro n _; exact ex_nameOK n

theorem exPath_env : EnvOK exEnv exPath := by
  simp [EnvOK, exPath, pathEnv, stepsEnv, stepEnv, queryEnv, operandEnv, fnKindOK, exEnv]

/-- the theorem applied: the real parser model and `Build.build` agree on this path, in both
    configurations -/
example (cfg : Cfg) : Agree (Build.build exEnv cfg (texts exPath)) (parseModel exEnv exExt cfg (printS exPath)) :=
  ParsePrint_holds exEnv exExt cfg exPath exPath_wf exPath_ext exPath_env

/-- … also with two blanks in front and one behind -/
example (cfg : Cfg) : Agree (Build.build exEnv cfg (texts exPath))
    (parseModel exEnv exExt cfg (String.ofList (printBlanks 2 1 exPath))) :=
  ParsePrint_blanks exEnv exExt cfg 2 1 exPath exPath_wf exPath_ext exPath_env

/-- an unregistered function: `$.a.h()` -/
def exMissing : Path := .mk .root [.child "" "a"] [.ffn "" "h"]

example : String.ofList (fnText (.ffn "" "h")) = ".h()" := by decide

example (cfg : Cfg) : parseModel exEnv exExt cfg (printS exMissing) =
    .functionNotFound (String.ofList (fnText (.ffn "" "h"))) := by
  apply ParsePrint_functionNotFound exEnv exExt cfg exMissing (by decide)
  · simp only [ExtOK, exMissing, pathExt, stepsExt, stepExt, and_true]; exact ex_childOK _
  · simp [EnvOK, exMissing, pathEnv, stepsEnv, stepEnv, fnKindOK, exEnv]
  · rw [Build.build, texts]
    have := PP.buildPath_nf_missing exEnv cfg .root [.child "" "a"] [] (.ffn "" "h") []
      (by intro s hs; simp at hs; subst hs; exact ⟨rfl, rfl⟩) (by simp) (by simp [fnFound, exEnv]) true
    simpa [exMissing] using this

/-- fragment (a) applied: `$.a[1:2]..*` -/
example (env : Env) (cfg : Cfg) :
    ∃ ch, parseModel env exExt cfg (printS (.mk .root [.child "" "a", .union "" [.slice (some 1) (some 2) none],
        .desc (.wild "")] [])) = .ok ch ∧
      Build.build env cfg (texts (.mk .root [.child "" "a", .union "" [.slice (some 1) (some 2) none],
        .desc (.wild "")] [])) = .ok ch := by
  apply ParsePrint_fragment_A env exExt cfg _ (by decide)
  simp only [ExtOK, pathExt, stepsExt, stepExt, and_true]
  refine ⟨ex_childOK _, ?_⟩
  intro s hs
  simp only [List.mem_cons, List.not_mem_nil, or_false] at hs
  subst hs
  exact ⟨ex_intOK _ (by decide) (by decide), ex_intOK _ (by decide) (by decide), ex_atoi1⟩

/-! ### a syntax error with its position -/

open JPV.Build in
/-- `$[?(@.*==1)]`: the operand `@.*` is a value group -/
def exVg : Path := .mk .root [.filter "" (.cmp .eq (.path (.mk .cur [.wild ""] [])) (.lit (.num 1)))] []

open JPV.Build in
theorem exVg_inner (cfg : Cfg) : buildPath exEnv cfg false (pathT (.mk .cur [.wild ""] [])) =
    .ok [.wild ⟨String.ofList ['.', '*'], "", true, false⟩] := by
  rw [buildPath_of_sp exEnv cfg false false .cur [.wild ""] [] [.node (String.ofList ['.', '*']) true (fun i => .wild i)]
    (by rw [stepsT, stepsT, stepsPre, stepT, stepPre, stepsPre]; rfl) (by simp)]
  simp [ccChain, linkPres, linkFn, headRaw, rawOf, nodeWith, BD.headPreOf, Build.markVg, N.info, N.setVg,
    delRoot_cons, delRootNode, setAccChain, nSetAcc, nMapInfoDeep, nMapInfo, preVg, Pre.text]

open JPV.Build in
theorem exVg_operand (cfg : Cfg) :
    buildOperand exEnv cfg (operandT (.path (.mk .cur [.wild ""] []))) = .error .valueGroupOperand := by
  rw [operandT, buildOperand, BD.buildP_eq, exVg_inner]
  rfl

open JPV.Build in
theorem exVg_step (cfg : Cfg) : stepPre exEnv cfg (stepT false
    (.filter "" (.cmp .eq (.path (.mk .cur [.wild ""] [])) (.lit (.num 1))))) = .error .valueGroupOperand := by
  rw [stepT, stepPre, queryT, buildQ, exVg_operand]
  rfl

open JPV.Build in
theorem exVg_build (cfg : Cfg) : Build.build exEnv cfg (texts exVg) = .error .valueGroupOperand := by
  rw [Build.build, texts, exVg, pathT, BD.buildPath_eq, stepsT, stepsPre, exVg_step]
  rfl

open JPV.Build in
theorem exVg_pos (cfg : Cfg) : errPos exEnv cfg exVg = 4 := by
  rw [errPos, exVg, posPath, posSteps, exVg_step, seqPos_error, posStep, posQ, exVg_operand, seqPos_error,
    posOperand, exVg_inner, seqPos_ok]

example (cfg : Cfg) : parseModel exEnv exExt cfg (printS exVg) =
    .syntaxErr 4 "JSONPath that returns a value group is prohibited" (String.ofList "@.*==1)]".toList) := by
  have h := ParsePrint_valueGroup exEnv exExt cfg exVg (by decide) (by
      simp only [ExtOK, exVg, pathExt, stepsExt, stepExt, queryExt, operandExt, and_true, true_and]
      exact ex_numLit 1 (by decide) (by decide))
    (by simp [EnvOK, exVg, pathEnv, stepsEnv, stepEnv, queryEnv, operandEnv]) (exVg_build cfg)
  rw [h, exVg_pos]
  rfl

/-! ### the side conditions of `Print.wf` are needed

`Build.build` accepts abstract paths that no string parses to; on them the printed string is read
as something else (or not at all). Each `decide` runs the regenerated grammar and the action
machine on the printed string. -/

/-- `[*]` is a wildcard step, not a union with the subscript `*` -/
example : (print (.mk .root [.union "" [.wild]] []) = "$[*]".toList) ∧
    (print (.mk .root [.wild ""] []) = "$.*".toList) := by decide

/-- the whole input is a `jsonpath` (the recogniser ends in Action0, not in the error alternative) -/
def accepted (s : List Char) : Bool :=
  match recognise s.toArray with
  | .ok _ toks => toks.getLast? == some (.action 0)
  | _ => false

/-- `@.a<'x'`: an ordering comparison with a string literal is not in the language, although
    `Build.build` builds a tree for the abstract comparison -/
example : accepted (print (.mk .root [.filter "" (.cmp .lt (.path (.mk .cur [.child "" "a"] [])) (.lit (.str "x")))] []))
    = false := by decide
example : accepted (print (.mk .root [.filter "" (.cmp .lt (.path (.mk .cur [.child "" "a"] [])) (.lit (.num 1)))] []))
    = true := by decide

end ParsePrint
end JPV

-- OBLIGATIONS: ParsePrint_exact ParsePrint_holds ParsePrint_fragment_A ParsePrint_fragment_B
--   ParsePrint_fragment_D ParsePrint_ok ParsePrint_functionNotFound ParsePrint_valueGroup
--   ParsePrint_twoCurrentNodes ParsePrint_blanks ParsePrint_blanks_same exPath_wf exPath_ext exPath_env
--   exVg_build exVg_pos
