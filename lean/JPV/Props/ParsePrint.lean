/-
ParsePrint — parse ∘ print = build: what `Parse` does with the STRING `Print.print p` is what
`Build.build` does with the abstract path `p` (with the step texts the parser records for that
string, `Print.texts p`).

  * `Print.print`   (JPV/Print.lean) is the plainest spelling of /verif/harness/jph/ast.go;
  * `Peg.parseModel` (JPV/Peg/ParseModel.lean) is `Parse` as a function of the path text: the PEG
    interpreter on the grammar REGENERATED from /repo/jsonpath.peg (`Gen.grammar`) followed by the
    46-action stack machine; the rule bodies the recogniser lemmas were proved against are
    re-checked by `rfl` against the regenerated file on every run (`…_body` theorems of
    Lemmas/ParsePrintRec*.lean), the action texts by checksum (`actions_as_expected`);
  * `Build.build`   (JPV/Build.lean) is the function all the theorems about abstract paths
    (C01 refinement, C08–C10, C12–C15 …) are stated for.

Hypotheses: `Print.wf p` (the abstract path has a spelling at all — see JPV/Print.lean),
`ExtOK ext p` (the standard-library parameter reads the literals of `p` back) and `EnvOK env p`
(the function kinds recorded in `p` are the ones the library decides on).
-/
import JPV.Lemmas.ParsePrintMainB
import JPV.Peg.ExtDriver
import JPV.Props.C16
namespace JPV
namespace ParsePrint
open JPV.Peg JPV.Print JPV.PP

/-- **the full-strength statement**: for every abstract path in the domain of the printer, every
    environment and configuration, parsing the printed path gives what `Build.build` gives — the
    same tree, or the same error (unknown function ↦ `ErrorFunctionNotFound` with the same text,
    value-group operand / two current nodes ↦ `ErrorInvalidSyntax` with the corresponding reason). -/
def ParsePrint_full : Prop :=
  ∀ (env : Env) (ext : Ext) (cfg : Cfg) (p : Path), wf p = true → ExtOK ext p → EnvOK env p →
    Agree (Build.build env cfg (texts p)) (parseModel env ext cfg (printS p))

/-- **fragment (b)**: paths without filters — child steps in dot and bracket spelling, wildcards,
    multi-name selectors, unions of indices / slices / `*`, `..` in front of any of them, trailing
    filter and aggregate functions. -/
theorem ParsePrint_fragment_B (env : Env) (ext : Ext) (cfg : Cfg) (p : Path)
    (hp : inFragmentB p = true) (hext : ExtOK ext p) (henv : EnvOK env p) :
    Agree (Build.build env cfg (texts p)) (parseModel env ext cfg (printS p)) := by
  obtain ⟨h, ss, fns⟩ := p
  simp only [inFragmentB, Bool.and_eq_true] at hp
  cases h with
  | cur => simp [wf] at hp
  | root => exact parse_print_B env ext cfg ss fns hp.1 hp.2 hext henv

/-- **fragment (a)**: paths without filters and functions; parsing the printed path succeeds and
    yields exactly the tree of `Build.build`. -/
theorem ParsePrint_fragment_A (env : Env) (ext : Ext) (cfg : Cfg) (p : Path)
    (hp : inFragmentA p = true) (hext : ExtOK ext p) :
    ∃ ch, parseModel env ext cfg (printS p) = .ok ch ∧ Build.build env cfg (texts p) = .ok ch := by
  obtain ⟨h, ss, fns⟩ := p
  simp only [inFragmentA, Bool.and_eq_true, List.isEmpty_iff] at hp
  obtain ⟨hb, rfl⟩ := hp
  have hb' := hb
  simp only [inFragmentB, Bool.and_eq_true] at hb'
  cases h with
  | cur => simp [wf] at hb'
  | root =>
    have henv : EnvOK env (.mk .root ss []) := by
      unfold EnvOK
      rw [pathEnv]
      exact ⟨stepsEnv_of_noFilter env ss hb'.2, by simp⟩
    have hB := parse_print_B env ext cfg ss [] hb'.1 hb'.2 hext henv
    have hwf := hb'.1
    simp only [wf, pathWf, Bool.and_eq_true] at hwf
    have hnf : ∀ s ∈ ss, noFilterStep s = true := by
      simpa [noFilterSteps, List.all_eq_true] using hb'.2
    have hbuild := build_nf_ok env cfg ss [] (fun s hs => ⟨hnf s hs, stepsWf_mem ss hwf.1 s hs⟩) (by simp)
    rw [hbuild] at hB
    refine ⟨_, ?_, hbuild⟩
    cases hx : parseModel env ext cfg (printS (.mk .root ss [])) with
    | ok ch' => rw [hx] at hB; simp only [Agree] at hB; rw [hB]
    | _ => rw [hx] at hB; simp [Agree] at hB

end ParsePrint
end JPV
