/-
C16 — escapes: every object member is addressable.

"For every object and every key it contains (any Unicode string, including empty, quotes,
backslashes, control and non-BMP characters), the bracket selectors `['k']` and `["k"]` with
JSON-style escaping return exactly that member's value and nothing else, and for non-empty keys
without control characters so does the dot selector with every symbol character
backslash-escaped.  Distinct keys are never confused, and all spellings of the same key behave
identically in every position of a path."

Shape of the argument.  A member name reaches the evaluator only as the Go string that one of the
three parser routines returns (`unescape`, `unescapeSingleQuotedString`,
`unescapeDoubleQuotedString`; models in JPV/Lex/Escape.lean); the selector built from it is the
abstract step `Step.child _ key`, the same for every spelling and every position (root, after `..`,
inside a filter).  Hence:

  round trip   the routine applied to the rendering of `k` gives back exactly `k`            (1–3)
  accepted     the rendering is in the language of the rule body, so the routine is reached   (4–6)
  injective    two keys never share a rendering                                               (7–9)
  agree        the three renderings of one key decode to the same key                         (10)
  exact        the step `child k` on an object with distinct keys yields exactly `[v]`        (11)

`k : List Char` ranges over ALL well-formed Unicode strings (see the header of Lex/Escape.lean for
why this is the whole domain: surrogates are not characters, they only occur spelled `\uD83D` in
the text that `jsonUnquote` reads).

Tie to the source (T1): section 12 restates round trip and acceptance for the definitions that the
translator regenerates from jsonpath.go, jsonpath_parser.go (Gen/EscapeGo.lean) and jsonpath.peg
(Gen/Grammar.lean) on every run; sections 1–11 are about the hand-written models, which section 12
proves equal to the regenerated ones.

Assumption (checked by T3 on every run, not proved): `jsonUnquote` is what `encoding/json` does.
-/
import JPV.Lemmas.Escape
import JPV.Lemmas.EscapeGo
import JPV.Lemmas.EscapeGrammar
import JPV.Spec
namespace JPV.Props.C16
open JPV JPV.Lex

/-! ### 1–3 round trips -/

/-- `$['…']`: state machine + `json.Unmarshal` undo `EscSingle`, for every key. -/
theorem C16_single_roundtrip (k : List Char) : unescapeSingle (escSingle k) = some k :=
  jsonUnquote_singleToJson_escSingle k

/-- `$["…"]`: `json.Unmarshal` undoes `EscDouble`, for every key. -/
theorem C16_double_roundtrip (k : List Char) : unescapeDouble (escDouble k) = some k :=
  jsonUnquote_escDouble k

/-- `$.…`: the regexp replacement undoes `EscDot` for every non-empty key without control
    characters.  (Only "no newline" is used by the proof, and non-emptiness not at all: see
    `C16_dot_roundtrip_no_newline`; the full hypothesis is what `C16_accepted_dot` needs.
    U+FFFD needs no care: it is an ordinary character for `.`) -/
theorem C16_dot_roundtrip (k : List Char) (_hne : k ≠ []) (h : ∀ c ∈ k, ¬ isControl c) :
    unescapeBackslash (escDot k) = k :=
  unescapeBackslash_escDot k (fun c hc => ne_newline_of_not_isControl c (by simpa using h c hc))

/-- the weakest hypothesis for the dot round trip -/
theorem C16_dot_roundtrip_no_newline (k : List Char) (h : ∀ c ∈ k, c ≠ '\n') :
    unescapeBackslash (escDot k) = k :=
  unescapeBackslash_escDot k h

/-- … and it is needed: Go's `.` does not match a newline. -/
theorem C16_dot_newline_not_roundtrip : unescapeBackslash (escDot ['\n']) ≠ ['\n'] := by decide

-- the hypotheses are satisfiable by non-trivial keys
example : unescapeSingle (escSingle ['i', 't', '\'', 's', ' ', '"', 'q', '"', ' ', '\\', ' ', '\x00', '\x1f', '\x7f', ' ', 'é', ' ', '😀']) = some ['i', 't', '\'', 's', ' ', '"', 'q', '"', ' ', '\\', ' ', '\x00', '\x1f', '\x7f', ' ', 'é', ' ', '😀'] :=
  C16_single_roundtrip _
example : escSingle ['i', 't', '\'', 's', ' ', '\x01'] = ['i', 't', '\\', '\'', 's', ' ', '\\', 'u', '0', '0', '0', '1'] := by decide
example : unescapeDouble (escDouble ['i', 't', '\'', 's', ' ', '"', 'q', '"', ' ', '\\', ' ', '\x00', ' ', '😀']) = some ['i', 't', '\'', 's', ' ', '"', 'q', '"', ' ', '\\', ' ', '\x00', ' ', '😀'] :=
  C16_double_roundtrip _
example : escDouble ['a', '"', 'b', '\\', '\n'] = ['a', '\\', '"', 'b', '\\', '\\', '\\', 'u', '0', '0', '0', 'a'] := by decide
example : unescapeBackslash (escDot ['a', '.', 'b', ' ', 'c', '-', 'd', '_', 'e', '\\', '[', '😀', ']', '�']) = ['a', '.', 'b', ' ', 'c', '-', 'd', '_', 'e', '\\', '[', '😀', ']', '�'] :=
  C16_dot_roundtrip _ (by decide) (by decide)
example : escDot ['a', '.', 'b', ' ', 'c', '-', 'd', '_', 'e', '\\'] = ['a', '\\', '.', 'b', '\\', ' ', 'c', '-', 'd', '_', 'e', '\\', '\\'] := by decide

/-! ### 4–6 the renderings are accepted by the rule bodies -/

theorem C16_accepted_single (k : List Char) : matchesSingleBody (escSingle k) = true :=
  quotedBodyLoop_escQuoted '\'' k (by decide)

theorem C16_accepted_double (k : List Char) : matchesDoubleBody (escDouble k) = true :=
  quotedBodyLoop_escQuoted '"' k (by decide)

theorem C16_accepted_dot (k : List Char) (hne : k ≠ []) (h : ∀ c ∈ k, ¬ isControl c) :
    matchesDotName (escDot k) = true :=
  matchesDotName_escDot k hne (fun c hc => by simpa using h c hc)

/-- Converse for the dot spelling: the hypotheses of `C16_dot_roundtrip`/`C16_accepted_dot` exclude
    nothing that could be spelled some other way — EVERY text the dot-child rule accepts denotes a
    non-empty key without control characters. -/
theorem C16_dot_only_spellable (t : List Char) (h : matchesDotName t = true) :
    unescapeBackslash t ≠ [] ∧ ∀ c ∈ unescapeBackslash t, ¬ isControl c := by
  refine ⟨matchesDotName_decodes_nonempty t h, fun c hc => ?_⟩
  have hl : dotNameLoop t = true := by
    unfold matchesDotName at h; simp at h; exact h.2
  simp [dotNameLoop_no_control t.length t (Nat.le_refl _) hl c hc]

example : matchesSingleBody ['i', 't', '\\', '\'', 's', ' ', '\\', 'u', '0', '0', '0', '1'] = true := C16_accepted_single ['i', 't', '\'', 's', ' ', '\x01']
example : matchesDotName (escDot ['a', '.', 'b', ' ', 'c']) = true := C16_accepted_dot _ (by decide) (by decide)
example : matchesDotName ['a', '\\', '.', 'b'] = true ∧ matchesDotName ['a', '\\'] = false
    ∧ matchesDotName ['a', '\x01'] = false ∧ matchesDotName [] = false := by decide

/-! ### 7–9 distinct keys are never confused: the renderers are injective -/

theorem C16_escSingle_injective (a b : List Char) (h : escSingle a = escSingle b) : a = b := by
  have := C16_single_roundtrip a
  rw [h, C16_single_roundtrip b] at this
  exact (Option.some.inj this).symm

theorem C16_escDouble_injective (a b : List Char) (h : escDouble a = escDouble b) : a = b := by
  have := C16_double_roundtrip a
  rw [h, C16_double_roundtrip b] at this
  exact (Option.some.inj this).symm

/-- for all keys, including those with control characters -/
theorem C16_escDot_injective (a b : List Char) (h : escDot a = escDot b) : a = b :=
  escDot_injective a b h

/-- the form used by the property: different keys, different selected member names -/
theorem C16_distinct_keys (a b : List Char) (h : a ≠ b) :
    unescapeSingle (escSingle a) ≠ unescapeSingle (escSingle b) ∧
    unescapeDouble (escDouble a) ≠ unescapeDouble (escDouble b) := by
  rw [C16_single_roundtrip, C16_single_roundtrip, C16_double_roundtrip, C16_double_roundtrip]
  exact ⟨fun e => h (Option.some.inj e), fun e => h (Option.some.inj e)⟩

example : escSingle ['a', '\''] ≠ escSingle ['a', '\\', '\''] := by decide

/-! ### 10 all spellings of a key denote the same member name -/

theorem C16_spellings_agree (k : List Char) (hne : k ≠ []) (h : ∀ c ∈ k, ¬ isControl c) :
    unescapeSingle (escSingle k) = some (unescapeBackslash (escDot k)) ∧
    unescapeDouble (escDouble k) = some (unescapeBackslash (escDot k)) := by
  rw [C16_single_roundtrip, C16_double_roundtrip, C16_dot_roundtrip k hne h]
  exact ⟨rfl, rfl⟩

theorem C16_quoted_spellings_agree (k : List Char) :
    unescapeSingle (escSingle k) = unescapeDouble (escDouble k) := by
  rw [C16_single_roundtrip, C16_double_roundtrip]

/-! ### general decoding facts (other spellings of the same key) -/

/-- text without backslash, `"` and characters < 0x20 is its own JSON decoding -/
theorem C16_jsonUnquote_plain (t : List Char) (h : ∀ c ∈ t, c ≠ '\\' ∧ c ≠ '"' ∧ ¬ c.toNat < 0x20) :
    jsonUnquote t = some t := jsonUnquote_id t h

/-- text without quotes and backslashes is its own single-quoted decoding … -/
theorem C16_unescapeSingle_plain (t : List Char)
    (h : ∀ c ∈ t, c ≠ '\\' ∧ c ≠ '"' ∧ c ≠ '\'' ∧ ¬ c.toNat < 0x20) : unescapeSingle t = some t := by
  unfold unescapeSingle
  rw [singleToJson_id t (fun c hc => ⟨(h c hc).2.1, (h c hc).2.2.1, (h c hc).1⟩)]
  exact jsonUnquote_id t (fun c hc => ⟨(h c hc).1, (h c hc).2.1, (h c hc).2.2.2⟩)

/-- … and text without backslash its own dot decoding -/
theorem C16_unescapeBackslash_plain (t : List Char) (h : ∀ c ∈ t, c ≠ '\\') : unescapeBackslash t = t :=
  unescapeBackslash_id t h

/-- raw control characters and a raw `"` make `json.Unmarshal` fail wherever they stand first … -/
theorem C16_jsonUnquote_rejects (c : Char) (r : List Char) (h : c.toNat < 0x20 ∨ c = '"') :
    jsonUnquote (c :: r) = none := by
  rcases h with h | h
  · exact jsonUnquote_raw_control c r h
  · subst h; exact jsonUnquote_raw_quote r

/-- the hand-picked decodings, identical to what Go's `json.Unmarshal` returns (see
    /tmp/lean/L3/xcheck): escapes, `\uXXXX`, surrogate pairs, lone surrogates, rejected forms -/
example : jsonUnquote ['\\', 'n'] = some ['\n'] := by decide
example : jsonUnquote ['\\', 'u', '0', '0', '4', '1'] = some ['A'] := by decide
example : jsonUnquote ['\\', 'u', 'd', '8', '3', 'd', '\\', 'u', 'd', 'e', '0', '0'] = some ['😀'] := by decide
example : jsonUnquote ['\\', 'u', 'D', '8', '3', 'D', '\\', 'u', 'D', 'E', '0', '0'] = some ['😀'] := by decide
example : jsonUnquote ['\\', 'u', 'd', '8', '0', '0'] = some ['�'] := by decide
example : jsonUnquote ['\\', 'u', 'd', 'e', '0', '0', '\\', 'u', 'd', '8', '3', 'd'] = some ['�', '�'] := by decide
example : jsonUnquote ['\\', 'u', 'd', '8', '3', 'd', '\\', 'u', '0', '0', '4', '1'] = some ['�', 'A'] := by decide
example : jsonUnquote ['\\', '/'] = some ['/'] := by decide
example : jsonUnquote ['\\', '"'] = some ['"'] := by decide
example : jsonUnquote ['\\', '\''] = none := by decide
example : jsonUnquote ['"'] = none := by decide
example : jsonUnquote ['\\', 'u', '1', '2'] = none := by decide
example : jsonUnquote ['\\'] = none := by decide
example : jsonUnquote ['\n'] = none := by decide
example : unescapeSingle ['\\', '\''] = some ['\''] := by decide
example : unescapeSingle ['"'] = some ['"'] := by decide
example : unescapeSingle ['\\', '"'] = some ['"'] := by decide     -- `\"` inside '…' (grammar rejects it)
example : unescapeSingle ['\\', 'u', 'd', '8', '3', 'd', '\\', 'u', 'd', 'e', '0', '0'] = some ['😀'] := by decide
example : unescapeBackslash ['a', '\\', '.', 'b', '\\', '\\', 'c', '\\'] = ['a', '.', 'b', '\\', 'c', '\\'] := by decide

/-! ### 11 the selected member is exactly the member with that key -/

theorem lookup_of_mem (k : String) (v : Val) :
    ∀ (kvs : List (String × Val)), (k, v) ∈ kvs → (kvs.map (·.1)).Nodup → Val.lookup k kvs = some v := by
  intro kvs
  induction kvs with
  | nil => intro h; cases h
  | cons kv rest ih =>
    intro hmem hnd
    obtain ⟨k', v'⟩ := kv
    simp only [List.map_cons, List.nodup_cons] at hnd
    rw [Val.lookup]
    rcases List.mem_cons.mp hmem with h | h
    · cases h; simp
    · have hne : k ≠ k' := by
        intro e; subst e
        exact hnd.1 (List.mem_map.mpr ⟨(k, v), h, rfl⟩)
      simp [hne, ih h hnd.2]

/-- On an object whose keys are distinct (every Go map), the child step for key `k` returns exactly
    the value stored under `k` and nothing else — whatever the other keys look like (escaped forms
    of `k`, prefixes, …), at whatever node the step is applied (`root` is arbitrary: root position,
    after `..`, inside a filter). -/
theorem C16_exact (env : Env) (t k : String) (kvs : List (String × Val)) (v root : Val)
    (hmem : (k, v) ∈ kvs) (hnd : (kvs.map (·.1)).Nodup) :
    Spec.sel env (.child t k) root (.obj kvs) = [v] := by
  rw [Spec.sel, lookup_of_mem k v kvs hmem hnd]; rfl

/-- a key that is not in the object selects nothing -/
theorem C16_absent (env : Env) (t k : String) (kvs : List (String × Val)) (root : Val)
    (h : ∀ kv ∈ kvs, kv.1 ≠ k) : Spec.sel env (.child t k) root (.obj kvs) = [] := by
  have : Val.lookup k kvs = none := by
    induction kvs with
    | nil => rfl
    | cons kv rest ih =>
      obtain ⟨k', v'⟩ := kv
      rw [Val.lookup]
      have hne : k ≠ k' := fun e => h (k', v') (by simp) e.symm
      simp [hne, ih (fun kv hkv => h kv (by simp [hkv]))]
  rw [Spec.sel, this]; rfl

example : Spec.sel ⟨fun _ => none, fun _ => none, fun _ _ => false⟩ (.child "['a\\'b']" "a'b") .null
    (.obj [("a", .num 1), ("a'b", .num 2), ("a\\'b", .num 3)]) = [.num 2] :=
  C16_exact _ _ _ _ _ _ (by simp) (by decide)

/-! ### 12 the same, for the definitions regenerated from /repo (tie T1) -/

/-- The regenerated `unescapeSingleQuotedString` (prefix, loop body, suffix as the translator read
    them from jsonpath_parser.go, then `json.Unmarshal` into a string) gives back `k` on `EscSingle k`. -/
theorem C16_gen_single_roundtrip (k : List Char) :
    jsonUnmarshalQuoted (genSingleJsonInput (escSingle k)) = some k := by
  rw [gen_unescapeSingle]; exact C16_single_roundtrip k

/-- The regenerated `unescapeDoubleQuotedString` gives back `k` on `EscDouble k`. -/
theorem C16_gen_double_roundtrip (k : List Char) :
    jsonUnmarshalQuoted (genDoubleJsonInput (escDouble k)) = some k := by
  rw [gen_unescapeDouble]; exact C16_double_roundtrip k

/-- `unescape` is: replace every match of the regular expression `\\(.)` by its first submatch —
    what `unescapeBackslash` models; `_unescapeJSONString` unmarshals into a `string` — what
    `jsonUnquote` models; and the regenerated loop body treats bytes ≥ 0x80 (UTF-8 bytes of
    non-ASCII characters) as ordinary bytes — what makes the model on code points faithful. -/
theorem C16_gen_routines :
    (Gen.EscapeGo.unescapeRegexSrc = ['\\', '\\', '(', '.', ')'].map Char.toNat ∧ Gen.EscapeGo.unescapeSubmatch = 1) ∧
    Gen.EscapeGo.jsonTarget = ['s', 't', 'r', 'i', 'n', 'g'].map Char.toNat ∧
    (∀ flag b, 128 ≤ b → Gen.EscapeGo.singleStep flag b = (if flag then [92, b] else [b], false)) :=
  ⟨gen_unescape_regex, gen_json_target, gen_singleStep_high⟩

open JPV.Peg in
/-- The regenerated grammar rule `singleQuotedNodeIdentifier`, run by the PEG interpreter on ANY
    input that contains `'EscSingle k'` at ANY position, matches exactly that text, captures exactly
    `EscSingle k` and ends in action 13. -/
theorem C16_gen_accepted_single (k pre post : List Char) (fuel : Nat) (hf : k.length + 17 ≤ fuel) :
    run Gen.grammar fuel (ruleBody Gen.grammar "singleQuotedNodeIdentifier")
        (pre ++ ('\'' :: (escSingle k ++ '\'' :: post))).toArray pre.length
      = .ok (pre.length + 1 + (escSingle k).length + 1)
          [.text (pre.length + 1) (pre.length + 1 + (escSingle k).length), .action 13] := by
  rw [single_rule_body]; exact gen_single_rule_accepts k pre post fuel hf

open JPV.Peg in
theorem C16_gen_accepted_double (k pre post : List Char) (fuel : Nat) (hf : k.length + 17 ≤ fuel) :
    run Gen.grammar fuel (ruleBody Gen.grammar "doubleQuotedNodeIdentifier")
        (pre ++ ('"' :: (escDouble k ++ '"' :: post))).toArray pre.length
      = .ok (pre.length + 1 + (escDouble k).length + 1)
          [.text (pre.length + 1) (pre.length + 1 + (escDouble k).length), .action 14] := by
  rw [double_rule_body]; exact gen_double_rule_accepts k pre post fuel hf

open JPV.Peg in
/-- The regenerated rule `dotChildIdentifier` matches exactly `EscDot k` (non-empty key without
    control characters) at any position, if what follows ends a name (`DotStops`: end of input, an
    unescaped symbol other than a backslash, a control character) and is not `()`. -/
theorem C16_gen_accepted_dot (k pre post : List Char) (hne : k ≠ []) (h : ∀ c ∈ k, ¬ isControl c)
    (hpost : DotStops post) (hfn : ['(', ')'].isPrefixOf post = false) (fuel : Nat) (hf : k.length + 17 ≤ fuel) :
    run Gen.grammar fuel (ruleBody Gen.grammar "dotChildIdentifier") (pre ++ (escDot k ++ post)).toArray pre.length
      = .ok (pre.length + (escDot k).length)
          [.text pre.length (pre.length + (escDot k).length), .action 10] := by
  rw [dot_rule_body]
  exact gen_dot_rule_accepts k pre post hne (fun c hc => by simpa using h c hc) hpost hfn fuel hf

/-- The three actions hand the captured text to the three routines. -/
theorem C16_gen_actions :
    Gen.actions[10]? = some "\n        p.pushChildSingleIdentifier(p.unescape(text))\n    " ∧
    Gen.actions[13]? = some "\n        p.pushChildSingleIdentifier(p.unescapeSingleQuotedString(text))\n    " ∧
    Gen.actions[14]? = some "\n        p.pushChildSingleIdentifier(p.unescapeDoubleQuotedString(text))\n    " :=
  ⟨action10_text, action13_text, action14_text⟩

-- `$.a\.b.c`: the name `a.b` is followed by `.c`
example : DotStops ['.', 'c'] := Or.inr ⟨'.', ['c'], rfl, by decide, Or.inl (by decide)⟩
example : DotStops [] := Or.inl rfl

open JPV.Peg in
-- the hypotheses are satisfiable: `$.a\.b.c` from position 2, `$..['it\'s']` from position 4
example : run Gen.grammar 20 (ruleBody Gen.grammar "dotChildIdentifier")
      (['$', '.'] ++ (escDot ['a', '.', 'b'] ++ ['.', 'c'])).toArray 2
    = .ok (2 + (escDot ['a', '.', 'b']).length) [.text 2 (2 + (escDot ['a', '.', 'b']).length), .action 10] :=
  C16_gen_accepted_dot ['a', '.', 'b'] ['$', '.'] ['.', 'c'] (by decide) (by decide)
    (Or.inr ⟨'.', ['c'], rfl, by decide, Or.inl (by decide)⟩) (by decide) 20 (by decide)

open JPV.Peg in
example : run Gen.grammar 30 (ruleBody Gen.grammar "singleQuotedNodeIdentifier")
      (['$', '.', '.', '['] ++ ('\'' :: (escSingle ['i', 't', '\'', 's'] ++ '\'' :: [']']))).toArray 4
    = .ok (4 + 1 + (escSingle ['i', 't', '\'', 's']).length + 1)
        [.text 5 (4 + 1 + (escSingle ['i', 't', '\'', 's']).length), .action 13] :=
  C16_gen_accepted_single ['i', 't', '\'', 's'] ['$', '.', '.', '['] [']'] 30 (by decide)

/-! ### String-level corollaries (what the drivers and the harness use) -/

theorem C16_single_roundtripS (k : String) : unescapeSingleS (escSingleS k) = some k := by
  simp [unescapeSingleS, escSingleS, C16_single_roundtrip]

theorem C16_double_roundtripS (k : String) : unescapeDoubleS (escDoubleS k) = some k := by
  simp [unescapeDoubleS, escDoubleS, C16_double_roundtrip]

theorem C16_dot_roundtripS (k : String) (hne : k.toList ≠ []) (h : ∀ c ∈ k.toList, ¬ isControl c) :
    unescapeBackslashS (escDotS k) = k := by
  simp [unescapeBackslashS, escDotS, C16_dot_roundtrip k.toList hne h]

/-- end to end for the bracket spellings: render `k`, let the parser routine decode it, select with
    the decoded name — exactly the member `k` comes back. -/
theorem C16_member_addressable (env : Env) (t k : String) (kvs : List (String × Val)) (v root : Val)
    (hmem : (k, v) ∈ kvs) (hnd : (kvs.map (·.1)).Nodup) :
    (∀ key, unescapeSingleS (escSingleS k) = some key → Spec.sel env (.child t key) root (.obj kvs) = [v]) ∧
    (∀ key, unescapeDoubleS (escDoubleS k) = some key → Spec.sel env (.child t key) root (.obj kvs) = [v]) := by
  constructor
  · intro key hk
    rw [C16_single_roundtripS] at hk; cases hk
    exact C16_exact env t k kvs v root hmem hnd
  · intro key hk
    rw [C16_double_roundtripS] at hk; cases hk
    exact C16_exact env t k kvs v root hmem hnd

end JPV.Props.C16

-- OBLIGATIONS: C16_single_roundtrip C16_double_roundtrip C16_dot_roundtrip C16_dot_roundtrip_no_newline
--   C16_accepted_single C16_accepted_double C16_accepted_dot C16_dot_only_spellable
--   C16_escSingle_injective C16_escDouble_injective C16_escDot_injective C16_distinct_keys
--   C16_spellings_agree C16_quoted_spellings_agree C16_jsonUnquote_plain C16_unescapeSingle_plain
--   C16_unescapeBackslash_plain C16_jsonUnquote_rejects C16_exact C16_absent
--   C16_single_roundtripS C16_double_roundtripS C16_dot_roundtripS C16_member_addressable
--   C16_gen_single_roundtrip C16_gen_double_roundtrip C16_gen_routines
--   C16_gen_accepted_single C16_gen_accepted_double C16_gen_accepted_dot C16_gen_actions
