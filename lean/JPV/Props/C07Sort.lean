/-
C07 — sorted traversal.

Members of an object are visited in ascending key order; the order never depends on Go's
randomised map iteration or on how the map was built.

`Impl.sortKV` (JPV/Impl/Retrieve.lean) models `getSortedKeys` followed by the lookups: it is what
every object traversal of the evaluator (`.*`, `[*]`, filters, `..`) iterates over. An object is
an association list; the order of that list stands for whatever order Go's map iteration produced.
String order is Lean's `<` on `String` (lexicographic by code point, which for valid UTF-8 is
Go's byte-wise `<` — DESIGN §7 C07, assumption).
-/
import JPV.Lemmas.SortKV
namespace JPV
namespace C07
open Impl SortKVL

/-- the entries come out in ascending key order … -/
theorem sortKV_sorted (kvs : List (String × Val)) :
    List.Pairwise (fun a b : String × Val => a.1 ≤ b.1) (sortKV kvs) :=
  SortKVL.sortKV_sorted kvs

/-- … strictly ascending when the keys are pairwise distinct (always the case for a Go map) -/
theorem sortKV_sorted_strict (kvs : List (String × Val)) (hnd : (kvs.map (·.1)).Nodup) :
    List.Pairwise (fun a b : String × Val => a.1 < b.1) (sortKV kvs) :=
  SortKVL.sortKV_strict kvs hnd

/-- nothing is lost or invented: the result is a rearrangement of the entries -/
theorem sortKV_perm (kvs : List (String × Val)) : (sortKV kvs).Perm kvs :=
  SortKVL.sortKV_perm kvs

/-- **C07_order_independent**: whatever order the map iteration produced, the traversal order is
    the same -/
theorem C07_order_independent (kvs kvs' : List (String × Val)) (hp : kvs.Perm kvs')
    (hnd : (kvs.map (·.1)).Nodup) : sortKV kvs = sortKV kvs' := by
  have hnd' : (kvs'.map (·.1)).Nodup := (hp.map _).nodup_iff.mp hnd
  exact eq_of_perm_of_strict _ _
    (((SortKVL.sortKV_perm kvs).trans hp).trans (SortKVL.sortKV_perm kvs').symm)
    (sortKV_strict kvs hnd) (sortKV_strict kvs' hnd')

/-- so the values are visited in the same order -/
theorem C07_members_order_independent (kvs kvs' : List (String × Val)) (hp : kvs.Perm kvs')
    (hnd : (kvs.map (·.1)).Nodup) : (sortKV kvs).map (·.2) = (sortKV kvs').map (·.2) := by
  rw [C07_order_independent kvs kvs' hp hnd]

/-- the traversal order is the canonical form of the object (`Val.keysAsc`, the form in which the
    specification lists the entries of an object) -/
theorem C07_canonical (kvs : List (String × Val)) (hnd : (kvs.map (·.1)).Nodup) :
    Val.keysAsc ((sortKV kvs).map (·.1)) = true :=
  sortKV_keysAsc kvs hnd

/-- however the map was built: every listing of the entries of a canonical object is traversed in
    the canonical order -/
theorem C07_any_listing (kvs kvs' : List (String × Val)) (hc : Val.keysAsc (kvs.map (·.1)) = true)
    (hp : kvs'.Perm kvs) : sortKV kvs' = kvs := by
  have hnd : (kvs.map (·.1)).Nodup :=
    (pairwise_of_keysAsc _ hc).imp (fun h => String.ne_of_lt h)
  rw [← C07_order_independent kvs kvs' hp.symm hnd]
  exact ValWf.sortKV_of_keysAsc kvs hc

/-- sorting twice changes nothing -/
theorem C07_idempotent (kvs : List (String × Val)) (hnd : (kvs.map (·.1)).Nodup) :
    sortKV (sortKV kvs) = sortKV kvs :=
  ValWf.sortKV_of_keysAsc _ (C07_canonical kvs hnd)

/-- distinct keys are needed: with a repeated key (impossible in a Go map) the listing order shows -/
example : sortKV [("a", .num 1), ("a", .num 2)] ≠ sortKV [("a", .num 2), ("a", .num 1)] := by
  simp [sortKV, insertKV]

/-- hypotheses satisfiable; keys that order differently by length and by code point -/
example : ([("b", Val.num 1), ("aa", .num 2), ("B", .num 3), ("a", .num 4)].map (·.1)).Nodup := by decide
example : sortKV [("b", Val.num 1), ("aa", .num 2), ("B", .num 3), ("a", .num 4)] =
    sortKV [("a", .num 4), ("B", .num 3), ("aa", .num 2), ("b", Val.num 1)] :=
  C07_order_independent _ _ (List.reverse_perm _).symm (by decide)
example : sortKV [("b", Val.num 1), ("aa", .num 2), ("B", .num 3), ("a", .num 4)] =
    [("B", .num 3), ("a", .num 4), ("aa", .num 2), ("b", .num 1)] := by rfl

end C07
end JPV
-- OBLIGATIONS: JPV.C07.sortKV_sorted JPV.C07.sortKV_sorted_strict JPV.C07.sortKV_perm JPV.C07.C07_order_independent JPV.C07.C07_members_order_independent JPV.C07.C07_canonical JPV.C07.C07_any_listing JPV.C07.C07_idempotent
