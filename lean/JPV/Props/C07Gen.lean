/-
C07 (tie T1) — `getSortedKeys` as regenerated from cache.go on every run (Gen/SortKeys.lean)
returns the keys in the order `Impl.sortKV` lists the entries: whatever order Go's randomised
`range` over the map yields, and whatever slice the pool hands out. It never panics.

This is what makes `Impl.sortKV` (and with it `C07Sort`) a statement about the code: the
evaluator's object traversals (`.*`, `[*]`, filters, `..`) iterate over `getSortedKeys(srcMap)`
and look each key up in `srcMap`.
-/
import JPV.Lemmas.SortKeysGo
import JPV.Props.C07Sort
namespace JPV
namespace C07
open Impl SortRt SortKeysGo

/-- the regenerated function sorts: for every iteration order and pool state -/
theorem getSortedKeys_sorts (iter pool : List String) :
    Gen.SortKeys.getSortedKeys iter pool = some (goSort iter) :=
  getSortedKeys_eq iter pool

/-- **C07_getSortedKeys**: for a map with entries `kvs` (distinct keys), every order `iter` in
    which `range` may yield its keys and every pool slice, `getSortedKeys` returns exactly the key
    sequence of `Impl.sortKV kvs` — ascending, independent of `iter` and `pool` -/
theorem C07_getSortedKeys (kvs : List (String × Val)) (hnd : (kvs.map (·.1)).Nodup)
    (iter : List String) (hp : iter.Perm (kvs.map (·.1))) (pool : List String) :
    Gen.SortKeys.getSortedKeys iter pool = some ((sortKV kvs).map (·.1)) := by
  rw [getSortedKeys_eq, sortKV_keys]
  exact congrArg some (goSort_perm_invariant _ _ hp (hp.nodup_iff.mpr hnd))

/-- hence ascending (strictly), by `C07Sort` -/
theorem C07_getSortedKeys_ascending (kvs : List (String × Val)) (hnd : (kvs.map (·.1)).Nodup)
    (iter : List String) (hp : iter.Perm (kvs.map (·.1))) (pool : List String) :
    ∃ ks, Gen.SortKeys.getSortedKeys iter pool = some ks ∧ Val.keysAsc ks = true ∧ ks.Perm iter :=
  ⟨_, C07_getSortedKeys kvs hnd iter hp pool, C07_canonical kvs hnd,
    ((sortKV_perm kvs).map _).trans hp.symm⟩

/-- hypotheses satisfiable: three keys yielded in a non-sorted order, a dirty pool slice that is too short -/
example : Gen.SortKeys.getSortedKeys ["b", "aa", "B"] ["zzz"] = some ["B", "aa", "b"] := by rfl
example : (([("B", Val.null), ("aa", .num 1), ("b", .null)] : List (String × Val)).map (·.1)).Nodup := by decide
example : ["b", "aa", "B"].Perm (([("B", Val.null), ("aa", .num 1), ("b", .null)] : List (String × Val)).map (·.1)) := by decide

end C07
end JPV
-- OBLIGATIONS: JPV.C07.getSortedKeys_sorts JPV.C07.C07_getSortedKeys JPV.C07.C07_getSortedKeys_ascending
