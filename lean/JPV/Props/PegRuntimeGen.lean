import JPV.Gen.PegRuntimeGo
/-!
# The runtime of jsonpath.peg.go around the rule table — theorems about the REGENERATED code

`Gen/PegRuntimeGo.lean` (generator `pegruntime`) holds the bodies of `tokens32.Add/Trim/Tokens` and of the closures
`reset`, `add`, `memoize`, `memoizedResult`, `matchDot` of `Init`, translated statement by statement. This file
proves the local claims the header of `Gen/PegGoRules.lean` only STATED about them.

What is NOT here: the option loop of `Init` (still the trusted reading, DESIGN §12.7). `parse`/`Parse`/`Reset` are translated
since L30 (§6 below), and the composition — that the rule functions running on this runtime compute `Peg.run` — is
proved in Props/RunGoGen.lean and Props/RunGoParse.lean. The lookup `memoization[memoKey{N,
position}]` at the head of every rule function belongs to the rule-function template checked by `pegrules`; it is
`lookup s.memo (N, s.position)` here, a pure function of the table: a MISS therefore changes nothing by construction,
and after `reset` every lookup misses (`PR_reset`).

Sensitivity trials (2026-09-27, scratch worktree of /repo with one edit in jsonpath.peg.go, generator `pegruntime`
run with `-repo <worktree>`, then this file compiled against the regenerated `Gen/PegRuntimeGo.lean`; in every trial
`pegrules` refused as well, because of its textual pin):
  T1  memoizedResult: `position = m.Partial[0].end` (FIRST token)      translates; PR_memoizedResult_true fails
  T2  add: `tokenIndex++` removed                                      translates; PR_add_eq fails (+ example)
  T3  memoize stores `Partial: t` (the re-slice, no copy)              generator refuses: jsonpath.peg.go:823 "the
                                                                       re-slice t is used other than as the source of make+copy"
  T4  reset: `memoization = make(…)` removed                           translates; PR_reset fails
  T5  memoize: `tree.tree[tokenIndexStart+1:tokenIndex]`               translates; PR_memoize_true fails (+ round-trip example)
  T6  matchDot: `!=` → `==`                                            translates; PR_matchDot fails (+ both examples)
  T7  add: `tree.Add(rule, begin, begin, tokenIndex)`                  translates; PR_add_eq fails
  T8  tokens32.Add: `i >= len(tree)` → `i > len(tree)`                 translates; PR_tokens32_Add fails (+ append example)
  T9  memoizedResult: `append(tree.tree, m.Partial...)` (tail kept)    translates; PR_memoizedResult_true fails
  T10 local `tokenCopy` renamed (harmless)                             translates; everything still proves
In T1, T5, T7, T9 some FRAME theorems (`PR_memo_frame_*`, `PR_memoize_only_memo`) also stop compiling although their
statements stay true: their proof scripts follow the shape of the generated term.
-/
namespace JPV
namespace PegRuntimeGen
open JPV.Peg.Runtime JPV.Gen.PegRuntime

/-! ## 0. Arithmetic and list helpers -/

theorem u32_of_lt {n : Nat} (h : n < 4294967296) : u32 n = n := Nat.mod_eq_of_lt h

theorem u32i_of_lt {n : Nat} (h : n < 4294967296) : u32i (n : Int) = n := by
  unfold u32i
  have : ((n : Int) % 4294967296) = n := Int.emod_eq_of_lt (by omega) (by omega)
  rw [this]; simp

theorem u32sub_one {a : Nat} (h1 : 1 ≤ a) (h2 : a < 4294967296) : u32sub a 1 = a - 1 := by
  unfold u32sub; omega

theorem getAtI_last {α} (l : List α) (h : l ≠ []) : getAtI l ((l.length : Int) - 1) = some (l.getLast h) := by
  have hl : 0 < l.length := List.length_pos_iff.mpr h
  unfold getAtI
  have h1 : ¬ ((l.length : Int) - 1 < 0) := by omega
  have h2 : ((l.length : Int) - 1).toNat = l.length - 1 := by omega
  rw [if_neg h1, h2, List.getLast_eq_getElem]
  exact List.getElem?_eq_getElem (by omega)

/-- the invariant of the token buffer: never a gap -/
def Inv (s : RT) : Prop := s.tokenIndex ≤ s.tree.length

instance (s : RT) : Decidable (Inv s) := by unfold Inv; infer_instance

/-! ## 1. tokens32 -/

/-- `Add` writes the token at `index`: append when `index = len`, overwrite when `index < len`; one formula for both -/
theorem PR_tokens32_Add (r b e i : Nat) (t : List Tok) (h : i ≤ t.length) :
    tokens32_Add r b e i t = some (t.take i ++ [⟨r, b, e⟩] ++ t.drop (i + 1)) := by
  unfold tokens32_Add
  by_cases hi : i = t.length
  · subst hi; simp
  · have hlt : i < t.length := by omega
    have h1 : ¬ ((i : Int) ≥ (t.length : Int)) := by omega
    have h2 : ¬ ((i : Int) < 0) := by omega
    simp only [decide_eq_true_eq, if_neg h1, setAtI, if_neg h2, Int.toNat_natCast, if_pos hlt, Option.bind_some]
    rw [List.set_eq_take_append_cons_drop, if_pos hlt]
    simp

example : tokens32_Add 7 1 2 1 [⟨3, 0, 1⟩] = some [⟨3, 0, 1⟩, ⟨7, 1, 2⟩] := by decide +kernel
example : tokens32_Add 7 1 2 0 [⟨3, 0, 1⟩, ⟨4, 0, 1⟩] = some [⟨7, 1, 2⟩, ⟨4, 0, 1⟩] := by decide +kernel
/-- beyond the end `Add` appends all the same (a gap cannot arise, but the index is then not `index`) -/
example : tokens32_Add 7 1 2 5 [⟨3, 0, 1⟩] = some [⟨3, 0, 1⟩, ⟨7, 1, 2⟩] := by decide +kernel

theorem PR_trim (n : Nat) (t : List Tok) (h : n ≤ t.length) : tokens32_Trim n t = some (t.take n) := by
  simp [tokens32_Trim, sliceTo, h]

example : tokens32_Trim 1 [⟨3, 0, 1⟩, ⟨4, 0, 1⟩] = some [⟨3, 0, 1⟩] := by decide +kernel

theorem PR_tokens (t : List Tok) : tokens32_Tokens t = some (t, t) := rfl

/-! ## 2. add -/

/-- `add(rule, begin)`: the token (rule, begin, position) lands at index tokenIndex, tokenIndex is incremented,
nothing else changes except `max` (the error position). -/
theorem PR_add_eq (r b : Nat) (s : RT) (h : Inv s) (hb : s.tokenIndex + 1 < 4294967296) :
    ∃ mx, add r b s = some { s with
      tree := s.tree.take s.tokenIndex ++ [⟨r, b, s.position⟩] ++ s.tree.drop (s.tokenIndex + 1),
      tokenIndex := s.tokenIndex + 1, max := mx } := by
  unfold add
  rw [PR_tokens32_Add _ _ _ _ _ h]
  simp only [Option.bind_some, u32_of_lt hb]
  split <;> exact ⟨_, rfl⟩

theorem PR_add (r b : Nat) (s : RT) (h : Inv s) (hb : s.tokenIndex + 1 < 4294967296) :
    ∃ s', add r b s = some s' ∧
      s'.tree[s.tokenIndex]? = some ⟨r, b, s.position⟩ ∧
      (∀ j, j < s.tokenIndex → s'.tree[j]? = s.tree[j]?) ∧
      (∀ j, s.tokenIndex < j → s'.tree[j]? = s.tree[j]?) ∧
      s'.tokenIndex = s.tokenIndex + 1 ∧ Inv s' ∧
      s'.position = s.position ∧ s'.memo = s.memo ∧ s'.buffer = s.buffer := by
  obtain ⟨mx, he⟩ := PR_add_eq r b s h hb
  refine ⟨_, he, ?_, ?_, ?_, rfl, ?_, rfl, rfl, rfl⟩
  · have : (List.take s.tokenIndex s.tree).length = s.tokenIndex := by
      rw [List.length_take]; exact Nat.min_eq_left h
    simp [this]
  · intro j hj
    have hl : (List.take s.tokenIndex s.tree).length = s.tokenIndex := by
      rw [List.length_take]; exact Nat.min_eq_left h
    simp only [List.append_assoc]
    rw [List.getElem?_append_left (by omega), List.getElem?_take_of_lt hj]
  · intro j hj
    have hl : (List.take s.tokenIndex s.tree).length = s.tokenIndex := by
      rw [List.length_take]; exact Nat.min_eq_left h
    simp only [List.append_assoc]
    rw [List.getElem?_append_right (by omega), hl, List.getElem?_append_right (by simp; omega)]
    simp only [List.length_singleton, List.getElem?_drop]
    congr 1; omega
  · unfold Inv at *
    simp only [List.length_append, List.length_take, List.length_drop, List.length_singleton]
    omega

/-- a state satisfying the hypotheses, overwrite case -/
def ex1 : RT where
  Buffer := [36]
  pbuffer := [36, 1114112]
  buffer := [36, 1114112]
  position := 1
  tokenIndex := 1
  tree := [⟨3, 0, 1⟩, ⟨9, 0, 0⟩]
  memo := []
  max := ⟨0, 0, 0⟩
  disableMemoize := false
example : Inv ex1 ∧ ex1.tokenIndex + 1 < 4294967296 := by decide +kernel
example : (add 5 0 ex1).map (fun s => (s.tree, s.tokenIndex)) = some ([⟨3, 0, 1⟩, ⟨5, 0, 1⟩], 2) := by decide +kernel

/-! ## 3. memoize / memoizedResult -/

theorem PR_lookup_store_same (m : List (Key × Memo)) (k : Key) (v : Memo) : lookup (store m k v) k = some v := by
  simp [store, lookup]

theorem PR_lookup_store_other (m : List (Key × Memo)) (k k' : Key) (v : Memo) (h : k' ≠ k) :
    lookup (store m k v) k' = lookup m k' := by
  simp [store, lookup, Ne.symm h]

/-- the token segment `tree[start : tokenIndex]` -/
def segment (s : RT) (start : Nat) : List Tok := (s.tree.take s.tokenIndex).drop start

theorem PR_memoize_true (r b st : Nat) (s : RT) (hd : s.disableMemoize = false) (h1 : st ≤ s.tokenIndex) (h : Inv s) :
    memoize r b st true s = some { s with memo := store s.memo (r, b) ⟨true, segment s st⟩ } := by
  unfold memoize
  have : st ≤ s.tokenIndex ∧ s.tokenIndex ≤ s.tree.length := ⟨h1, h⟩
  simp [hd, slice, this, segment]

theorem PR_memoize_false (r b st : Nat) (s : RT) (hd : s.disableMemoize = false) :
    memoize r b st false s = some { s with memo := store s.memo (r, b) ⟨false, []⟩ } := by
  unfold memoize
  simp [hd]

theorem PR_memoize_disabled (r b st : Nat) (m : Bool) (s : RT) (hd : s.disableMemoize = true) :
    memoize r b st m s = some s := by
  unfold memoize
  simp [hd]

/-- replaying a stored failure: reports `false`, the state is unchanged -/
theorem PR_memoizedResult_false (seg : List Tok) (s : RT) : memoizedResult ⟨false, seg⟩ s = some (false, s) := by
  simp [memoizedResult]

/-- replaying a stored success with a non-empty segment, in any state satisfying the invariant -/
theorem PR_memoizedResult_true (seg : List Tok) (hne : seg ≠ []) (s : RT) (h : Inv s)
    (hb : s.tokenIndex + seg.length < 4294967296) :
    ∃ mx, memoizedResult ⟨true, seg⟩ s = some (true, { s with
      tree := s.tree.take s.tokenIndex ++ seg,
      tokenIndex := s.tokenIndex + seg.length,
      position := (seg.getLast hne).e, max := mx }) := by
  have hl : 0 < seg.length := List.length_pos_iff.mpr hne
  have hlen : (List.take s.tokenIndex s.tree).length = s.tokenIndex := by
    rw [List.length_take]; exact Nat.min_eq_left h
  have hget : getAt (List.take s.tokenIndex s.tree ++ seg) (s.tokenIndex + seg.length - 1) = some (seg.getLast hne) := by
    unfold getAt
    rw [List.getElem?_append_right (by omega), hlen, List.getLast_eq_getElem]
    have : s.tokenIndex + seg.length - 1 - s.tokenIndex = seg.length - 1 := by omega
    rw [this]; exact List.getElem?_eq_getElem (by omega)
  unfold memoizedResult
  simp only [Bool.not_true, Bool.false_eq_true, if_false, sliceTo, if_pos (show s.tokenIndex ≤ s.tree.length from h), Option.bind_some,
    u32i_of_lt (show seg.length < 4294967296 by omega), u32_of_lt hb, getAtI_last seg hne,
    u32sub_one (show 1 ≤ s.tokenIndex + seg.length by omega) hb, hget]
  split <;> exact ⟨_, rfl⟩

theorem segment_ne_nil (s : RT) (st : Nat) (h1 : st < s.tokenIndex) (h : Inv s) : segment s st ≠ [] := by
  intro hn
  have : (segment s st).length = 0 := by rw [hn]; rfl
  unfold segment Inv at *
  simp only [List.length_drop, List.length_take] at this
  omega

/-- the last token of the stored segment is the token at index tokenIndex − 1 -/
theorem segment_last (s : RT) (st : Nat) (h1 : st < s.tokenIndex) (h : Inv s) :
    (segment s st).getLast? = s.tree[s.tokenIndex - 1]? := by
  unfold segment Inv at *
  rw [List.getLast?_drop, List.getLast?_take]
  have h3 : ¬ ((List.take s.tokenIndex s.tree).length ≤ st) := by
    rw [List.length_take]; omega
  have h4 : s.tokenIndex ≠ 0 := by omega
  simp only [if_neg h3, if_neg h4]
  have : s.tokenIndex - 1 < s.tree.length := by omega
  rw [List.getElem?_eq_getElem this]; rfl

/-- ROUND TRIP, success: after `memoize(rule, begin, start, true)` in s, in ANY later state s' whose table still
answers the key as s1 does, the lookup hits and `memoizedResult` puts exactly the stored segment at
`tree[tokenIndex ..]`, advances tokenIndex by its length and sets position to the end of its LAST token. -/
theorem PR_memo_roundtrip_true (r b st : Nat) (s : RT) (hd : s.disableMemoize = false) (h1 : st < s.tokenIndex) (h : Inv s) :
    ∃ s1, memoize r b st true s = some s1 ∧
      s1.tree = s.tree ∧ s1.tokenIndex = s.tokenIndex ∧ s1.position = s.position ∧ s1.buffer = s.buffer ∧
      ∀ s' : RT, lookup s'.memo (r, b) = lookup s1.memo (r, b) → Inv s' →
        s'.tokenIndex + (segment s st).length < 4294967296 →
        ∃ m mx, lookup s'.memo (r, b) = some m ∧
          memoizedResult m s' = some (true, { s' with
            tree := s'.tree.take s'.tokenIndex ++ segment s st,
            tokenIndex := s'.tokenIndex + (segment s st).length,
            position := ((segment s st).getLast (segment_ne_nil s st h1 h)).e, max := mx }) := by
  refine ⟨_, PR_memoize_true r b st s hd (by omega) h, rfl, rfl, rfl, rfl, ?_⟩
  intro s' hl hi hb
  obtain ⟨mx, hm⟩ := PR_memoizedResult_true (segment s st) (segment_ne_nil s st h1 h) s' hi hb
  refine ⟨⟨true, segment s st⟩, mx, ?_, hm⟩
  rw [hl]; exact PR_lookup_store_same _ _ _

/-- ROUND TRIP, failure: a stored failure is reported as (hit, false) and the state is unchanged. -/
theorem PR_memo_roundtrip_false (r b st : Nat) (s : RT) (hd : s.disableMemoize = false) :
    ∃ s1, memoize r b st false s = some s1 ∧
      s1.tree = s.tree ∧ s1.tokenIndex = s.tokenIndex ∧ s1.position = s.position ∧ s1.buffer = s.buffer ∧
      ∀ s' : RT, lookup s'.memo (r, b) = lookup s1.memo (r, b) →
        ∃ m, lookup s'.memo (r, b) = some m ∧ memoizedResult m s' = some (false, s') := by
  refine ⟨_, PR_memoize_false r b st s hd, rfl, rfl, rfl, rfl, ?_⟩
  intro s' hl
  refine ⟨⟨false, []⟩, ?_, PR_memoizedResult_false _ _⟩
  rw [hl]; exact PR_lookup_store_same _ _ _

/-- WHY THE LAST TOKEN: a rule function ends with `add(rule<Name>, …)` right before `memoize(…, true)` (template
checked by `pegrules`). Then the position a replay restores is the position at that `add` — the exit position. -/
theorem PR_add_memo_position (ra ba r b st : Nat) (s : RT) (hd : s.disableMemoize = false) (h0 : st ≤ s.tokenIndex)
    (h : Inv s) (hb : s.tokenIndex + 1 < 4294967296) :
    ∃ s1 s2, add ra ba s = some s1 ∧ memoize r b st true s1 = some s2 ∧
      ∃ hne : segment s1 st ≠ [], ((segment s1 st).getLast hne).e = s.position ∧
        lookup s2.memo (r, b) = some ⟨true, segment s1 st⟩ := by
  obtain ⟨s1, ha, hx, _, _, hti, hinv, _, _, _⟩ := PR_add ra ba s h hb
  have h1 : st < s1.tokenIndex := by omega
  refine ⟨s1, _, ha, PR_memoize_true r b st s1 (by
      obtain ⟨mx, he⟩ := PR_add_eq ra ba s h hb
      rw [he] at ha; cases ha; exact hd) (by omega) hinv, segment_ne_nil s1 st h1 hinv, ?_, PR_lookup_store_same _ _ _⟩
  have hl := segment_last s1 st h1 hinv
  have hidx : s1.tokenIndex - 1 = s.tokenIndex := by omega
  rw [hidx, hx, List.getLast?_eq_some_getLast (segment_ne_nil s1 st h1 hinv)] at hl
  have := Option.some.inj hl
  rw [this]

/-- hypotheses satisfiable: store the one token of ex2, replay it in a state with other tokens below -/
def ex2 : RT := { ex1 with tree := [⟨3, 0, 1⟩, ⟨5, 1, 4⟩], tokenIndex := 2, position := 4 }
example : ex2.disableMemoize = false ∧ 1 < ex2.tokenIndex ∧ Inv ex2 := by decide +kernel
example : ((memoize 5 1 1 true ex2).bind fun s1 =>
      (lookup s1.memo (5, 1)).bind fun m =>
      (memoizedResult m { s1 with tree := [⟨8, 0, 0⟩, ⟨8, 0, 0⟩, ⟨8, 0, 0⟩], tokenIndex := 1, position := 1 }).map
        fun (ok, s2) => (ok, s2.tree, s2.tokenIndex, s2.position))
    = some (true, [⟨8, 0, 0⟩, ⟨5, 1, 4⟩], 2, 4) := by decide +kernel
/-- a success stored with an EMPTY segment would make the replay panic (`m.Partial[len-1]`): the hypothesis
`start < tokenIndex` is needed, and `pegrules` checks that every rule function adds its own token last. -/
example : memoizedResult ⟨true, []⟩ ex2 = none := by decide +kernel

/-! ## 4. Frame -/

theorem PR_memo_frame_memoize (r b st : Nat) (mt : Bool) (s s1 : RT) (k' : Key) (hk : k' ≠ (r, b))
    (hm : memoize r b st mt s = some s1) : lookup s1.memo k' = lookup s.memo k' := by
  unfold memoize at hm
  cases hd : s.disableMemoize
  · cases mt
    · simp [hd] at hm; subst hm; exact PR_lookup_store_other _ _ _ _ hk
    · simp only [hd, Bool.false_eq_true, if_false, Bool.not_true] at hm
      cases hs : slice s.tree st s.tokenIndex with
      | none => simp [hs] at hm
      | some x => simp [hs] at hm; subst hm; exact PR_lookup_store_other _ _ _ _ hk
  · simp [hd] at hm; subst hm; rfl

/-- `memoize` changes nothing but the table -/
theorem PR_memoize_only_memo (r b st : Nat) (mt : Bool) (s s1 : RT) (hm : memoize r b st mt s = some s1) :
    s1.tree = s.tree ∧ s1.tokenIndex = s.tokenIndex ∧ s1.position = s.position ∧ s1.buffer = s.buffer ∧ s1.max = s.max := by
  unfold memoize at hm
  cases hd : s.disableMemoize
  · cases mt
    · simp [hd] at hm; subst hm; simp
    · simp only [hd, Bool.false_eq_true, if_false, Bool.not_true] at hm
      cases hs : slice s.tree st s.tokenIndex with
      | none => simp [hs] at hm
      | some x => simp [hs] at hm; subst hm; simp
  · simp [hd] at hm; subst hm; simp

theorem PR_memo_frame_add (r b : Nat) (s s1 : RT) (hm : add r b s = some s1) : s1.memo = s.memo ∧ s1.buffer = s.buffer := by
  unfold add at hm
  cases ht : tokens32_Add r b s.position s.tokenIndex s.tree with
  | none => simp [ht] at hm
  | some t =>
    simp only [ht, Option.bind_some] at hm
    split at hm <;> (cases hm; exact ⟨rfl, rfl⟩)

theorem PR_memo_frame_memoizedResult (m : Memo) (s s1 : RT) (ok : Bool) (hm : memoizedResult m s = some (ok, s1)) :
    s1.memo = s.memo ∧ s1.buffer = s.buffer := by
  unfold memoizedResult at hm
  split at hm
  · cases hm; exact ⟨rfl, rfl⟩
  · cases h1 : sliceTo s.tree s.tokenIndex with
    | none => simp [h1] at hm
    | some x1 =>
      simp only [h1, Option.bind_some] at hm
      cases h2 : getAtI m.partialToks ((m.partialToks.length : Int) - 1) with
      | none => simp [h2] at hm
      | some x2 =>
        simp only [h2, Option.bind_some] at hm
        generalize getAt (x1 ++ m.partialToks) _ = g at hm
        cases g with
        | none => simp at hm
        | some x3 =>
          simp only [Option.bind_some] at hm
          split at hm <;> (cases hm; exact ⟨rfl, rfl⟩)

theorem PR_memo_frame_matchDot (s s1 : RT) (ok : Bool) (hm : matchDot s = some (ok, s1)) :
    s1.memo = s.memo ∧ s1.buffer = s.buffer ∧ s1.tree = s.tree ∧ s1.tokenIndex = s.tokenIndex := by
  unfold matchDot at hm
  cases h1 : getAt s.buffer s.position with
  | none => simp [h1] at hm
  | some x1 =>
    simp only [h1, Option.bind_some] at hm
    split at hm <;> (cases hm; exact ⟨rfl, rfl, rfl, rfl⟩)

/-! ## 5. reset, matchDot -/

/-- after `reset`: empty table (every lookup misses), position = tokenIndex = 0, buffer = runes ++ [endSymbol].
The hypothesis holds for every `[]rune(string)`: a decoded rune is at most 0x10FFFF = 1114111. -/
theorem PR_reset (s : RT) (hr : ∀ r ∈ s.Buffer, r < 1114112) :
    ∃ s', reset s = some s' ∧ s'.memo = [] ∧ (∀ k, lookup s'.memo k = none) ∧ s'.position = 0 ∧ s'.tokenIndex = 0 ∧
      s'.buffer = s.Buffer ++ [endSymbol] ∧ s'.pbuffer = s'.buffer ∧ s'.tree = s.tree ∧ s'.Buffer = s.Buffer := by
  unfold reset
  by_cases hB : s.Buffer = []
  · simp [hB, lookup]
  · have hl : 0 < s.Buffer.length := List.length_pos_iff.mpr hB
    have hlast : s.Buffer.getLast hB ≠ endSymbol := by
      have := hr _ (List.getLast_mem hB)
      unfold endSymbol; omega
    simp [hB, getAtI_last s.Buffer hB, hlast, lookup]

example : ∀ r ∈ ex1.Buffer, r < 1114112 := by decide +kernel
example : (reset ex2).map (fun s => (s.buffer, s.position, s.tokenIndex, s.memo.length)) = some ([36, 1114112], 0, 0, 0) := by
  decide +kernel

/-- `matchDot` is `.`: it succeeds, advancing by one, exactly when the position is before the end symbol -/
theorem PR_matchDot (s : RT) (inp : List Nat) (hbuf : s.buffer = inp ++ [endSymbol]) (hr : ∀ r ∈ inp, r ≠ endSymbol)
    (hp : s.position ≤ inp.length) (hb : s.position + 1 < 4294967296) :
    matchDot s = some (if s.position < inp.length then (true, { s with position := s.position + 1 }) else (false, s)) := by
  unfold matchDot getAt
  by_cases hlt : s.position < inp.length
  · have : s.buffer[s.position]? = some inp[s.position] := by
      rw [hbuf, List.getElem?_append_left hlt]; exact List.getElem?_eq_getElem hlt
    have hne := hr _ (List.getElem_mem hlt)
    simp [this, hne, hlt, u32_of_lt hb]
  · have he : s.position = inp.length := by omega
    have : s.buffer[s.position]? = some endSymbol := by
      rw [hbuf, he]; simp
    simp [this, hlt]

example : (matchDot { ex1 with position := 0 }).map (fun (ok, s) => (ok, s.position)) = some (true, 1) := by decide +kernel
example : (matchDot ex1).map (fun (ok, s) => (ok, s.position)) = some (false, 1) := by decide +kernel

/-! ## 6. parse / Parse / Reset (translated since L30; `ruleFn r` stands for the call `p.rules[r]()`) -/

/-- `Parse()` without argument calls `p.rules[1]` (= ruleexpression); on success it publishes the token tree trimmed to
tokenIndex (`p.tokens32 = tree; p.Trim(tokenIndex)`) and returns nil; nothing else changes -/
theorem PR_parse_ok (ruleFn : Int → RT → Option (Bool × RT)) (s s1 : RT) (h : ruleFn 1 s = some (true, s1)) (hi : Inv s1) :
    parse ruleFn [] s = some (none, { s1 with ptree := s1.tree.take s1.tokenIndex }) := by
  unfold parse
  simp [h, tokens32_Trim, sliceTo, show s1.tokenIndex ≤ s1.tree.length from hi]

/-- on failure it returns `&parseError{p, max}` and publishes the untrimmed tree; nothing else changes -/
theorem PR_parse_fail (ruleFn : Int → RT → Option (Bool × RT)) (s s1 : RT) (h : ruleFn 1 s = some (false, s1)) :
    parse ruleFn [] s = some (some s1.max, { s1 with ptree := s1.tree }) := by
  unfold parse
  simp [h]

/-- a panic in the rule function (or a nil / out-of-range table entry) is a panic of `parse` -/
theorem PR_parse_panic (ruleFn : Int → RT → Option (Bool × RT)) (s : RT) (h : ruleFn 1 s = none) :
    parse ruleFn [] s = none := by
  unfold parse
  simp [h]

/-- with an argument, `parse` calls that table entry instead -/
theorem PR_parse_arg (ruleFn : Int → RT → Option (Bool × RT)) (r : Int) (rest : List Int) (s s1 : RT) (b : Bool)
    (h : ruleFn r s = some (b, s1)) (hi : Inv s1) :
    parse ruleFn (r :: rest) s = some (if b then (none, { s1 with ptree := s1.tree.take s1.tokenIndex })
      else (some s1.max, { s1 with ptree := s1.tree })) := by
  unfold parse
  cases b <;> simp [h, getAtI, tokens32_Trim, sliceTo, show s1.tokenIndex ≤ s1.tree.length from hi]

theorem PR_Parse (ruleFn : Int → RT → Option (Bool × RT)) (rule : List Int) (s : RT) : Parse ruleFn rule s = parse ruleFn rule s := rfl

theorem PR_Reset (s : RT) : Reset s = reset s := rfl

example : (parse (fun r s => if r = 1 then some (true, { s with tokenIndex := 1 }) else none) [] ex1).map
    (fun (e, s) => (e, s.ptree)) = some (none, [⟨3, 0, 1⟩]) := by decide +kernel
example : (parse (fun r s => if r = 1 then some (false, s) else none) [] ex1).map
    (fun (e, s) => (e, s.ptree)) = some (some ⟨0, 0, 0⟩, [⟨3, 0, 1⟩, ⟨9, 0, 0⟩]) := by decide +kernel

-- OBLIGATIONS: PR_tokens32_Add PR_trim PR_tokens PR_add_eq PR_add PR_lookup_store_same PR_lookup_store_other
--   PR_memoize_true PR_memoize_false PR_memoize_disabled PR_memoizedResult_false PR_memoizedResult_true
--   PR_memo_roundtrip_true PR_memo_roundtrip_false PR_add_memo_position PR_memo_frame_memoize
--   PR_memoize_only_memo PR_memo_frame_add PR_memo_frame_memoizedResult PR_memo_frame_matchDot PR_reset PR_matchDot
--   PR_parse_ok PR_parse_fail PR_parse_panic PR_parse_arg PR_Parse PR_Reset

end PegRuntimeGen
end JPV
