/-
Props/Facts/Returns — T2 tie for ONE extracted fact table (DESIGN §5.2).

`Gen.Facts.returns` (what `compute` / `validate` / `comparator` / `getIndexes` return),
regenerated from /repo on every run, is compared with the hand-maintained `Ties.Expect.returns`; the
readable tripwires that read this table only follow it. Gen/Facts.lean is one generated file holding all
eleven tables (it is data and always builds); what is separate per table is the COMPARISON, so a source
change that alters another table does not make this module fail.
`rfl` is the fast path (both sides unfold to the same literal); when the tables differ it fails and
`decide` reports that the equation is false.
(Split out of the former single module Props/Ties.lean; names, namespace and statements unchanged.)
-/
import JPV.Gen.Facts
import JPV.Ties.Expect
import JPV.Props.Facts.Col
namespace JPV
namespace Ties

theorem facts_returns : Gen.Facts.returns = Expect.returns := by first | rfl | decide

/-! Readable consequences, each checked directly on the regenerated table (so a harmless change of an
unrelated row does not disturb the statements). -/

/-- no `compute`, `validate`, `comparator` or `getIndexes` returns one of its own parameters — in particular
    a comparison never returns the list it was given (what f0c052a repaired) -/
theorem fact_no_method_returns_its_input :
    (Gen.Facts.returns.all fun r => col r 2 != "param") = true := by decide

/-- what a comparison's `compute` returns: the left operand's list, `emptyList`, `fullList`, `emptyList` -/
theorem fact_compare_query_returns :
    (Gen.Facts.returns.filter fun r => col r 0 == "syntaxBasicCompareQuery.compute").map (fun r => (col r 2, col r 3)) =
      [("local", "leftValues=call:compute"), ("pkgvar", "emptyList"), ("pkgvar", "fullList"), ("pkgvar", "emptyList")] := by
  decide

end Ties
end JPV

-- OBLIGATIONS: JPV.Ties.facts_returns JPV.Ties.fact_no_method_returns_its_input JPV.Ties.fact_compare_query_returns
