/-
Props/Facts/PkgVars — T2 tie for ONE extracted fact table (DESIGN §5.2).

`Gen.Facts.pkgVars` (the package-level variables with their initialisers),
regenerated from /repo on every run, is compared with the hand-maintained `Ties.Expect.pkgVars`; the
readable tripwires that read this table only follow it. Gen/Facts.lean is one generated file holding all
eleven tables (it is data and always builds); what is separate per table is the COMPARISON, so a source
change that alters another table does not make this module fail.
`rfl` is the fast path (both sides unfold to the same literal); when the tables differ it fails and
`decide` reports that the equation is false.
(Split out of the former single module Props/Ties.lean; names, namespace and statements unchanged.)
-/
import JPV.Gen.Facts
import JPV.Ties.Expect
namespace JPV
namespace Ties

theorem facts_pkgVars : Gen.Facts.pkgVars = Expect.pkgVars := by first | rfl | decide

end Ties
end JPV

-- OBLIGATIONS: JPV.Ties.facts_pkgVars
