/-
Props/Facts/Col — the column accessor the `fact_*` tripwires read rows with. Depends on no generated
file and on no expectation table (shared by the per-table modules under Props/Facts/).
(Moved unchanged out of the former single module Props/Ties.lean.)
-/
import JPV.Ties.Types
namespace JPV
namespace Ties

def col (r : Row) (i : Nat) : String := r[i]?.getD ""

end Ties
end JPV
