/-
Props/Facts/FilterInput — T2 tie for ONE extracted fact table (DESIGN §5.2).

`Gen.Facts.filterInput` (which list `retrieveList` / `retrieveMap` of a filter hand to `compute`),
regenerated from /repo on every run, is compared with the hand-maintained `Ties.Expect.filterInput`; the
readable tripwires that read this table only follow it. Gen/Facts.lean is one generated file holding all
eleven tables (it is data and always builds); what is separate per table is the COMPARISON, so a source
change that alters another table does not make this module fail.
`rfl` is the fast path (both sides unfold to the same literal); when the tables differ it fails and
`decide` reports that the equation is false.
(Split out of the former single module Props/Ties.lean; names, namespace and statements unchanged.)
-/
import JPV.Gen.Facts
import JPV.Ties.Expect
namespace JPV
namespace Ties

theorem facts_filterInput : Gen.Facts.filterInput = Expect.filterInput := by first | rfl | decide

/-! Readable consequence, checked directly on the regenerated table (so a harmless change of an
unrelated row does not disturb the statement). -/

/-- an array's filter hands `compute` the caller's slice; an object's filter a list of its own -/
theorem fact_filter_input :
    Gen.Facts.filterInput =
      [["syntaxFilterQualifier.retrieveList", "srcList", "param", "srcList"],
       ["syntaxFilterQualifier.retrieveMap", "valueList", "local", "valueList=call:compute+make"]] := by
  decide

end Ties
end JPV

-- OBLIGATIONS: JPV.Ties.facts_filterInput JPV.Ties.fact_filter_input
