/-
Props/Facts/Writes — T2 tie for ONE extracted fact table (DESIGN §5.2).

`Gen.Facts.writes` (every assignment through an index, a field or a pointer in the hand-written Go files),
regenerated from /repo on every run, is compared with the hand-maintained `Ties.Expect.writes`; the
readable tripwires that read this table only follow it. Gen/Facts.lean is one generated file holding all
eleven tables (it is data and always builds); what is separate per table is the COMPARISON, so a source
change that alters another table does not make this module fail.
`rfl` is the fast path (both sides unfold to the same literal); when the tables differ it fails and
`decide` reports that the equation is false.
(Split out of the former single module Props/Ties.lean; names, namespace and statements unchanged.)
-/
import JPV.Gen.Facts
import JPV.Ties.Expect
import JPV.Props.Facts.Col
namespace JPV
namespace Ties

theorem facts_writes : Gen.Facts.writes = Expect.writes := by first | rfl | decide

/-! Readable consequence, checked directly on the regenerated table (so a harmless change of an
unrelated row does not disturb the statement). -/

/-- the only writes through a *parameter's* index are: validators and comparators (the list being
    filtered) and the two `Accessor.Set` closures (the document, on the user's request) -/
theorem fact_param_index_writes :
    ((Gen.Facts.writes.filter fun r => col r 1 == "index" && col r 4 == "param").map fun r => col r 0) =
      ["syntaxBasicBoolTypeValidator.validate", "syntaxBasicNilTypeValidator.validate",
       "syntaxBasicNode.retrieveListNext·func", "syntaxBasicNode.retrieveMapNext·func",
       "syntaxBasicNumericTypeValidator.validate", "syntaxBasicStringTypeValidator.validate",
       "syntaxCompareDeepEQ.comparator", "syntaxCompareDirectEQ.comparator", "syntaxCompareGE.comparator",
       "syntaxCompareGT.comparator", "syntaxCompareLE.comparator", "syntaxCompareLT.comparator",
       "syntaxCompareRegex.comparator"] := by
  decide

end Ties
end JPV

-- OBLIGATIONS: JPV.Ties.facts_writes JPV.Ties.fact_param_index_writes
