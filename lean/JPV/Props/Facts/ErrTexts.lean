/-
Props/Facts/ErrTexts — T2 tie for the error MESSAGES (generator `errtexts`, error_*.go).

The runners recover "the step an error names", "expected" and "found" from `err.Error()`; C15 / C17 speak about the
path text, the position and the `near` text an error carries. Which FIELD fills which slot of the message is a
fact about error_*.go: `Gen.errTexts` (regenerated on every run) must equal the table below, and `slotOf` states
the consequences the runners rely on (e.g. the step text is the last slot of a type mismatch, `expected` comes
before `found`). Swapping two arguments of a Sprintf, renaming a field's role or changing a format makes
`facts_errtexts` fail.
-/
import JPV.Gen.ErrTexts
namespace JPV
namespace Ties

def expectErrTexts : List (String × List String × String × List String) := [
  ("ErrorFunctionFailed", ["*errorBasicRuntime", "err error"], "function failed (function=%s, error=%s)", ["e.node.text", "e.err"]),
  ("ErrorFunctionNotFound", ["function string"], "function not found (function=%s)", ["e.function"]),
  ("ErrorInvalidArgument", ["argument string", "err error"], "invalid argument (argument=%s, error=%s)", ["e.argument", "e.err"]),
  ("ErrorInvalidSyntax", ["position int", "reason string", "near string"], "invalid syntax (position=%d, reason=%s, near=%s)", ["e.position", "e.reason", "e.near"]),
  ("ErrorMemberNotExist", ["*errorBasicRuntime"], "member did not exist (path=%s)", ["e.node.text"]),
  ("ErrorNotSupported", ["feature string", "path string"], "not supported (feature=%s, path=%s)", ["e.feature", "e.path"]),
  ("ErrorTypeUnmatched", ["*errorBasicRuntime", "expectedType string", "foundType string"], "type unmatched (expected=%s, found=%s, path=%s)", ["e.expectedType", "e.foundType", "e.node.text"])
]

theorem facts_errtexts : Gen.errTexts = expectErrTexts := by first | rfl | decide

/-- the labels `name=` in front of the verbs of a format, in order: "type unmatched (expected=%s, found=%s, path=%s)"
    ↦ ["expected", "found", "path"] -/
def labelsGo : List Char → List Char → List String
  | [], _ => []
  | '=' :: '%' :: _ :: rest, cur => String.ofList cur.reverse :: labelsGo rest []
  | c :: rest, cur => if c == ' ' || c == '(' || c == ',' then labelsGo rest [] else labelsGo rest (c :: cur)

def labels (fmt : String) : List String := labelsGo fmt.toList []

/-- which source expression fills the slot labelled `l` of type `ty`'s message -/
def slotOf (ty l : String) : Option String :=
  match Gen.errTexts.find? (fun e => e.1 == ty) with
  | some (_, _, fmt, args) => ((labels fmt).zip args).lookup l
  | none => none

/-- what the runners and C13 / C15 / C17 read out of the messages -/
theorem errtexts_slots :
    slotOf "ErrorTypeUnmatched" "path" = some "e.node.text" ∧
    slotOf "ErrorTypeUnmatched" "expected" = some "e.expectedType" ∧
    slotOf "ErrorTypeUnmatched" "found" = some "e.foundType" ∧
    slotOf "ErrorMemberNotExist" "path" = some "e.node.text" ∧
    slotOf "ErrorFunctionFailed" "function" = some "e.node.text" ∧
    slotOf "ErrorFunctionFailed" "error" = some "e.err" ∧
    slotOf "ErrorInvalidSyntax" "position" = some "e.position" ∧
    slotOf "ErrorInvalidSyntax" "near" = some "e.near" ∧
    slotOf "ErrorInvalidSyntax" "reason" = some "e.reason" ∧
    slotOf "ErrorFunctionNotFound" "function" = some "e.function" ∧
    slotOf "ErrorNotSupported" "path" = some "e.path" := by
  decide

end Ties
end JPV

-- OBLIGATIONS: JPV.Ties.facts_errtexts JPV.Ties.errtexts_slots
