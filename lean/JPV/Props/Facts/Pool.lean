/-
Props/Facts/Pool — T2 tie for ONE extracted fact table (DESIGN §5.2).

`Gen.Facts.pool` (pool discipline: `getContainer` / `putContainer`, `getSortedKeys` / `putSortSlice` sites),
regenerated from /repo on every run, is compared with the hand-maintained `Ties.Expect.pool`; the
readable tripwires that read this table only follow it. Gen/Facts.lean is one generated file holding all
eleven tables (it is data and always builds); what is separate per table is the COMPARISON, so a source
change that alters another table does not make this module fail.
`rfl` is the fast path (both sides unfold to the same literal); when the tables differ it fails and
`decide` reports that the equation is false.
(Split out of the former single module Props/Ties.lean; names, namespace and statements unchanged.)
-/
import JPV.Gen.Facts
import JPV.Ties.Expect
import JPV.Props.Facts.Col
namespace JPV
namespace Ties

theorem facts_pool : Gen.Facts.pool = Expect.pool := by first | rfl | decide

/-! Readable consequence, checked directly on the regenerated table (so a harmless change of an
unrelated row does not disturb the statement). -/

/-- every `getContainer` is paired with a deferred `putContainer` in the same function -/
theorem fact_pool_container :
    ((Gen.Facts.pool.filter fun r => col r 1 == "getContainer").all fun r =>
      Gen.Facts.pool.contains [col r 0, "putContainer", col r 2, col r 2]) = true := by
  decide

end Ties
end JPV

-- OBLIGATIONS: JPV.Ties.facts_pool JPV.Ties.fact_pool_container
