/-
Props/Facts/FactParseWrapper — a tripwire that reads TWO regenerated fact tables
(`Gen.Facts.parseWrapper` and `Gen.Facts.parserRefs`), hence a module of its own: it fails only when one
of these two tables changes in a way that matters to the statement, and it does not import the
comparisons with `Ties.Expect` (Props/Facts/ParseWrapper.lean, Props/Facts/ParserRefs.lean).
(Split out of the former single module Props/Ties.lean; name, namespace and statement unchanged.)
-/
import JPV.Gen.Facts
import JPV.Props.Facts.Col
namespace JPV
namespace Ties

/-- `Parse`: lock first; exactly one defer, registered second, doing recover → reset → unlock;
    config copied only when given; the closure captures `root` and no package variable -/
theorem fact_parse_wrapper :
    ["00-first-statement", "parseMutex.Lock()"] ∈ Gen.Facts.parseWrapper ∧
    ["01-defer-count", "1"] ∈ Gen.Facts.parseWrapper ∧
    ["02-defer", "0", "second-statement", "recover,reset,unlock"] ∈ Gen.Facts.parseWrapper ∧
    ((Gen.Facts.parseWrapper.filter fun r => col r 0 == "04-config-copy").all fun r => col r 2 == "len(config) > 0") = true ∧
    ((Gen.Facts.parseWrapper.filter fun r => col r 0 == "06-closure-uses").map fun r => (col r 1, col r 2)) =
      [("getContainer", "pkgfunc"), ("putContainer", "pkgfunc"), ("root", "local-of-Parse:field:parser.jsonPathParser.root")] ∧
    (Gen.Facts.parserRefs.all fun r => col r 0 == "Parse" || col r 0 == "Parse·func") = true := by
  decide

end Ties
end JPV

-- OBLIGATIONS: JPV.Ties.fact_parse_wrapper
