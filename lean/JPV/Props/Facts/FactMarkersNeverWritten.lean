/-
Props/Facts/FactMarkersNeverWritten — a tripwire that reads TWO regenerated fact tables
(`Gen.Facts.writes` and `Gen.Facts.pkgVarAssign`), hence a module of its own: it fails only when one of
these two tables changes in a way that matters to the statement, and it does not import the
comparisons with `Ties.Expect` (Props/Facts/Writes.lean, Props/Facts/PkgVarAssign.lean).
(Split out of the former single module Props/Ties.lean; name, namespace and statement unchanged.)
-/
import JPV.Gen.Facts
import JPV.Props.Facts.Col
namespace JPV
namespace Ties

/-- the marker and the two marker lists are never written through, and never assigned -/
theorem fact_markers_never_written :
    (Gen.Facts.writes.all fun r => col r 3 != "emptyEntity" && col r 3 != "emptyList" && col r 3 != "fullList") = true ∧
    (Gen.Facts.pkgVarAssign.all fun r => col r 0 == "Parse" || col r 0 == "Parse·func") = true := by
  decide

end Ties
end JPV

-- OBLIGATIONS: JPV.Ties.fact_markers_never_written
