/-
Props/Facts/Panics — T2 tie for ONE extracted fact table (DESIGN §5.2).

`Gen.Facts.panics` (every `panic(…)` in the hand-written files and the value it raises),
regenerated from /repo on every run, is compared with the hand-maintained `Ties.Expect.panics`; the
readable tripwires that read this table only follow it. Gen/Facts.lean is one generated file holding all
eleven tables (it is data and always builds); what is separate per table is the COMPARISON, so a source
change that alters another table does not make this module fail.
`rfl` is the fast path (both sides unfold to the same literal); when the tables differ it fails and
`decide` reports that the equation is false.
(Split out of the former single module Props/Ties.lean; names, namespace and statements unchanged.)
-/
import JPV.Gen.Facts
import JPV.Ties.Expect
import JPV.Props.Facts.Col
namespace JPV
namespace Ties

theorem facts_panics : Gen.Facts.panics = Expect.panics := by first | rfl | decide

/-! Readable consequence, checked directly on the regenerated table (so a harmless change of an
unrelated row does not disturb the statement). -/

/-- every `panic` raises one of the documented syntax-check errors -/
theorem fact_panics_documented :
    (Gen.Facts.panics.all fun r =>
      col r 1 == "lit:ErrorInvalidArgument" || col r 1 == "lit:ErrorFunctionNotFound" ||
      col r 1 == "lit:ErrorNotSupported" || col r 1 == "lit:ErrorInvalidSyntax" ||
      col r 1 == "call:p.syntaxErr") = true := by
  decide

end Ties
end JPV

-- OBLIGATIONS: JPV.Ties.facts_panics JPV.Ties.fact_panics_documented
