/-
C07 — lifting "the order never depends on Go's map iteration" from one object to a WHOLE DOCUMENT.

`Props/C07Sort.lean` proves that one object traversal is independent of the listing order of that
object's entries. A document nests objects inside arrays inside objects …; a Go `map` at ANY depth may
be listed in any order. This file closes the gap that was "not a theorem" before:

* a document with association lists in arbitrary order (`Val`, keys pairwise distinct at every level —
  always so for Go maps: `nodupKeys`) has a canonical form `canon d` (every object re-listed by
  `sortKV`, bottom-up);
* `Equiv d d'` — the two values are listings of the same nested maps (arrays element-wise, objects up
  to a permutation of their entries, recursively) — implies `canon d = canon d'`
  (**C07_doc_canon_eq**), so whatever the evaluator computes from the canonical form, it computes the
  same from every listing (**C07_document_order_independent**, stated for `Spec.run`);
* `canon d` is well-formed (`Val.wf`, the form `run_refines` asks of documents — **C07_canon_wf**), is
  itself a listing of `d` (**C07_canon_equiv**), and is a fixed point on well-formed documents
  (**C07_canon_of_wf**, **C07_canon_idem**): the canonical form the harness sends (it lists every Go map
  in ascending key order) is `canon` of whatever order the map iteration would have produced.

`Equiv` is defined by structural recursion on its first argument (a nested inductive relation would not
get a usable induction principle).
-/
import JPV.Lemmas.SortKV
import JPV.Lemmas.ValWf
import JPV.Props.C07Sort
import JPV.Spec
import JPV.Canon
import JPV.Props.C01
namespace JPV
namespace C07Doc
open Impl SortKVL Canon

mutual
/-- keys pairwise distinct in every object of the document (a Go map cannot repeat a key) -/
def nodupKeys : Val → Prop
  | .arr xs => nodupKeysList xs
  | .obj kvs => (kvs.map (·.1)).Nodup ∧ nodupKeysKVs kvs
  | .null => True
  | .bool _ => True
  | .num _ => True
  | .jnum _ => True
  | .str _ => True
  | .opq _ _ => True
def nodupKeysList : List Val → Prop
  | [] => True
  | x :: xs => nodupKeys x ∧ nodupKeysList xs
def nodupKeysKVs : List (String × Val) → Prop
  | [] => True
  | (_, x) :: xs => nodupKeys x ∧ nodupKeysKVs xs
end

mutual
/-- `Equiv a b`: `b` lists the same nested maps as `a`, possibly in another order at every level -/
def Equiv : Val → Val → Prop
  | .arr xs, b => ∃ ys, b = .arr ys ∧ EquivList xs ys
  | .obj kvs, b => ∃ mid kvs', b = .obj kvs' ∧ EquivKVs kvs mid ∧ mid.Perm kvs'
  | .null, b => b = .null
  | .bool x, b => b = .bool x
  | .num n, b => b = .num n
  | .jnum n, b => b = .jnum n
  | .str s, b => b = .str s
  | .opq t c, b => b = .opq t c
def EquivList : List Val → List Val → Prop
  | [], ys => ys = []
  | x :: xs, ys => ∃ y ys', ys = y :: ys' ∧ Equiv x y ∧ EquivList xs ys'
/-- same keys in the same order, values equivalent -/
def EquivKVs : List (String × Val) → List (String × Val) → Prop
  | [], ys => ys = []
  | (k, x) :: xs, ys => ∃ y ys', ys = (k, y) :: ys' ∧ Equiv x y ∧ EquivKVs xs ys'
end

/-! ### helper lemmas on lists (plain list induction, no recursion through `Val`) -/

theorem canonKVs_eq_map (kvs : List (String × Val)) :
    canonKVs kvs = kvs.map (fun p => (p.1, canon p.2)) := by
  induction kvs with
  | nil => simp [canonKVs]
  | cons p rest ih => obtain ⟨k, x⟩ := p; simp [canonKVs, ih]

theorem keys_canonKVs (kvs : List (String × Val)) : (canonKVs kvs).map (·.1) = kvs.map (·.1) := by
  rw [canonKVs_eq_map]; simp [List.map_map, Function.comp_def]

theorem canonKVs_perm {a b : List (String × Val)} (h : a.Perm b) : (canonKVs a).Perm (canonKVs b) := by
  rw [canonKVs_eq_map, canonKVs_eq_map]; exact h.map _

theorem equivKVs_keys : ∀ (a b : List (String × Val)), EquivKVs a b → b.map (·.1) = a.map (·.1)
  | [], b, h => by simp [EquivKVs] at h; simp [h]
  | (k, x) :: xs, b, h => by
      simp only [EquivKVs] at h
      obtain ⟨y, ys', rfl, _, hr⟩ := h
      simp [equivKVs_keys xs ys' hr]

theorem wfKVs_of_forall : ∀ (l : List (String × Val)), (∀ p ∈ l, p.2.wf = true) → Val.wfKVs l = true
  | [], _ => by simp [Val.wfKVs]
  | (k, x) :: xs, h => by
      simp only [Val.wfKVs, Bool.and_eq_true]
      exact ⟨h (k, x) (by simp), wfKVs_of_forall xs (fun p hp => h p (by simp [hp]))⟩

theorem wfKVs_perm {a b : List (String × Val)} (hp : a.Perm b) (h : Val.wfKVs a = true) :
    Val.wfKVs b = true :=
  wfKVs_of_forall b (fun p hpb => ValWf.wfKVs_mem h p (hp.mem_iff.mpr hpb))

/-! ### the three structural inductions -/

mutual
theorem canon_eq_of_equiv : (a b : Val) → Equiv a b → nodupKeys a → canon a = canon b
  | .arr xs, b, h, hn => by
      simp only [Equiv] at h
      obtain ⟨ys, rfl, hl⟩ := h
      simp only [nodupKeys] at hn
      simp only [canon, canonList_eq_of_equiv xs ys hl hn]
  | .obj kvs, b, h, hn => by
      simp only [Equiv] at h
      obtain ⟨mid, kvs', rfl, hm, hp⟩ := h
      simp only [nodupKeys] at hn
      have h1 : canonKVs kvs = canonKVs mid := canonKVs_eq_of_equiv kvs mid hm hn.2
      have hnd : ((canonKVs mid).map (·.1)).Nodup := by
        rw [keys_canonKVs, equivKVs_keys kvs mid hm]; exact hn.1
      simp only [canon, h1]
      rw [C07.C07_order_independent (canonKVs mid) (canonKVs kvs') (canonKVs_perm hp) hnd]
  | .null, b, h, _ => by simp only [Equiv] at h; subst h; rfl
  | .bool _, b, h, _ => by simp only [Equiv] at h; subst h; rfl
  | .num _, b, h, _ => by simp only [Equiv] at h; subst h; rfl
  | .jnum _, b, h, _ => by simp only [Equiv] at h; subst h; rfl
  | .str _, b, h, _ => by simp only [Equiv] at h; subst h; rfl
  | .opq _ _, b, h, _ => by simp only [Equiv] at h; subst h; rfl
theorem canonList_eq_of_equiv : (a b : List Val) → EquivList a b → nodupKeysList a →
    canonList a = canonList b
  | [], b, h, _ => by simp only [EquivList] at h; subst h; rfl
  | x :: xs, b, h, hn => by
      simp only [EquivList] at h
      obtain ⟨y, ys', rfl, hx, hr⟩ := h
      simp only [nodupKeysList] at hn
      simp only [canonList, canon_eq_of_equiv x y hx hn.1, canonList_eq_of_equiv xs ys' hr hn.2]
theorem canonKVs_eq_of_equiv : (a b : List (String × Val)) → EquivKVs a b → nodupKeysKVs a →
    canonKVs a = canonKVs b
  | [], b, h, _ => by simp only [EquivKVs] at h; subst h; rfl
  | (k, x) :: xs, b, h, hn => by
      simp only [EquivKVs] at h
      obtain ⟨y, ys', rfl, hx, hr⟩ := h
      simp only [nodupKeysKVs] at hn
      simp only [canonKVs, canon_eq_of_equiv x y hx hn.1, canonKVs_eq_of_equiv xs ys' hr hn.2]
end

mutual
theorem canon_wf : (a : Val) → nodupKeys a → (canon a).wf = true
  | .arr xs, hn => by
      simp only [nodupKeys] at hn
      simp only [canon, Val.wf]; exact canonList_wf xs hn
  | .obj kvs, hn => by
      simp only [nodupKeys] at hn
      have hnd : ((canonKVs kvs).map (·.1)).Nodup := by rw [keys_canonKVs]; exact hn.1
      simp only [canon, Val.wf, Bool.and_eq_true]
      exact ⟨sortKV_keysAsc _ hnd,
        wfKVs_perm (SortKVL.sortKV_perm _).symm (canonKVs_wf kvs hn.2)⟩
  | .null, _ => rfl
  | .bool _, _ => rfl
  | .num _, _ => rfl
  | .jnum _, _ => rfl
  | .str _, _ => rfl
  | .opq _ _, _ => rfl
theorem canonList_wf : (a : List Val) → nodupKeysList a → Val.wfList (canonList a) = true
  | [], _ => rfl
  | x :: xs, hn => by
      simp only [nodupKeysList] at hn
      simp only [canonList, Val.wfList, Bool.and_eq_true]
      exact ⟨canon_wf x hn.1, canonList_wf xs hn.2⟩
theorem canonKVs_wf : (a : List (String × Val)) → nodupKeysKVs a → Val.wfKVs (canonKVs a) = true
  | [], _ => rfl
  | (k, x) :: xs, hn => by
      simp only [nodupKeysKVs] at hn
      simp only [canonKVs, Val.wfKVs, Bool.and_eq_true]
      exact ⟨canon_wf x hn.1, canonKVs_wf xs hn.2⟩
end

mutual
theorem canon_of_wf : (a : Val) → a.wf = true → canon a = a
  | .arr xs, h => by
      simp only [Val.wf] at h
      simp only [canon, canonList_of_wf xs h]
  | .obj kvs, h => by
      simp only [Val.wf, Bool.and_eq_true] at h
      simp only [canon, canonKVs_of_wf kvs h.2, ValWf.sortKV_of_keysAsc kvs h.1]
  | .null, _ => rfl
  | .bool _, _ => rfl
  | .num _, _ => rfl
  | .jnum _, _ => rfl
  | .str _, _ => rfl
  | .opq _ _, _ => rfl
theorem canonList_of_wf : (a : List Val) → Val.wfList a = true → canonList a = a
  | [], _ => rfl
  | x :: xs, h => by
      simp only [Val.wfList, Bool.and_eq_true] at h
      simp only [canonList, canon_of_wf x h.1, canonList_of_wf xs h.2]
theorem canonKVs_of_wf : (a : List (String × Val)) → Val.wfKVs a = true → canonKVs a = a
  | [], _ => rfl
  | (k, x) :: xs, h => by
      simp only [Val.wfKVs, Bool.and_eq_true] at h
      simp only [canonKVs, canon_of_wf x h.1, canonKVs_of_wf xs h.2]
end

mutual
/-- `canon a` is itself a listing of `a` -/
theorem equiv_canon : (a : Val) → Equiv a (canon a)
  | .arr xs => by simp only [Equiv, canon]; exact ⟨_, rfl, equivList_canon xs⟩
  | .obj kvs => by
      simp only [Equiv, canon]
      exact ⟨canonKVs kvs, _, rfl, equivKVs_canon kvs, (SortKVL.sortKV_perm _).symm⟩
  | .null => by simp [Equiv, canon]
  | .bool _ => by simp [Equiv, canon]
  | .num _ => by simp [Equiv, canon]
  | .jnum _ => by simp [Equiv, canon]
  | .str _ => by simp [Equiv, canon]
  | .opq _ _ => by simp [Equiv, canon]
theorem equivList_canon : (a : List Val) → EquivList a (canonList a)
  | [] => by simp [EquivList, canonList]
  | x :: xs => by simp only [EquivList, canonList]; exact ⟨_, _, rfl, equiv_canon x, equivList_canon xs⟩
theorem equivKVs_canon : (a : List (String × Val)) → EquivKVs a (canonKVs a)
  | [] => by simp [EquivKVs, canonKVs]
  | (k, x) :: xs => by
      simp only [EquivKVs, canonKVs]; exact ⟨_, _, rfl, equiv_canon x, equivKVs_canon xs⟩
end

mutual
theorem equiv_refl : (a : Val) → Equiv a a
  | .arr xs => by simp only [Equiv]; exact ⟨_, rfl, equivList_refl xs⟩
  | .obj kvs => by simp only [Equiv]; exact ⟨kvs, kvs, rfl, equivKVs_refl kvs, List.Perm.refl _⟩
  | .null => by simp [Equiv]
  | .bool _ => by simp [Equiv]
  | .num _ => by simp [Equiv]
  | .jnum _ => by simp [Equiv]
  | .str _ => by simp [Equiv]
  | .opq _ _ => by simp [Equiv]
theorem equivList_refl : (a : List Val) → EquivList a a
  | [] => by simp [EquivList]
  | x :: xs => by simp only [EquivList]; exact ⟨_, _, rfl, equiv_refl x, equivList_refl xs⟩
theorem equivKVs_refl : (a : List (String × Val)) → EquivKVs a a
  | [] => by simp [EquivKVs]
  | (k, x) :: xs => by simp only [EquivKVs]; exact ⟨_, _, rfl, equiv_refl x, equivKVs_refl xs⟩
end

/-! ### the property-level statements -/

/-- **C07_doc_canon_eq**: two listings of the same nested maps have the same canonical form -/
theorem C07_doc_canon_eq (d d' : Val) (h : Equiv d d') (hn : nodupKeys d) : canon d = canon d' :=
  canon_eq_of_equiv d d' h hn

/-- the canonical form is well-formed: it is a document `run_refines` / `C01_refines` speak about -/
theorem C07_canon_wf (d : Val) (hn : nodupKeys d) : (canon d).wf = true := canon_wf d hn

/-- the canonical form lists the same nested maps -/
theorem C07_canon_equiv (d : Val) : Equiv d (canon d) := equiv_canon d

/-- a well-formed document is its own canonical form -/
theorem C07_canon_of_wf (d : Val) (h : d.wf = true) : canon d = d := canon_of_wf d h

/-- canonicalising twice changes nothing -/
theorem C07_canon_idem (d : Val) (hn : nodupKeys d) : canon (canon d) = canon d :=
  canon_of_wf _ (canon_wf d hn)

/-- re-listing the entries of one object (at the root) is an `Equiv` step — the relation is not empty -/
theorem C07_shuffle_is_equiv (kvs kvs' : List (String × Val)) (hp : kvs.Perm kvs') :
    Equiv (.obj kvs) (.obj kvs') := by
  simp only [Equiv]; exact ⟨kvs, kvs', rfl, equivKVs_refl kvs, hp⟩

/-- **C07_document_order_independent**: the result denoted for a document does not depend on how any of
    its maps — at any depth — was listed: every listing is evaluated through the one canonical form. -/
theorem C07_document_order_independent (env : Env) (p : Path) (d d' : Val)
    (h : Equiv d d') (hn : nodupKeys d) :
    Spec.run env p (canon d) = Spec.run env p (canon d') := by
  rw [C07_doc_canon_eq d d' h hn]

/-- **C07_listing_refines**: composed with the central refinement theorem — for EVERY listing `d` of a
    document whose maps have pairwise distinct keys (no `Val.wf` hypothesis any more), the Go-shaped evaluator
    on the parsed tree, run on the canonical form of the listing, returns exactly what the specification
    denotes for that canonical form (or fails exactly when the specification has no result). -/
theorem C07_listing_refines (env : Env) (cfg : Cfg) (p : Path) (ch : List N) (d : Val)
    (hb : Build.build env cfg p = .ok ch) (hn : nodupKeys d) :
    (∃ vs rs st, Spec.run env p (canon d) = some vs ∧ Impl.run env ch (canon d) = (.ok rs, st) ∧
        rs.map Res.val = vs ∧ vs ≠ []) ∨
    (∃ e st, Spec.run env p (canon d) = none ∧ Impl.run env ch (canon d) = (.err e, st)) :=
  C01.C01_refines env cfg p ch (canon d) hb (canon_wf d hn)

/-- **C07_impl_order_independent**: two listings of the same nested maps give the evaluator the same
    input, hence the same outcome — results, error, call log and final state alike. -/
theorem C07_impl_order_independent (env : Env) (ch : List N) (d d' : Val)
    (h : Equiv d d') (hn : nodupKeys d) :
    Impl.run env ch (canon d) = Impl.run env ch (canon d') := by
  rw [C07_doc_canon_eq d d' h hn]

/-- hypotheses satisfiable, on a document with objects at two depths listed in different orders -/
example : Equiv
    (.obj [("b", .arr [.obj [("y", .num 1), ("x", .num 2)]]), ("a", .str "s")])
    (.obj [("a", .str "s"), ("b", .arr [.obj [("x", .num 2), ("y", .num 1)]])]) := by
  simp only [Equiv]
  refine ⟨[("b", .arr [.obj [("x", .num 2), ("y", .num 1)]]), ("a", .str "s")], _, rfl, ?_, ?_⟩
  · simp only [EquivKVs, Equiv, EquivList]
    refine ⟨_, _, rfl, ⟨_, rfl, _, _, rfl, ⟨[("y", .num 1), ("x", .num 2)], _, rfl, ?_, ?_⟩, rfl⟩,
      _, _, rfl, rfl, rfl⟩
    · simp
    · exact List.Perm.swap _ _ _
  · exact List.Perm.swap _ _ _
example : nodupKeys (.obj [("b", .arr [.obj [("y", .num 1), ("x", .num 2)]]), ("a", .str "s")]) := by
  simp [nodupKeys, nodupKeysKVs, nodupKeysList]
example : canon (.obj [("b", .arr [.obj [("y", .num 1), ("x", .num 2)]]), ("a", .str "s")]) =
    .obj [("a", .str "s"), ("b", .arr [.obj [("x", .num 2), ("y", .num 1)]])] := by
  simp [canon, canonKVs, canonList, sortKV, insertKV]
/-- distinct keys are needed (as in `C07Sort`): with a repeated key the listing order shows -/
example : canon (.obj [("a", .num 1), ("a", .num 2)]) ≠ canon (.obj [("a", .num 2), ("a", .num 1)]) := by
  simp [canon, canonKVs, sortKV, insertKV]

end C07Doc
end JPV
-- OBLIGATIONS: JPV.C07Doc.C07_doc_canon_eq JPV.C07Doc.C07_canon_wf JPV.C07Doc.C07_canon_equiv JPV.C07Doc.C07_canon_of_wf JPV.C07Doc.C07_canon_idem JPV.C07Doc.C07_shuffle_is_equiv JPV.C07Doc.C07_document_order_independent JPV.C07Doc.C07_listing_refines JPV.C07Doc.C07_impl_order_independent
