/-
C06 — Parse and parsed functions are safe for concurrent use (PARTIAL at theorem level).

What is proved:
 * `C06_footprint`  — the memory events of one evaluation (model: the write log of Impl.run) touch
   only lists the evaluation allocated itself; the document, the parsed tree and the package-level
   markers are read-only for it (from `run_refines`).
 * `C06_schedule_independent` — generic: threads whose write sets are disjoint from every other
   thread's read and write sets end, under EVERY interleaving, in the local state they reach when
   run alone (JPV/Par/Sched.lean, induction on the schedule).
Together: concurrent evaluations of shared parsed functions on shared documents, each with its own
fresh lists and its own pooled container, have pairwise conflict-free footprints, so each call
returns what it returns alone.
What is NOT a theorem (assumed, and exercised by the C06 race-detector runner): that `sync.Pool`
never hands one object to two holders, that `parseMutex` serialises `Parse`, the Go memory model for
race-free programs, thread-safety of `*regexp.Regexp`.
-/
import JPV.Props.C04
import JPV.Par.Sched
namespace JPV
namespace C06
open Impl

theorem C06_footprint (env : Env) (ch : List N) (hwf : wfChain env ch = true) (d : Val) :
    ∀ w ∈ (Impl.run env ch d).2.writes, w = Org.fresh :=
  C04.C04_writes_only_fresh env ch hwf d

theorem C06_schedule_independent {L : Type} (S : Par.Sys L) (init : Par.Tid → L) (m0 : Par.Mem)
    (s : List Par.Tid) (t : Par.Tid) :
    (Par.runSched S s ⟨init, m0⟩).loc t = (Par.solo S t (s.count t) (init t, m0)).1 :=
  Par.schedule_independent S init m0 s t

end C06
end JPV
-- OBLIGATIONS: JPV.C06.C06_footprint JPV.C06.C06_schedule_independent JPV.Par.replay_read_stable
