/-
C15 — runtime errors name a real failing step: the deepest one, and the right kind.

`Fails.fails env ch root cur` (JPV/Fails.lean) is the denotation of ALL local failures of a
chain on a node: every place where a step of the query, applied to a node reached by the steps
before it, has nothing to select — with the `RtErr` the code constructs there: the Info of the
syntax node (text / connectedText of the step as written), the kind (`member`: right container
type, no such key / index / match; `type`: expected kind "object" / "array" / "object/array"
and the Go type found; `func`: the user function returned an error).

  C15_sound              the reported error is one of these failures
  C15_names_step         … hence its Info is that of a node of the chain (a step as written)
  C15_deepest            its connectedText is the shortest among ALL failures (= furthest along
                         the path, connectedText being the rest of the path from the step on)
  C15_nontype_preferred  at that depth a missing member / failed function beats a type mismatch
  C15_single_exact       single-valued path: there is exactly one failure, and it is reported
  …_built                the same for `Build.build env cfg p = .ok ch`, no hypothesis on the tree

The side condition of the two "deepest" theorems is `CE.ConnOK (Fails.flat ch)`: the predicate
of Lemmas/BuildConn.lean (connected texts non-empty, strictly shorter from node to node, inner
identifiers carrying their node's) on the chain AS WRITTEN, i.e. with the parameter chain of an
aggregate function before the aggregate. On `ch` itself (`CE.ConnOK ch`, which does not look
into aggregates) the statement is false in the model: `C15_deepest_full_false`.
-/
import JPV.Lemmas.ErrBuild
import JPV.Registry
namespace JPV
namespace C15
open Impl TSem Fails ES
open CE (ConnOK stepTexts fnText isFfnFn)

/-- `len(connectedText)` of the node an error names -/
abbrev depth (e : RtErr) : Nat := e.info.conn.utf8ByteSize

/-! ### the theorems, for every well-formed tree -/

/-- The reported error is a failure that really occurs: right node Info, right kind, right
    expected / found type names. -/
theorem C15_sound (env : Env) (ch : List N) (hwf : wfChain env ch = true) (d : Val) (e : RtErr) (st : St)
    (h : Impl.run env ch d = (.err e, st)) : e ∈ fails env ch d d :=
  (run_best false env ch hwf (fun h => by cases h) d e st h).mem

/-- … and it names a step of the query as written. -/
theorem C15_names_step (env : Env) (ch : List N) (hwf : wfChain env ch = true) (d : Val) (e : RtErr) (st : St)
    (h : Impl.run env ch d = (.err e, st)) : e.info ∈ infos ch :=
  fails_info_mem env ch d d e (C15_sound env ch hwf d e st h)

/-- The reported error is one reached furthest along the path: no failure has a shorter
    connected text. -/
theorem C15_deepest (env : Env) (ch : List N) (hwf : wfChain env ch = true) (hconn : ConnOK (flat ch))
    (d : Val) (e : RtErr) (st : St) (h : Impl.run env ch d = (.err e, st)) :
    ∀ f ∈ fails env ch d d, depth e ≤ depth f :=
  ((run_best true env ch hwf (fun _ => connDeep_of_flat ch hconn) d e st h).strong rfl).2.1

/-- At that depth a missing member or a failed function is preferred over a type mismatch. -/
theorem C15_nontype_preferred (env : Env) (ch : List N) (hwf : wfChain env ch = true) (hconn : ConnOK (flat ch))
    (d : Val) (e : RtErr) (st : St) (h : Impl.run env ch d = (.err e, st))
    (hex : ∃ f ∈ fails env ch d d, (∀ g ∈ fails env ch d d, depth f ≤ depth g) ∧ f.isType = false) :
    e.isType = false := by
  have hb := run_best true env ch hwf (fun _ => connDeep_of_flat ch hconn) d e st h
  obtain ⟨f, hf, hmin, hty⟩ := hex
  obtain ⟨_, hle, hpref⟩ := hb.strong rfl
  have h1 := hle f hf
  have h2 := hmin e hb.mem
  exact hpref f hf (Nat.le_antisymm h2 h1) hty

/-- A single-valued chain (every parameter chain of an aggregate included) meets exactly one
    failure when it fails, and that is the reported error: kind, text, types. -/
theorem C15_single_exact_deep (env : Env) (ch : List N) (hwf : wfChain env ch = true)
    (hs : singleDeep ch = true) (d : Val) (e : RtErr) (st : St)
    (h : Impl.run env ch d = (.err e, st)) : fails env ch d d = [e] := by
  have hm := C15_sound env ch hwf d e st h
  have hl := (fails_single env ch d d hs).1
  match hF : fails env ch d d, hm, hl with
  | [x], hm, _ => rw [List.mem_singleton.mp hm]
  | _ :: _ :: _, _, hl => simp at hl

/-- the same for a chain of single-valued nodes without aggregate functions -/
theorem C15_single_exact (env : Env) (ch : List N) (hwf : wfChain env ch = true)
    (hs : singleChain ch = true) (hna : noAfn ch = true) (d : Val) (e : RtErr) (st : St)
    (h : Impl.run env ch d = (.err e, st)) : fails env ch d d = [e] :=
  C15_single_exact_deep env ch hwf (singleDeep_of_noAfn ch hs hna) d e st h

/-- for chains without aggregate functions the side condition is `CE.ConnOK ch` itself -/
theorem C15_deepest_noAfn (env : Env) (ch : List N) (hwf : wfChain env ch = true) (hna : noAfn ch = true)
    (hconn : ConnOK ch) (d : Val) (e : RtErr) (st : St) (h : Impl.run env ch d = (.err e, st)) :
    ∀ f ∈ fails env ch d d, depth e ≤ depth f :=
  C15_deepest env ch hwf (by rw [flat_of_noAfn ch hna]; exact hconn) d e st h

/-! ### the trees `Parse` builds: no hypothesis on the tree

`htexts`: every written element of the path has a non-empty source text (the grammar matches
at least one character for each); it is a hypothesis on the abstract path, not on the tree. -/

theorem C15_sound_built (env : Env) (cfg : Cfg) (p : Path) (ch : List N)
    (hb : Build.build env cfg p = .ok ch) (d : Val) (e : RtErr) (st : St)
    (h : Impl.run env ch d = (.err e, st)) : e ∈ fails env ch d d ∧ e.info ∈ infos ch :=
  have hwf := BW.build_wf env cfg true p ch hb
  ⟨C15_sound env ch hwf d e st h, C15_names_step env ch hwf d e st h⟩

theorem C15_deepest_built (env : Env) (cfg : Cfg) (hd : Head) (steps : List Step) (pfns : List Fn) (ch : List N)
    (htexts : ∀ t ∈ steps.flatMap stepTexts ++ pfns.map fnText, t ≠ "")
    (hb : Build.build env cfg (.mk hd steps pfns) = .ok ch) (d : Val) (e : RtErr) (st : St)
    (h : Impl.run env ch d = (.err e, st)) :
    ∀ f ∈ fails env ch d d, depth e ≤ depth f :=
  C15_deepest env ch (BW.build_wf env cfg true _ ch hb) (build_connOK_flat env cfg hd steps pfns ch htexts hb) d e st h

theorem C15_nontype_preferred_built (env : Env) (cfg : Cfg) (hd : Head) (steps : List Step) (pfns : List Fn)
    (ch : List N) (htexts : ∀ t ∈ steps.flatMap stepTexts ++ pfns.map fnText, t ≠ "")
    (hb : Build.build env cfg (.mk hd steps pfns) = .ok ch) (d : Val) (e : RtErr) (st : St)
    (h : Impl.run env ch d = (.err e, st))
    (hex : ∃ f ∈ fails env ch d d, (∀ g ∈ fails env ch d d, depth f ≤ depth g) ∧ f.isType = false) :
    e.isType = false :=
  C15_nontype_preferred env ch (BW.build_wf env cfg true _ ch hb)
    (build_connOK_flat env cfg hd steps pfns ch htexts hb) d e st h hex

/-- a path without value-group steps (`Spec.isVgStep`: only `.name`, `['name']`, `[n]`) and
    without aggregate functions -/
theorem C15_single_exact_built (env : Env) (cfg : Cfg) (hd : Head) (steps : List Step) (pfns : List Fn)
    (ch : List N) (hv : steps.any Spec.isVgStep = false) (hffn : ∀ fn ∈ pfns, isFfnFn fn = true)
    (hb : Build.build env cfg (.mk hd steps pfns) = .ok ch) (d : Val) (e : RtErr) (st : St)
    (h : Impl.run env ch d = (.err e, st)) : fails env ch d d = [e] :=
  have hs := build_single env cfg hd steps pfns ch hv hffn hb
  C15_single_exact env ch (BW.build_wf env cfg true _ ch hb) hs.1 hs.2 d e st h

/-- the deepest step really is the furthest along the path: in a built chain, as written,
    connected texts are non-empty and strictly decreasing -/
theorem C15_depth_is_position_built (env : Env) (cfg : Cfg) (hd : Head) (steps : List Step) (pfns : List Fn)
    (ch : List N) (htexts : ∀ t ∈ steps.flatMap stepTexts ++ pfns.map fnText, t ≠ "")
    (hb : Build.build env cfg (.mk hd steps pfns) = .ok ch) :
    List.Pairwise (fun a b : N => b.info.conn.utf8ByteSize < a.info.conn.utf8ByteSize) (flat ch) ∧
    (∀ n ∈ flat ch, ∀ j ∈ errInfos n, j.conn = n.info.conn) := by
  have h := build_connOK_flat env cfg hd steps pfns ch htexts hb
  exact ⟨h.1, fun n hn j hj => h.2.2 n hn j (by rw [errInfos_eq]; exact hj)⟩

theorem run_eq {env : Env} {ch : List N} {d : Val} {o : Outcome} (h : (Impl.run env ch d).1 = o) :
    ∃ st, Impl.run env ch d = (o, st) := ⟨(Impl.run env ch d).2, by rw [← h]⟩

/-! ### non-vacuity: `$.*.a.b` on `[{"a":1},{"a":{"c":2}},3]` -/

namespace Ex

def p : Path := .mk .root [.wild ".*", .child ".a" "a", .child ".b" "b"] []
def doc : Val := .arr [.obj [("a", .num 1)], .obj [("a", .obj [("c", .num 2)])], .num 3]
def iw : Info := ⟨".*", ".*.a.b", true, false⟩
def ia : Info := ⟨".a", ".a.b", false, false⟩
def ib : Info := ⟨".b", ".b", false, false⟩
/-- what `Parse("$.*.a.b")` builds (the `$` deleted) -/
def ch : List N := [.wild iw, .child ia "a", .child ib "b"]

theorem built : Build.build Registry.env ⟨false⟩ p = .ok ch := by
  simp [p, ch, iw, ia, ib, Build.build, Build.buildPath, Build.stepsPre, Build.stepPre, Build.mkInfos,
    Build.assemble, Build.finish, Build.deleteHead, Build.markVg, Build.suffixTexts, Build.lastAfnIdx,
    Pre.text, Pre.isAfn, N.info, N.setVg, bind, Except.bind, List.zipIdx]
  constructor <;> decide

/-- the failures: `.b` on the number 1 (type), `.b` on `{"c":2}` (member), `.a` on the number 3 (type) -/
theorem failures : fails Registry.env ch doc doc =
    [.type ib "object" "float64", .member ib, .type ia "object" "float64"] := rfl

/-- the run reports the member error at `.b` -/
theorem reported : ∃ st, Impl.run Registry.env ch doc = (.err (.member ib), st) := by
  apply run_eq
  simp [Impl.run, retrieve, ch, doc, Val.lookup, loopAcc, stepAcc, addDeepest, endGroup, finishGroup, typeErr,
    ext, bind, Except.bind, List.zipIdx, RtErr.info, RtErr.isType, ia, ib, iw]
  rfl

theorem texts : ∀ t ∈ ([.wild ".*", .child ".a" "a", .child ".b" "b"] : List Step).flatMap stepTexts ++
    ([] : List Fn).map fnText, t ≠ "" := by decide

end Ex

/-- hypotheses of `C15_sound`, `C15_deepest`, `C15_nontype_preferred` (and the `_built` versions)
    hold for a failing run with three failures at two depths, the deepest ones of two kinds -/
example : wfChain Registry.env Ex.ch = true ∧ ConnOK (flat Ex.ch) ∧
    (∃ st, Impl.run Registry.env Ex.ch Ex.doc = (.err (.member Ex.ib), st)) ∧
    (∃ f ∈ fails Registry.env Ex.ch Ex.doc Ex.doc,
      (∀ g ∈ fails Registry.env Ex.ch Ex.doc Ex.doc, depth f ≤ depth g) ∧ f.isType = false) ∧
    (∃ f ∈ fails Registry.env Ex.ch Ex.doc Ex.doc, depth (.member Ex.ib) < depth f) ∧
    (∃ f ∈ fails Registry.env Ex.ch Ex.doc Ex.doc, depth f = depth (.member Ex.ib) ∧ f.isType = true) := by
  refine ⟨by decide, ⟨by decide, by decide, by decide⟩, Ex.reported, ?_, ?_, ?_⟩
  · rw [Ex.failures]
    exact ⟨.member Ex.ib, by simp, by decide, rfl⟩
  · rw [Ex.failures]
    exact ⟨.type Ex.ia "object" "float64", by simp, by decide⟩
  · rw [Ex.failures]
    exact ⟨.type Ex.ib "object" "float64", by simp, by decide, rfl⟩

/-- what the theorems give for it, through `Build.build` -/
example (e : RtErr) (st : St) (h : Impl.run Registry.env Ex.ch Ex.doc = (.err e, st)) :
    e ∈ fails Registry.env Ex.ch Ex.doc Ex.doc ∧ depth e ≤ 2 ∧ e.isType = false := by
  have h1 := (C15_sound_built Registry.env ⟨false⟩ Ex.p Ex.ch Ex.built Ex.doc e st h).1
  have h2 := C15_deepest_built Registry.env ⟨false⟩ .root _ [] Ex.ch Ex.texts Ex.built Ex.doc e st h
  have h3 := C15_nontype_preferred_built Registry.env ⟨false⟩ .root _ [] Ex.ch Ex.texts Ex.built Ex.doc e st h
  rw [Ex.failures] at h2 h3
  exact ⟨h1, h2 (.member Ex.ib) (by simp), h3 ⟨.member Ex.ib, by simp, by decide, rfl⟩⟩

/-- non-vacuity of `C15_single_exact`: `$.a.b` on `{"a":1}` — one failure, the type error at `.b` -/
example :
    let ch : List N := [.child ⟨".a", ".a.b", false, false⟩ "a", .child ⟨".b", ".b", false, false⟩ "b"]
    let d : Val := .obj [("a", .num 1)]
    wfChain Registry.env ch = true ∧ singleChain ch = true ∧ noAfn ch = true ∧
      fails Registry.env ch d d = [.type ⟨".b", ".b", false, false⟩ "object" "float64"] ∧
      ∃ st, Impl.run Registry.env ch d = (.err (.type ⟨".b", ".b", false, false⟩ "object" "float64"), st) := by
  refine ⟨by decide, by decide, by decide, rfl, ?_⟩
  apply run_eq
  simp [Impl.run, retrieve, Val.lookup, typeErr, ext]
  rfl

/-- non-vacuity with an aggregate function: what `Parse("$[*].a.max()")` builds, on `[{"b":1},2]`.
    `ConnOK (flat ch)` holds (the parameter chain `[*] .a` is written before `.max()`), the
    parameter chain fails twice at `.a` — member on `{"b":1}`, type on `2` — and the aggregate
    passes the member error on -/
example :
    let iw : Info := ⟨"[*]", "[*].a.max()", true, false⟩
    let ia : Info := ⟨".a", ".a.max()", false, false⟩
    let im : Info := ⟨".max()", ".max()", false, false⟩
    let ch : List N := [.afn im "max" [.wild iw, .child ia "a"]]
    let d : Val := .arr [.obj [("b", .num 1)], .num 2]
    Build.build Registry.env ⟨false⟩ (.mk .root [.wild "[*]", .child ".a" "a"] [.afn ".max()" "max"]) = .ok ch ∧
      wfChain Registry.env ch = true ∧ ConnOK (flat ch) ∧ noAfn ch = false ∧
      fails Registry.env ch d d = [.member ia, .type ia "object" "float64"] ∧
      ∃ st, Impl.run Registry.env ch d = (.err (.member ia), st) := by
  refine ⟨?_, by decide, ⟨by decide, by decide, by decide⟩, by decide, rfl, ?_⟩
  · simp [Build.build, Build.buildPath, Build.stepsPre, Build.stepPre, Build.mkInfos, Build.assemble, Build.finish,
      Build.deleteHead, Build.markVg, Build.suffixTexts, Build.lastAfnIdx, Build.fnPre,
      Pre.text, Pre.isAfn, N.info, N.setVg, bind, Except.bind, List.zipIdx, Registry.env, Registry.afn]
    decide
  · apply run_eq
    simp [Impl.run, retrieve, Val.lookup, loopAcc, stepAcc, addDeepest, endGroup, finishGroup, typeErr,
      ext, bind, Except.bind, List.zipIdx, RtErr.info, RtErr.isType, St.sub, St.back]

/-! ### `CE.ConnOK ch` alone is not enough when the chain holds an aggregate function

`CE.ConnOK` speaks about the top-level nodes of the chain; the parameter chain of an aggregate
is out of its sight. A tree whose aggregate parameter has a node with an EMPTY connected text
(length 0 is "unset" for `addDeepest`) reports an error that is not the deepest. `Parse` never
builds such a tree (`build_connOK_flat`); the corrected side condition is `ConnOK (flat ch)`. -/

def C15_deepest_full : Prop :=
  ∀ (env : Env) (ch : List N), wfChain env ch = true → ConnOK ch →
    ∀ (d : Val) (e : RtErr) (st : St), Impl.run env ch d = (.err e, st) →
      ∀ f ∈ fails env ch d d, depth e ≤ depth f

namespace Cex
def iw : Info := ⟨"[*]", "[*]123", true, false⟩
def ik : Info := ⟨".a", "", false, false⟩
def im : Info := ⟨".b", ".b123", false, false⟩
def iaf : Info := ⟨".max()", ".max()", false, false⟩
def ch : List N := [.afn iaf "max" [.wild iw, .child ik "a", .child im "b"]]
def doc : Val := .arr [.obj [], .obj [("a", .obj [])]]

theorem failures : fails Registry.env ch doc doc = [.member ik, .member im] := rfl

theorem reported : ∃ st, Impl.run Registry.env ch doc = (.err (.member im), st) := by
  apply run_eq
  simp [Impl.run, retrieve, ch, doc, Val.lookup, loopAcc, stepAcc, addDeepest, endGroup, finishGroup,
    ext, bind, Except.bind, List.zipIdx, RtErr.info, ik, im, iw, St.sub, St.back]
end Cex

theorem C15_deepest_full_false : ¬ C15_deepest_full := by
  intro h
  obtain ⟨st, hr⟩ := Cex.reported
  have := h Registry.env Cex.ch (by decide) ⟨by decide, by decide, by decide⟩ Cex.doc _ st hr
    (.member Cex.ik) (by rw [Cex.failures]; simp)
  revert this
  decide

end C15
end JPV

-- OBLIGATIONS: C15_sound C15_names_step C15_deepest C15_nontype_preferred C15_single_exact_deep C15_single_exact C15_deepest_noAfn C15_sound_built C15_deepest_built C15_nontype_preferred_built C15_single_exact_built C15_depth_is_position_built C15_deepest_full_false
