/-
C18Spell — C18 at the level of STRINGS: every spelling the grammar declares insignificant parses to the
same tree, up to the texts the library records per step.

  `Spell.SPath`   (JPV/Spell.lean) abstract paths with every spelling choice of the grammar
                  /repo/jsonpath.peg and of the renderers /verif/harness/jph/ast.go, c18.go: blanks at all
                  `space` positions, quote kinds, integer / number-literal texts, `.name`/`['name']`/`["name"]`,
                  `.*`/`[*]`, `true/True/TRUE` …, redundant parentheses, `[1:2:]`, omitted `$`;
  `Spell.print`   the string; `SPath.erase` the abstract path the string is a spelling OF;
  `Peg.parseModel` `Parse` as a function of the string (PEG interpreter on the grammar REGENERATED from
                  /repo/jsonpath.peg + the 46-action stack machine).

Theorems (for spelled paths in the decidable domain `inDomain` = `Spell.wf` and no `[1:2:]`):

  `SpellParse_exact`          `Parse (print a)` answers what `Build.build` answers on `Spell.texts a` — the abstract
                              path with the texts recorded for THIS spelling —, syntax errors at some position;
  `C18_spellings_parse_same`  two spellings `a b` of the same abstract path (`a.erase = b.erase`) parse to trees that
                              are equal up to recorded texts (`eraseTexts`), or both fail: with
                              `ErrorFunctionNotFound` of the same function text, or with `ErrorInvalidSyntax` with
                              the same reason;
  `C18_spelling_C01`          whatever tree `Parse` returns for a spelling `a`, evaluating it on a canonical document
                              gives exactly what the specification selects for `a.erase` (C01 through the chain
                              parse = build, `C01_refines`, `C18_text_irrelevant_spec`);
  `C18_spellings_same_values` hence both spellings return the same values on every canonical document, or both fail.

All full-strength statements hold (`SpellParse_full_holds`, `C18_spellings_parse_same_full_holds`,
`C18_spellings_same_values_full_holds`): every spelling choice of `SPath`. One spelling is special: `[1:2:]` (two
colons, no step). For it the statement about TREES is false as it stands — `Parse` keeps the information that the
step was omitted (`colon_tree_differs`) — and true up to that one flag (`normCh`, `SpellParse_norm`,
`C18_spellings_parse_same_norm`); evaluation ignores the flag (`SP.refines_of_norm`), so the statement about VALUES
holds for it too.
-/
import JPV.Lemmas.SpellSimN
import JPV.Lemmas.SpellNormSem
import JPV.Lemmas.SpellErase
import JPV.Props.C01
import JPV.Props.C18
import JPV.Peg.ExtDriver
namespace JPV
namespace C18Spell
open JPV.Peg JPV.Spell JPV.SP JPV.PP

/-- the two outcomes are the same up to recorded texts: trees equal once `text`/`connectedText` are blanked;
    `ErrorFunctionNotFound` of the same function text; `ErrorInvalidSyntax` with the same reason (position and
    `near` differ by spelling).
    (An inductive predicate, not a function by cases: elaborating an application of a theorem whose conclusion
    is a function by cases on `parseModel …` of a CLOSED path makes Lean evaluate the parser.) -/
inductive SameOutcome : ParseOutcome → ParseOutcome → Prop
  | ok (ch ch' : List N) (h : eraseTexts ch = eraseTexts ch') : SameOutcome (.ok ch) (.ok ch')
  | functionNotFound (t : String) : SameOutcome (.functionNotFound t) (.functionNotFound t)
  | syntaxErr (pos pos' : Nat) (reason near near' : String) :
    SameOutcome (.syntaxErr pos reason near) (.syntaxErr pos' reason near')

/-- what `Parse` answers for an answer of `Build`: the tree, `ErrorFunctionNotFound`, or `ErrorInvalidSyntax`
    with the reason of the error, somewhere -/
inductive AgreesWithBuild : Except ParseErr (List N) → ParseOutcome → Prop
  | ok (ch : List N) : AgreesWithBuild (.ok ch) (.ok ch)
  | functionNotFound (t : String) : AgreesWithBuild (.error (.funcNotFound t)) (.functionNotFound t)
  | valueGroup (pos : Nat) (near : String) :
    AgreesWithBuild (.error .valueGroupOperand) (.syntaxErr pos Reason.filterValueGroup.msg near)
  | twoCurrentNodes (pos : Nat) (near : String) :
    AgreesWithBuild (.error .twoCurrentNodes) (.syntaxErr pos Reason.twoCurrentNode.msg near)

/-- the decidable domain of the theorems: well-formed spelled paths (`Spell.wf`) without a slice `[1:2:]`
    (`Spell.noColon`, see `colon_tree_differs`). The leading `$` may be omitted (in front of a name, `*`, a
    bracket — also a filter `[?(…)]`). -/
def inDomain (a : SPath) : Bool := Spell.wf a && Spell.noColon a

/-! ### the full-strength statements -/

/-- parse ∘ print = build ∘ texts for every well-formed spelled path without `[1:2:]` -/
def SpellParse_full : Prop :=
  ∀ (env : Env) (ext : Peg.Ext) (cfg : Cfg) (a : SPath), Spell.wf a = true → Spell.noColon a = true →
    ExtOKS ext a → EnvOKS env a →
    AgreesWithBuild (Build.build env cfg (Spell.texts a)) (parseModel env ext cfg (Spell.printS a))

/-- every spelling parses to the same tree up to recorded texts — all spelling choices of `SPath` except `[1:2:]` -/
def C18_spellings_parse_same_full : Prop :=
  ∀ (env : Env) (ext : Peg.Ext) (cfg : Cfg) (a b : SPath), Spell.wf a = true → Spell.wf b = true →
    Spell.noColon a = true → Spell.noColon b = true →
    ExtOKS ext a → ExtOKS ext b → EnvOKS env a → EnvOKS env b → a.erase = b.erase →
    SameOutcome (parseModel env ext cfg (Spell.printS a)) (parseModel env ext cfg (Spell.printS b))

/-- the values `Retrieve` returns with the tree `ch`; `none`: any error -/
def runVals (env : Env) (ch : List N) (d : Val) : Option (List Val) :=
  match (Impl.run env ch d).1 with
  | .ok rs => some (rs.map Impl.Res.val)
  | _ => none

/-- every spelling returns the same values — ALL spelling choices of `SPath`, `[1:2:]` included -/
def C18_spellings_same_values_full : Prop :=
  ∀ (env : Env) (ext : Peg.Ext) (cfg : Cfg) (a b : SPath), Spell.wf a = true → Spell.wf b = true →
    ExtOKS ext a → ExtOKS ext b → EnvOKS env a → EnvOKS env b → a.erase = b.erase →
    ∀ (cha chb : List N), parseModel env ext cfg (Spell.printS a) = .ok cha →
      parseModel env ext cfg (Spell.printS b) = .ok chb →
      ∀ d : Val, d.wf = true → runVals env cha d = runVals env chb d

/-! ### parse ∘ print = build ∘ texts -/

theorem inDomain_iff (a : SPath) : inDomain a = true ↔ Spell.wf a = true ∧ Spell.noColon a = true := by
  simp only [inDomain, Bool.and_eq_true]

theorem agrees_of_outcome (input : Array Char) (pos : Nat) (b : Except ParseErr (List N)) :
    AgreesWithBuild b (outcomeOfBuild input pos b) := by
  cases b with
  | ok ch => exact .ok ch
  | error e =>
    cases e with
    | funcNotFound t => exact .functionNotFound t
    | valueGroupOperand => exact .valueGroup pos _
    | twoCurrentNodes => exact .twoCurrentNodes pos _

/-- **parse ∘ print = build ∘ texts** on the domain: what `Parse` does with the string `print a` is what
    `Build.build` does with the abstract path `texts a` -/
theorem SpellParse_exact (env : Env) (ext : Peg.Ext) (cfg : Cfg) (a : SPath) (ha : inDomain a = true)
    (hext : ExtOKS ext a) (henv : EnvOKS env a) :
    AgreesWithBuild (Build.build env cfg (Spell.texts a)) (parseModel env ext cfg (Spell.printS a)) := by
  obtain ⟨hwf, hnc⟩ := (inDomain_iff a).mp ha
  obtain ⟨pos, h⟩ := spell_parse_exact_all env ext cfg a hwf hnc hext henv
  rw [h]
  exact agrees_of_outcome _ _ _

/-- the success case spelled out -/
theorem SpellParse_ok (env : Env) (ext : Peg.Ext) (cfg : Cfg) (a : SPath) (ha : inDomain a = true)
    (hext : ExtOKS ext a) (henv : EnvOKS env a) (ch : List N)
    (hparse : parseModel env ext cfg (Spell.printS a) = .ok ch) :
    Build.build env cfg (Spell.texts a) = .ok ch := by
  have h := SpellParse_exact env ext cfg a ha hext henv
  rw [hparse] at h
  generalize Build.build env cfg (Spell.texts a) = b at h
  cases h
  rfl

/-! ### every spelling parses to the same tree -/

theorem same_of_agrees {b b' : Except ParseErr (List N)} {o o' : ParseOutcome} (hr : ChRel b b')
    (h : AgreesWithBuild b o) (h' : AgreesWithBuild b' o') : SameOutcome o o' := by
  cases h with
  | ok ch =>
    cases h' with
    | ok ch' => exact .ok ch ch' hr
    | functionNotFound t => exact hr.elim
    | valueGroup pos near => exact hr.elim
    | twoCurrentNodes pos near => exact hr.elim
  | functionNotFound t =>
    cases h' with
    | ok ch' => exact hr.elim
    | functionNotFound t' =>
      have he : ParseErr.funcNotFound t = .funcNotFound t' := hr
      cases he
      exact .functionNotFound t
    | valueGroup pos near => cases (hr : ParseErr.funcNotFound t = .valueGroupOperand)
    | twoCurrentNodes pos near => cases (hr : ParseErr.funcNotFound t = .twoCurrentNodes)
  | valueGroup pos near =>
    cases h' with
    | ok ch' => exact hr.elim
    | functionNotFound t' => cases (hr : ParseErr.valueGroupOperand = .funcNotFound t')
    | valueGroup pos' near' => exact .syntaxErr _ _ _ _ _
    | twoCurrentNodes pos' near' => cases (hr : ParseErr.valueGroupOperand = .twoCurrentNodes)
  | twoCurrentNodes pos near =>
    cases h' with
    | ok ch' => exact hr.elim
    | functionNotFound t' => cases (hr : ParseErr.twoCurrentNodes = .funcNotFound t')
    | valueGroup pos' near' => cases (hr : ParseErr.twoCurrentNodes = .valueGroupOperand)
    | twoCurrentNodes pos' near' => exact .syntaxErr _ _ _ _ _

/-- **C18 for strings**: two spellings of the same abstract path parse to trees that are equal up to the
    recorded texts, or both fail with the same kind of error -/
theorem C18_spellings_parse_same (env : Env) (ext : Peg.Ext) (cfg : Cfg) (a b : SPath)
    (ha : inDomain a = true) (hb : inDomain b = true)
    (hexta : ExtOKS ext a) (hextb : ExtOKS ext b) (henva : EnvOKS env a) (henvb : EnvOKS env b)
    (h : a.erase = b.erase) :
    SameOutcome (parseModel env ext cfg (Spell.printS a)) (parseModel env ext cfg (Spell.printS b)) :=
  same_of_agrees (build_same env cfg _ _ (stripS_texts a b h))
    (SpellParse_exact env ext cfg a ha hexta henva) (SpellParse_exact env ext cfg b hb hextb henvb)

/-- the full-strength statement about `Parse` and `Build` holds -/
theorem SpellParse_full_holds : SpellParse_full := by
  intro env ext cfg a hwf hnc hext henv
  exact SpellParse_exact env ext cfg a ((inDomain_iff a).mpr ⟨hwf, hnc⟩) hext henv

/-- the full-strength statement about trees holds -/
theorem C18_spellings_parse_same_full_holds : C18_spellings_parse_same_full := by
  intro env ext cfg a b hwa hwb hna hnb hea heb hva hvb h
  exact C18_spellings_parse_same env ext cfg a b ((inDomain_iff a).mpr ⟨hwa, hna⟩) ((inDomain_iff b).mpr ⟨hwb, hnb⟩)
    hea heb hva hvb h

/-! ### … and returns the same values -/

mutual
theorem strip_idem_step : (s : Step) → C18.stripStep (C18.stripStep s) = C18.stripStep s
  | .child t k => rfl
  | .wild t => rfl
  | .multi t ns => rfl
  | .union t ss => rfl
  | .filter t q => by rw [C18.stripStep, C18.stripStep, strip_idem_query q]
  | .desc s => by rw [C18.stripStep, C18.stripStep, strip_idem_step s]
theorem strip_idem_steps : (ss : List Step) → C18.stripSteps (C18.stripSteps ss) = C18.stripSteps ss
  | [] => rfl
  | s :: ss => by rw [C18.stripSteps, C18.stripSteps, strip_idem_step s, strip_idem_steps ss]
theorem strip_idem_query : (q : Query) → C18.stripQuery (C18.stripQuery q) = C18.stripQuery q
  | .or a b => by rw [C18.stripQuery, C18.stripQuery, strip_idem_query a, strip_idem_query b]
  | .and a b => by rw [C18.stripQuery, C18.stripQuery, strip_idem_query a, strip_idem_query b]
  | .exist n p => by rw [C18.stripQuery, C18.stripQuery, strip_idem_path p]
  | .cmp op l r => by rw [C18.stripQuery, C18.stripQuery, strip_idem_operand l, strip_idem_operand r]
  | .regex p re => by rw [C18.stripQuery, C18.stripQuery, strip_idem_path p]
theorem strip_idem_operand : (o : Operand) → C18.stripOperand (C18.stripOperand o) = C18.stripOperand o
  | .lit l => rfl
  | .path p => by rw [C18.stripOperand, C18.stripOperand, strip_idem_path p]
theorem strip_idem_path : (p : Path) → C18.stripPath (C18.stripPath p) = C18.stripPath p
  | .mk h ss fns => by
    rw [C18.stripPath, C18.stripPath, strip_idem_steps ss, List.map_map]
    congr 1
    apply List.map_congr_left
    intro f _
    cases f <;> rfl
end

/-- the specification does not see the recorded texts: `texts a` selects what `a.erase` selects -/
theorem spec_texts (env : Env) (a : SPath) (d : Val) : Spec.run env (Spell.texts a) d = Spec.run env a.erase d := by
  apply C18.C18_text_irrelevant_spec
  rw [← strip_texts a, strip_idem_path]

/-- **C01 for spelled strings**: whatever tree `Parse` returns for the spelling `a`, evaluating it on a
    canonical document gives exactly the values the specification selects for the abstract path `a.erase`
    (or both report no result) -/
theorem C18_spelling_C01 (env : Env) (ext : Peg.Ext) (cfg : Cfg) (a : SPath) (ha : inDomain a = true)
    (hext : ExtOKS ext a) (henv : EnvOKS env a) (ch : List N)
    (hparse : parseModel env ext cfg (Spell.printS a) = .ok ch) (d : Val) (hd : d.wf = true) :
    (∃ vs rs st, Spec.run env a.erase d = some vs ∧ Impl.run env ch d = (.ok rs, st) ∧
        rs.map Impl.Res.val = vs ∧ vs ≠ []) ∨
    (∃ e st, Spec.run env a.erase d = none ∧ Impl.run env ch d = (.err e, st)) := by
  have hb := SpellParse_ok env ext cfg a ha hext henv ch hparse
  have := C01.C01_refines env cfg (Spell.texts a) ch d hb hd
  rw [spec_texts] at this
  exact this

theorem runVals_eq_spec (env : Env) (ext : Peg.Ext) (cfg : Cfg) (a : SPath) (ha : inDomain a = true)
    (hext : ExtOKS ext a) (henv : EnvOKS env a) (ch : List N)
    (hparse : parseModel env ext cfg (Spell.printS a) = .ok ch) (d : Val) (hd : d.wf = true) :
    runVals env ch d = Spec.run env a.erase d := by
  unfold runVals
  rcases C18_spelling_C01 env ext cfg a ha hext henv ch hparse d hd with ⟨vs, rs, st, hs, hr, hv, _⟩ | ⟨e, st, hs, hr⟩
  · simp [hr, hs, hv]
  · simp [hr, hs]

/-- **both spellings return the same values on every canonical document, or both fail** -/
theorem C18_spellings_same_values (env : Env) (ext : Peg.Ext) (cfg : Cfg) (a b : SPath)
    (ha : inDomain a = true) (hb : inDomain b = true)
    (hexta : ExtOKS ext a) (hextb : ExtOKS ext b) (henva : EnvOKS env a) (henvb : EnvOKS env b)
    (h : a.erase = b.erase) (cha chb : List N)
    (hpa : parseModel env ext cfg (Spell.printS a) = .ok cha)
    (hpb : parseModel env ext cfg (Spell.printS b) = .ok chb) (d : Val) (hd : d.wf = true) :
    runVals env cha d = runVals env chb d := by
  rw [runVals_eq_spec env ext cfg a ha hexta henva cha hpa d hd,
    runVals_eq_spec env ext cfg b hb hextb henvb chb hpb d hd, h]


/-! ### `[1:2:]` too: everything up to the `omitted` flag of slice steps

`normCh` (JPV/Lemmas/SpellNormDefs.lean) clears the `omitted` flag of every slice step of a tree — the one field
in which the tree `Parse` builds for `[1:2:]` differs from the tree for `[1:2]`. No evaluation function reads it
(`SP.den_norm`, `SP.refines_of_norm`), the action machine commutes with clearing it (`SP.execFrom_norm`), and up
to it parse ∘ print = build ∘ texts holds for EVERY well-formed spelled path (`SP.spell_parse_norm_all`). -/

/-- as `AgreesWithBuild`, the tree compared after `normCh` -/
inductive AgreesWithBuildN : Except ParseErr (List N) → ParseOutcome → Prop
  | ok (ch ch' : List N) (h : normCh ch' = ch) : AgreesWithBuildN (.ok ch) (.ok ch')
  | functionNotFound (t : String) : AgreesWithBuildN (.error (.funcNotFound t)) (.functionNotFound t)
  | valueGroup (pos : Nat) (near : String) :
    AgreesWithBuildN (.error .valueGroupOperand) (.syntaxErr pos Reason.filterValueGroup.msg near)
  | twoCurrentNodes (pos : Nat) (near : String) :
    AgreesWithBuildN (.error .twoCurrentNodes) (.syntaxErr pos Reason.twoCurrentNode.msg near)

/-- as `SameOutcome`, the trees compared after `normCh` -/
inductive SameOutcomeN : ParseOutcome → ParseOutcome → Prop
  | ok (ch ch' : List N) (h : eraseTexts (normCh ch) = eraseTexts (normCh ch')) : SameOutcomeN (.ok ch) (.ok ch')
  | functionNotFound (t : String) : SameOutcomeN (.functionNotFound t) (.functionNotFound t)
  | syntaxErr (pos pos' : Nat) (reason near near' : String) :
    SameOutcomeN (.syntaxErr pos reason near) (.syntaxErr pos' reason near')

theorem agreesN_of_outcome (input : Array Char) (pos : Nat) (b : Except ParseErr (List N)) (o : ParseOutcome)
    (h : normOutcome o = outcomeOfBuild input pos b) : AgreesWithBuildN b o := by
  cases b with
  | ok ch =>
    cases o with
    | ok ch' =>
      have : ParseOutcome.ok (normCh ch') = .ok ch := h
      cases this
      exact .ok _ ch' rfl
    | _ => cases h
  | error e =>
    cases e with
    | funcNotFound t =>
      cases o with
      | functionNotFound t' =>
        have : ParseOutcome.functionNotFound t' = .functionNotFound t := h
        cases this
        exact .functionNotFound t
      | _ => cases h
    | valueGroupOperand =>
      cases o with
      | syntaxErr p r n =>
        have : ParseOutcome.syntaxErr p r n = .syntaxErr pos Reason.filterValueGroup.msg (nearOf input pos) := h
        cases this
        exact .valueGroup pos _
      | _ => cases h
    | twoCurrentNodes =>
      cases o with
      | syntaxErr p r n =>
        have : ParseOutcome.syntaxErr p r n = .syntaxErr pos Reason.twoCurrentNode.msg (nearOf input pos) := h
        cases this
        exact .twoCurrentNodes pos _
      | _ => cases h

/-- **parse ∘ print = build ∘ texts up to the `omitted` flag of slice steps, for EVERY well-formed spelled path** -/
theorem SpellParse_norm (env : Env) (ext : Peg.Ext) (cfg : Cfg) (a : SPath) (hwf : Spell.wf a = true)
    (hext : ExtOKS ext a) (henv : EnvOKS env a) :
    AgreesWithBuildN (Build.build env cfg (Spell.texts a)) (parseModel env ext cfg (Spell.printS a)) := by
  obtain ⟨pos, h⟩ := spell_parse_norm_all env ext cfg a hwf hext henv
  exact agreesN_of_outcome _ pos _ _ h

theorem sameN_of_agrees {b b' : Except ParseErr (List N)} {o o' : ParseOutcome} (hr : ChRel b b')
    (h : AgreesWithBuildN b o) (h' : AgreesWithBuildN b' o') : SameOutcomeN o o' := by
  cases h with
  | ok ch c1 h1 =>
    cases h' with
    | ok ch' c2 h2 =>
      refine .ok c1 c2 ?_
      rw [h1, h2]
      exact hr
    | functionNotFound t => exact hr.elim
    | valueGroup pos near => exact hr.elim
    | twoCurrentNodes pos near => exact hr.elim
  | functionNotFound t =>
    cases h' with
    | ok ch' c2 h2 => exact hr.elim
    | functionNotFound t' =>
      have he : ParseErr.funcNotFound t = .funcNotFound t' := hr
      cases he
      exact .functionNotFound t
    | valueGroup pos near => cases (hr : ParseErr.funcNotFound t = .valueGroupOperand)
    | twoCurrentNodes pos near => cases (hr : ParseErr.funcNotFound t = .twoCurrentNodes)
  | valueGroup pos near =>
    cases h' with
    | ok ch' c2 h2 => exact hr.elim
    | functionNotFound t' => cases (hr : ParseErr.valueGroupOperand = .funcNotFound t')
    | valueGroup pos' near' => exact .syntaxErr _ _ _ _ _
    | twoCurrentNodes pos' near' => cases (hr : ParseErr.valueGroupOperand = .twoCurrentNodes)
  | twoCurrentNodes pos near =>
    cases h' with
    | ok ch' c2 h2 => exact hr.elim
    | functionNotFound t' => cases (hr : ParseErr.twoCurrentNodes = .funcNotFound t')
    | valueGroup pos' near' => cases (hr : ParseErr.twoCurrentNodes = .valueGroupOperand)
    | twoCurrentNodes pos' near' => exact .syntaxErr _ _ _ _ _

/-- **every spelling — `[1:2:]` included — parses to the same tree up to recorded texts and the `omitted` flag of
    slice steps**, or both fail with the same kind of error -/
theorem C18_spellings_parse_same_norm (env : Env) (ext : Peg.Ext) (cfg : Cfg) (a b : SPath)
    (hwa : Spell.wf a = true) (hwb : Spell.wf b = true)
    (hexta : ExtOKS ext a) (hextb : ExtOKS ext b) (henva : EnvOKS env a) (henvb : EnvOKS env b)
    (h : a.erase = b.erase) :
    SameOutcomeN (parseModel env ext cfg (Spell.printS a)) (parseModel env ext cfg (Spell.printS b)) :=
  sameN_of_agrees (build_same env cfg _ _ (stripS_texts a b h))
    (SpellParse_norm env ext cfg a hwa hexta henva) (SpellParse_norm env ext cfg b hwb hextb henvb)

/-- **C01 for EVERY spelled string** (no `noColon`) -/
theorem C18_spelling_C01_all (env : Env) (ext : Peg.Ext) (cfg : Cfg) (a : SPath) (hwf : Spell.wf a = true)
    (hext : ExtOKS ext a) (henv : EnvOKS env a) (ch : List N)
    (hparse : parseModel env ext cfg (Spell.printS a) = .ok ch) (d : Val) (hd : d.wf = true) :
    (∃ vs rs st, Spec.run env a.erase d = some vs ∧ Impl.run env ch d = (.ok rs, st) ∧
        rs.map Impl.Res.val = vs ∧ vs ≠ []) ∨
    (∃ e st, Spec.run env a.erase d = none ∧ Impl.run env ch d = (.err e, st)) := by
  have h := SpellParse_norm env ext cfg a hwf hext henv
  rw [hparse] at h
  generalize hb : Build.build env cfg (Spell.texts a) = b at h
  cases h with
  | ok ch0 _ hn =>
    have := refines_of_norm env cfg (Spell.texts a) ch d (by rw [hb, hn]) hd
    rw [spec_texts] at this
    exact this

/-- **the full-strength statement about values holds**: every spelling choice of `SPath`, `[1:2:]` included -/
theorem C18_spellings_same_values_full_holds : C18_spellings_same_values_full := by
  intro env ext cfg a b hwa hwb hea heb hva hvb h cha chb hpa hpb d hd
  have key : ∀ (x : SPath) (hw : Spell.wf x = true) (he : ExtOKS ext x) (hv : EnvOKS env x) (ch : List N)
      (hp : parseModel env ext cfg (Spell.printS x) = .ok ch), runVals env ch d = Spec.run env x.erase d := by
    intro x hw he hv ch hp
    unfold runVals
    rcases C18_spelling_C01_all env ext cfg x hw he hv ch hp d hd with ⟨vs, rs, st, hs, hr, hvv, _⟩ | ⟨e, st, hs, hr⟩
    · simp [hr, hs, hvv]
    · simp [hr, hs]
  rw [key a hwa hea hva cha hpa, key b hwb heb hvb chb hpb, h]

/-! ### the hypotheses are satisfiable: concrete spellings -/

/-- one filter function `f` -/
def exEnv : Env :=
  { ffn := fun n => if n = "f" then some (fun v => some v) else none,
    afn := fun _ => none,
    regex := fun _ _ => true }

/-- the executable `driverExt` (models of Atoi and of the three unescape routines, JPV/Peg/ExtDriver.lean) with
    `ParseFloat` reading `1.0` as 1 and integer spellings as `Atoi` does -/
def exExt : Peg.Ext :=
  { driverExt with
    parseFloat := fun s => if s = "1.0" then .ok 1 else
      match atoiModel s with | some n => .ok n | none => .err }

/-- ` $[ 'a' , "b" ][ 01 : +2 ]  ` -/
def exA : SPath := ⟨1, true,
  [.multi 1 (.key .sq "a") [(1, 1, .key .dq "b")] 1,
   .union 1 (.slice (some ⟨1, .pos0, ['0', '1']⟩) 1 1 (some ⟨2, .plus, ['2']⟩) .absent) [] 1], [], 2⟩

/-- `$['a','b'][1:2]` -/
def exB : SPath := ⟨0, true,
  [.multi 0 (.key .sq "a") [(0, 0, .key .sq "b")] 0,
   .union 0 (.slice (some ⟨1, .pos0, ['1']⟩) 0 0 (some ⟨2, .pos0, ['2']⟩) .absent) [] 0], [], 0⟩

example : Spell.print exA = " $[ 'a' , \"b\" ][ 01 : +2 ]  ".toList := by decide
example : Spell.print exB = "$['a','b'][1:2]".toList := by decide

theorem exA_dom : inDomain exA = true := by decide
theorem exB_dom : inDomain exB = true := by decide
theorem exAB_erase : exA.erase = exB.erase := rfl

theorem exA_ext : ExtOKS exExt exA := by
  simp only [ExtOKS, exA, stepsExtS, stepExtS, nameOKS, keyOKS, subOKS, optOKS, tailOKS, intOKS, and_true,
    List.mem_cons, List.not_mem_nil, or_false, forall_eq, false_implies, implies_true]
  decide

theorem exB_ext : ExtOKS exExt exB := by
  simp only [ExtOKS, exB, stepsExtS, stepExtS, nameOKS, keyOKS, subOKS, optOKS, tailOKS, intOKS, and_true,
    List.mem_cons, List.not_mem_nil, or_false, forall_eq, false_implies, implies_true]
  decide

theorem exA_env (env : Env) : EnvOKS env exA := by simp [EnvOKS, exA, stepsEnvS, stepEnvS]
theorem exB_env (env : Env) : EnvOKS env exB := by simp [EnvOKS, exB, stepsEnvS, stepEnvS]

/-- the theorem applied: ` $[ 'a' , "b" ][ 01 : +2 ]  ` and `$['a','b'][1:2]` parse to the same tree up to texts -/
example (env : Env) (cfg : Cfg) :
    SameOutcome (parseModel env exExt cfg (Spell.printS exA)) (parseModel env exExt cfg (Spell.printS exB)) :=
  C18_spellings_parse_same env exExt cfg exA exB exA_dom exB_dom exA_ext exB_ext (exA_env env) (exB_env env) exAB_erase

/-- `$[ ?( @.a  == 1.0 || ( ! @[* ]&& +2<$ )  )].f()` -/
def exC : SPath := ⟨0, true,
  [.filter 1 1 (.or (.cmp .eq (.path (.mk .cur [.child .dot "a"] [])) 2 1 (.lit (.num 1 .pos0 '1' ['.', '0']))) 1 1
      (.paren 1 (.and (.exist (some 1) (.mk .cur [.wild (.br 0 1)] [])) 0 1
        (.cmp .lt (.lit (.num 2 .plus '2' [])) 0 0 (.path (.mk .root [] [])))) 1)) 2 0],
  [.ffn "" "f"], 0⟩

/-- `$[?(@["a"]==1||!@.*&&2<$)].f()` -/
def exD : SPath := ⟨0, true,
  [.filter 0 0 (.or (.cmp .eq (.path (.mk .cur [.child (.br 0 .dq 0) "a"] [])) 0 0 (.lit (.num 1 .pos0 '1' []))) 0 0
      (.and (.exist (some 0) (.mk .cur [.wild .dot] [])) 0 0
        (.cmp .lt (.lit (.num 2 .pos0 '2' [])) 0 0 (.path (.mk .root [] []))))) 0 0],
  [.ffn "" "f"], 0⟩

example : Spell.print exC = "$[ ?( @.a  == 1.0 || ( ! @[* ]&& +2<$ )  )].f()".toList := by decide
example : Spell.print exD = "$[?(@[\"a\"]==1||!@.*&&2<$)].f()".toList := by decide

theorem exC_dom : inDomain exC = true := by decide
theorem exD_dom : inDomain exD = true := by decide
theorem exCD_erase : exC.erase = exD.erase := rfl

theorem exC_ext : ExtOKS exExt exC := by
  simp only [ExtOKS, exC, stepsExtS, stepExtS, queryExtS, operandExtS, opathExtS, childOKS, litOKS, and_true, true_and]
  decide

theorem exD_ext : ExtOKS exExt exD := by
  simp only [ExtOKS, exD, stepsExtS, stepExtS, queryExtS, operandExtS, opathExtS, childOKS, keyOKS, litOKS, and_true,
    true_and]
  decide

theorem exC_env : EnvOKS exEnv exC := by
  simp [EnvOKS, exC, stepsEnvS, stepEnvS, queryEnvS, operandEnvS, opathEnvS, fnKindOK, exEnv]
theorem exD_env : EnvOKS exEnv exD := by
  simp [EnvOKS, exD, stepsEnvS, stepEnvS, queryEnvS, operandEnvS, opathEnvS, fnKindOK, exEnv]

/-- the theorems applied to a filter with blanks, `1.0`/`1`, `+2`/`2`, `.a`/`["a"]`, `[* ]`/`.*`, redundant
    parentheses: same tree up to texts, same values on every canonical document -/
example (cfg : Cfg) :
    SameOutcome (parseModel exEnv exExt cfg (Spell.printS exC)) (parseModel exEnv exExt cfg (Spell.printS exD)) :=
  C18_spellings_parse_same exEnv exExt cfg exC exD exC_dom exD_dom exC_ext exD_ext exC_env exD_env exCD_erase

example (cfg : Cfg) (cha chb : List N) (ha : parseModel exEnv exExt cfg (Spell.printS exC) = .ok cha)
    (hb : parseModel exEnv exExt cfg (Spell.printS exD) = .ok chb) (d : Val) (hd : d.wf = true) :
    runVals exEnv cha d = runVals exEnv chb d :=
  C18_spellings_same_values exEnv exExt cfg exC exD exC_dom exD_dom exC_ext exD_ext exC_env exD_env exCD_erase
    cha chb ha hb d hd

/-- `SpellParse_exact` applied: `Parse` of the string `exC` answers what `Build.build` answers on `texts exC` -/
example (cfg : Cfg) :
    AgreesWithBuild (Build.build exEnv cfg (Spell.texts exC)) (parseModel exEnv exExt cfg (Spell.printS exC)) :=
  SpellParse_exact exEnv exExt cfg exC exC_dom exC_ext exC_env

/-- `C18_spelling_C01` applied: the tree parsed from the string `exC` evaluates to what the specification selects
    for the abstract path `exC.erase` -/
example (cfg : Cfg) (ch : List N) (h : parseModel exEnv exExt cfg (Spell.printS exC) = .ok ch) (d : Val)
    (hd : d.wf = true) :
    (∃ vs rs st, Spec.run exEnv exC.erase d = some vs ∧ Impl.run exEnv ch d = (.ok rs, st) ∧
        rs.map Impl.Res.val = vs ∧ vs ≠ []) ∨
    (∃ e st, Spec.run exEnv exC.erase d = none ∧ Impl.run exEnv ch d = (.err e, st)) :=
  C18_spelling_C01 exEnv exExt cfg exC exC_dom exC_ext exC_env ch h d hd

/-- ` a["b"]` — the leading `$` omitted -/
def exE : SPath := ⟨1, false, [.child .dot "a", .child (.br 0 .dq 0) "b"], [], 0⟩
/-- `$.a.b` -/
def exF : SPath := ⟨0, true, [.child .dot "a", .child .dot "b"], [], 0⟩

example : Spell.print exE = " a[\"b\"]".toList := by decide
theorem exE_dom : inDomain exE = true := by decide
theorem exF_dom : inDomain exF = true := by decide
theorem exEF_erase : exE.erase = exF.erase := rfl
theorem exE_ext : ExtOKS exExt exE := by
  simp only [ExtOKS, exE, stepsExtS, stepExtS, childOKS, keyOKS, and_true]
  decide
theorem exF_ext : ExtOKS exExt exF := by
  simp only [ExtOKS, exF, stepsExtS, stepExtS, childOKS, and_true]
  decide

/-- ` a["b"]` and `$.a.b` parse to the same tree up to texts -/
example (env : Env) (cfg : Cfg) :
    SameOutcome (parseModel env exExt cfg (Spell.printS exE)) (parseModel env exExt cfg (Spell.printS exF)) :=
  C18_spellings_parse_same env exExt cfg exE exF exE_dom exF_dom exE_ext exF_ext
    (by simp [EnvOKS, exE, stepsEnvS, stepEnvS]) (by simp [EnvOKS, exF, stepsEnvS, stepEnvS]) exEF_erase

/-- `[ ?( @.a ) ]` — the leading `$` omitted in front of a filter -/
def exG : SPath := ⟨0, false, [.filter 1 1 (.exist none (.mk .cur [.child .dot "a"] [])) 1 1], [], 0⟩
/-- `$[?(@['a'])]` -/
def exH : SPath := ⟨0, true, [.filter 0 0 (.exist none (.mk .cur [.child (.br 0 .sq 0) "a"] [])) 0 0], [], 0⟩

example : Spell.print exG = "[ ?( @.a ) ]".toList := by decide
theorem exG_dom : inDomain exG = true := by decide
theorem exH_dom : inDomain exH = true := by decide
theorem exGH_erase : exG.erase = exH.erase := rfl
theorem exG_ext : ExtOKS exExt exG := by
  simp only [ExtOKS, exG, stepsExtS, stepExtS, queryExtS, opathExtS, childOKS, and_true]
  decide
theorem exH_ext : ExtOKS exExt exH := by
  simp only [ExtOKS, exH, stepsExtS, stepExtS, queryExtS, opathExtS, childOKS, keyOKS, and_true]
  decide

/-- `[ ?( @.a ) ]` and `$[?(@['a'])]` parse to the same tree up to texts -/
example (env : Env) (cfg : Cfg) :
    SameOutcome (parseModel env exExt cfg (Spell.printS exG)) (parseModel env exExt cfg (Spell.printS exH)) :=
  C18_spellings_parse_same env exExt cfg exG exH exG_dom exH_dom exG_ext exH_ext
    (by simp [EnvOKS, exG, stepsEnvS, stepEnvS, queryEnvS, opathEnvS])
    (by simp [EnvOKS, exH, stepsEnvS, stepEnvS, queryEnvS, opathEnvS]) exGH_erase

/-! ### why `[1:2:]` is excluded: the trees differ in more than the recorded texts -/

/-- the `omitted` flag of the step of the first slice of the first (union) node -/
def stepOmitted : List N → Option Bool
  | .union _ (.slicePos _ _ t :: _) :: _ => some t.omitted
  | _ => none

theorem stepOmitted_erase (ch : List N) : stepOmitted (eraseTexts ch) = stepOmitted ch := by
  unfold eraseTexts
  cases ch with
  | nil => rfl
  | cons n rest =>
    cases n with
    | union i subs =>
      rw [eraseCh, eraseN]
      cases subs with
      | nil => rfl
      | cons x xs => cases x <;> rfl
    | _ => rw [eraseCh, eraseN]; rfl

def outOmitted : ParseOutcome → Option Bool
  | .ok ch => stepOmitted ch
  | _ => none

/-- `$[1:2:]` -/
def exColon : SPath := ⟨0, true,
  [.union 0 (.slice (some ⟨1, .pos0, ['1']⟩) 0 0 (some ⟨2, .pos0, ['2']⟩) (.colon 0 0)) [] 0], [], 0⟩
/-- `$[1:2]` -/
def exNoColon : SPath := ⟨0, true,
  [.union 0 (.slice (some ⟨1, .pos0, ['1']⟩) 0 0 (some ⟨2, .pos0, ['2']⟩) .absent) [] 0], [], 0⟩

example : Spell.print exColon = "$[1:2:]".toList := by decide
example : Spell.wf exColon = true ∧ Spell.noColon exColon = false := by decide
example : exColon.erase = exNoColon.erase := rfl

set_option maxRecDepth 100000 in
theorem colon_omitted : outOmitted (parseModel exEnv exExt ⟨false⟩ (Spell.printS exColon)) = some true := by
  decide +kernel

set_option maxRecDepth 100000 in
theorem noColon_omitted : outOmitted (parseModel exEnv exExt ⟨false⟩ (Spell.printS exNoColon)) = some false := by
  decide +kernel

/-- `$[1:2:]` and `$[1:2]` are spellings of the same abstract path, both parse, but the trees are NOT equal up to
    recorded texts: the first keeps `omitted = true` in the step of the slice (the action of `index` resets the
    number of an omitted step to 1 and leaves the flag), the second has `omitted = false` (`pushIndexSubscript("1")`).
    No evaluation function reads the flag (`Impl.subIndices` reads `t.number` only). -/
theorem colon_tree_differs :
    ¬ SameOutcome (parseModel exEnv exExt ⟨false⟩ (Spell.printS exColon))
        (parseModel exEnv exExt ⟨false⟩ (Spell.printS exNoColon)) := by
  intro h
  have h1 := colon_omitted
  have h2 := noColon_omitted
  generalize parseModel exEnv exExt ⟨false⟩ (Spell.printS exColon) = o at h h1
  generalize parseModel exEnv exExt ⟨false⟩ (Spell.printS exNoColon) = o' at h h2
  cases h with
  | ok ch ch' he =>
    have : stepOmitted ch = stepOmitted ch' := by rw [← stepOmitted_erase ch, he, stepOmitted_erase]
    simp only [outOmitted] at h1 h2
    rw [h1, h2] at this
    cases this
  | functionNotFound t => cases h1
  | syntaxErr _ _ _ _ _ => cases h1


/-- … but `$[1:2:]` and `$[1:2]` return the same values on every canonical document -/
example (cfg : Cfg) (cha chb : List N) (ha : parseModel exEnv exExt cfg (Spell.printS exColon) = .ok cha)
    (hb : parseModel exEnv exExt cfg (Spell.printS exNoColon) = .ok chb) (d : Val) (hd : d.wf = true) :
    runVals exEnv cha d = runVals exEnv chb d :=
  C18_spellings_same_values_full_holds exEnv exExt cfg exColon exNoColon (by decide) (by decide)
    (by simp only [ExtOKS, exColon, stepsExtS, stepExtS, subOKS, optOKS, tailOKS, intOKS, and_true,
          List.not_mem_nil, false_implies, implies_true]
        decide)
    (by simp only [ExtOKS, exNoColon, stepsExtS, stepExtS, subOKS, optOKS, tailOKS, intOKS, and_true,
          List.not_mem_nil, false_implies, implies_true]
        decide)
    (by simp [EnvOKS, exColon, stepsEnvS, stepEnvS]) (by simp [EnvOKS, exNoColon, stepsEnvS, stepEnvS]) rfl
    cha chb ha hb d hd

/-- … and the trees are equal up to recorded texts and that flag -/
example (cfg : Cfg) :
    SameOutcomeN (parseModel exEnv exExt cfg (Spell.printS exColon))
      (parseModel exEnv exExt cfg (Spell.printS exNoColon)) :=
  C18_spellings_parse_same_norm exEnv exExt cfg exColon exNoColon (by decide) (by decide)
    (by simp only [ExtOKS, exColon, stepsExtS, stepExtS, subOKS, optOKS, tailOKS, intOKS, and_true,
          List.not_mem_nil, false_implies, implies_true]
        decide)
    (by simp only [ExtOKS, exNoColon, stepsExtS, stepExtS, subOKS, optOKS, tailOKS, intOKS, and_true,
          List.not_mem_nil, false_implies, implies_true]
        decide)
    (by simp [EnvOKS, exColon, stepsEnvS, stepEnvS]) (by simp [EnvOKS, exNoColon, stepsEnvS, stepEnvS]) rfl

end C18Spell
end JPV

-- OBLIGATIONS: JPV.C18Spell.SpellParse_exact JPV.C18Spell.SpellParse_ok JPV.C18Spell.C18_spellings_parse_same
--   JPV.C18Spell.C18_spelling_C01 JPV.C18Spell.C18_spellings_same_values JPV.C18Spell.spec_texts
--   JPV.C18Spell.exA_dom JPV.C18Spell.exB_dom JPV.C18Spell.exA_ext JPV.C18Spell.exB_ext
--   JPV.C18Spell.exC_dom JPV.C18Spell.exD_dom JPV.C18Spell.exC_ext JPV.C18Spell.exD_ext JPV.C18Spell.exC_env
--   JPV.C18Spell.exD_env JPV.C18Spell.exE_dom JPV.C18Spell.exF_dom JPV.C18Spell.exE_ext JPV.C18Spell.exF_ext
--   JPV.C18Spell.colon_omitted JPV.C18Spell.noColon_omitted JPV.C18Spell.colon_tree_differs
--   JPV.SP.build_same JPV.SP.stripS_texts JPV.SP.strip_texts JPV.SP.recognise_spell JPV.SP.spell_parse_exact
--   JPV.SP.spell_parse_exact' JPV.SP.spell_parse_exact_all JPV.C18Spell.SpellParse_full_holds
--   JPV.C18Spell.C18_spellings_parse_same_full_holds JPV.C18Spell.exG_dom JPV.C18Spell.exH_dom
--   JPV.C18Spell.exG_ext JPV.C18Spell.exH_ext JPV.C18Spell.SpellParse_norm
--   JPV.C18Spell.C18_spellings_parse_same_norm JPV.C18Spell.C18_spelling_C01_all
--   JPV.C18Spell.C18_spellings_same_values_full_holds JPV.SP.spell_parse_norm_all JPV.SP.execFrom_norm
--   JPV.SP.refines_of_norm JPV.SP.den_norm JPV.SP.wfChain_norm JPV.SP.build_clean
