/-
EndToEndGo — the whole REGENERATED Go chain of `Parse`, in one statement (worker L35).

`Props/EndToEnd.lean` chains the layers over the MODEL's operations (`modelOps`: `Peg.parseModel`, `Impl.run`). Each of
these is tied to regenerated code in its own file. Here the parse half of the chain is made explicit as ONE function
of translated / regenerated Go code, `goChain`:

  jsonpath.go   `parser.Buffer = path; parser.Init()/Reset(); parser.Parse()`
        = `RunGoGen.ParseGoRules`: the TRANSLATED `Reset` / `Parse` / closure `parse` of jsonpath.peg.go
          (Gen/PegRuntimeGo, generator `pegruntime`), its `p.rules[r]()` the DECOMPILED rule functions (Gen.goGrammar,
          generator `pegrules`) executed by the templates `runGo` on the regenerated runtime (add / memoize / …),
          memoisation on or off;
  jsonpath.go   `parser.Execute()` reading `p.Tokens()`
        = `Gen.ActionsGo.goExec`: the loop of `Execute()` with the 46 REGENERATED action bodies (generator `actions`)
          over the heap of cells (`PS`), run on the PegText / Action tokens of the published tree `s'.ptree`.

and composed with the existing theorems — no new deep proof:

  RunGoGen.RG_Parse_is_recognise   `Parse()` returns nil, published tokens = tokens of `recognise`   (L30)
  ActionsGen.AG_exec               `goExec` on those tokens simulates `Peg.exec`                     (L19)
  SyntaxErrGen.SE_near_parseModel  the TRANSLATED `syntaxErr` computes the `near` bytes of the model (L31)
  C18Spell.SpellParse_norm         parseModel (print a) = Build.build (texts a) up to `omitted`      (L14/L17)
  C18Spell.C18_spelling_C01_all    Impl.run on that tree = Spec.run on the abstract path (C01_refines)

  * `E2EGo_parse`: for EVERY input string `s`: whatever `parseModel env ext cfg s` answers — a tree `T`, a syntax
    error, function-not-found, invalid argument — the Go chain answers the same: a heap whose `p.root` heads a chain
    with erasure `T`; or it stops with the error the model names (`absAErr`), and for a syntax error the translated
    `syntaxErr`, called at that position on the bytes of `s`, yields the bytes of the model's `near`.
  * `E2EGo_retrieve`: for every well-formed spelling `a` of an abstract path and every canonical document:
    [translated Parse() on runGo] → [regenerated actions on the heap] → [erasure = Build.build (texts a) up to the
    `omitted` flag] → [Impl.run] returns exactly the values `Spec.run env a.erase d` selects, or fails when Spec has
    none; and when `Build` rejects the path the Go chain stops with that error.

HYPOTHESES that stay explicit (all about sizes / decidable facts of the MODEL's run, none about Go code):
  hn   rune count + 1 < 2^32                      (positions are uint32 in tokens32)
  hb   `adds … < 2^32`: the spec-side count of `add` calls of the recogniser stays below 2^32 (token indices are
       uint32); no lemma of L30 bounds `adds` by the size, so it is not discharged from `hn`
  `LibRep lib c`, `ALibRep al c`: the library functions left to other generators (escape, operand_order: AG_lib)
       behave as the model's `Ext` / compare functions
  `ShapeOK c afuel` (named, see below): along the model's run on the recogniser's tokens the stack-shape hypotheses of
       Action0 / 11 / 37 hold and `afuel` bounds the chains walked (`runOK`). Decidable for every concrete input
       (`example` at the end). That the GRAMMAR guarantees it for every input is read, not proved: `E2EGo_full`
       (a `def … : Prop` below) is the statement without it; `E2EGo_full_of_shape` says exactly what is missing.

Still only pinned / assumed (see DESIGN §12.9): the skeleton of `Init` and its option loop, the `switch` form and the
inlined-rule tokens absent from the decompiled PE (invisible to `Execute()`: RG_named_token_invisible), Go runtime
assumptions (uint32 arithmetic = `% 2^32`, slices, maps), the vocabulary of the heap (`ParserNode`).
-/
import JPV.Props.RunGoParse
import JPV.Props.ActionsGen
import JPV.Props.SyntaxErrGen
import JPV.Props.EndToEnd
set_option linter.unusedVariables false
namespace JPV
namespace EndToEndGo
open JPV.ParserNode JPV.ActionNode JPV.ParserLayout
open JPV.Gen.ParserHelpersGo JPV.Gen.ActionsGo
open JPV.Peg (parseModel parseInput recognise fuelFor outcomeOfStop Stop Reason ParseOutcome)
open JPV.RunGoGen (ParseGoRules RG_Parse_is_recognise adds)
open JPV.Peg.RunGo (goNum)
open JPV.Spell (SPath)
open JPV.SP (ExtOKS EnvOKS normCh)

/-- the context of one `Parse` call: the functions and flag of THIS call's Config, the runes of the path -/
abbrev ctxOf (env : Env) (ext : Peg.Ext) (cfg : Cfg) (s : String) : Peg.Ctx := ⟨env, ext, cfg.accessor, s.toList.toArray⟩

/-- **the Go chain of `Parse`**: the translated `Reset(); Parse()` with the decompiled rule functions on the regenerated
    runtime; when it returns nil, the loop of `Execute()` with the regenerated action bodies, from the empty parser
    state, over the PegText / Action tokens of the tree `Parse()` published. `none`: `Parse()` returned a parseError
    (or the runtime panicked) — `Execute()` is not reached. -/
def goChain (c : Peg.Ctx) (lib : Lib) (al : ALib) (afuel : Nat) (buffer : String) (d : Bool) : Option (AM ExecSt) :=
  match ParseGoRules (fuelFor c.input.size + 1) c.input d with
  | some (none, s') => some (goExec afuel lib al buffer c.input { p := initPS c } ((goNum.kinds s'.ptree).map gtok))
  | _ => none

/-- the size hypotheses of `RG_Parse_is_recognise` -/
def SizeOK (input : Array Char) : Prop :=
  input.size + 1 < 4294967296 ∧
  adds Gen.goGrammar (fuelFor input.size + 1) (.rule "expression") input 0 < 4294967296

/-- the named hypothesis: along the MODEL's run on the recogniser's tokens every action finds the stack shape it
    asserts (`pre0`, `pre11`, `pre37`) and `afuel` covers the chains on the stacks -/
def ShapeOK (c : Peg.Ctx) (afuel : Nat) : Prop :=
  ∀ pos toks, recognise c.input = .ok pos toks → runOK c afuel {} toks = true

/-! ### link 1: `Parse()` publishes the recogniser's tokens, so the chain is `goExec` on them -/

theorem goChain_eq (c : Peg.Ctx) (hs : SizeOK c.input) (d : Bool) :
    ∃ pos toks, recognise c.input = .ok pos toks ∧
      ∀ lib al afuel buffer, goChain c lib al afuel buffer d =
        some (goExec afuel lib al buffer c.input { p := initPS c } (toks.map gtok)) := by
  obtain ⟨s', p, toks, h1, hrec, _, hk⟩ := RG_Parse_is_recognise c.input hs.1 hs.2 d
  refine ⟨p, toks, hrec, ?_⟩
  intro lib al afuel buffer
  unfold goChain
  rw [h1]
  simp only [hk]

/-! ### link 2: `parseModel` is `exec` on the recogniser's tokens (adapter) -/

/-- the last `match` of `parseInput` as a function -/
def outOfExec (input : Array Char) : Except Stop (List N) → ParseOutcome
  | .ok ch => .ok ch
  | .error st => outcomeOfStop input st

theorem parseModel_exec (env : Env) (ext : Peg.Ext) (cfg : Cfg) (s : String)
    (pos : Nat) (toks : List Peg.Tok) (hrec : recognise s.toList.toArray = .ok pos toks) :
    parseModel env ext cfg s = .unmodelled ∨
    parseModel env ext cfg s = outOfExec s.toList.toArray (Peg.exec (ctxOf env ext cfg s) toks) := by
  unfold parseModel parseInput
  split
  · exact Or.inl rfl
  · right
    rw [hrec]
    simp only
    cases Peg.exec ⟨env, ext, cfg.accessor, s.toList.toArray⟩ toks <;> rfl

/-- what stop of the action machine a non-`unmodelled` outcome comes from -/
theorem outOfExec_ok {input : Array Char} {r : Except Stop (List N)} {T : List N} (h : outOfExec input r = .ok T) :
    r = .ok T := by
  cases r with
  | ok ch => simp only [outOfExec] at h; cases h; rfl
  | error st => cases st <;> simp [outOfExec, outcomeOfStop] at h

theorem outOfExec_syntax {input : Array Char} {r : Except Stop (List N)} {pos : Nat} {m near : String}
    (h : outOfExec input r = .syntaxErr pos m near) : ∃ reason, r = .error (.syntaxErr pos reason) ∧ reason.msg = m := by
  cases r with
  | ok ch => simp [outOfExec] at h
  | error st =>
    cases st <;> simp [outOfExec, outcomeOfStop] at h
    rename_i p reason
    obtain ⟨rfl, rfl, _⟩ := h
    exact ⟨reason, rfl, rfl⟩

theorem outOfExec_fnf {input : Array Char} {r : Except Stop (List N)} {t : String}
    (h : outOfExec input r = .functionNotFound t) : r = .error (.functionNotFound t) := by
  cases r with
  | ok ch => simp [outOfExec] at h
  | error st =>
    cases st <;> simp [outOfExec, outcomeOfStop] at h
    rw [h]

theorem outOfExec_arg {input : Array Char} {r : Except Stop (List N)} {t : String}
    (h : outOfExec input r = .invalidArgument t) : r = .error (.invalidArgument t) := by
  cases r with
  | ok ch => simp [outOfExec] at h
  | error st =>
    cases st <;> simp [outOfExec, outcomeOfStop] at h
    rw [h]

/-- a user error of the model is a stop of the code with that error: the two other disjuncts of `AG_exec` are the
    model giving up (`unrepresentable`) and `p.root == nil` -/
theorem exec_error (c : Peg.Ctx) (lib : Lib) (al : ALib) (afuel : Nat) (buffer : String)
    (hlib : LibRep lib c) (hal : ALibRep al c) (toks : List Peg.Tok) (hok : runOK c afuel {} toks = true) (e : Stop)
    (hex : Peg.exec c toks = .error e) (h1 : e ≠ .unrepresentable) (h2 : e ≠ .panic .nilRoot) :
    ∃ e', goExec afuel lib al buffer c.input { p := initPS c } (toks.map gtok) = .error e' ∧ absAErr e' = some e := by
  have he := ActionsGen.AG_exec c lib al afuel buffer hlib hal toks hok
  rw [hex] at he
  rcases he with h | ⟨h, _⟩ | h
  · exact absurd h h1
  · exact absurd h h2
  · exact h

/-- the code that stops with the model's syntax error called `p.syntaxErr(pos, msg, buffer)` with the model's reason -/
theorem absAErr_syntax_inv {e' : AErr} {pos : Nat} {reason : Reason} (h : absAErr e' = some (.syntaxErr pos reason)) :
    ∃ posI msg buf, e' = .syntaxErr posI msg buf ∧ posI.toNat = pos ∧ reasonOf msg = some reason := by
  cases e' with
  | helper e => cases e <;> simp [absAErr, absErr] at h
  | sliceBounds => simp [absAErr] at h
  | syntaxErr posI msg buf =>
    simp only [absAErr] at h
    cases hr : reasonOf msg with
    | none => rw [hr] at h; simp at h
    | some r =>
      rw [hr] at h
      simp at h
      exact ⟨posI, msg, buf, rfl, h.1, by rw [← h.2]; exact hr⟩

/-! ### E2EGo_parse -/

/-- **E2EGo_parse** — for EVERY path string: the translated `Parse()` on the decompiled rule functions and the
    regenerated runtime, followed by the regenerated action bodies over the heap, answers what `parseModel` answers.
    (1) a tree `T`: the chain ends normally, `p.root` heads a chain of the final heap, its erasure is `T`;
    (2) a syntax error `(pos, msg, near)`: the chain stops in a call `p.syntaxErr(posI, msg', buffer)` with
        `posI.toNat = pos`, `msg'` the text of the model's reason — and the TRANSLATED `syntaxErr` at `pos` on the bytes
        of the path returns position `pos` and the bytes of `near`;
    (3) function not found / (4) invalid argument: the chain stops with that error, same text. -/
theorem E2EGo_parse (env : Env) (ext : Peg.Ext) (cfg : Cfg) (s : String) (hs : SizeOK s.toList.toArray) (d : Bool)
    (lib : Lib) (al : ALib) (afuel : Nat) (buffer : String)
    (hlib : LibRep lib (ctxOf env ext cfg s)) (hal : ALibRep al (ctxOf env ext cfg s))
    (hshape : ShapeOK (ctxOf env ext cfg s) afuel) :
    (∀ T, parseModel env ext cfg s = .ok T →
      ∃ s' L', goChain (ctxOf env ext cfg s) lib al afuel buffer d = some (.ok s') ∧
        Rep (ctxOf env ext cfg s) s'.p L' [] ∧ s'.p.root = headRef L'.root ∧ L'.root ≠ [] ∧ eraseCh L'.root = T) ∧
    (∀ pos m near, parseModel env ext cfg s = .syntaxErr pos m near →
      ∃ (reason : Reason) (posI : Int) (msg buf : String),
        goChain (ctxOf env ext cfg s) lib al afuel buffer d = some (.error (.syntaxErr posI msg buf)) ∧
        posI.toNat = pos ∧ reasonOf msg = some reason ∧ reason.msg = m ∧
        ∀ (ρ : Type) (x : ρ), Gen.SyntaxErrGo.syntaxErr (pos : Int) x (GoString.utf8Bytes s) =
          some { position := (pos : Int), reason := x, near := GoString.utf8Bytes near }) ∧
    (∀ t, parseModel env ext cfg s = .functionNotFound t →
      ∃ e', goChain (ctxOf env ext cfg s) lib al afuel buffer d = some (.error e') ∧
        absAErr e' = some (.functionNotFound t)) ∧
    (∀ t, parseModel env ext cfg s = .invalidArgument t →
      ∃ e', goChain (ctxOf env ext cfg s) lib al afuel buffer d = some (.error e') ∧
        absAErr e' = some (.invalidArgument t)) := by
  obtain ⟨pos0, toks, hrec, hch⟩ := goChain_eq (ctxOf env ext cfg s) hs d
  have hok := hshape pos0 toks hrec
  have hpm := parseModel_exec env ext cfg s pos0 toks hrec
  refine ⟨?_, ?_, ?_, ?_⟩
  · intro T h
    rw [hch]
    rw [h] at hpm
    rcases hpm with hpm | hpm
    · cases hpm
    · have hex := outOfExec_ok hpm.symm
      have he := ActionsGen.AG_exec (ctxOf env ext cfg s) lib al afuel buffer hlib hal toks hok
      rw [hex] at he
      obtain ⟨s', L', h1, h2⟩ := he
      exact ⟨s', L', by rw [h1], h2⟩
  · intro pos m near h
    rw [hch]
    rw [h] at hpm
    rcases hpm with hpm | hpm
    · cases hpm
    · obtain ⟨reason, hex, hm⟩ := outOfExec_syntax hpm.symm
      obtain ⟨e', h1, h2⟩ := exec_error _ lib al afuel buffer hlib hal toks hok _ hex (by simp) (by simp)
      obtain ⟨posI, msg, buf, rfl, hp, hr⟩ := absAErr_syntax_inv h2
      exact ⟨reason, posI, msg, buf, by rw [h1], hp, hr, hm, fun ρ x => SyntaxErrGen.SE_near_parseModel env ext cfg s pos m near x h⟩
  · intro t h
    rw [hch]
    rw [h] at hpm
    rcases hpm with hpm | hpm
    · cases hpm
    · obtain ⟨e', h1, h2⟩ := exec_error _ lib al afuel buffer hlib hal toks hok _ (outOfExec_fnf hpm.symm)
        (by simp) (by simp)
      exact ⟨e', by rw [h1], h2⟩
  · intro t h
    rw [hch]
    rw [h] at hpm
    rcases hpm with hpm | hpm
    · cases hpm
    · obtain ⟨e', h1, h2⟩ := exec_error _ lib al afuel buffer hlib hal toks hok _ (outOfExec_arg hpm.symm)
        (by simp) (by simp)
      exact ⟨e', by rw [h1], h2⟩

/-! ### E2EGo_retrieve -/

/-- **E2EGo_retrieve** — for every well-formed spelling `a` of an abstract path (`ExtOKS`, `EnvOKS` as in
    `E2E_retrieve_spec`) and every canonical document `d`:
    * `Build` accepts the abstract path with tree `ch0`: the Go chain ends normally in a heap whose `p.root` heads a
      chain with erasure `T`, `T = ch0` up to the `omitted` flag of slice steps (`normCh`), and `Impl.run` on `T`
      returns exactly the values `Spec.run env a.erase d` selects (never empty) — or a run-time error when the
      specification selects nothing;
    * `Build` rejects the path (function not registered, value group / two current nodes in a filter): the Go chain
      stops with that error. -/
theorem E2EGo_retrieve (env : Env) (ext : Peg.Ext) (cfg : Cfg) (a : SPath) (hwf : Spell.wf a = true)
    (hext : ExtOKS ext a) (henv : EnvOKS env a) (hs : SizeOK (Spell.printS a).toList.toArray) (dm : Bool)
    (lib : Lib) (al : ALib) (afuel : Nat) (buffer : String)
    (hlib : LibRep lib (ctxOf env ext cfg (Spell.printS a))) (hal : ALibRep al (ctxOf env ext cfg (Spell.printS a)))
    (hshape : ShapeOK (ctxOf env ext cfg (Spell.printS a)) afuel) (d : Val) (hd : d.wf = true) :
    (∀ ch0, Build.build env cfg (Spell.texts a) = .ok ch0 →
      ∃ s' L', goChain (ctxOf env ext cfg (Spell.printS a)) lib al afuel buffer dm = some (.ok s') ∧
        Rep (ctxOf env ext cfg (Spell.printS a)) s'.p L' [] ∧ s'.p.root = headRef L'.root ∧ L'.root ≠ [] ∧
        normCh (eraseCh L'.root) = ch0 ∧
        ((∃ vs rs st, Spec.run env a.erase d = some vs ∧ Impl.run env (eraseCh L'.root) d = (.ok rs, st) ∧
            rs.map Impl.Res.val = vs ∧ vs ≠ []) ∨
         (∃ e st, Spec.run env a.erase d = none ∧ Impl.run env (eraseCh L'.root) d = (.err e, st)))) ∧
    (∀ t, Build.build env cfg (Spell.texts a) = .error (.funcNotFound t) →
      ∃ e', goChain (ctxOf env ext cfg (Spell.printS a)) lib al afuel buffer dm = some (.error e') ∧
        absAErr e' = some (.functionNotFound t)) ∧
    (Build.build env cfg (Spell.texts a) = .error .valueGroupOperand →
      ∃ posI msg buf, goChain (ctxOf env ext cfg (Spell.printS a)) lib al afuel buffer dm =
          some (.error (.syntaxErr posI msg buf)) ∧ reasonOf msg = some .filterValueGroup) ∧
    (Build.build env cfg (Spell.texts a) = .error .twoCurrentNodes →
      ∃ posI msg buf, goChain (ctxOf env ext cfg (Spell.printS a)) lib al afuel buffer dm =
          some (.error (.syntaxErr posI msg buf)) ∧ reasonOf msg = some .twoCurrentNode) := by
  have hN := C18Spell.SpellParse_norm env ext cfg a hwf hext henv
  have hP := E2EGo_parse env ext cfg (Spell.printS a) hs dm lib al afuel buffer hlib hal hshape
  have msg_inj : ∀ r r' : Reason, r.msg = r'.msg → r = r' := by
    intro r r'; cases r <;> cases r' <;> decide
  refine ⟨?_, ?_, ?_, ?_⟩
  · intro ch0 hb
    rw [hb] at hN
    generalize hpo : parseModel env ext cfg (Spell.printS a) = po at hN
    cases hN with
    | ok _ T hn =>
      obtain ⟨s', L', h1, h2, h3, h4, h5⟩ := hP.1 T hpo
      refine ⟨s', L', h1, h2, h3, h4, by rw [h5]; exact hn, ?_⟩
      rw [h5]
      exact C18Spell.C18_spelling_C01_all env ext cfg a hwf hext henv T hpo d hd
  · intro t hb
    rw [hb] at hN
    generalize hpo : parseModel env ext cfg (Spell.printS a) = po at hN
    cases hN with
    | functionNotFound _ => exact hP.2.2.1 t hpo
  · intro hb
    rw [hb] at hN
    generalize hpo : parseModel env ext cfg (Spell.printS a) = po at hN
    cases hN with
    | valueGroup pos near =>
      obtain ⟨reason, posI, msg, buf, h1, _, hr, hm, _⟩ := hP.2.1 pos _ near hpo
      exact ⟨posI, msg, buf, h1, by rw [hr, msg_inj _ _ hm]⟩
  · intro hb
    rw [hb] at hN
    generalize hpo : parseModel env ext cfg (Spell.printS a) = po at hN
    cases hN with
    | twoCurrentNodes pos near =>
      obtain ⟨reason, posI, msg, buf, h1, _, hr, hm, _⟩ := hP.2.1 pos _ near hpo
      exact ⟨posI, msg, buf, h1, by rw [hr, msg_inj _ _ hm]⟩

/-! ### the statement without the shape hypothesis, and what is missing for it -/

/-- what is read, not proved: the GRAMMAR hands the actions the stack shapes they assert — along the model's run on
    the tokens of ANY recognised input, Action0 finds a node chain under the root, Action11 two single nodes,
    Action37 a non-nil parameter (`runPre`) -/
def GrammarShapes : Prop :=
  ∀ (c : Peg.Ctx) pos toks, recognise c.input = .ok pos toks → runPre c {} toks = true

/-- the ideal statement: `E2EGo_parse` (its tree clause) with no hypothesis about the run — some fuel exists.
    NOT proved: it needs `GrammarShapes`. -/
def E2EGo_full : Prop :=
  ∀ (env : Env) (ext : Peg.Ext) (cfg : Cfg) (s : String), SizeOK s.toList.toArray → ∀ (d : Bool)
    (lib : Lib) (al : ALib) (buffer : String), LibRep lib (ctxOf env ext cfg s) → ALibRep al (ctxOf env ext cfg s) →
    ∀ T, parseModel env ext cfg s = .ok T →
      ∃ afuel s' L', goChain (ctxOf env ext cfg s) lib al afuel buffer d = some (.ok s') ∧
        Rep (ctxOf env ext cfg s) s'.p L' [] ∧ s'.p.root = headRef L'.root ∧ L'.root ≠ [] ∧ eraseCh L'.root = T

/-- exactly what is missing: with `GrammarShapes` the fuel is `runNeed` (AG_fuel) and `E2EGo_full` follows -/
theorem E2EGo_full_of_shape (hg : GrammarShapes) : E2EGo_full := by
  intro env ext cfg s hs d lib al buffer hlib hal T h
  obtain ⟨pos0, toks, hrec, _⟩ := goChain_eq (ctxOf env ext cfg s) hs d
  have hshape : ShapeOK (ctxOf env ext cfg s) (runNeed (ctxOf env ext cfg s) {} toks) := by
    intro pos toks' hrec'
    rw [hrec] at hrec'
    cases hrec'
    exact ActionsGen.AG_fuel _ _ _ _ (hg _ pos0 toks hrec) (Nat.le_refl _)
  exact ⟨_, (E2EGo_parse env ext cfg s hs d lib al _ buffer hlib hal hshape).1 T h⟩

/-! ### the hypotheses are satisfiable: `$.a[1]` -/

section example_
open JPV.ParserGen (ctx0 lib0)

/-- a decidable form of `ShapeOK`, for concrete inputs -/
theorem shapeOK_of_decide (c : Peg.Ctx) (afuel : Nat)
    (h : (match recognise c.input with | .ok _ toks => runOK c afuel {} toks | _ => false) = true) :
    ShapeOK c afuel := by
  intro pos toks hr
  rw [hr] at h
  exact h

def exS : String := "$.a[1]"
/-- the functions and `Ext` of `ParserGen.ctx0`, accessor mode on, the path `$.a[1]` -/
abbrev exC : Peg.Ctx := ctxOf ctx0.env ctx0.ext ⟨true⟩ exS
def exAl : ALib :=
  alOf (fun t => .ok (ctx0.ext.unescape t))
    (fun t => match ctx0.ext.unescapeSingle t with | some k => .ok k | none => .error (.invalidArgument t))
    (fun t => match ctx0.ext.unescapeDouble t with | some k => .ok k | none => .error (.invalidArgument t))

theorem exS_size : SizeOK exS.toList.toArray := by
  unfold SizeOK
  decide +kernel
theorem exS_shape : ShapeOK exC 8 := shapeOK_of_decide _ _ (by decide +kernel)
theorem exS_lib : LibRep lib0 exC := ⟨rfl, fun _ => rfl, fun _ => rfl⟩
theorem exS_al : ALibRep exAl exC := ActionsGen.AG_lib exC _ _ _ (fun _ => rfl) (fun _ => rfl) (fun _ => rfl)
theorem exS_parses : (match parseModel ctx0.env ctx0.ext ⟨true⟩ exS with | .ok _ => true | _ => false) = true := by
  decide +kernel

/-- `$.a[1]`: the translated `Parse()` (memoisation on), then the regenerated actions, end in a heap holding the tree
    of `parseModel` -/
example : ∃ (T : List N) (s' : ExecSt) (L' : LSt), parseModel ctx0.env ctx0.ext ⟨true⟩ exS = .ok T ∧
    goChain exC lib0 exAl 8 exS false = some (.ok s') ∧ s'.p.root = headRef L'.root ∧ eraseCh L'.root = T := by
  have h := exS_parses
  cases hp : parseModel ctx0.env ctx0.ext ⟨true⟩ exS with
  | ok T =>
    obtain ⟨s', L', h1, _, h3, _, h5⟩ :=
      (E2EGo_parse ctx0.env ctx0.ext ⟨true⟩ exS exS_size false lib0 exAl 8 exS exS_lib exS_al exS_shape).1 T hp
    exact ⟨T, s', L', rfl, h1, h3, h5⟩
  | _ => rw [hp] at h; cases h

end example_

end EndToEndGo
end JPV
-- OBLIGATIONS: JPV.EndToEndGo.E2EGo_parse JPV.EndToEndGo.E2EGo_retrieve JPV.EndToEndGo.E2EGo_full_of_shape
--   JPV.EndToEndGo.goChain_eq JPV.EndToEndGo.parseModel_exec JPV.EndToEndGo.exec_error
--   JPV.EndToEndGo.absAErr_syntax_inv JPV.EndToEndGo.shapeOK_of_decide JPV.EndToEndGo.exS_size
--   JPV.EndToEndGo.exS_shape JPV.EndToEndGo.exS_lib JPV.EndToEndGo.exS_al JPV.EndToEndGo.exS_parses
