/-
C14 — the function call protocol, as theorems about the call log of `Impl.run`.

`C14_log_eq_calls` is the general statement (every well-formed tree, every document): the log
is the denotation `Calls.calls`. The named corollaries read it off for the shapes the property
speaks about: a top-level chain `pre ++ fns` whose prefix `pre` makes no call (`fnFree`).
-/
import JPV.Lemmas.CallLog
import JPV.Registry
namespace JPV
namespace C14
open Impl TSem Calls CL

/-- the log of a run is the denoted call sequence -/
theorem C14_log_eq_calls (env : Env) (ch : List N) (hwf : wfChain env ch = true) (d : Val) :
    (Impl.run env ch d).2.log = calls env ch d d :=
  run_log env ch hwf d

/-- A filter function after a function-free path is called exactly once for each value the
    path selects, in result order, with that value; the results are its successful return
    values in that order (an error when there is none). -/
theorem C14_filter_calls (env : Env) (pre : List N) (i : Info) (name : String) (f : Val → Option Val)
    (hwf : wfChain env pre = true) (hfree : fnFree pre = true) (hf : env.ffn name = some f) (d : Val) :
    (Impl.run env (pre ++ [.ffn i name]) d).2.log = (den env pre d d).map (fun v => Call.ffn name v) ∧
    ((∃ rs, (Impl.run env (pre ++ [.ffn i name]) d).1 = .ok rs ∧
        rs.map Res.val = (den env pre d d).filterMap f ∧ rs ≠ []) ∨
     (∃ e, (Impl.run env (pre ++ [.ffn i name]) d).1 = .err e ∧ (den env pre d d).filterMap f = [])) := by
  have hwf' : wfChain env (pre ++ [.ffn i name]) = true := by
    simp [wfChain_append, hwf, wfChain, wfN, hf]
  have hden : den env (pre ++ [.ffn i name]) d d = (den env pre d d).filterMap f := by
    rw [BD.den_append, ← flatMap_opt f]
    exact flatMap_congr'' (fun v => den_ffn_last env i name f hf d v)
  refine ⟨?_, ?_⟩
  · rw [run_log env _ hwf', calls_append env _ pre hfree, ← flatMap_single]
    exact flatMap_congr'' (fun v => calls_ffn_last env i name f hf d v)
  · rw [← hden]
    exact run_outcome env _ hwf' d

/-- non-vacuity: `$[*].failOdd()` on `[1,2,3]` — three calls, one result -/
example : wfChain Registry.env [.root ⟨"$", "$[*].failOdd()", false, false⟩, .wild ⟨"[*]", "[*].failOdd()", true, false⟩] = true
    ∧ fnFree [.root ⟨"$", "$[*].failOdd()", false, false⟩, .wild ⟨"[*]", "[*].failOdd()", true, false⟩] = true
    ∧ den Registry.env [.root ⟨"$", "$[*].failOdd()", false, false⟩, .wild ⟨"[*]", "[*].failOdd()", true, false⟩]
        (.arr [.num 1, .num 2, .num 3]) (.arr [.num 1, .num 2, .num 3]) = [.num 1, .num 2, .num 3]
    ∧ (Registry.env.ffn "failOdd").isSome = true :=
  ⟨by decide, by decide, rfl, rfl⟩

/-- An aggregate function is called exactly once, with all values its parameter path selects
    (with the elements of the array when that path is single-valued and selects an array:
    `aggArgs`); its return value is the single result, its failure the error of its own node.
    When the parameter path selects nothing it is not called at all and the run errs. -/
theorem C14_aggregate_once (env : Env) (pre : List N) (i : Info) (name : String) (f : List Val → Option Val)
    (hwf : wfChain env pre = true) (hfree : fnFree pre = true) (hf : env.afn name = some f) (d : Val) :
    (∀ r0 rs, den env pre d d = r0 :: rs →
      (Impl.run env [.afn i name pre] d).2.log = [Call.afn name (aggArgs (chainVg pre) r0 (r0 :: rs))] ∧
      (∀ r, f (aggArgs (chainVg pre) r0 (r0 :: rs)) = some r →
        ∃ x, (Impl.run env [.afn i name pre] d).1 = .ok [x] ∧ x.val = r) ∧
      (f (aggArgs (chainVg pre) r0 (r0 :: rs)) = none →
        (Impl.run env [.afn i name pre] d).1 = .err (.func i))) ∧
    (den env pre d d = [] →
      (Impl.run env [.afn i name pre] d).2.log = [] ∧ ∃ e, (Impl.run env [.afn i name pre] d).1 = .err e) := by
  have hwf' : wfChain env [.afn i name pre] = true := by simp [wfChain, wfN, hf, hwf]
  have hlog := run_log env _ hwf' d
  simp only [calls, calls_fnFree env pre hfree, List.nil_append, hf] at hlog
  refine ⟨fun r0 rs hden => ⟨?_, fun r hr => ?_, fun hr => ?_⟩, fun hden => ⟨?_, ?_⟩⟩
  · rw [hlog, hden]
    simp only []
    cases f (aggArgs (chainVg pre) r0 (r0 :: rs)) <;> rfl
  · apply run_single env _ hwf' d r
    simp only [den, hden, hf, hr]
  · obtain ⟨st', h⟩ := retrieve_afn_fail (rest := []) i name f hf (retrieve_ok env pre hwf)
      default d d (some []) {} r0 rs hden hr
    simp only [Impl.run, h]
  · rw [hlog, hden]
  · apply run_none env _ hwf' d
    simp only [den, hden]

/-- non-vacuity: `$[*].max()` on `[1,3,2]` (value-group parameter: all three values);
    `$.max()` on the same document has a single-valued parameter selecting the array: its elements -/
example : wfChain Registry.env [.root ⟨"$", "", true, false⟩, .wild ⟨"[*]", "", true, false⟩] = true
    ∧ fnFree [.root ⟨"$", "", true, false⟩, .wild ⟨"[*]", "", true, false⟩] = true
    ∧ den Registry.env [.root ⟨"$", "", true, false⟩, .wild ⟨"[*]", "", true, false⟩]
        (.arr [.num 1, .num 3, .num 2]) (.arr [.num 1, .num 3, .num 2]) = [.num 1, .num 3, .num 2]
    ∧ aggArgs (chainVg [.root ⟨"$", "", true, false⟩, .wild ⟨"[*]", "", true, false⟩]) (.num 1) [.num 1, .num 3, .num 2]
        = [.num 1, .num 3, .num 2]
    ∧ aggArgs (chainVg [.root ⟨"$", "", false, false⟩]) (.arr [.num 1, .num 3, .num 2]) [.arr [.num 1, .num 3, .num 2]]
        = [.num 1, .num 3, .num 2] :=
  ⟨by decide, by decide, rfl, rfl, rfl⟩

/-- Chained filter functions apply left to right, depth first: `f` on a selected value, then
    at once `g` on `f`'s result when `f` succeeded, then the next value. -/
theorem C14_chain (env : Env) (pre : List N) (i j : Info) (fname gname : String) (ff gg : Val → Option Val)
    (hwf : wfChain env pre = true) (hfree : fnFree pre = true)
    (hf : env.ffn fname = some ff) (hg : env.ffn gname = some gg) (d : Val) :
    (Impl.run env (pre ++ [.ffn i fname, .ffn j gname]) d).2.log =
      (den env pre d d).flatMap (fun v => Call.ffn fname v ::
        ((ff v).map (fun r => Call.ffn gname r)).toList) ∧
    ((∃ rs, (Impl.run env (pre ++ [.ffn i fname, .ffn j gname]) d).1 = .ok rs ∧
        rs.map Res.val = ((den env pre d d).filterMap ff).filterMap gg ∧ rs ≠ []) ∨
     (∃ e, (Impl.run env (pre ++ [.ffn i fname, .ffn j gname]) d).1 = .err e ∧
        ((den env pre d d).filterMap ff).filterMap gg = [])) := by
  have hwf' : wfChain env (pre ++ [.ffn i fname, .ffn j gname]) = true := by
    simp [wfChain_append, hwf, wfChain, wfN, hf, hg]
  have hden : den env (pre ++ [.ffn i fname, .ffn j gname]) d d = ((den env pre d d).filterMap ff).filterMap gg := by
    have : pre ++ [.ffn i fname, .ffn j gname] = (pre ++ [.ffn i fname]) ++ [.ffn j gname] := by simp
    rw [this, BD.den_append, BD.den_append, ← flatMap_opt gg, ← flatMap_opt ff]
    rw [flatMap_congr'' (fun v => den_ffn_last env j gname gg hg d v),
      flatMap_congr'' (fun v => den_ffn_last env i fname ff hf d v)]
  refine ⟨?_, ?_⟩
  · rw [run_log env _ hwf', calls_append env _ pre hfree]
    apply flatMap_congr''
    intro v
    rw [calls_ffn_one env i fname ff hf]
    cases ff v with
    | none => rfl
    | some r => simp only [calls_ffn_last env j gname gg hg]; rfl
  · rw [← hden]
    exact run_outcome env _ hwf' d

/-- the per-function projections of the chained log: `f` on every selected value in order,
    `g` on every successful `f`-result in order -/
theorem C14_chain_projections (env : Env) (pre : List N) (i j : Info) (fname gname : String) (ff gg : Val → Option Val)
    (hwf : wfChain env pre = true) (hfree : fnFree pre = true)
    (hf : env.ffn fname = some ff) (hg : env.ffn gname = some gg) (hne : fname ≠ gname) (d : Val) :
    ffnArgs fname (Impl.run env (pre ++ [.ffn i fname, .ffn j gname]) d).2.log = den env pre d d ∧
    ffnArgs gname (Impl.run env (pre ++ [.ffn i fname, .ffn j gname]) d).2.log = (den env pre d d).filterMap ff := by
  rw [(C14_chain env pre i j fname gname ff gg hwf hfree hf hg d).1]
  exact ⟨ffnArgs_chain_left fname gname hne ff _, ffnArgs_chain_right fname gname hne ff _⟩

/-- non-vacuity: `$[*].failOdd().twice()` on `[1,2,3]` -/
example : wfChain Registry.env [.root ⟨"$", "", false, false⟩, .wild ⟨"[*]", "", true, false⟩] = true
    ∧ (Registry.env.ffn "failOdd").isSome = true ∧ (Registry.env.ffn "twice").isSome = true ∧ "failOdd" ≠ "twice" :=
  ⟨by decide, rfl, rfl, by decide⟩

/-- An aggregate followed by a filter function: the aggregate once, then the filter function
    once on its result. -/
theorem C14_chain_aggregate (env : Env) (pre : List N) (i j : Info) (aname fname : String)
    (fa : List Val → Option Val) (ff : Val → Option Val)
    (hwf : wfChain env pre = true) (hfree : fnFree pre = true)
    (ha : env.afn aname = some fa) (hf : env.ffn fname = some ff) (d : Val) (r0 : Val) (rs : List Val)
    (hden : den env pre d d = r0 :: rs) :
    (Impl.run env [.afn i aname pre, .ffn j fname] d).2.log =
      Call.afn aname (aggArgs (chainVg pre) r0 (r0 :: rs)) ::
        ((fa (aggArgs (chainVg pre) r0 (r0 :: rs))).map (fun r => Call.ffn fname r)).toList ∧
    (∀ r, (fa (aggArgs (chainVg pre) r0 (r0 :: rs))).bind ff = some r →
      ∃ x, (Impl.run env [.afn i aname pre, .ffn j fname] d).1 = .ok [x] ∧ x.val = r) ∧
    ((fa (aggArgs (chainVg pre) r0 (r0 :: rs))).bind ff = none →
      ∃ e, (Impl.run env [.afn i aname pre, .ffn j fname] d).1 = .err e) := by
  have hwf' : wfChain env [.afn i aname pre, .ffn j fname] = true := by simp [wfChain, wfN, ha, hf, hwf]
  have hD : den env [.afn i aname pre, .ffn j fname] d d =
      ((fa (aggArgs (chainVg pre) r0 (r0 :: rs))).bind ff).toList := by
    simp only [den, hden, ha]
    cases fa (aggArgs (chainVg pre) r0 (r0 :: rs)) with
    | none => rfl
    | some r =>
      simp only [Option.bind_some, hf]
      cases ff r <;> rfl
  refine ⟨?_, fun r hr => ?_, fun hr => ?_⟩
  · rw [run_log env _ hwf']
    simp only [calls, calls_fnFree env pre hfree, List.nil_append, hden, ha]
    cases fa (aggArgs (chainVg pre) r0 (r0 :: rs)) with
    | none => rfl
    | some r =>
      have := calls_ffn_last env j fname ff hf d r
      simp only [calls] at this
      simp only [this]
      rfl
  · apply run_single env _ hwf' d r
    rw [hD, hr]
    rfl
  · apply run_none env _ hwf' d
    rw [hD, hr]
    rfl

end C14
end JPV
