/-
C14 — the function call protocol, as theorems about the call log of `Impl.run`.

`C14_log_eq_calls` is the general statement (every well-formed tree, every document): the log
is the denotation `Calls.calls`. The named corollaries read it off for the shapes the property
speaks about: a top-level chain `pre ++ fns` whose prefix `pre` makes no call (`fnFree`).
-/
import JPV.Lemmas.CallLog
import JPV.Lemmas.CallErr
import JPV.Lemmas.CallTie
import JPV.Lemmas.BuildConn
import JPV.Lemmas.BuildWf
import JPV.Registry
namespace JPV
namespace C14
open Impl TSem Calls CL CE

/-- the log of a run is the denoted call sequence -/
theorem C14_log_eq_calls (env : Env) (ch : List N) (hwf : wfChain env ch = true) (d : Val) :
    (Impl.run env ch d).2.log = calls env ch d d :=
  run_log env ch hwf d

/-- calls inside filter operands follow the evaluation order of the query, short-circuits
    included: in `$[?(@.a && @.twice())]` the right operand is evaluated (once per member, in member
    order) unless the left list is the whole-match "no" -/
example :
    calls Registry.env [.filter ⟨"", "", true, false⟩ (.and (.exist (.pcur [.child ⟨"", "", false, false⟩ "a"]))
        (.exist (.pcur [.ffn ⟨"", "", false, false⟩ "twice"])))]
      (.arr [.obj [("a", .num 1)], .num 5]) (.arr [.obj [("a", .num 1)], .num 5])
      = [.ffn "twice" (.obj [("a", .num 1)]), .ffn "twice" (.num 5)] ∧
    calls Registry.env [.filter ⟨"", "", true, false⟩ (.and (.exist (.pcur [.child ⟨"", "", false, false⟩ "a"]))
        (.exist (.pcur [.ffn ⟨"", "", false, false⟩ "twice"])))]
      (.arr [.num 4, .num 5]) (.arr [.num 4, .num 5]) = [] :=
  ⟨rfl, rfl⟩

/-- A filter function after a function-free path is called exactly once for each value the
    path selects, in result order, with that value; the results are its successful return
    values in that order (an error when there is none). -/
theorem C14_filter_calls (env : Env) (pre : List N) (i : Info) (name : String) (f : Val → Option Val)
    (hwf : wfChain env pre = true) (hfree : fnFree pre = true) (hf : env.ffn name = some f) (d : Val) :
    (Impl.run env (pre ++ [.ffn i name]) d).2.log = (den env pre d d).map (fun v => Call.ffn name v) ∧
    ((∃ rs, (Impl.run env (pre ++ [.ffn i name]) d).1 = .ok rs ∧
        rs.map Res.val = (den env pre d d).filterMap f ∧ rs ≠ []) ∨
     (∃ e, (Impl.run env (pre ++ [.ffn i name]) d).1 = .err e ∧ (den env pre d d).filterMap f = [])) := by
  have hwf' : wfChain env (pre ++ [.ffn i name]) = true := by
    simp [wfChain_append, hwf, wfChain, wfN, hf]
  have hden : den env (pre ++ [.ffn i name]) d d = (den env pre d d).filterMap f := by
    rw [BD.den_append, ← flatMap_opt f]
    exact flatMap_congr'' (fun v => den_ffn_last env i name f hf d v)
  refine ⟨?_, ?_⟩
  · rw [run_log env _ hwf', calls_append env _ pre hfree, ← flatMap_single]
    exact flatMap_congr'' (fun v => calls_ffn_last env i name f hf d v)
  · rw [← hden]
    exact run_outcome env _ hwf' d

/-- non-vacuity: `$[*].failOdd()` on `[1,2,3]` — three calls, one result -/
example : wfChain Registry.env [.root ⟨"$", "$[*].failOdd()", false, false⟩, .wild ⟨"[*]", "[*].failOdd()", true, false⟩] = true
    ∧ fnFree [.root ⟨"$", "$[*].failOdd()", false, false⟩, .wild ⟨"[*]", "[*].failOdd()", true, false⟩] = true
    ∧ den Registry.env [.root ⟨"$", "$[*].failOdd()", false, false⟩, .wild ⟨"[*]", "[*].failOdd()", true, false⟩]
        (.arr [.num 1, .num 2, .num 3]) (.arr [.num 1, .num 2, .num 3]) = [.num 1, .num 2, .num 3]
    ∧ (Registry.env.ffn "failOdd").isSome = true :=
  ⟨by decide, by decide, rfl, rfl⟩

/-- An aggregate function is called exactly once, with all values its parameter path selects
    (with the elements of the array when that path is single-valued and selects an array:
    `aggArgs`); its return value is the single result, its failure the error of its own node.
    When the parameter path selects nothing it is not called at all and the run errs. -/
theorem C14_aggregate_once (env : Env) (pre : List N) (i : Info) (name : String) (f : List Val → Option Val)
    (hwf : wfChain env pre = true) (hfree : fnFree pre = true) (hf : env.afn name = some f) (d : Val) :
    (∀ r0 rs, den env pre d d = r0 :: rs →
      (Impl.run env [.afn i name pre] d).2.log = [Call.afn name (aggArgs (chainVg pre) r0 (r0 :: rs))] ∧
      (∀ r, f (aggArgs (chainVg pre) r0 (r0 :: rs)) = some r →
        ∃ x, (Impl.run env [.afn i name pre] d).1 = .ok [x] ∧ x.val = r) ∧
      (f (aggArgs (chainVg pre) r0 (r0 :: rs)) = none →
        (Impl.run env [.afn i name pre] d).1 = .err (.func i))) ∧
    (den env pre d d = [] →
      (Impl.run env [.afn i name pre] d).2.log = [] ∧ ∃ e, (Impl.run env [.afn i name pre] d).1 = .err e) := by
  have hwf' : wfChain env [.afn i name pre] = true := by simp [wfChain, wfN, hf, hwf]
  have hlog := run_log env _ hwf' d
  simp only [calls, calls_fnFree env pre hfree, List.nil_append, hf] at hlog
  refine ⟨fun r0 rs hden => ⟨?_, fun r hr => ?_, fun hr => ?_⟩, fun hden => ⟨?_, ?_⟩⟩
  · rw [hlog, hden]
    simp only []
    cases f (aggArgs (chainVg pre) r0 (r0 :: rs)) <;> rfl
  · apply run_single env _ hwf' d r
    simp only [den, hden, hf, hr]
  · obtain ⟨st', h⟩ := retrieve_afn_fail (rest := []) i name f hf (retrieve_ok env pre hwf)
      default d d (some []) {} r0 rs hden hr
    simp only [Impl.run, h]
  · rw [hlog, hden]
  · apply run_none env _ hwf' d
    simp only [den, hden]

/-- non-vacuity: `$[*].max()` on `[1,3,2]` (value-group parameter: all three values);
    `$.max()` on the same document has a single-valued parameter selecting the array: its elements -/
example : wfChain Registry.env [.root ⟨"$", "", true, false⟩, .wild ⟨"[*]", "", true, false⟩] = true
    ∧ fnFree [.root ⟨"$", "", true, false⟩, .wild ⟨"[*]", "", true, false⟩] = true
    ∧ den Registry.env [.root ⟨"$", "", true, false⟩, .wild ⟨"[*]", "", true, false⟩]
        (.arr [.num 1, .num 3, .num 2]) (.arr [.num 1, .num 3, .num 2]) = [.num 1, .num 3, .num 2]
    ∧ aggArgs (chainVg [.root ⟨"$", "", true, false⟩, .wild ⟨"[*]", "", true, false⟩]) (.num 1) [.num 1, .num 3, .num 2]
        = [.num 1, .num 3, .num 2]
    ∧ aggArgs (chainVg [.root ⟨"$", "", false, false⟩]) (.arr [.num 1, .num 3, .num 2]) [.arr [.num 1, .num 3, .num 2]]
        = [.num 1, .num 3, .num 2] :=
  ⟨by decide, by decide, rfl, rfl, rfl⟩

/-- Chained filter functions apply left to right, depth first: `f` on a selected value, then
    at once `g` on `f`'s result when `f` succeeded, then the next value. -/
theorem C14_chain (env : Env) (pre : List N) (i j : Info) (fname gname : String) (ff gg : Val → Option Val)
    (hwf : wfChain env pre = true) (hfree : fnFree pre = true)
    (hf : env.ffn fname = some ff) (hg : env.ffn gname = some gg) (d : Val) :
    (Impl.run env (pre ++ [.ffn i fname, .ffn j gname]) d).2.log =
      (den env pre d d).flatMap (fun v => Call.ffn fname v ::
        ((ff v).map (fun r => Call.ffn gname r)).toList) ∧
    ((∃ rs, (Impl.run env (pre ++ [.ffn i fname, .ffn j gname]) d).1 = .ok rs ∧
        rs.map Res.val = ((den env pre d d).filterMap ff).filterMap gg ∧ rs ≠ []) ∨
     (∃ e, (Impl.run env (pre ++ [.ffn i fname, .ffn j gname]) d).1 = .err e ∧
        ((den env pre d d).filterMap ff).filterMap gg = [])) := by
  have hwf' : wfChain env (pre ++ [.ffn i fname, .ffn j gname]) = true := by
    simp [wfChain_append, hwf, wfChain, wfN, hf, hg]
  have hden : den env (pre ++ [.ffn i fname, .ffn j gname]) d d = ((den env pre d d).filterMap ff).filterMap gg := by
    have : pre ++ [.ffn i fname, .ffn j gname] = (pre ++ [.ffn i fname]) ++ [.ffn j gname] := by simp
    rw [this, BD.den_append, BD.den_append, ← flatMap_opt gg, ← flatMap_opt ff]
    rw [flatMap_congr'' (fun v => den_ffn_last env j gname gg hg d v),
      flatMap_congr'' (fun v => den_ffn_last env i fname ff hf d v)]
  refine ⟨?_, ?_⟩
  · rw [run_log env _ hwf', calls_append env _ pre hfree]
    apply flatMap_congr''
    intro v
    rw [calls_ffn_one env i fname ff hf]
    cases ff v with
    | none => rfl
    | some r => simp only [calls_ffn_last env j gname gg hg]; rfl
  · rw [← hden]
    exact run_outcome env _ hwf' d

/-- the per-function projections of the chained log: `f` on every selected value in order,
    `g` on every successful `f`-result in order -/
theorem C14_chain_projections (env : Env) (pre : List N) (i j : Info) (fname gname : String) (ff gg : Val → Option Val)
    (hwf : wfChain env pre = true) (hfree : fnFree pre = true)
    (hf : env.ffn fname = some ff) (hg : env.ffn gname = some gg) (hne : fname ≠ gname) (d : Val) :
    ffnArgs fname (Impl.run env (pre ++ [.ffn i fname, .ffn j gname]) d).2.log = den env pre d d ∧
    ffnArgs gname (Impl.run env (pre ++ [.ffn i fname, .ffn j gname]) d).2.log = (den env pre d d).filterMap ff := by
  rw [(C14_chain env pre i j fname gname ff gg hwf hfree hf hg d).1]
  exact ⟨ffnArgs_chain_left fname gname hne ff _, ffnArgs_chain_right fname gname hne ff _⟩

/-- non-vacuity: `$[*].failOdd().twice()` on `[1,2,3]` -/
example : wfChain Registry.env [.root ⟨"$", "", false, false⟩, .wild ⟨"[*]", "", true, false⟩] = true
    ∧ (Registry.env.ffn "failOdd").isSome = true ∧ (Registry.env.ffn "twice").isSome = true ∧ "failOdd" ≠ "twice" :=
  ⟨by decide, rfl, rfl, by decide⟩

/-- An aggregate followed by a filter function: the aggregate once, then the filter function
    once on its result. -/
theorem C14_chain_aggregate (env : Env) (pre : List N) (i j : Info) (aname fname : String)
    (fa : List Val → Option Val) (ff : Val → Option Val)
    (hwf : wfChain env pre = true) (hfree : fnFree pre = true)
    (ha : env.afn aname = some fa) (hf : env.ffn fname = some ff) (d : Val) (r0 : Val) (rs : List Val)
    (hden : den env pre d d = r0 :: rs) :
    (Impl.run env [.afn i aname pre, .ffn j fname] d).2.log =
      Call.afn aname (aggArgs (chainVg pre) r0 (r0 :: rs)) ::
        ((fa (aggArgs (chainVg pre) r0 (r0 :: rs))).map (fun r => Call.ffn fname r)).toList ∧
    (∀ r, (fa (aggArgs (chainVg pre) r0 (r0 :: rs))).bind ff = some r →
      ∃ x, (Impl.run env [.afn i aname pre, .ffn j fname] d).1 = .ok [x] ∧ x.val = r) ∧
    ((fa (aggArgs (chainVg pre) r0 (r0 :: rs))).bind ff = none →
      ∃ e, (Impl.run env [.afn i aname pre, .ffn j fname] d).1 = .err e) := by
  have hwf' : wfChain env [.afn i aname pre, .ffn j fname] = true := by simp [wfChain, wfN, ha, hf, hwf]
  have hD : den env [.afn i aname pre, .ffn j fname] d d =
      ((fa (aggArgs (chainVg pre) r0 (r0 :: rs))).bind ff).toList := by
    simp only [den, hden, ha]
    cases fa (aggArgs (chainVg pre) r0 (r0 :: rs)) with
    | none => rfl
    | some r =>
      simp only [Option.bind_some, hf]
      cases ff r <;> rfl
  refine ⟨?_, fun r hr => ?_, fun hr => ?_⟩
  · rw [run_log env _ hwf']
    simp only [calls, calls_fnFree env pre hfree, List.nil_append, hden, ha]
    cases fa (aggArgs (chainVg pre) r0 (r0 :: rs)) with
    | none => rfl
    | some r =>
      have := calls_ffn_last env j fname ff hf d r
      simp only [calls] at this
      simp only [this]
      rfl
  · apply run_single env _ hwf' d r
    rw [hD, hr]
    rfl
  · apply run_none env _ hwf' d
    rw [hD, hr]
    rfl

/-! ### nothing selected because functions failed -/

/-- If the path before the functions selects something but the whole chain selects nothing,
    the run errs with `ErrorFunctionFailed` of one of the filter-function nodes, and a call of
    that function that returned an error is in the log.
    `ConnSep pre fns`: every function's connectedText is non-empty and shorter than that of every
    navigation node before it — how `Parse` lays them out (connectedText = the path text from
    the node to the end); `addDeepestError` compares exactly these lengths. Without it the
    claim is false in the model (see the note after `C14_all_failed_built`, which discharges it
    for the trees `Parse` builds). -/
theorem C14_all_failed (env : Env) (pre fns : List N)
    (hwf : wfChain env (pre ++ fns) = true) (hfree : fnFree pre = true) (hall : allFfn fns = true)
    (hsep : ConnSep pre fns)
    (d : Val) (hsel : den env pre d d ≠ []) (hnone : den env (pre ++ fns) d d = []) :
    ∃ n ∈ fns, (Impl.run env (pre ++ fns) d).1 = .err (.func n.info) ∧
      ∃ c ∈ (Impl.run env (pre ++ fns) d).2.log, callOf n c = true ∧ failedCall env c = true :=
  all_failed_pre env pre fns hwf hfree hall hsep d hsel hnone

/-- non-vacuity: the tree `Parse` builds for `$[*].a.failAll()` (the `$` deleted), on
    `[{"a":1},{"b":2}]`: `.a` is missing in the second element, the function fails on the first -/
example :
    let pre : List N := [.wild ⟨"[*]", "[*].a.failAll()", true, false⟩, .child ⟨".a", ".a.failAll()", false, false⟩ "a"]
    let fns : List N := [.ffn ⟨".failAll()", ".failAll()", false, false⟩ "failAll"]
    let d : Val := .arr [.obj [("a", .num 1)], .obj [("b", .num 2)]]
    wfChain Registry.env (pre ++ fns) = true ∧ fnFree pre = true ∧ allFfn fns = true ∧ ConnSep pre fns ∧
      den Registry.env pre d d ≠ [] ∧ den Registry.env (pre ++ fns) d d = [] := by
  refine ⟨by decide, by decide, by decide, connSepB_sound (by decide), ?_, rfl⟩
  intro h
  have : den Registry.env [.wild ⟨"[*]", "[*].a.failAll()", true, false⟩, .child ⟨".a", ".a.failAll()", false, false⟩ "a"]
      (.arr [.obj [("a", .num 1)], .obj [("b", .num 2)]]) (.arr [.obj [("a", .num 1)], .obj [("b", .num 2)]]) = [.num 1] := rfl
  rw [this] at h
  cases h

/-- The same after an aggregate function (`[.afn i a pre] ++ ffns`, the shape `Parse` builds for
    `pre.a().f()…`): no loop surrounds the functions, so nothing about texts is assumed, and
    `pre` may itself contain functions. The failing node may be the aggregate. -/
theorem C14_all_failed_aggregate (env : Env) (pre ffns : List N) (i : Info) (a : String)
    (hwf : wfChain env (.afn i a pre :: ffns) = true) (hall : allFfn ffns = true)
    (d : Val) (hsel : den env pre d d ≠ []) (hnone : den env (.afn i a pre :: ffns) d d = []) :
    ∃ n ∈ (N.afn i a pre :: ffns), (Impl.run env (.afn i a pre :: ffns) d).1 = .err (.func n.info) ∧
      ∃ c ∈ (Impl.run env (.afn i a pre :: ffns) d).2.log, callOf n c = true ∧ failedCall env c = true :=
  all_failed_agg env pre ffns i a hwf hall d hsel hnone

/-- non-vacuity: `$[*].max().failAll()` on `[1,2]` -/
example :
    let pre : List N := [.wild ⟨"[*]", "", true, false⟩]
    wfChain Registry.env [.afn ⟨".max()", "", false, false⟩ "max" pre, .ffn ⟨".failAll()", "", false, false⟩ "failAll"] = true ∧
      den Registry.env pre (.arr [.num 1, .num 2]) (.arr [.num 1, .num 2]) = [.num 1, .num 2] ∧
      den Registry.env [.afn ⟨".max()", "", false, false⟩ "max" pre, .ffn ⟨".failAll()", "", false, false⟩ "failAll"]
        (.arr [.num 1, .num 2]) (.arr [.num 1, .num 2]) = [] :=
  ⟨by decide, rfl, rfl⟩

/-- With no assumption on texts at all: some logged call returned an error. -/
theorem C14_some_call_failed (env : Env) (pre fns : List N)
    (hwf : wfChain env (pre ++ fns) = true) (hfree : fnFree pre = true) (hall : allFfn fns = true)
    (d : Val) (hsel : den env pre d d ≠ []) (hnone : den env (pre ++ fns) d d = []) :
    ∃ c ∈ (Impl.run env (pre ++ fns) d).2.log, failedCall env c = true :=
  some_failed env pre fns hwf hfree hall d hsel hnone

/-- The error clause for the trees `Parse` builds, with no side condition on the tree
    (`Build.build` is the net effect of the parser actions, C01/C02): for a path whose written
    elements all have a non-empty text (the grammar produces no other) and whose functions are
    all filter functions (after an aggregate: `C14_all_failed_aggregate`), whatever way the
    built chain splits into a function-free prefix and filter functions. -/
theorem C14_all_failed_built (env : Env) (cfg : Cfg) (h : Head) (steps : List Step) (pfns : List Fn)
    (pre fns : List N) (d : Val)
    (htexts : ∀ t ∈ steps.flatMap stepTexts ++ pfns.map fnText, t ≠ "")
    (hffn : ∀ fn ∈ pfns, isFfnFn fn = true)
    (hb : Build.build env cfg (.mk h steps pfns) = .ok (pre ++ fns))
    (hfree : fnFree pre = true) (hall : allFfn fns = true)
    (hsel : den env pre d d ≠ []) (hnone : den env (pre ++ fns) d d = []) :
    ∃ n ∈ fns, (Impl.run env (pre ++ fns) d).1 = .err (.func n.info) ∧
      ∃ c ∈ (Impl.run env (pre ++ fns) d).2.log, callOf n c = true ∧ failedCall env c = true :=
  all_failed_pre env pre fns (BW.build_wf env cfg true _ _ hb) hfree hall
    (build_connSep env cfg h steps pfns pre fns htexts hffn hb) d hsel hnone

/-- non-vacuity: `$[*].a.failAll()` builds exactly the chain of the example after
    `C14_all_failed`; its texts are non-empty and its only function is a filter function -/
example :
    Build.build Registry.env ⟨false⟩ (.mk .root [.wild "[*]", .child ".a" "a"] [.ffn ".failAll()" "failAll"]) =
      .ok ([.wild ⟨"[*]", "[*].a.failAll()", true, false⟩, .child ⟨".a", ".a.failAll()", false, false⟩ "a"] ++
        [.ffn ⟨".failAll()", ".failAll()", false, false⟩ "failAll"]) ∧
    (∀ t ∈ [Step.wild "[*]", Step.child ".a" "a"].flatMap stepTexts ++ [Fn.ffn ".failAll()" "failAll"].map fnText, t ≠ "") ∧
    (∀ fn ∈ [Fn.ffn ".failAll()" "failAll"], isFfnFn fn = true) := by
  refine ⟨?_, by decide, by decide⟩
  simp only [Build.build, BD.buildPath_eq, Build.stepsPre, Build.stepPre]
  rfl

/- Why `ConnSep` cannot simply be dropped from `C14_all_failed` (a tree `Parse` never builds):
   pre = [wild ⟨"[*]","[*].a.f()"⟩, child ⟨".a",".a"⟩ "a"], fns = [ffn ⟨".failAll()",".failAll()"⟩ "failAll"],
   d = [{"a":1},{"b":2}]: `#eval Impl.run Registry.env (pre ++ fns) d` gives
   `err (member ⟨".a",".a",…⟩)` with log `[ffn "failAll" 1]` — the missing-member error of the
   second branch is "deeper" (2 bytes) than the function's (10 bytes) and replaces it. -/

/-! ### tie to the Go source (T1) -/

/-- `(*syntaxFilterFunction).retrieve`, as regenerated from the Go source on every run, is the
    `.ffn` equation of `Impl.retrieve` that all of the above rests on -/
theorem C14_ffn_is_go (env : Env) (i : Info) (name : String) (f : Val → Option Val) (hf : env.ffn name = some f)
    (rest : List N) (prev : Info) (root cur : Val) (aloc : Option Loc) (st : St) :
    retrieve env (.ffn i name :: rest) prev root cur aloc st =
      Gen.FunctionsGo.filterRetrieve (CallTie.filterRecv env i name f rest) root cur st :=
  CallTie.ffn_tie env i name f hf rest prev root cur aloc st

/-- `(*syntaxAggregateFunction).retrieve` likewise, for a well-formed parameter chain -/
theorem C14_afn_is_go (env : Env) (i : Info) (name : String) (f : List Val → Option Val) (hf : env.afn name = some f)
    (param rest : List N) (hwf : wfChain env param = true)
    (prev : Info) (root cur : Val) (aloc : Option Loc) (st : St) :
    retrieve env (.afn i name param :: rest) prev root cur aloc st =
      Gen.FunctionsGo.aggregateRetrieve (CallTie.aggRecv env i name f param rest aloc) root cur st :=
  CallTie.afn_tie env i name f hf param rest hwf prev root cur aloc st

example : (Registry.env.ffn "twice").isSome = true ∧ (Registry.env.afn "max").isSome = true ∧
    wfChain Registry.env [.wild ⟨"[*]", "", true, false⟩] = true := ⟨rfl, rfl, by decide⟩

end C14
end JPV
-- OBLIGATIONS: JPV.C14.C14_log_eq_calls JPV.C14.C14_filter_calls JPV.C14.C14_aggregate_once JPV.C14.C14_chain JPV.C14.C14_chain_projections JPV.C14.C14_chain_aggregate JPV.C14.C14_all_failed JPV.C14.C14_all_failed_built JPV.C14.C14_all_failed_aggregate JPV.C14.C14_some_call_failed JPV.CL.log_eq_calls JPV.CL.log_eq_callsQ JPV.CL.log_eq_callsP JPV.CL.log_eq_calls_pcurLoop JPV.C14.C14_ffn_is_go JPV.C14.C14_afn_is_go
