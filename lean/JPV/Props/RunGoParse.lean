import JPV.Props.RunGoGen
import JPV.Props.C02Fuel
/-!
# The top of the chain: the translated `Parse()` of jsonpath.peg.go is `Peg.run` (worker L30)

`Gen/PegRuntimeGo.lean` now also holds the closure `parse` of `Init` and the methods `Parse` / `Reset`, translated
statement by statement (generator `pegruntime`; the call `p.rules[r]()` is a parameter `ruleFn`). Here the parameter is
instantiated with the rule functions executed on the regenerated runtime (`runGo`, Peg/RunGo.lean), and jsonpath.go's
`parser.Init()/Reset(); parser.Parse()` — `ParseGo` — is proved to compute `Peg.run`:

  * `RG_Parse_is_run` (every closed grammar, memo on or off): `Parse()` returns nil iff `run` succeeds, and then the
    published token tree `p.tokens32.tree` (what `Tokens()` / `Execute()` read: `ptree`, the tree trimmed to tokenIndex),
    restricted to PegText/Action kinds, is the token list of `run`; it returns a `parseError` iff `run` fails.
  * `RG_Parse_is_recognise`: for the parser of jsonpath.peg.go with the fuel `fuelFor`, `Parse()` returns nil and the
    published tokens are those of `recognise input` — the GRAMMAR's recogniser (`C02_go_recognise` = `PegGo_equiv` +
    fuel adequacy), the one `parseModel` runs `exec` on.

Read, not proved, between jsonpath.go's `parser.Parse(); parser.Execute()` and `Peg.run Gen.grammar` + `Peg.exec` from
here on: the option loop of `Init` (jsonpath.go passes no option), the skeleton of `Init` (order of its statements —
pinned by `pegrules`), the `switch` form and the inlined-rule tokens (see Props/RunGoGen.lean), and the loop of
`Execute()` slicing `text` (Props/ActionsGen).

Sensitivity: see the end of this file.
-/
set_option linter.unusedVariables false
namespace JPV
namespace RunGoGen
open JPV.Peg JPV.Peg.Runtime JPV.Gen.PegRuntime JPV.Peg.RunGo JPV.PegRuntimeGen

/-- a rule function returns true / false; a Go panic (or the fuel of the model running out) is `none` -/
def outOpt : Out × RT → Option (Bool × RT)
  | (.ok, s) => some (true, s)
  | (.fail, s) => some (false, s)
  | _ => none

/-- the call `p.rules[r]()`: entry r of the table is the rule function of `names[r-1]` (`rul3s` without "Unknown") when
that rule has one; entry 0, an index out of range and a nil entry (inlined rule, action) panic -/
def ruleFnOf (g : Grammar) (n : Num) (names : List String) (fuel : Nat) : Int → RT → Option (Bool × RT) := fun r s =>
  if r < 1 then none else
  match names[(r - 1).toNat]? with
  | some name => if name ∈ g.map Prod.fst then outOpt (runGo g n fuel (.rule name) s) else none
  | none => none

/-- jsonpath.go: `parser.Buffer = path; parser.Init()` (first use) or `parser.Reset()`, then `parser.Parse()` -/
def ParseGo (g : Grammar) (n : Num) (names : List String) (fuel : Nat) (input : Array Char) (disableMemoize : Bool) :
    Option (Option Runtime.Tok × RT) :=
  (Reset (initRT input disableMemoize)).bind (Parse (ruleFnOf g n names fuel) [])

theorem finish_ok {M : MemP} {g : Grammar} {n : Num} {input : Array Char} {f k : Nat} {start : String} {names : List String}
    {s0 s' : RT} {toks : List Peg.Tok} (ht0 : s0.tokenIndex = 0) (hst : start ∈ g.map Prod.fst) (h1 : names[0]? = some start)
    (e1 : runGo g n f (.rule start) s0 = (.ok, s')) (post : Post M input s0 s' k)
    (kk : n.kinds (seg s0.tokenIndex s') = toks) :
    ∃ s'', parse (ruleFnOf g n names f) [] s0 = some (none, s'') ∧ s''.position = s'.position ∧ n.kinds s''.ptree = toks := by
  have hfn : ruleFnOf g n names f 1 s0 = some (true, s') := by
    simp [ruleFnOf, h1, hst, e1, outOpt]
  refine ⟨_, PR_parse_ok _ s0 s' hfn post.good.inv, rfl, ?_⟩
  rw [ht0] at kk
  simpa [seg] using kk

theorem finish_fail {g : Grammar} {n : Num} {f : Nat} {start : String} {names : List String} {s0 s' : RT}
    (hst : start ∈ g.map Prod.fst) (h1 : names[0]? = some start) (e1 : runGo g n f (.rule start) s0 = (.fail, s')) :
    ∃ mx s'', parse (ruleFnOf g n names f) [] s0 = some (some mx, s'') := by
  have hfn : ruleFnOf g n names f 1 s0 = some (false, s') := by
    simp [ruleFnOf, h1, hst, e1, outOpt]
  exact ⟨_, _, PR_parse_fail _ s0 s' hfn⟩

/-- THE TRANSLATED `Parse()` COMPUTES `Peg.run`, memoisation on or off, every closed grammar whose table starts with
the start rule -/
theorem RG_Parse_is_run (g : Grammar) (n : Num) (hw : Num.WF n) (hc : Closed g n) (names : List String) (start : String)
    (hst : start ∈ g.map Prod.fst) (h1 : names[0]? = some start) (input : Array Char) (hn : input.size + 1 < 4294967296)
    (f : Nat) (hb : adds g f (.rule start) input 0 < 4294967296) (d : Bool) :
    (∀ p' toks, run g f (.rule start) input 0 = .ok p' toks →
      ∃ s', ParseGo g n names f input d = some (none, s') ∧ s'.position = p' ∧ n.kinds s'.ptree = toks) ∧
    (run g f (.rule start) input 0 = .fail → ∃ mx s', ParseGo g n names f input d = some (some mx, s')) := by
  obtain ⟨s0, h0, hbuf, hp0, ht0, htr, hm, hd⟩ := reset_init input d
  have he : WIn g (.rule start) := by
    intro nm hmm
    simp only [refs, List.mem_singleton] at hmm
    rw [hmm]; exact hst
  have hPG : ParseGo g n names f input d = parse (ruleFnOf g n names f) [] s0 := by
    unfold ParseGo
    rw [PR_Reset, h0]; rfl
  rw [hPG]
  cases d with
  | true =>
    have hg : Good MOff input s0 := ⟨hbuf, by rw [ht0]; exact Nat.zero_le _, ⟨hd, hm⟩⟩
    have sim := RG_sim g n hw input hn f (.rule start) s0 trivial hg (by omega) (by rw [hp0, ht0]; omega)
    rw [hp0] at sim
    constructor
    · intro p' toks hr
      obtain ⟨s', e1, hp, _, post, kk⟩ := sim.1 p' toks hr
      obtain ⟨s'', a, b, c⟩ := finish_ok ht0 hst h1 e1 post kk
      exact ⟨s'', a, by rw [b, hp], c⟩
    · intro hr
      obtain ⟨s', e1, _⟩ := sim.2 hr
      exact finish_fail hst h1 e1
  | false =>
    have hg : Good (MOn g n input) input s0 := by
      refine ⟨hbuf, by rw [ht0]; exact Nat.zero_le _, ⟨hd, ?_⟩⟩
      intro k pos m hl; rw [hm] at hl; cases hl
    have sim := RG_sim_memo g n hw hc input hn f (.rule start) s0 he hg (by omega) (by rw [hp0, ht0]; omega)
    rw [hp0] at sim
    constructor
    · intro p' toks hr
      obtain ⟨s', e1, hp, _, post, kk⟩ := sim.1 p' toks hr
      obtain ⟨s'', a, b, c⟩ := finish_ok ht0 hst h1 e1 post kk
      exact ⟨s'', a, by rw [b, hp], c⟩
    · intro hr
      obtain ⟨s', e1, _⟩ := sim.2 hr
      exact finish_fail hst h1 e1

/-- `Parse()` of jsonpath.peg.go on the decompiled rule functions and the regenerated runtime -/
def ParseGoRules (fuel : Nat) (input : Array Char) (disableMemoize : Bool) : Option (Option Runtime.Tok × RT) :=
  ParseGo Gen.goGrammar goNum Gen.goRuleNames fuel input disableMemoize

/-- THE CAPSTONE for jsonpath.peg.go: with the recursion budget `fuelFor` (adequate: `C02_go_fuel_adequate`),
`parser.Parse()` returns no error and the tokens it publishes for `Execute()` are — restricted to the kinds `Execute()`
looks at — exactly the token list of `recognise input`, the recogniser of the GRAMMAR jsonpath.peg that `parseModel`
feeds to the action machine; the end position agrees too. Memoisation on or off. -/
theorem RG_Parse_is_recognise (input : Array Char) (hn : input.size + 1 < 4294967296)
    (hb : adds Gen.goGrammar (fuelFor input.size + 1) (.rule "expression") input 0 < 4294967296) (d : Bool) :
    ∃ s' p toks, ParseGoRules (fuelFor input.size + 1) input d = some (none, s') ∧ recognise input = .ok p toks ∧
      s'.position = p ∧ goNum.kinds s'.ptree = toks := by
  obtain ⟨p, toks, hrec⟩ := Props.C02_recognise_total input
  have hgo : run Gen.goGrammar (fuelFor input.size + 1) (.rule "expression") input 0 = .ok p toks := by
    have := Props.C02_go_recognise input
    rw [hrec] at this
    exact this
  obtain ⟨s', h1, h2, h3⟩ := (RG_Parse_is_run Gen.goGrammar goNum RG_goNum_wf RG_go_closed Gen.goRuleNames "expression"
    (by decide +kernel) (by decide +kernel) input hn _ hb d).1 p toks hgo
  exact ⟨s', p, toks, h1, hrec, h2, h3⟩

/-- no error iff the recogniser succeeds — both directions, any fuel at which `run` answers -/
theorem RG_Parse_error_iff (input : Array Char) (hn : input.size + 1 < 4294967296) (f : Nat)
    (hb : adds Gen.goGrammar f (.rule "expression") input 0 < 4294967296) (d : Bool)
    (hf : run Gen.goGrammar f (.rule "expression") input 0 ≠ .outOfFuel) :
    ∃ err s', ParseGoRules f input d = some (err, s') ∧
      (err = none ↔ ∃ p toks, run Gen.goGrammar f (.rule "expression") input 0 = .ok p toks) := by
  have h := RG_Parse_is_run Gen.goGrammar goNum RG_goNum_wf RG_go_closed Gen.goRuleNames "expression"
    (by decide +kernel) (by decide +kernel) input hn f hb d
  cases hr : run Gen.goGrammar f (.rule "expression") input 0 with
  | outOfFuel => exact absurd hr hf
  | ok p toks =>
    obtain ⟨s', h1, _, _⟩ := h.1 p toks hr
    exact ⟨none, s', h1, ⟨fun _ => ⟨p, toks, rfl⟩, fun _ => rfl⟩⟩
  | fail =>
    obtain ⟨mx, s', h1⟩ := h.2 hr
    refine ⟨some mx, s', h1, ?_⟩
    constructor
    · intro h; cases h
    · intro h; obtain ⟨p, toks, h⟩ := h; cases h

/-- hypotheses satisfiable, conclusion observed -/
example : exInput.size + 1 < 4294967296 ∧ adds Gen.goGrammar 60 (.rule "expression") exInput 0 < 4294967296 := by
  decide +kernel
example : (match run Gen.goGrammar 60 (.rule "expression") exInput 0, ParseGoRules 60 exInput false with
    | .ok p t, some (none, s) => s.position == p && goNum.kinds s.ptree == t && s.ptree.length == s.tokenIndex
    | _, _ => false) = true := by
  decide +kernel

/-
Sensitivity (2026-09-27, scratch worktree of /repo with one edit in jsonpath.peg.go, translate tool with `-repo <worktree>
-out <scratch>`, then RuntimeModel → Gen/PegRuntimeGo → Props/PegRuntimeGen compiled in a scratch root). Since the
closure bodies are no longer pinned by `pegrules`, BOTH generators accept both edits; the theorems decide:
  P1  parse: `p.Trim(tokenIndex)` removed         PR_parse_ok, PR_parse_arg and the success `example` fail (the published
                                                  tree keeps the stale tokens of failed alternatives above tokenIndex);
                                                  this file imports them: `finish_ok` / RG_Parse_is_run do not compile
  P2  parse: `r := 1` → `r := 2`                  PR_parse_ok, PR_parse_fail, PR_parse_panic and both `example`s fail
                                                  (the start rule is no longer `expression`)
-/

-- OBLIGATIONS: RG_Parse_is_run RG_Parse_is_recognise RG_Parse_error_iff

end RunGoGen
end JPV
