/-
C05 — a parsed function is pure: each call depends only on its argument.

In the model the parsed function is `Impl.run env ch : Val → Outcome × St`, a mathematical
function of the document — so "every call returns what a fresh Retrieve returns, whatever
was evaluated before" holds by construction *provided the model is faithful*, i.e. provided
evaluation does not modify anything that outlives the call: the parsed tree (literal
operands), the package-level marker lists, the caller's document. That proviso is the
content of this file; the history/pool side (results copied out of the pooled buffer, pooled
buffers truncated on release) is checked against the real code by the C05 history runner.
-/
import JPV.Lemmas.Refine
import JPV.Registry
namespace JPV
namespace C05
open Impl TSem

/-- The parsed tree and the package-level markers are constants: evaluation never writes to a
    literal operand stored in the tree, nor to `emptyList` / `fullList`. (On the pinned tree this
    was false: `$[?(1 == 2)]` blanked the literal — D7.) -/
theorem C05_tree_readonly (env : Env) (ch : List N) (hwf : wfChain env ch = true) (d : Val) :
    Org.literal ∉ (Impl.run env ch d).2.writes ∧ Org.gEmpty ∉ (Impl.run env ch d).2.writes ∧
    Org.gFull ∉ (Impl.run env ch d).2.writes := by
  have h : ∀ w ∈ (Impl.run env ch d).2.writes, w = Org.fresh := by
    rcases run_refines env ch hwf d with ⟨rs, st', h1, _, _, hw⟩ | ⟨e, st', h1, _, hw⟩ <;>
      (rw [h1]; exact hw)
  refine ⟨fun hm => ?_, fun hm => ?_, fun hm => ?_⟩ <;> (have := h _ hm; simp at this)

/-- a call history over one parsed tree -/
def history (env : Env) (ch : List N) (docs : List Val) : List Outcome :=
  docs.map (fun d => (Impl.run env ch d).1)

/-- The k-th outcome of any history is the outcome of a fresh evaluation of that document:
    definitional for a functional model; `C05_tree_readonly` + C04 are what make the
    functional model sound for the Go code. -/
theorem C05_history (env : Env) (ch : List N) (docs : List Val) (k : Nat) (d : Val)
    (h : docs[k]? = some d) : (history env ch docs)[k]? = some (Impl.run env ch d).1 := by
  simp [history, h]

/-- histories are insensitive to what was evaluated before or in between -/
theorem C05_history_insert (env : Env) (ch : List N) (pre mid post : List Val) (d : Val) :
    (history env ch (pre ++ d :: post))[pre.length]? = (history env ch (pre ++ mid ++ d :: post))[(pre ++ mid).length]? := by
  simp [history]

/-- the returned list is allocated after `retrieve` from the buffer's contents: results are the
    buffer's values, never the buffer (model: `run` returns `st.out`, a value) -/
theorem C05_result_values (env : Env) (ch : List N) (hwf : wfChain env ch = true) (d : Val) (rs : List Res) (st : St)
    (h : Impl.run env ch d = (.ok rs, st)) : rs.map Res.val = den env ch d d := by
  rcases run_refines env ch hwf d with ⟨rs', st', h1, hv, _, _⟩ | ⟨e, st', h1, _⟩
  · rw [h1] at h
    simp at h
    rw [← h.1]
    exact hv
  · rw [h1] at h
    simp at h

example : wfChain Registry.env [.filter ⟨"f", "f", true, false⟩
      (.cmp (.lit (.num 1)) (.lit (.num 2)) (.directEq .num))] = true := by decide

end C05
end JPV
-- OBLIGATIONS: JPV.C05.C05_tree_readonly JPV.C05.C05_history JPV.C05.C05_history_insert JPV.C05.C05_result_values
