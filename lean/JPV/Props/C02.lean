/-
C02 — Parse is total: the grammar part.
-/
import JPV.Lemmas.ParseModel
namespace JPV.Props
open JPV.Peg

/-- the second alternative of `expression` cannot fail, wherever it is started -/
theorem expression_alt2_ne_fail (inp : Array Char) (f pos : Nat) :
    run Gen.grammar f exprAlt2 inp pos ≠ .fail := by
  unfold exprAlt2
  apply seq_ne_fail
  · intro f; exact opt_ne_fail f _ _
  · intro _ f' p _ _
    apply seq_ne_fail
    · intro f; exact cap_ne_fail f _ _ (fun f => star_ne_fail f _ _)
    · intro f1 f2 p' t' h
      -- the capture ends at or beyond the end of the input
      have hend : inp.size ≤ p' := by
        cases f1 with
        | zero => rw [run_zero] at h; cases h
        | succ f1 =>
          rw [run_cap] at h
          cases hs : run Gen.grammar f1 (.star .any) inp p with
          | fail => rw [hs] at h; cases h
          | outOfFuel => rw [hs] at h; cases h
          | ok q tq =>
            rw [hs] at h
            cases h
            exact (star_any_end f1 p _ tq hs).1
      apply seq_ne_fail
      · intro f
        cases f with
        | zero => rw [run_zero]; simp
        | succ f => rw [run_rule, end_body]; exact not_any_ne_fail f p' hend
      · intro _ f' _ _ _; exact act_ne_fail f' _ _

/-- **C02_expression_never_fails.** For every input and every amount of fuel the start rule does
    not fail: the error `p.parse()` would return — and `Parse` ignores — does not exist. -/
theorem C02_expression_never_fails (input : Array Char) (fuel : Nat) :
    run Gen.grammar fuel (ruleBody Gen.grammar "expression") input 0 ≠ .fail := by
  rw [expression_body]
  cases fuel with
  | zero => rw [run_zero]; simp
  | succ f =>
    rw [run_alt]
    cases h : run Gen.grammar f exprAlt1 input 0 with
    | fail => exact expression_alt2_ne_fail input f 0
    | outOfFuel => simp
    | ok p t => simp

/-- **C02_fuel_mono.** More fuel never changes an answer that is not `outOfFuel` (any grammar, any
    expression, any position). -/
theorem C02_fuel_mono (g : Grammar) (e : PE) (input : Array Char) (pos : Nat) {fuel fuel' : Nat}
    (hle : fuel ≤ fuel') (h : run g fuel e input pos ≠ .outOfFuel) :
    run g fuel' e input pos = run g fuel e input pos :=
  run_mono e pos hle h

/-- **C02_outcome_shape.** What `parseModel` answers is determined by the recogniser's token list and
    the action machine: unless it answers `unmodelled`, the recogniser succeeded with some token
    list, and the answer is the tree `exec` built or the translation of the `Stop` it raised. -/
theorem C02_outcome_shape (env : Env) (ext : Ext) (cfg : Cfg) (s : String) :
    parseModel env ext cfg s = .unmodelled ∨
    ∃ p toks, recognise s.toList.toArray = .ok p toks ∧
      ((∃ ch, exec ⟨env, ext, cfg.accessor, s.toList.toArray⟩ toks = .ok ch ∧
          parseModel env ext cfg s = .ok ch) ∨
       (∃ st, exec ⟨env, ext, cfg.accessor, s.toList.toArray⟩ toks = .error st ∧
          parseModel env ext cfg s = outcomeOfStop s.toList.toArray st)) := by
  unfold parseModel parseInput
  split
  · exact .inl rfl
  · split
    · exact .inl rfl
    · exact .inl rfl
    · rename_i p toks hrec
      refine .inr ⟨p, toks, hrec, ?_⟩
      split
      · rename_i ch hex; exact .inl ⟨ch, hex, rfl⟩
      · rename_i st hex; exact .inr ⟨st, hex, rfl⟩

/-- `parseModel` answers `panic` only if `Actions.exec` raised that panic on the recogniser's tokens -/
theorem C02_panic_only_from_exec (env : Env) (ext : Ext) (cfg : Cfg) (s : String) (p : Panic)
    (h : parseModel env ext cfg s = .panic p) :
    ∃ pos toks, recognise s.toList.toArray = .ok pos toks ∧
      exec ⟨env, ext, cfg.accessor, s.toList.toArray⟩ toks = .error (.panic p) := by
  rcases C02_outcome_shape env ext cfg s with hu | ⟨pos, toks, hrec, hok | herr⟩
  · rw [hu] at h; cases h
  · obtain ⟨ch, _, hpm⟩ := hok
    rw [hpm] at h; cases h
  · obtain ⟨st, hex, hpm⟩ := herr
    rw [hpm] at h
    cases st <;> simp only [outcomeOfStop] at h <;> try (cases h)
    exact ⟨pos, toks, hrec, hex⟩

end JPV.Props
