/-
C02 — Parse is total: the grammar part.
-/
import JPV.Lemmas.Peg
import JPV.Gen.Grammar
namespace JPV.Props
open JPV.Peg

/-- the regenerated `expression` rule is what the proof below was written for -/
theorem expression_body :
    ruleBody Gen.grammar "expression" =
      .alt (.seq (.rule "jsonpath") (.seq (.rule "END") (.act 0)))
           (.seq (.opt (.rule "jsonpath")) (.seq (.cap (.star .any)) (.seq (.rule "END") (.act 1)))) := rfl

theorem end_body : ruleBody Gen.grammar "END" = .not .any := rfl

/-- the second alternative of `expression` cannot fail, wherever it is started -/
theorem expression_alt2_ne_fail (inp : Array Char) (f pos : Nat) :
    run Gen.grammar f
      (.seq (.opt (.rule "jsonpath")) (.seq (.cap (.star .any)) (.seq (.rule "END") (.act 1)))) inp pos ≠ .fail := by
  apply seq_ne_fail
  · intro f; exact opt_ne_fail f _ _
  · intro _ f' p _ _
    apply seq_ne_fail
    · intro f; exact cap_ne_fail f _ _ (fun f => star_ne_fail f _ _)
    · intro f1 f2 p' t' h
      -- the capture ends at or beyond the end of the input
      have hend : inp.size ≤ p' := by
        cases f1 with
        | zero => rw [run_zero] at h; cases h
        | succ f1 =>
          rw [run_cap] at h
          cases hs : run Gen.grammar f1 (.star .any) inp p with
          | fail => rw [hs] at h; cases h
          | outOfFuel => rw [hs] at h; cases h
          | ok q tq =>
            rw [hs] at h
            cases h
            exact (star_any_end f1 p _ tq hs).1
      apply seq_ne_fail
      · intro f
        cases f with
        | zero => rw [run_zero]; simp
        | succ f => rw [run_rule, end_body]; exact not_any_ne_fail f p' hend
      · intro _ f' _ _ _; exact act_ne_fail f' _ _

/-- **C02_expression_never_fails.** For every input and every amount of fuel the start rule does
    not fail: the error `p.parse()` would return — and `Parse` ignores — does not exist. -/
theorem C02_expression_never_fails (input : Array Char) (fuel : Nat) :
    run Gen.grammar fuel (ruleBody Gen.grammar "expression") input 0 ≠ .fail := by
  rw [expression_body]
  cases fuel with
  | zero => rw [run_zero]; simp
  | succ f =>
    rw [run_alt]
    cases h : run Gen.grammar f (.seq (.rule "jsonpath") (.seq (.rule "END") (.act 0))) input 0 with
    | fail => exact expression_alt2_ne_fail input f 0
    | outOfFuel => simp
    | ok p t => simp

/-- **C02_fuel_mono.** More fuel never changes an answer that is not `outOfFuel` (any grammar, any
    expression, any position). -/
theorem C02_fuel_mono (g : Grammar) (e : PE) (input : Array Char) (pos : Nat) {fuel fuel' : Nat}
    (hle : fuel ≤ fuel') (h : run g fuel e input pos ≠ .outOfFuel) :
    run g fuel' e input pos = run g fuel e input pos :=
  run_mono e pos hle h

end JPV.Props
