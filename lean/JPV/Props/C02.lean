/-
C02 — Parse is total: the grammar part.
-/
import JPV.Lemmas.ParseModel
import JPV.Lemmas.ActionsTotal
import JPV.Peg.ExtDriver
import JPV.Registry
namespace JPV.Props
open JPV.Peg

/-- the second alternative of `expression` cannot fail, wherever it is started -/
theorem expression_alt2_ne_fail (inp : Array Char) (f pos : Nat) :
    run Gen.grammar f exprAlt2 inp pos ≠ .fail := by
  unfold exprAlt2
  apply seq_ne_fail
  · intro f; exact opt_ne_fail f _ _
  · intro _ f' p _ _
    apply seq_ne_fail
    · intro f; exact cap_ne_fail f _ _ (fun f => star_ne_fail f _ _)
    · intro f1 f2 p' t' h
      -- the capture ends at or beyond the end of the input
      have hend : inp.size ≤ p' := by
        cases f1 with
        | zero => rw [run_zero] at h; cases h
        | succ f1 =>
          rw [run_cap] at h
          cases hs : run Gen.grammar f1 (.star .any) inp p with
          | fail => rw [hs] at h; cases h
          | outOfFuel => rw [hs] at h; cases h
          | ok q tq =>
            rw [hs] at h
            cases h
            exact (star_any_end f1 p _ tq hs).1
      apply seq_ne_fail
      · intro f
        cases f with
        | zero => rw [run_zero]; simp
        | succ f => rw [run_rule, end_body]; exact not_any_ne_fail f p' hend
      · intro _ f' _ _ _; exact act_ne_fail f' _ _

/-- **C02_expression_never_fails.** For every input and every amount of fuel the start rule does
    not fail: the error `p.parse()` would return — and `Parse` ignores — does not exist. -/
theorem C02_expression_never_fails (input : Array Char) (fuel : Nat) :
    run Gen.grammar fuel (ruleBody Gen.grammar "expression") input 0 ≠ .fail := by
  rw [expression_body]
  cases fuel with
  | zero => rw [run_zero]; simp
  | succ f =>
    rw [run_alt]
    cases h : run Gen.grammar f exprAlt1 input 0 with
    | fail => exact expression_alt2_ne_fail input f 0
    | outOfFuel => simp
    | ok p t => simp

/-- **C02_fuel_mono.** More fuel never changes an answer that is not `outOfFuel` (any grammar, any
    expression, any position). -/
theorem C02_fuel_mono (g : Grammar) (e : PE) (input : Array Char) (pos : Nat) {fuel fuel' : Nat}
    (hle : fuel ≤ fuel') (h : run g fuel e input pos ≠ .outOfFuel) :
    run g fuel' e input pos = run g fuel e input pos :=
  run_mono e pos hle h

/-- **C02_outcome_shape.** What `parseModel` answers is determined by the recogniser's token list and
    the action machine: unless it answers `unmodelled`, the recogniser succeeded with some token
    list, and the answer is the tree `exec` built or the translation of the `Stop` it raised. -/
theorem C02_outcome_shape (env : Env) (ext : Ext) (cfg : Cfg) (s : String) :
    parseModel env ext cfg s = .unmodelled ∨
    ∃ p toks, recognise s.toList.toArray = .ok p toks ∧
      ((∃ ch, exec ⟨env, ext, cfg.accessor, s.toList.toArray⟩ toks = .ok ch ∧
          parseModel env ext cfg s = .ok ch) ∨
       (∃ st, exec ⟨env, ext, cfg.accessor, s.toList.toArray⟩ toks = .error st ∧
          parseModel env ext cfg s = outcomeOfStop s.toList.toArray st)) := by
  unfold parseModel parseInput
  split
  · exact .inl rfl
  · split
    · exact .inl rfl
    · exact .inl rfl
    · rename_i p toks hrec
      refine .inr ⟨p, toks, hrec, ?_⟩
      split
      · rename_i ch hex; exact .inl ⟨ch, hex, rfl⟩
      · rename_i st hex; exact .inr ⟨st, hex, rfl⟩

/-- `parseModel` answers `panic` only if `Actions.exec` raised that panic on the recogniser's tokens -/
theorem C02_panic_only_from_exec (env : Env) (ext : Ext) (cfg : Cfg) (s : String) (p : Panic)
    (h : parseModel env ext cfg s = .panic p) :
    ∃ pos toks, recognise s.toList.toArray = .ok pos toks ∧
      exec ⟨env, ext, cfg.accessor, s.toList.toArray⟩ toks = .error (.panic p) := by
  rcases C02_outcome_shape env ext cfg s with hu | ⟨pos, toks, hrec, hok | herr⟩
  · rw [hu] at h; cases h
  · obtain ⟨ch, _, hpm⟩ := hok
    rw [hpm] at h; cases h
  · obtain ⟨st, hex, hpm⟩ := herr
    rw [hpm] at h
    cases st <;> simp only [outcomeOfStop] at h <;> try (cases h)
    exact ⟨pos, toks, hrec, hex⟩

/-- **C02_actions_total.** On every token list the regenerated grammar can produce from `expression`
    — for every input, every amount of fuel, every environment of registered functions, every
    behaviour of the standard-library functions (`Ext`) and both accessor modes — `Actions.exec`
    ends normally or with one of the documented errors: it raises no Go run-time panic (no pop of an
    empty stack, no failed type assertion, no `text[0:1]` on an empty capture, no nil root) and never
    reaches a value the model cannot represent.
    Proof: the tag checker of Peg/Effects.lean accepts `Gen.grammar` (`decide`), and the checker is
    sound for `Peg.run` + `Actions.execFrom` (`check_sound`, induction on the interpreter's fuel). -/
theorem C02_actions_total (c : Ctx) (fuel p : Nat) (toks : List Tok)
    (hrun : run Gen.grammar fuel (ruleBody Gen.grammar "expression") c.input 0 = .ok p toks) :
    ∀ e, exec c toks = .error e → e.documented :=
  exec_documented c fuel p toks hrun

/-- **C02_no_panic.** `parseModel` never answers `panic`: `Parse` never returns a Go run-time error. -/
theorem C02_no_panic (env : Env) (ext : Ext) (cfg : Cfg) (s : String) (p : Panic) :
    parseModel env ext cfg s ≠ .panic p := by
  intro h
  obtain ⟨pos, toks, hrec, hex⟩ := C02_panic_only_from_exec env ext cfg s p h
  exact C02_actions_total ⟨env, ext, cfg.accessor, s.toList.toArray⟩ _ pos toks hrec _ hex

/-- the outcome of `parseModel` is a tree, one of the four documented errors, or `unmodelled` -/
theorem C02_outcome_kinds (env : Env) (ext : Ext) (cfg : Cfg) (s : String) :
    (∃ ch, parseModel env ext cfg s = .ok ch) ∨
    (∃ pos reason near, parseModel env ext cfg s = .syntaxErr pos reason near) ∨
    (∃ a, parseModel env ext cfg s = .invalidArgument a) ∨
    (∃ t, parseModel env ext cfg s = .functionNotFound t) ∨
    (∃ f p, parseModel env ext cfg s = .notSupported f p) ∨
    parseModel env ext cfg s = .unmodelled := by
  cases h : parseModel env ext cfg s with
  | ok ch => exact .inl ⟨ch, rfl⟩
  | syntaxErr pos reason near => exact .inr (.inl ⟨pos, reason, near, rfl⟩)
  | invalidArgument a => exact .inr (.inr (.inl ⟨a, rfl⟩))
  | functionNotFound t => exact .inr (.inr (.inr (.inl ⟨t, rfl⟩)))
  | notSupported f p => exact .inr (.inr (.inr (.inr (.inl ⟨f, p, rfl⟩))))
  | panic p => exact absurd h (C02_no_panic env ext cfg s p)
  | unmodelled => exact .inr (.inr (.inr (.inr (.inr rfl))))

/-! Non-trivial instances: the recogniser succeeds with a token list on which `exec` builds a tree
    (nested filter, aggregate in an operand), and one on which it stops with a documented error. -/
def isOk : ParseOutcome → Bool
  | .ok (_ :: _) => true
  | _ => false
def isSyntaxErr (pos : Nat) (reason near : String) : ParseOutcome → Bool
  | .syntaxErr p r n => p == pos && r == reason && n == near
  | _ => false
def isNotFound (t : String) : ParseOutcome → Bool
  | .functionNotFound u => u == t
  | _ => false
example : isOk (parseModel Registry.env driverExt ⟨true⟩ "$..a[?(@.b.max() > 1 && !$['c','d'])].twice()") = true := by
  decide +kernel
example : isSyntaxErr 4 "comparison between two current nodes is prohibited" "@.a == @.b)]"
    (parseModel Registry.env driverExt ⟨false⟩ "$[?(@.a == @.b)]") = true := by decide +kernel
example : isNotFound ".nope()" (parseModel Registry.env driverExt ⟨false⟩ "$.a.nope()") = true := by
  decide +kernel
example : run Gen.grammar 200 (ruleBody Gen.grammar "expression") "$.a".toList.toArray 0 ≠ .fail :=
  C02_expression_never_fails _ _
example : run Gen.grammar 200 (ruleBody Gen.grammar "expression") "$.a".toList.toArray 0 ≠ .outOfFuel := by
  decide +kernel

-- OBLIGATIONS: C02_expression_never_fails C02_fuel_mono C02_outcome_shape C02_panic_only_from_exec C02_actions_total C02_no_panic C02_outcome_kinds

end JPV.Props
