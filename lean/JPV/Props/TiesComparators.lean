/-
Props/TiesComparators — T1 tie for the comparators (DESIGN §5.1).

The hand-written `Impl.cmpValidatorTy`, `valStep`, `cmpTest`, `comparator` are shown equal to one
record per syntax_query_compare_comparator_*.go as REGENERATED from /repo on every run
(Gen/Comparators.lean), read through the interpretation in Ties/Sem.lean. A comparator embeds a
validator (`T_comparator_valStep` runs it), so this module also rests on Gen/Validators.lean; it does
not depend on Gen/OperandOrder.lean or Gen/Facts.lean.
Only statements here; proofs are in Lemmas/TiesComparators.lean.
(Split out of the former single module Props/Ties.lean; names, namespace and statements unchanged.)
-/
import JPV.Lemmas.TiesComparators
namespace JPV
namespace Ties
open Impl Build

/-! ## 2. comparators -/

/-- which validator each comparator struct embeds -/
theorem T_comparator_embeds (c : Cmp) :
    (cmpRec c).validator =
      (match c with
       | .directEq _ => VRef.iface | .deepEq => .anyValue | .regex _ => .string | _ => .numeric) :=
  cmpRec_validator c

/-- `cmpValidatorTy` names the embedded validator (for DirectEQ: the one put into the interface field) -/
theorem T_comparator_validator (c : Cmp) :
    (match cmpValidatorTy c with | some ty => vrefOfLitTy ty | none => VRef.anyValue) = instValidator c :=
  cmpValidatorTy_eq c

/-- `valStep c` is `validate` of that validator, with the same write log -/
theorem T_comparator_valStep (c : Cmp) (lv : VL) (st : St) :
    runValStep (instValidator c) lv st = some (valStep c lv st) :=
  valStep_eq c lv st

/-- only DirectEQ does not skip marker cells -/
theorem T_comparator_skip (c : Cmp) :
    (cmpRec c).skipMarker = (match c with | .directEq _ => false | _ => true) := by
  cases c <;> rfl

/-- `cmpTest` is the regenerated test: operator and type assertion -/
theorem T_comparator_test (env : Env) (c : Cmp) (l r : Val) :
    cmpTest env c l r = evalTest env (cmpRec c).test (cmpRe c) l r :=
  cmpTest_eq env c l r

/-- **The loop.** `comparator` is the regenerated record run forward over the list: same result flag,
    same list afterwards, same number of writes, same panic. -/
theorem T_comparator_loop (env : Env) (c : Cmp) (r : Val) (cells : List Cell) :
    comparator env c r cells = runCmp env (cmpRec c) (cmpRe c) r cells :=
  comparator_eq_run env c r cells

example : comparator ⟨fun _ => none, fun _ => none, fun _ _ => false⟩ .lt (.num 3)
    [.val (.num 1), .empty, .val (.num 5)] = .ok (true, [.val (.num 1), .empty, .empty], 1) := rfl
example : runCmp ⟨fun _ => none, fun _ => none, fun _ _ => false⟩ Gen.Comparators.lt "" (.num 3)
    [.val (.num 1), .empty, .val (.num 5)] = .ok (true, [.val (.num 1), .empty, .empty], 1) := rfl
/-- DirectEQ writes the marker again over a marker cell -/
example : runCmp ⟨fun _ => none, fun _ => none, fun _ _ => false⟩ Gen.Comparators.directEQ "" (.num 3)
    [.empty, .val (.num 3)] = .ok (true, [.empty, .val (.num 3)], 1) := rfl

end Ties
end JPV

-- OBLIGATIONS: JPV.Ties.T_comparator_embeds JPV.Ties.T_comparator_validator JPV.Ties.T_comparator_valStep JPV.Ties.T_comparator_skip JPV.Ties.T_comparator_test JPV.Ties.T_comparator_loop
