/-
`Retrieve` over the explicit global state — the public one-shot wrapper is `Parse`, then ONE call of the
function it returned, and nothing else.

`Gen.ParseWrapGo.Retrieve` is /repo/jsonpath.go `Retrieve`, regenerated statement by statement on every run
(generator parsewrap.go; any other shape — a cache in front of `Parse`, a lock around the call, a package
variable — is refused), written with the regenerated `Parse` and the closure `Parse` returns.

  Retrieve_is_parse_then_call   for EVERY world: the outcome and the world left are those of `Parse` followed,
                                if it returned a function and no error, by that function applied to the document
                                in the world `Parse` left; with the mutex free at entry that world has the mutex
                                free again, `jsonPathParser{}` in the parser and `unlock` as its newest event
                                (C19_reset, C06_parse_atomic) — no lock is held while the closure (and the user
                                functions inside it) runs; on a held mutex `Retrieve` blocks and does nothing
  Retrieve_closure_quiet        and the closure adds pool and retrieve events only (C06_func_no_parser)
  Retrieve_history_state        from a world at rest: world and outcome are those of the two-operation history
                                [parse s config, call root d] as given by C19_history_state and C05_history_state;
                                at rest (and pools truncated) afterwards
  Retrieve_history_run          the same with the model's operations: the value is `Impl.run` (C05_history_run)
  Retrieve_spec                 from a world at rest the outcome is a function of path, document and Config alone
  Retrieve_no_state             two `Retrieve` calls in a row: the second's outcome does not depend on the first
-/
import JPV.Props.C19State
import JPV.Props.C05State
import JPV.Props.C06State
namespace JPV
namespace RetrieveState
open Glob Gen.ParseWrapGo Impl
variable {ι : Type}

/-- `Parse`, then — if it returned a function and no error — one call of that function in the world `Parse` left -/
def parseThenCall (ops : Ops ι) (s : String) (d : Val) (config : List Config) (ch : Choice) (o : ι) (w : World) :
    World × RetrieveRet :=
  let w' := (Parse ops s config w).1
  match (Parse ops s config w).2 with
  | .returned (some f) none => ((f d ch o w').1, .called (f d ch o w').2)
  | .returned _ (some e) => (w', .parseErr e)
  | .returned none none => (w', .nilFunc)
  | .panicked p => (w', .panicked p)
  | .blocked => (w', .blocked)

/-- **Retrieve_is_parse_then_call** -/
theorem Retrieve_is_parse_then_call (ops : Ops ι) (s : String) (d : Val) (config : List Config) (ch : Choice) (o : ι)
    (w : World) :
    Retrieve ops s d config ch o w = parseThenCall ops s d config ch o w ∧
    (w.mutex = false →
      (Parse ops s config w).1.mutex = false ∧
      (Parse ops s config w).1.parser.jsonPathParser = JsonPathParser.zero ∧
      ∃ mid, (Parse ops s config w).1.log = .unlock :: (mid ++ .lock :: w.log) ∧ ∀ e ∈ mid, e.isParser = true) ∧
    (w.mutex = true → Retrieve ops s d config ch o w = (w, .blocked)) := by
  refine ⟨?_, fun hw => ?_, fun hw => ?_⟩
  · unfold Retrieve parseThenCall
    rcases Parse ops s config w with ⟨w', r⟩
    cases r with
    | returned f e => cases f <;> cases e <;> rfl
    | panicked p => rfl
    | blocked => rfl
  · have h := (C19State.C19_reset ops w s config).1 hw
    exact ⟨h.2, h.1, C06State.C06_parse_atomic ops s config w hw⟩
  · unfold Retrieve
    rw [(C19State.C19_reset ops w s config).2 hw]

/-- `Retrieve` with the mutex free, by what `Parse` computes (`pureParse`, Lemmas/GlobState.lean) -/
theorem Retrieve_eq (ops : Ops ι) (s : String) (d : Val) (config : List Config) (ch : Choice) (o : ι) (w : World)
    (hw : w.mutex = false) :
    Retrieve ops s d config ch o w =
      (match pureParse ops s config w.parser.jsonPathParser with
       | .fn root => ((Parse_func ops root d ch o (Parse ops s config w).1).1,
                      .called (Parse_func ops root d ch o (Parse ops s config w).1).2)
       | .err e => ((Parse ops s config w).1, .parseErr e)
       | .nothing => ((Parse ops s config w).1, .nilFunc)) := by
  rw [(Retrieve_is_parse_then_call ops s d config ch o w).1]
  unfold parseThenCall
  rw [Parse_ret ops s config w hw]
  cases pureParse ops s config w.parser.jsonPathParser <;> rfl

/-- **Retrieve_closure_quiet**: when `Retrieve` gets as far as the call, the events the call adds to the log
    `Parse` left are pool and retrieve events only — no access to `parser`, no lock, no unlock; parser and mutex
    are as `Parse` left them -/
theorem Retrieve_closure_quiet (ops : Ops ι) (s : String) (d : Val) (config : List Config) (ch : Choice) (o : ι)
    (w : World) (hw : w.mutex = false) (root : Option Tree)
    (h : pureParse ops s config w.parser.jsonPathParser = .fn root) :
    (∃ mid, (Retrieve ops s d config ch o w).1.log = mid ++ (Parse ops s config w).1.log ∧
      ∀ e ∈ mid, e.isParser = false ∧ e ≠ .lock ∧ e ≠ .unlock) ∧
    (Retrieve ops s d config ch o w).1.parser = (Parse ops s config w).1.parser ∧
    (Retrieve ops s d config ch o w).1.mutex = false := by
  have hq := C06State.C06_func_no_parser ops root d ch o (Parse ops s config w).1
  rw [Retrieve_eq ops s d config ch o w hw, h]
  exact ⟨hq.1, hq.2.1, hq.2.2.trans ((C19State.C19_reset ops w s config).1 hw).2⟩

/-- the outcome of `Retrieve` as a function of path, document and configuration alone -/
def retrieveSpec (ops : Ops ι) (spec : Tree → Val → List Res × RetrRes) (s : String) (d : Val) (config : List Config) :
    RetrieveRet :=
  match pureParse ops s config JsonPathParser.zero with
  | .fn root => .called (callSpec spec root d)
  | .err e => .parseErr e
  | .nothing => .nilFunc

/-- **Retrieve_history_state**: at rest, `Retrieve` is the history `[Parse(s, config...), f(d)]`, `f` the function
    `Parse` returned; its two outcomes are the ones C19_history_state and C05_history_state give -/
theorem Retrieve_history_state (ops : Ops ι) (spec : Tree → Val → List Res × RetrRes) (hops : RetrieveOK ops spec)
    (w : World) (hw : AtRest w) (hp : w.pools.Truncated) (s : String) (d : Val) (config : List Config) (ch : Choice)
    (o : ι) (root : Option Tree) (h : pureParse ops s config JsonPathParser.zero = .fn root) :
    runOps ops w [.parse s config, .call root d ch o] =
      [.parsed (Parse ops s config World.zero).2, .called (callSpec spec root d)] ∧
    Retrieve ops s d config ch o w =
      (endWorld ops w [.parse s config, .call root d ch o], .called (callSpec spec root d)) ∧
    AtRest (Retrieve ops s d config ch o w).1 ∧ (Retrieve ops s d config ch o w).1.pools.Truncated := by
  have h0 := C19State.C19_history_state ops w hw [.parse s config, .call root d ch o] 0 s config rfl
  have h1 := C05State.C05_history_state ops spec hops w hp [.parse s config, .call root d ch o] 1 root d ch o rfl
  have e0 : (runOp ops w (.parse s config)).2 = .parsed (Parse ops s config World.zero).2 := by
    simpa [runOps] using h0.1
  have e1 : (runOp ops (runOp ops w (.parse s config)).1 (.call root d ch o)).2 = .called (callSpec spec root d) := by
    simpa [runOps] using h1.1
  have hr : Retrieve ops s d config ch o w =
      (endWorld ops w [.parse s config, .call root d ch o], .called (callSpec spec root d)) := by
    rw [Retrieve_eq ops s d config ch o w hw.2, hw.1, h]
    simp only [runOp] at e1
    simp only [endWorld, runOp]
    rw [Out.called.inj e1]
  refine ⟨by simp only [runOps, e0, e1], hr, ?_, ?_⟩
  · rw [hr]; exact h0.2
  · rw [hr]; exact h1.2

/-- **Retrieve_history_run**: with the model's operations the value is `Impl.run` of the parsed tree on the
    document (C05_history_run), and the tree is the one `Peg.parseModel` builds (C19_parse_is_parseModel) -/
theorem Retrieve_history_run (ext : Peg.Ext) (regex : String → String → Bool) (w : World) (hw : AtRest w)
    (hp : w.pools.Truncated) (s : String) (d : Val) (config : List Config) (ch : Choice) (t : Tree)
    (h : pureParse (modelOps ext regex) s config JsonPathParser.zero = .fn (some t)) :
    Retrieve (modelOps ext regex) s d config ch () w =
      (endWorld (modelOps ext regex) w [.parse s config, .call (some t) d ch ()],
       .called (callRetOfRun (Impl.run ⟨t.ffn, t.afn, regex⟩ t.ch d).1)) ∧
    (∃ r : PRet, (Parse (modelOps ext regex) s config w).2 = r.toRet (modelOps ext regex) ∧
      r.outcome s.toList.toArray = Peg.parseModel (envOf regex config) ext (cfgOf config) s) ∧
    AtRest (Retrieve (modelOps ext regex) s d config ch () w).1 := by
  have hs := Retrieve_history_state (modelOps ext regex) (runSpec regex) (C05State.C05_model_retrieveOK ext regex)
    w hw hp s d config ch () (some t) h
  have h1 := C05State.C05_history_run ext regex w hp [.parse s config, .call (some t) d ch ()] 1 t d ch rfl
  rw [hs.1] at h1
  have e : callSpec (runSpec regex) (some t) d = callRetOfRun (Impl.run ⟨t.ffn, t.afn, regex⟩ t.ch d).1 := by
    simpa using h1
  rw [← e]
  exact ⟨hs.2.1, C19State.C19_parse_is_parseModel ext regex w hw s config, hs.2.2.1⟩

/-- **Retrieve_spec**: from a world at rest with truncated pools — whatever else it holds: buffer, runtime, pool
    contents, log — and for every choice of the pool and every oracle, the outcome is `retrieveSpec`; the world is
    at rest with truncated pools afterwards -/
theorem Retrieve_spec (ops : Ops ι) (spec : Tree → Val → List Res × RetrRes) (hops : RetrieveOK ops spec)
    (w : World) (hw : AtRest w) (hp : w.pools.Truncated) (s : String) (d : Val) (config : List Config) (ch : Choice)
    (o : ι) :
    (Retrieve ops s d config ch o w).2 = retrieveSpec ops spec s d config ∧
    AtRest (Retrieve ops s d config ch o w).1 ∧ (Retrieve ops s d config ch o w).1.pools.Truncated := by
  have hrest : AtRest (Parse ops s config w).1 := (C19State.C19_reset ops w s config).1 hw.2 |> fun h => ⟨h.1, h.2⟩
  have hpool : (Parse ops s config w).1.pools.Truncated := by rw [Parse_pools]; exact hp
  cases h : pureParse ops s config JsonPathParser.zero with
  | fn root =>
    have hs := Retrieve_history_state ops spec hops w hw hp s d config ch o root h
    refine ⟨?_, hs.2.2.1, hs.2.2.2⟩
    rw [hs.2.1]
    simp [retrieveSpec, h]
  | err e =>
    rw [Retrieve_eq ops s d config ch o w hw.2, hw.1, h]
    exact ⟨by simp [retrieveSpec, h], hrest, hpool⟩
  | nothing =>
    rw [Retrieve_eq ops s d config ch o w hw.2, hw.1, h]
    exact ⟨by simp [retrieveSpec, h], hrest, hpool⟩

/-- **Retrieve_no_state**: two `Retrieve` calls in a row from a world at rest. Whatever the first call was — any
    path (failing or not), any document, any Config, any pool choice and oracle — the second returns what it
    returns in a fresh process, under any pool choice and oracle there -/
theorem Retrieve_no_state (ops : Ops ι) (spec : Tree → Val → List Res × RetrRes) (hops : RetrieveOK ops spec)
    (w : World) (hw : AtRest w) (hp : w.pools.Truncated)
    (s1 : String) (d1 : Val) (config1 : List Config) (ch1 : Choice) (o1 : ι)
    (s : String) (d : Val) (config : List Config) (ch ch' : Choice) (o o' : ι) :
    (Retrieve ops s d config ch o (Retrieve ops s1 d1 config1 ch1 o1 w).1).2 =
      (Retrieve ops s d config ch' o' World.zero).2 ∧
    (Retrieve ops s d config ch o (Retrieve ops s1 d1 config1 ch1 o1 w).1).2 = retrieveSpec ops spec s d config ∧
    AtRest (Retrieve ops s d config ch o (Retrieve ops s1 d1 config1 ch1 o1 w).1).1 := by
  have h1 := Retrieve_spec ops spec hops w hw hp s1 d1 config1 ch1 o1
  have h2 := Retrieve_spec ops spec hops _ h1.2.1 h1.2.2 s d config ch o
  have h0 := Retrieve_spec ops spec hops World.zero atRest_zero (by intro c hc; cases hc) s d config ch' o'
  exact ⟨h2.1.trans h0.1.symm, h2.1, h2.2.1⟩

/-! ### the hypotheses are satisfiable; the statements are not vacuous -/

example : AtRest World.zero ∧ World.zero.pools.Truncated := ⟨atRest_zero, by intro c hc; cases hc⟩

/-- after a failing `Retrieve` on a dirty world (stale root, stale stacks, used runtime, mutex free) the world is
    at rest: a second call then behaves as in a fresh process -/
example : AtRest (Retrieve C19State.junkOps "bad" .null [{ accessorMode := true }] {} () C19State.dirty).1 := by
  rw [Retrieve_eq _ _ _ _ _ _ _ rfl]
  exact Parse_reset _ _ _ _ rfl

/-- on a held mutex nothing happens: the lock is taken inside `Parse` only -/
example : Retrieve C19State.junkOps "$" .null [] {} () { mutex := true } = ({ mutex := true }, .blocked) :=
  (Retrieve_is_parse_then_call _ _ _ _ _ _ _).2.2 rfl

end RetrieveState
end JPV
-- OBLIGATIONS: JPV.RetrieveState.Retrieve_is_parse_then_call JPV.RetrieveState.Retrieve_closure_quiet
--   JPV.RetrieveState.Retrieve_history_state JPV.RetrieveState.Retrieve_history_run JPV.RetrieveState.Retrieve_spec
--   JPV.RetrieveState.Retrieve_no_state
