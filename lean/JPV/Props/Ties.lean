/-
Props/Ties — T1/T2 ties for the filter code (DESIGN §5.1, §5.2).

The hand-written evaluator model (Impl/Basic.lean: validateTy, validateAny, cmpValidatorTy, valStep,
cmpTest, comparator; Build.lean: rank, mkEq, mkOrd, litTyOfVal) is shown equal to descriptions that
are REGENERATED from /repo on every run:

  Gen/Validators.lean    the case tables of syntax_basic_type_validator_*.go
  Gen/Comparators.lean   one record per syntax_query_compare_comparator_*.go
  Gen/OperandOrder.lean  pushCompareEQ/NE/GE/GT/LE/LT and their helpers as Lean functions
  Gen/Facts.lean         structural facts, compared with Ties/Expect.lean

read through the interpretation in Ties/Sem.lean. A source change that alters the behaviour of one
of these files makes its generator stop (`untranslatable`) or changes the generated value, and then
the theorem below that mentions it no longer checks.
Only statements here; proofs are in Lemmas/Ties.lean.
-/
import JPV.Lemmas.Ties
import JPV.Gen.Facts
import JPV.Ties.Expect
namespace JPV
namespace Ties
open Impl Build

/-! ## 1. validators -/

/-- the generated table of the Go struct that `pushCompareEQ` instantiates for a literal type is the
    one `validateTy` is compared with -/
theorem T_validator_table (ty : LitTy) : Gen.Validators.table (vrefOfLitTy ty) = some (genTable ty) :=
  genTable_eq ty

/-- **One cell.** Looking the cell's dynamic type up in the regenerated case table gives exactly what
    `validateTy ty` does to that cell: the same contribution to `found`, the same new cell, and a
    write is logged iff the case body writes. -/
theorem T_validator_cell (ty : LitTy) (c : Cell) :
    validateTy ty [c] =
      (((genTable ty).act (cellTy c)).found,
       [applyWrite ((genTable ty).act (cellTy c)).write c],
       ((genTable ty).act (cellTy c)).write.count) :=
  validateTy_cell ty c

/-- **The loop.** `validateTy ty` is the regenerated table run over the list. -/
theorem T_validator_list (ty : LitTy) (cells : List Cell) :
    validateTy ty cells = runValidator (genTable ty) cells :=
  validateTy_eq_run ty cells

/-- `validateAny` is the recognised early-return loop of the any-value validator. -/
theorem T_validator_any (cells : List Cell) :
    validateAny cells = runAny Gen.Validators.anyValueLoop cells :=
  validateAny_eq_run cells

/-- a json.Number is converted (one write), a string is blanked (one write), the marker is left alone -/
example : validateTy .num [.val (.jnum 3), .val (.str "x"), .empty, .val (.num 4)] =
    (true, [.val (.num 3), .empty, .empty, .val (.num 4)], 2) := rfl
example : runValidator Gen.Validators.numericTable [.val (.jnum 3), .val (.str "x"), .empty, .val (.num 4)] =
    (true, [.val (.num 3), .empty, .empty, .val (.num 4)], 2) := rfl
example : runAny Gen.Validators.anyValueLoop [.empty, .val .null] = true := rfl

/-! ## 2. comparators -/

/-- which validator each comparator struct embeds -/
theorem T_comparator_embeds (c : Cmp) :
    (cmpRec c).validator =
      (match c with
       | .directEq _ => VRef.iface | .deepEq => .anyValue | .regex _ => .string | _ => .numeric) :=
  cmpRec_validator c

/-- `cmpValidatorTy` names the embedded validator (for DirectEQ: the one put into the interface field) -/
theorem T_comparator_validator (c : Cmp) :
    (match cmpValidatorTy c with | some ty => vrefOfLitTy ty | none => VRef.anyValue) = instValidator c :=
  cmpValidatorTy_eq c

/-- `valStep c` is `validate` of that validator, with the same write log -/
theorem T_comparator_valStep (c : Cmp) (lv : VL) (st : St) :
    runValStep (instValidator c) lv st = some (valStep c lv st) :=
  valStep_eq c lv st

/-- only DirectEQ does not skip marker cells -/
theorem T_comparator_skip (c : Cmp) :
    (cmpRec c).skipMarker = (match c with | .directEq _ => false | _ => true) := by
  cases c <;> rfl

/-- `cmpTest` is the regenerated test: operator and type assertion -/
theorem T_comparator_test (env : Env) (c : Cmp) (l r : Val) :
    cmpTest env c l r = evalTest env (cmpRec c).test (cmpRe c) l r :=
  cmpTest_eq env c l r

/-- **The loop.** `comparator` is the regenerated record run forward over the list: same result flag,
    same list afterwards, same number of writes, same panic. -/
theorem T_comparator_loop (env : Env) (c : Cmp) (r : Val) (cells : List Cell) :
    comparator env c r cells = runCmp env (cmpRec c) (cmpRe c) r cells :=
  comparator_eq_run env c r cells

example : comparator ⟨fun _ => none, fun _ => none, fun _ _ => false⟩ .lt (.num 3)
    [.val (.num 1), .empty, .val (.num 5)] = .ok (true, [.val (.num 1), .empty, .empty], 1) := rfl
example : runCmp ⟨fun _ => none, fun _ => none, fun _ _ => false⟩ Gen.Comparators.lt "" (.num 3)
    [.val (.num 1), .empty, .val (.num 5)] = .ok (true, [.val (.num 1), .empty, .empty], 1) := rfl
/-- DirectEQ writes the marker again over a marker cell -/
example : runCmp ⟨fun _ => none, fun _ => none, fun _ _ => false⟩ Gen.Comparators.directEQ "" (.num 3)
    [.empty, .val (.num 3)] = .ok (true, [.empty, .val (.num 3)], 1) := rfl

/-! ## 3. operand ordering -/
section
open Gen.OperandOrder

/-- the generator found exactly the six procedures -/
theorem T_order_procedures :
    procedures.map (·.1) =
      ["pushCompareEQ", "pushCompareNE", "pushCompareGE", "pushCompareGT", "pushCompareLE", "pushCompareLT"] :=
  procedures_names

/-- **Termination.** With fuel 3 (hence with any larger fuel) no procedure runs out of fuel, for every
    pair of abstract operands — including the flag/kind combinations the actions never produce. -/
theorem T_order_terminates (n : Nat) (a b : Opnd) (stk : Stack) :
    isOutOfFuel (pushCompareEQ (n + 3) a b stk) = false ∧ isOutOfFuel (pushCompareNE (n + 3) a b stk) = false ∧
    isOutOfFuel (pushCompareGE (n + 3) a b stk) = false ∧ isOutOfFuel (pushCompareGT (n + 3) a b stk) = false ∧
    isOutOfFuel (pushCompareLE (n + 3) a b stk) = false ∧ isOutOfFuel (pushCompareLT (n + 3) a b stk) = false :=
  ⟨pushCompareEQ_no_loop n a b stk, pushCompareNE_no_loop n a b stk, pushCompareGE_no_loop n a b stk,
   pushCompareGT_no_loop n a b stk, pushCompareLE_no_loop n a b stk, pushCompareLT_no_loop n a b stk⟩

/-- the same as a computation over all 6 × 14 × 14 cases; when it fails,
    `#eval looping Gen.OperandOrder.procedures 3` lists the looping (procedure, left, right) triples -/
theorem T_order_no_looping_pair : looping procedures 3 = [] := looping_none

/-- every procedure pushes exactly one query (for `==`/`!=`: when no literal has an unforeseen type) -/
theorem T_order_pushes_one (n : Nat) (a b : Opnd) (stk : Stack) :
    (a.known = true → b.known = true →
      (∃ t, pushCompareEQ (n + 3) a b stk = .ok (t :: stk)) ∧ (∃ t, pushCompareNE (n + 3) a b stk = .ok (t :: stk))) ∧
    (∃ t, pushCompareGE (n + 3) a b stk = .ok (t :: stk)) ∧ (∃ t, pushCompareGT (n + 3) a b stk = .ok (t :: stk)) ∧
    (∃ t, pushCompareLE (n + 3) a b stk = .ok (t :: stk)) ∧ (∃ t, pushCompareLT (n + 3) a b stk = .ok (t :: stk)) :=
  ⟨fun ha hb => ⟨pushCompareEQ_pushes n a b ha hb stk, pushCompareNE_pushes n a b ha hb stk⟩,
   pushCompareGE_pushes n a b stk, pushCompareGT_pushes n a b stk,
   pushCompareLE_pushes n a b stk, pushCompareLT_pushes n a b stk⟩

example : (⟨.literal .float64, true, .fst⟩ : Opnd).known = true := rfl

/-- **`==`.** What the regenerated `pushCompareEQ` pushes for two built operands is `Build.mkEq`:
    same operand order, same comparator, same validator. -/
theorem T_order_eq (n : Nat) (l r : P) (hl : litParsed l = true) (hr : litParsed r = true) (stk : Stack) :
    ∃ t, pushCompareEQ (n + 3) (opndOfP .fst l) (opndOfP .snd r) stk = .ok (t :: stk) ∧
      qOfTag? l r t = some (mkEq l r) :=
  pushCompareEQ_agrees n l r hl hr stk

/-- The statement of `T_order_eq` without the hypothesis on the literals. It is FALSE, and the reason is
    the model, not the code: `Build.litTyOfVal` is total (a `json.Number` literal would get the numeric
    validator, any other value the nil validator) while the Go type switch has cases for float64, bool,
    string, nil only and pushes nothing otherwise. No such literal can be parsed (`litParsed`), so
    `T_order_eq` is the strongest true statement. Witness: `@ == <json.Number 0>`. -/
def T_order_eq_full : Prop :=
  ∀ (n : Nat) (l r : P) (stk : Stack),
    ∃ t, pushCompareEQ (n + 3) (opndOfP .fst l) (opndOfP .snd r) stk = .ok (t :: stk) ∧
      qOfTag? l r t = some (mkEq l r)

theorem T_order_eq_full_false : ¬ T_order_eq_full := by
  intro h
  obtain ⟨t, h1, _⟩ := h 0 (.pcur []) (.lit (.jnum 0)) []
  have h2 : pushCompareEQ 3 (opndOfP .fst (.pcur [])) (opndOfP .snd (.lit (.jnum 0))) [] = .ok [] := rfl
  rw [h2] at h1
  cases h1

/-- **`!=`** is `.not (mkEq …)`. -/
theorem T_order_ne (n : Nat) (l r : P) (hl : litParsed l = true) (hr : litParsed r = true) (stk : Stack) :
    ∃ t, pushCompareNE (n + 3) (opndOfP .fst l) (opndOfP .snd r) stk = .ok (t :: stk) ∧
      qOfTag? l r t = some (.not (mkEq l r)) :=
  pushCompareNE_agrees n l r hl hr stk

/-- **`<  <=  >  >=`** are `Build.mkOrd` (no hypothesis: these do not look at the literal's type). -/
theorem T_order_ord (n : Nat) (l r : P) (stk : Stack) :
    (∃ t, pushCompareLT (n + 3) (opndOfP .fst l) (opndOfP .snd r) stk = .ok (t :: stk) ∧ qOfTag? l r t = some (mkOrd .lt l r)) ∧
    (∃ t, pushCompareLE (n + 3) (opndOfP .fst l) (opndOfP .snd r) stk = .ok (t :: stk) ∧ qOfTag? l r t = some (mkOrd .le l r)) ∧
    (∃ t, pushCompareGT (n + 3) (opndOfP .fst l) (opndOfP .snd r) stk = .ok (t :: stk) ∧ qOfTag? l r t = some (mkOrd .gt l r)) ∧
    (∃ t, pushCompareGE (n + 3) (opndOfP .fst l) (opndOfP .snd r) stk = .ok (t :: stk) ∧ qOfTag? l r t = some (mkOrd .ge l r)) :=
  ⟨pushCompareLT_agrees n l r stk, pushCompareLE_agrees n l r stk,
   pushCompareGT_agrees n l r stk, pushCompareGE_agrees n l r stk⟩

/-- the hypotheses are met by `1 == $.a` (the literal is swapped to the right, typed comparator) -/
example : litParsed (.lit (.num 1)) = true ∧ litParsed (.proot [.child ⟨"a", "", false, false⟩ "a"]) = true := ⟨rfl, rfl⟩
example : pushCompareEQ 3 (opndOfP .fst (.lit (.num 1))) (opndOfP .snd (.proot [])) [] =
    .ok [.cmp ⟨.root, true, .snd⟩ ⟨.literal .float64, true, .fst⟩ (.directEQ .numeric)] := rfl
/-- `1 < 2`: both operands carry isLiteral; one push, no mutual call -/
example : pushCompareLT 3 (opndOfP .fst (.lit (.num 1))) (opndOfP .snd (.lit (.num 2))) [] =
    .ok [.cmp ⟨.literal .float64, true, .fst⟩ ⟨.literal .float64, true, .snd⟩ .lt] := rfl

/-- recorded, not relied upon: the type switch of `pushCompareEQ` has no `default`, so for a literal of
    another type nothing would be pushed (and `pushCompareNE` would pop whatever lies below).
    The literal actions only push float64, bool, string, nil. -/
theorem T_order_eq_other_literal (n : Nat) (a : Opnd) (il : Bool) (s : Side) (stk : Stack) :
    pushCompareEQ (n + 3) a ⟨.literal .other, il, s⟩ stk = .ok stk ∨
    ∃ t, pushCompareEQ (n + 3) a ⟨.literal .other, il, s⟩ stk = .ok (t :: stk) :=
  pushCompareEQ_other n a il s stk
example : pushCompareNE 3 ⟨.currentRoot, false, .fst⟩ ⟨.literal .other, true, .snd⟩ [] = .error .popEmpty := rfl

end

/-! ## 4. extracted facts (T2)
`rfl` is the fast path (both sides unfold to the same literal); when the tables differ it fails and
`decide` reports that the equation is false. -/

theorem facts_writes : Gen.Facts.writes = Expect.writes := by first | rfl | decide
theorem facts_pkgVarAssign : Gen.Facts.pkgVarAssign = Expect.pkgVarAssign := by first | rfl | decide
theorem facts_returns : Gen.Facts.returns = Expect.returns := by first | rfl | decide
theorem facts_filterInput : Gen.Facts.filterInput = Expect.filterInput := by first | rfl | decide
theorem facts_pool : Gen.Facts.pool = Expect.pool := by first | rfl | decide
theorem facts_parseWrapper : Gen.Facts.parseWrapper = Expect.parseWrapper := by first | rfl | decide
theorem facts_parserRefs : Gen.Facts.parserRefs = Expect.parserRefs := by first | rfl | decide
theorem facts_panics : Gen.Facts.panics = Expect.panics := by first | rfl | decide
theorem facts_assertions : Gen.Facts.assertions = Expect.assertions := by first | rfl | decide
theorem facts_index0 : Gen.Facts.index0 = Expect.index0 := by first | rfl | decide
theorem facts_pkgVars : Gen.Facts.pkgVars = Expect.pkgVars := by first | rfl | decide

/-! Readable consequences, each checked directly on the regenerated tables (so a harmless change of an
unrelated row does not disturb them). -/

def col (r : Row) (i : Nat) : String := r[i]?.getD ""

/-- no `compute`, `validate`, `comparator` or `getIndexes` returns one of its own parameters — in particular
    a comparison never returns the list it was given (what f0c052a repaired) -/
theorem fact_no_method_returns_its_input :
    (Gen.Facts.returns.all fun r => col r 2 != "param") = true := by decide

/-- what a comparison's `compute` returns: the left operand's list, `emptyList`, `fullList`, `emptyList` -/
theorem fact_compare_query_returns :
    (Gen.Facts.returns.filter fun r => col r 0 == "syntaxBasicCompareQuery.compute").map (fun r => (col r 2, col r 3)) =
      [("local", "leftValues=call:compute"), ("pkgvar", "emptyList"), ("pkgvar", "fullList"), ("pkgvar", "emptyList")] := by
  decide

/-- an array's filter hands `compute` the caller's slice; an object's filter a list of its own -/
theorem fact_filter_input :
    Gen.Facts.filterInput =
      [["syntaxFilterQualifier.retrieveList", "srcList", "param", "srcList"],
       ["syntaxFilterQualifier.retrieveMap", "valueList", "local", "valueList=call:compute+make"]] := by
  decide

/-- the marker and the two marker lists are never written through, and never assigned -/
theorem fact_markers_never_written :
    (Gen.Facts.writes.all fun r => col r 3 != "emptyEntity" && col r 3 != "emptyList" && col r 3 != "fullList") = true ∧
    (Gen.Facts.pkgVarAssign.all fun r => col r 0 == "Parse" || col r 0 == "Parse·func") = true := by
  decide

/-- the only writes through a *parameter's* index are: validators and comparators (the list being
    filtered) and the two `Accessor.Set` closures (the document, on the user's request) -/
theorem fact_param_index_writes :
    ((Gen.Facts.writes.filter fun r => col r 1 == "index" && col r 4 == "param").map fun r => col r 0) =
      ["syntaxBasicBoolTypeValidator.validate", "syntaxBasicNilTypeValidator.validate",
       "syntaxBasicNode.retrieveListNext·func", "syntaxBasicNode.retrieveMapNext·func",
       "syntaxBasicNumericTypeValidator.validate", "syntaxBasicStringTypeValidator.validate",
       "syntaxCompareDeepEQ.comparator", "syntaxCompareDirectEQ.comparator", "syntaxCompareGE.comparator",
       "syntaxCompareGT.comparator", "syntaxCompareLE.comparator", "syntaxCompareLT.comparator",
       "syntaxCompareRegex.comparator"] := by
  decide

/-- `Parse`: lock first; exactly one defer, registered second, doing recover → reset → unlock;
    config copied only when given; the closure captures `root` and no package variable -/
theorem fact_parse_wrapper :
    ["00-first-statement", "parseMutex.Lock()"] ∈ Gen.Facts.parseWrapper ∧
    ["01-defer-count", "1"] ∈ Gen.Facts.parseWrapper ∧
    ["02-defer", "0", "second-statement", "recover,reset,unlock"] ∈ Gen.Facts.parseWrapper ∧
    ((Gen.Facts.parseWrapper.filter fun r => col r 0 == "04-config-copy").all fun r => col r 2 == "len(config) > 0") = true ∧
    ((Gen.Facts.parseWrapper.filter fun r => col r 0 == "06-closure-uses").map fun r => (col r 1, col r 2)) =
      [("getContainer", "pkgfunc"), ("putContainer", "pkgfunc"), ("root", "local-of-Parse:field:parser.jsonPathParser.root")] ∧
    (Gen.Facts.parserRefs.all fun r => col r 0 == "Parse" || col r 0 == "Parse·func") = true := by
  decide

/-- every `panic` raises one of the documented syntax-check errors -/
theorem fact_panics_documented :
    (Gen.Facts.panics.all fun r =>
      col r 1 == "lit:ErrorInvalidArgument" || col r 1 == "lit:ErrorFunctionNotFound" ||
      col r 1 == "lit:ErrorNotSupported" || col r 1 == "lit:ErrorInvalidSyntax" ||
      col r 1 == "call:p.syntaxErr") = true := by
  decide

/-- every `getContainer` is paired with a deferred `putContainer` in the same function -/
theorem fact_pool_container :
    ((Gen.Facts.pool.filter fun r => col r 1 == "getContainer").all fun r =>
      Gen.Facts.pool.contains [col r 0, "putContainer", col r 2, col r 2]) = true := by
  decide

end Ties
end JPV

-- OBLIGATIONS: JPV.Ties.T_validator_table JPV.Ties.T_validator_cell JPV.Ties.T_validator_list JPV.Ties.T_validator_any JPV.Ties.T_comparator_embeds JPV.Ties.T_comparator_validator JPV.Ties.T_comparator_valStep JPV.Ties.T_comparator_skip JPV.Ties.T_comparator_test JPV.Ties.T_comparator_loop JPV.Ties.T_order_procedures JPV.Ties.T_order_terminates JPV.Ties.T_order_no_looping_pair JPV.Ties.T_order_pushes_one JPV.Ties.T_order_eq JPV.Ties.T_order_eq_full_false JPV.Ties.T_order_ne JPV.Ties.T_order_ord JPV.Ties.T_order_eq_other_literal JPV.Ties.facts_writes JPV.Ties.facts_pkgVarAssign JPV.Ties.facts_returns JPV.Ties.facts_filterInput JPV.Ties.facts_pool JPV.Ties.facts_parseWrapper JPV.Ties.facts_parserRefs JPV.Ties.facts_panics JPV.Ties.facts_assertions JPV.Ties.facts_index0 JPV.Ties.facts_pkgVars JPV.Ties.fact_no_method_returns_its_input JPV.Ties.fact_compare_query_returns JPV.Ties.fact_filter_input JPV.Ties.fact_markers_never_written JPV.Ties.fact_param_index_writes JPV.Ties.fact_parse_wrapper JPV.Ties.fact_panics_documented JPV.Ties.fact_pool_container
