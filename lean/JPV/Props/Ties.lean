/-
Props/Ties — UMBRELLA only: T1/T2 ties for the filter code (DESIGN §5.1, §5.2).

The hand-written evaluator model (Impl/Basic.lean: validateTy, validateAny, cmpValidatorTy, valStep,
cmpTest, comparator; Build.lean: rank, mkEq, mkOrd, litTyOfVal) is shown equal to descriptions that
are REGENERATED from /repo on every run, read through the interpretation in Ties/Sem.lean. Lean checks
a module as a whole, so the ties are split by what they depend on — one broken tie then only breaks
the property checks that list its module:

  Props/TiesValidators.lean     Gen/Validators.lean    T_validator_*     (proofs: Lemmas/TiesValidators)
  Props/TiesComparators.lean    Gen/Comparators.lean   T_comparator_*    (proofs: Lemmas/TiesComparators; rests on the validators)
  Props/TiesOrder.lean          Gen/OperandOrder.lean  T_order_*         (proofs: Lemmas/TiesOrder)
  Props/Facts/<Table>.lean      one table of Gen/Facts.lean vs Ties/Expect.lean: facts_<table> and the
                                fact_* tripwires that read that table only
        Writes  PkgVarAssign  Returns  FilterInput  Pool  ParseWrapper  ParserRefs  Panics  Assertions  Index0  PkgVars
  Props/Facts/FactMarkersNeverWritten.lean   tripwire over writes + pkgVarAssign (no comparison with Expect)
  Props/Facts/FactParseWrapper.lean          tripwire over parseWrapper + parserRefs (no comparison with Expect)
  Props/Facts/Col.lean                       `Ties.col`, the column accessor of the tripwires

This file exists so that `import JPV.Props.Ties` keeps meaning "all ties". NOTHING in the package
should import it (it fails when ANY tie fails): import exactly the split modules you use, and list
exactly those in the property's module list.
-/
import JPV.Props.TiesValidators
import JPV.Props.TiesComparators
import JPV.Props.TiesOrder
import JPV.Props.Facts.Writes
import JPV.Props.Facts.PkgVarAssign
import JPV.Props.Facts.Returns
import JPV.Props.Facts.FilterInput
import JPV.Props.Facts.Pool
import JPV.Props.Facts.ParseWrapper
import JPV.Props.Facts.ParserRefs
import JPV.Props.Facts.Panics
import JPV.Props.Facts.Assertions
import JPV.Props.Facts.Index0
import JPV.Props.Facts.PkgVars
import JPV.Props.Facts.FactMarkersNeverWritten
import JPV.Props.Facts.FactParseWrapper

-- OBLIGATIONS: JPV.Ties.T_validator_table JPV.Ties.T_validator_cell JPV.Ties.T_validator_list JPV.Ties.T_validator_any JPV.Ties.T_comparator_embeds JPV.Ties.T_comparator_validator JPV.Ties.T_comparator_valStep JPV.Ties.T_comparator_skip JPV.Ties.T_comparator_test JPV.Ties.T_comparator_loop JPV.Ties.T_order_procedures JPV.Ties.T_order_terminates JPV.Ties.T_order_no_looping_pair JPV.Ties.T_order_pushes_one JPV.Ties.T_order_eq JPV.Ties.T_order_eq_full_false JPV.Ties.T_order_ne JPV.Ties.T_order_ord JPV.Ties.T_order_eq_other_literal JPV.Ties.facts_writes JPV.Ties.facts_pkgVarAssign JPV.Ties.facts_returns JPV.Ties.facts_filterInput JPV.Ties.facts_pool JPV.Ties.facts_parseWrapper JPV.Ties.facts_parserRefs JPV.Ties.facts_panics JPV.Ties.facts_assertions JPV.Ties.facts_index0 JPV.Ties.facts_pkgVars JPV.Ties.fact_no_method_returns_its_input JPV.Ties.fact_compare_query_returns JPV.Ties.fact_filter_input JPV.Ties.fact_markers_never_written JPV.Ties.fact_param_index_writes JPV.Ties.fact_parse_wrapper JPV.Ties.fact_panics_documented JPV.Ties.fact_pool_container
