/-
C13 — Accessor.Set / Get.

"For every accessor returned for a member or element of the document, Set(v) replaces exactly
that one location (the document afterwards equals the original with that location holding v
and nothing else changed), a following Get() returns v, and Get() reflects later in-place
updates of that map entry or array element.  Set is nil exactly for results that are not
locations of the document: the root itself and the outputs of functions."

Model.  A Go accessor is a pair of closures over (map, key) or (slice, index).  For a document
that is a tree (no map or slice reachable twice: the stated assumption of this property,
DESIGN §7) that pair is a location: the list of keys / indices from the root.  `Impl.retrieve`
computes it next to the value (`Res.acc v (some loc)`; `none`: `Set` is nil).  `Val.getAt` /
`Val.setAt` (Acc/Loc.lean) are what the closures do to the document; `Res.get` / `Res.set`
apply them: in the model an accessor IS its location, so "Get reads the current document" is
the definition (`C13_get_is_getAt`) and its content is in the consequences below.

Hypotheses.  `d.wf`: the document is a Go value (`map` keys are distinct; the model lists them
in ascending order).  `locChain true ch`: no navigation step is applied to the output of a
function or after a re-rooting `@` — every tree `Parse` builds is like that
(`build_locChain`; the `…_build` versions below take the path instead of the tree).
No well-formedness of the tree is needed: the statements are about runs that return results
(that a run on a well-formed tree returns is C03 / `run_refines`).

A chain violating `locChain`, e.g. `[ffn wrap, union [0]]` with the flag set, is the one place
where model and code differ in what they mean: the code's closure is over the list the
function returned, the model records `[idx 0]`.  No parse produces such a chain.
-/
import JPV.Lemmas.LocSound
import JPV.Lemmas.AccBuild
import JPV.Acc.Ties
import JPV.Registry
namespace JPV
namespace C13
open Impl

/-! ### C13_loc_sound -/

/-- **C13_loc_sound.**  Every accessor with a `Set` that a run returns points, in the document
    the run was given, at the value it was returned with. -/
theorem C13_loc_sound (env : Env) (ch : List N) (d : Val) (hd : d.wf = true) (hl : locChain true ch = true)
    (rs : List Res) (st : St) (h : Impl.run env ch d = (.ok rs, st)) :
    ∀ v loc, Res.acc v (some loc) ∈ rs → d.getAt loc = some v := by
  intro v loc hmem
  exact run_results (P := LocOK d) h
    (fun st' h' => retrieve_loc_sound env d hd ch true hl default d (some []) (getAt_nil d) {} st' none h')
    _ hmem v loc rfl

/-- the same for the tree `Parse` builds for a path, in either mode -/
theorem C13_loc_sound_build (env : Env) (cfg : Cfg) (p : Path) (ch : List N) (hb : Build.build env cfg p = .ok ch)
    (d : Val) (hd : d.wf = true) (rs : List Res) (st : St) (h : Impl.run env ch d = (.ok rs, st)) :
    ∀ v loc, Res.acc v (some loc) ∈ rs → d.getAt loc = some v :=
  C13_loc_sound env ch d hd (build_locChain env cfg p ch hb) rs st h

/-! ### C13_set_exact -/

/-- **C13_set_exact.**  Writing through a location that exists succeeds; afterwards the
    location holds the new value, and every location that is neither below nor above it
    reads exactly as before. -/
theorem C13_set_exact (d : Val) (loc : Loc) (v x : Val) (h : d.getAt loc = some v) :
    ∃ d', d.setAt loc x = some d' ∧ d'.getAt loc = some x ∧
      ∀ loc', ¬ Loc.prefixRelated loc loc' → d'.getAt loc' = d.getAt loc' :=
  setAt_exact loc d v x h

/-- the remaining locations: below the one written one reads inside the new value; above it
    one reads the old value with the rest of the location written — so the new document is the
    old one with that location holding `x` and nothing else changed -/
theorem C13_set_exact_rest (d d' : Val) (loc : Loc) (x : Val) (hs : d.setAt loc x = some d')
    (hg : d'.getAt loc = some x) :
    (∀ s, d'.getAt (loc ++ s) = x.getAt s) ∧
    (∀ p q u, loc = p ++ q → d.getAt p = some u → ∃ u', u.setAt q x = some u' ∧ d'.getAt p = some u') :=
  ⟨fun s => getAt_setAt_below hg s, fun p q u hpq hu => getAt_setAt_above p q d d' u x (hpq ▸ hs) hu⟩

/-- `Set` through an accessor a run returned: C13_loc_sound ∘ C13_set_exact -/
theorem C13_set_through (env : Env) (ch : List N) (d : Val) (hd : d.wf = true) (hl : locChain true ch = true)
    (rs : List Res) (st : St) (h : Impl.run env ch d = (.ok rs, st)) (v : Val) (loc : Loc)
    (hr : Res.acc v (some loc) ∈ rs) (x : Val) :
    ∃ d', (Res.acc v (some loc)).set d x = some d' ∧ (Res.acc v (some loc)).get d' = some x ∧
      ∀ loc', Loc.disjoint loc loc' → d'.getAt loc' = d.getAt loc' :=
  C13_set_exact d loc v x (C13_loc_sound env ch d hd hl rs st h v loc hr)

/-! ### C13_get_live -/

/-- `Get` of an accessor with a location is `getAt` of the CURRENT document — in the model an
    accessor is its location, so this is the definition of `Res.get` -/
theorem C13_get_is_getAt (v : Val) (loc : Loc) (dnow : Val) : (Res.acc v (some loc)).get dnow = dnow.getAt loc := rfl

/-- **C13_get_live.**  Two accessors `i`, `j` returned by one run; `Set(x)` through `i`.
    Then `Get` through `i` gives `x`; `Get` through `j` gives `x` as well when `j` is the same
    location (a later in-place update of the entry is seen), and still gives `j`'s original
    value when the two locations are disjoint. -/
theorem C13_get_live (env : Env) (ch : List N) (d : Val) (hd : d.wf = true) (hl : locChain true ch = true)
    (rs : List Res) (st : St) (h : Impl.run env ch d = (.ok rs, st))
    (vi vj : Val) (li lj : Loc) (hi : Res.acc vi (some li) ∈ rs) (hj : Res.acc vj (some lj) ∈ rs) (x : Val) :
    ∃ d', (Res.acc vi (some li)).set d x = some d' ∧
      (Res.acc vi (some li)).get d' = some x ∧
      (lj = li → (Res.acc vj (some lj)).get d' = some x) ∧
      (Loc.disjoint li lj → (Res.acc vj (some lj)).get d' = some vj) := by
  obtain ⟨d', hs, hg, hrest⟩ := C13_set_exact d li vi x (C13_loc_sound env ch d hd hl rs st h vi li hi)
  refine ⟨d', hs, hg, ?_, ?_⟩
  · rintro rfl; exact hg
  · intro hdis
    show d'.getAt lj = some vj
    rw [hrest lj hdis]
    exact C13_loc_sound env ch d hd hl rs st h vj lj hj

/-- `Get` before any `Set` returns the value the accessor was returned with -/
theorem C13_get_fresh (env : Env) (ch : List N) (d : Val) (hd : d.wf = true) (hl : locChain true ch = true)
    (rs : List Res) (st : St) (h : Impl.run env ch d = (.ok rs, st)) :
    ∀ r ∈ rs, r.get d = some r.val := by
  intro r hr
  match r, hr with
  | .plain v, _ => rfl
  | .acc v none, _ => rfl
  | .acc v (some loc), hr => exact C13_loc_sound env ch d hd hl rs st h v loc hr

/-! ### C13_set_nil_iff -/

/-- **C13_set_nil_iff.**  `Set` is nil exactly for the accessors appended by a chain whose last
    node is not a navigation step: `$`, `@`, or a function (`lastIsNav`, `isNav`). -/
theorem C13_set_nil_iff (env : Env) (ch : List N) (d : Val) (rs : List Res) (st : St)
    (h : Impl.run env ch d = (.ok rs, st)) :
    ∀ r ∈ rs, r.isAcc = true → r.setIsNil = !lastIsNav ch := by
  intro r hr hacc
  have := run_results (P := SetIs (lastIsNav ch)) h
    (fun st' h' => retrieve_set_nil env d ch default d (some []) {} st' none h') r hr
  match r, hacc, this with
  | .acc v none, _, this => have := this v none rfl; simp only [Res.setIsNil]; rw [← this]; rfl
  | .acc v (some l), _, this => have := this v (some l) rfl; simp only [Res.setIsNil]; rw [← this]; rfl

/-- what `lastIsNav` says: the kind of the last node -/
theorem C13_lastIsNav (ch : List N) (n : N) : lastIsNav (ch ++ [n]) = isNav n := lastIsNav_snoc ch n

/-- for a tree built with accessor mode on every result is an accessor, and it has a `Set`
    iff the last node of the tree is a navigation step -/
theorem C13_set_nil_iff_build (env : Env) (p : Path) (ch : List N) (hb : Build.build env ⟨true⟩ p = .ok ch)
    (d : Val) (rs : List Res) (st : St) (h : Impl.run env ch d = (.ok rs, st)) :
    ∀ r ∈ rs, r.isAcc = true ∧ r.setIsNil = !lastIsNav ch := by
  intro r hr
  have hacc : r.isAcc = true := run_results (P := fun r => r.isAcc = true) h
    (fun st' h' => retrieve_all_acc env ch default d d (some []) (build_flags env p ch hb default) {} st' none h') r hr
  exact ⟨hacc, C13_set_nil_iff env ch d rs st h r hr hacc⟩

/-! ### ties to the source (Gen/AccessorGo.lean is regenerated from /repo on every run) -/

/-- the three `retrieve…Next` helpers of syntaxBasicNode are the ones the model was written
    against, and each satisfies what C13 needs of it: the value appended / handed on is the value
    `Get` returns at creation; `Set` is nil, or assigns the very entry `Get` reads when called -/
theorem C13_tie_helpers :
    Gen.AccessorGo.helpers = Acc.Ties.expectHelpers ∧ Gen.AccessorGo.helpers.all Acc.Ties.Helper.ok = true :=
  ⟨Acc.Ties.T_helpers, Acc.Ties.T_helpers_ok⟩

/-- `isNav` (hence `lastIsNav` in C13_set_nil_iff) is the code's choice of helper: node kinds that
    end a chain through `retrieveMapNext` / `retrieveListNext` (accessors with a `Set`) are the
    navigation nodes; `$`, `@` and the functions use `retrieveAnyValueNext` (`Set: nil`) -/
theorem C13_tie_isNav :
    Gen.AccessorGo.helperCalls = Acc.Ties.expectHelperCalls ∧
    Gen.AccessorGo.helperCalls.all (fun row =>
      match Acc.Ties.nodeOfGo (row.getD 0 ""), Acc.Ties.hasSet (row.getD 1 "") with
      | some n, some b => isNav n == b
      | _, _ => false) = true :=
  ⟨Acc.Ties.T_helperCalls, Acc.Ties.T_isNav⟩

/-- results are appended only by the three helpers; multi-name nodes and `..` reach them through
    their inner identifiers / successor -/
theorem C13_tie_appends :
    Gen.AccessorGo.resultWrites = Acc.Ties.expectResultWrites ∧
    Gen.AccessorGo.retrieveCalls = Acc.Ties.expectRetrieveCalls :=
  ⟨Acc.Ties.T_resultWrites, Acc.Ties.T_retrieveCalls⟩

/-! ### non-vacuity -/

section Examples

def ia (t c : String) : Info := ⟨t, c, false, true⟩

/-- the tree of `$.a[1]` in accessor mode -/
def chA : List N := [.child (ia ".a" ".a[1]") "a", .union (ia "[1]" "[1]") [.idx 1]]
/-- the tree of `$.a[1].twice()` in accessor mode -/
def chF : List N := chA ++ [.ffn (ia ".twice()" ".twice()") "twice"]

def doc : Val := .obj [("a", .arr [.num 1, .num 2]), ("b", .null)]

theorem run_chA : (Impl.run Registry.env chA doc).1 = .ok [.acc (.num 2) (some [.key "a", .idx 1])] := by
  simp [Impl.run, retrieve, chA, doc, ia, Val.lookup, subIndexes, loopAcc, stepAcc, endGroup, finishGroup, ext,
    St.push, bind, Except.bind]

theorem run_chF : (Impl.run Registry.env chF doc).1 = .ok [.acc (.num 4) none] := by
  simp [Impl.run, retrieve, chF, chA, doc, ia, Val.lookup, subIndexes, loopAcc, stepAcc, endGroup, finishGroup, ext,
    St.push, St.call, bind, Except.bind, Registry.env, Registry.ffn]

/-- C13_loc_sound, C13_set_through, C13_get_live: hypotheses hold for `$.a[1]` on `{"a":[1,2],"b":null}` -/
example : doc.wf = true ∧ locChain true chA = true ∧
    ∃ rs st, Impl.run Registry.env chA doc = (.ok rs, st) ∧ Res.acc (.num 2) (some [.key "a", .idx 1]) ∈ rs := by
  refine ⟨by decide, by decide, _, _, Prod.ext run_chA rfl, by simp⟩

/-- C13_set_exact: the location exists, the write is the expected document, a disjoint location exists -/
example : doc.getAt [.key "a", .idx 1] = some (.num 2) ∧
    doc.setAt [.key "a", .idx 1] (.str "x") = some (.obj [("a", .arr [.num 1, .str "x"]), ("b", .null)]) ∧
    Loc.disjoint [.key "a", .idx 1] [.key "a", .idx 0] ∧ ¬ Loc.disjoint [.key "a", .idx 1] [.key "a"] :=
  ⟨rfl, rfl, by decide, by decide⟩

/-- C13_set_exact_rest: below the written location one reads inside the new value; the location above
    it (`["a"]`) holds its old value `[1,2]` with index 1 written -/
example : (Val.obj [("a", .arr [.num 1, .arr [.str "x"]]), ("b", .null)]).getAt ([.key "a", .idx 1] ++ [.idx 0]) =
      (Val.arr [.str "x"]).getAt [.idx 0] ∧
    doc.getAt [.key "a"] = some (.arr [.num 1, .num 2]) ∧
    (Val.arr [.num 1, .num 2]).setAt [.idx 1] (.str "x") = some (.arr [.num 1, .str "x"]) :=
  ⟨rfl, rfl, rfl⟩

/-- C13_set_nil_iff: both sides occur — `$.a[1]` ends in a navigation step and its accessor has a
    `Set`; `$.a[1].twice()` ends in a function and its accessor has none -/
example : lastIsNav chA = true ∧ lastIsNav chF = false ∧
    (∃ rs st, Impl.run Registry.env chA doc = (.ok rs, st) ∧ ∃ r ∈ rs, r.isAcc = true ∧ r.setIsNil = false) ∧
    (∃ rs st, Impl.run Registry.env chF doc = (.ok rs, st) ∧ ∃ r ∈ rs, r.isAcc = true ∧ r.setIsNil = true) :=
  ⟨by decide, by decide,
   ⟨_, _, Prod.ext run_chA rfl, _, List.mem_singleton.mpr rfl, rfl, rfl⟩,
   ⟨_, _, Prod.ext run_chF rfl, _, List.mem_singleton.mpr rfl, rfl, rfl⟩⟩

/-- the `…_build` versions: `Parse` accepts `$.a[1]` with accessor mode on -/
example : ∃ ch, Build.build Registry.env ⟨true⟩ (.mk .root [.child ".a" "a", .union "[1]" [.idx 1]] []) = .ok ch := by
  simp [Build.build, Build.buildPath, Build.stepsPre, Build.stepPre, Build.mkInfos, Build.assemble, Build.finish,
    bind, Except.bind, Build.suffixTexts, Build.lastAfnIdx, Pre.text, List.zipIdx, Pre.isAfn]

end Examples

end C13
end JPV
-- OBLIGATIONS: JPV.C13.C13_loc_sound JPV.C13.C13_loc_sound_build JPV.C13.C13_set_exact JPV.C13.C13_set_exact_rest JPV.C13.C13_set_through JPV.C13.C13_get_is_getAt JPV.C13.C13_get_live JPV.C13.C13_get_fresh JPV.C13.C13_set_nil_iff JPV.C13.C13_set_nil_iff_build JPV.C13.C13_lastIsNav JPV.C13.C13_tie_helpers JPV.C13.C13_tie_isNav JPV.C13.C13_tie_appends
