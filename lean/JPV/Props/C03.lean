/-
C03 — evaluation is total: for every well-formed tree (what `Parse` builds, `build_wf`) and
every source value — including opaque non-JSON leaves — the function returned by `Parse`
does not panic and yields a non-empty result list or a runtime error, and it reports an
error exactly when the query selects nothing.
-/
import JPV.Lemmas.Refine
import JPV.Registry
namespace JPV
namespace C03
open Impl TSem

/-- No index-out-of-range, no failed type assertion, no comparison of uncomparable values:
    every unchecked site of the evaluator (`values.result[0]`, `container.result[0]`,
    `valueList[0]`, `rightValues[0]`, `currentList[index]`, `.(float64)`, `.(string)`,
    interface `==`) is safe on a well-formed tree, for every document. -/
theorem C03_no_panic (env : Env) (ch : List N) (hwf : wfChain env ch = true) (d : Val) :
    ∀ p st, Impl.run env ch d ≠ (.panic p, st) := by
  intro p st h
  rcases run_refines env ch hwf d with ⟨rs, st', h1, _⟩ | ⟨e, st', h1, _⟩ <;>
    (rw [h1] at h; simp at h)

/-- The outcome is a non-empty result list, or an error (of the three runtime kinds — the
    only constructors of `RtErr`); never an empty success. -/
theorem C03_shape (env : Env) (ch : List N) (hwf : wfChain env ch = true) (d : Val) :
    (∃ rs st, Impl.run env ch d = (.ok rs, st) ∧ rs ≠ []) ∨ (∃ e st, Impl.run env ch d = (.err e, st)) := by
  rcases run_refines env ch hwf d with ⟨rs, st', h1, _, hne, _⟩ | ⟨e, st', h1, _⟩
  · exact Or.inl ⟨rs, st', h1, hne⟩
  · exact Or.inr ⟨e, st', h1⟩

/-- A query that matches nothing is always reported as an error, and only then. -/
theorem C03_empty_is_error (env : Env) (ch : List N) (hwf : wfChain env ch = true) (d : Val) :
    (∃ e st, Impl.run env ch d = (.err e, st)) ↔ den env ch d d = [] := by
  constructor
  · rintro ⟨e, st, h⟩
    rcases run_refines env ch hwf d with ⟨rs, st', h1, _⟩ | ⟨e', st', _, hd, _⟩
    · rw [h1] at h; simp at h
    · exact hd
  · intro hd
    rcases run_refines env ch hwf d with ⟨rs, st', h1, hv, hne, _⟩ | ⟨e', st', h1, _⟩
    · rw [hd] at hv
      simp at hv
      exact absurd hv hne
    · exact ⟨e', st', h1⟩

/-- the hypotheses are satisfiable: a filter with a comparison, on a three-member array -/
example : wfChain Registry.env
    [.filter ⟨"[?(@.a>1)]", "[?(@.a>1)]", true, false⟩
      (.cmp (.pcur [.child ⟨".a", "", false, false⟩ "a"]) (.lit (.num 1)) .gt)] = true := by decide

end C03
end JPV
-- OBLIGATIONS: JPV.C03.C03_no_panic JPV.C03.C03_shape JPV.C03.C03_empty_is_error
