/-
Props/PegGoGen — the rule functions of jsonpath.peg.go recognise exactly what jsonpath.peg says (L20; C17, also C02 C16 C18).

`Gen/PegGoRules.lean` is REGENERATED from /repo on every run by the generator `pegrules`
(harness/cmd/translate/pegrules.go): every rule function of the `_rules` table in `Init` is DECOMPILED — by
matching the code templates of pointlander-peg, not by reading the comments — into the parsing expression
its code implements (`Gen.goRule_<name>`, `Gen.goGrammar`): save/restore pairs, failure labels, loops, the
inlined bodies of the rules without a function, and the switch optimisation as the guarded choice it is.
`Gen/Grammar.lean` is regenerated from jsonpath.peg (`Gen.grammar`). Both are `Peg.PE` data run by the same
interpreter `Peg.run` (position, PegText/Action tokens, or failure).

THE FULL-STRENGTH STATEMENT with one fuel,

    ∀ fuel input pos, run Gen.goGrammar fuel (.rule "expression") input pos
                    = run Gen.grammar   fuel (.rule "expression") input pos,

is FALSE (`PegGo_same_fuel_false`: on "$" with fuel 17 the decompiled code answers, the grammar is out of
fuel): fuel is recursion depth, inlining saves depth and the guards of a switch cost depth. What holds, and is
proved here for ALL inputs and positions, is the statement with two fuels:

  * `PegGo_equiv`      : whenever both answer (≠ outOfFuel) the answers are EQUAL
                          (same end position and same token stream, or both fail);
  * `PegGo_sim_go_peg` : if the decompiled code answers with fuel f, the grammar gives that answer with fuel 800·f + 38;
  * `PegGo_sim_peg_go` : if the grammar answers with fuel f, the decompiled code gives that answer with fuel 800·f + 38
                          (so one side answers iff the other does: same language, same tokens, same divergence);
  * the same for the body of "expression" (the form `ParseModel.recognise` and the driver use) and for every
    rule that has a function of its own (`PegGo_rule_*`).

Route: `Peg.eqv` (Peg/Equiv.lean) is an executable checker — flattening of sequences, 'abc' = 'a' 'b' 'c',
e+ = e e*, rule reference = rule body (inlining), single-character matchers compared as code-point sets,
the switch optimisation `(&[S] A) / R` justified by a first-character analysis (`behave`), removal of
alternatives that certainly fail under what is known about the current character. `Peg.eqv_sim`
(Lemmas/PegEquivSim.lean) proves it sound for `Peg.run` by induction on fuel, with a linear fuel bound.
The kernel evaluates the checker on the 27 rule pairs, in both directions (`PegGo_rules_*`, `decide`).
A change of a rule function of jsonpath.peg.go that changes the expression it implements (a range bound,
the order of two alternatives with overlapping first characters, a wrong restore, a missing guard, …)
makes the generator refuse or makes `PegGo_rules_*` evaluate to `false`, i.e. this file stops compiling.

NOT covered here (see the header of Gen/PegGoRules.lean for the exact text): the ~60 lines of runtime around
the table (reset / end symbol, add / token buffer, memoize / memoizedResult, matchDot, Parse) are PINNED
textually by the generator and READ as described there — in particular the memo table is taken to be a
transparent cache; `Execute()` is covered by the grammar generator (action bodies) and Props/ParserGen.
Only statements here; proofs are in Lemmas/PegEquiv*.lean.
-/
import JPV.Lemmas.PegEquivSim
import JPV.Gen.Grammar
import JPV.Gen.PegGoRules
import JPV.Peg.ParseModel
namespace JPV
namespace PegGoGen
open JPV.Peg

/-- the rules that have a function of their own in jsonpath.peg.go -/
def goNames : List String := Gen.goGrammar.map (·.1)

/-- checker fuel per rule pair, analysis fuel, and the slope of the fuel bound -/
def n0 : Nat := 200
def N : Nat := 30
def K : Nat := 4 * n0

/-- decompiled code simulated by the grammar -/
def cGoPeg : EqCfg := ⟨Gen.goGrammar, Gen.grammar, goNames, N⟩
/-- grammar simulated by the decompiled code -/
def cPegGo : EqCfg := ⟨Gen.grammar, Gen.goGrammar, goNames, N⟩

/-! ## 1. The checker accepts every rule pair (kernel evaluation) -/

set_option maxRecDepth 100000 in
theorem PegGo_rules_go_peg : eqvRules cGoPeg n0 = true := by decide +kernel

set_option maxRecDepth 100000 in
theorem PegGo_rules_peg_go : eqvRules cPegGo n0 = true := by decide +kernel

/-- every rule name of the decompiled table is a rule of the grammar, and the start rule has a function -/
theorem PegGo_names : goNames.all (fun x => (Gen.grammar.lookup x).isSome) = true ∧ goNames.contains "expression" = true := by
  decide +kernel

/-! ## 2. What the checker's verdict means (generic) -/

/-- soundness of the checker, instantiated: whatever `eqv` accepts is simulated with fuel `K·f + 4·n + N` -/
theorem PegGo_checker_sound_go_peg (f n : Nat) (k : Know) (as bs : List PE)
    (h : eqv cGoPeg n k as bs = true) (inp : Array Char) (pos : Nat) (r : Result)
    (hk : k.holds inp pos) (hrun : runSeq Gen.goGrammar f as inp pos = r) (hr : r ≠ .outOfFuel) :
    runSeq Gen.grammar (K * f + 4 * n + N) bs inp pos = r :=
  eqv_sim cGoPeg n0 K PegGo_rules_go_peg (Nat.le_refl _) (by decide) f n k as bs h inp pos r hk hrun hr

theorem PegGo_checker_sound_peg_go (f n : Nat) (k : Know) (as bs : List PE)
    (h : eqv cPegGo n k as bs = true) (inp : Array Char) (pos : Nat) (r : Result)
    (hk : k.holds inp pos) (hrun : runSeq Gen.grammar f as inp pos = r) (hr : r ≠ .outOfFuel) :
    runSeq Gen.goGrammar (K * f + 4 * n + N) bs inp pos = r :=
  eqv_sim cPegGo n0 K PegGo_rules_peg_go (Nat.le_refl _) (by decide) f n k as bs h inp pos r hk hrun hr

/-! ## 3. Every rule with a function: code = grammar -/

theorem PegGo_rule_go_peg (x : String) (hx : x ∈ goNames) (f : Nat) (inp : Array Char) (pos : Nat) (r : Result)
    (hrun : run Gen.goGrammar f (.rule x) inp pos = r) (hr : r ≠ .outOfFuel) :
    run Gen.grammar (K * f + 8 + N) (.rule x) inp pos = r := by
  have h : eqv cGoPeg 2 .top [.rule x] [.rule x] = true := by
    simp [eqv, eqvStep, mEq, matcher?, norm1, sameRule, cGoPeg, hx]
  have := PegGo_checker_sound_go_peg f 2 .top _ _ h inp pos r (Know.holds_top pos)
    (by rw [runSeq_single]; exact hrun) hr
  rwa [runSeq_single] at this

theorem PegGo_rule_peg_go (x : String) (hx : x ∈ goNames) (f : Nat) (inp : Array Char) (pos : Nat) (r : Result)
    (hrun : run Gen.grammar f (.rule x) inp pos = r) (hr : r ≠ .outOfFuel) :
    run Gen.goGrammar (K * f + 8 + N) (.rule x) inp pos = r := by
  have h : eqv cPegGo 2 .top [.rule x] [.rule x] = true := by
    simp [eqv, eqvStep, mEq, matcher?, norm1, sameRule, cPegGo, hx]
  have := PegGo_checker_sound_peg_go f 2 .top _ _ h inp pos r (Know.holds_top pos)
    (by rw [runSeq_single]; exact hrun) hr
  rwa [runSeq_single] at this

/-- two answers are the same answer -/
theorem PegGo_rule_equiv (x : String) (hx : x ∈ goNames) (f₁ f₂ : Nat) (inp : Array Char) (pos : Nat)
    (h₁ : run Gen.goGrammar f₁ (.rule x) inp pos ≠ .outOfFuel)
    (h₂ : run Gen.grammar f₂ (.rule x) inp pos ≠ .outOfFuel) :
    run Gen.goGrammar f₁ (.rule x) inp pos = run Gen.grammar f₂ (.rule x) inp pos := by
  have h := PegGo_rule_go_peg x hx f₁ inp pos _ rfl h₁
  have hm := run_lift (g := Gen.grammar) (inp := inp) rfl h₂ (Nat.le_max_right (K * f₁ + 8 + N) f₂)
  have hm' := run_lift h h₁ (Nat.le_max_left (K * f₁ + 8 + N) f₂)
  rw [← hm, hm']

/-! ## 4. The start rule -/

theorem expression_mem : "expression" ∈ goNames := List.contains_iff_mem.mp PegGo_names.2

/-- if the decompiled rule functions answer with fuel `f`, the grammar gives the same answer with fuel 800·f + 38 -/
theorem PegGo_sim_go_peg (f : Nat) (inp : Array Char) (pos : Nat) (r : Result)
    (hrun : run Gen.goGrammar f (.rule "expression") inp pos = r) (hr : r ≠ .outOfFuel) :
    run Gen.grammar (800 * f + 38) (.rule "expression") inp pos = r :=
  PegGo_rule_go_peg "expression" expression_mem f inp pos r hrun hr

/-- if the grammar answers with fuel `f`, the decompiled rule functions give the same answer with fuel 800·f + 38 -/
theorem PegGo_sim_peg_go (f : Nat) (inp : Array Char) (pos : Nat) (r : Result)
    (hrun : run Gen.grammar f (.rule "expression") inp pos = r) (hr : r ≠ .outOfFuel) :
    run Gen.goGrammar (800 * f + 38) (.rule "expression") inp pos = r :=
  PegGo_rule_peg_go "expression" expression_mem f inp pos r hrun hr

/-- THE theorem: on every input, at every position, whenever both sides answer, the decompiled parser and the
grammar give the same end position and the same PegText/Action token stream, or both fail -/
theorem PegGo_equiv (f₁ f₂ : Nat) (inp : Array Char) (pos : Nat)
    (h₁ : run Gen.goGrammar f₁ (.rule "expression") inp pos ≠ .outOfFuel)
    (h₂ : run Gen.grammar f₂ (.rule "expression") inp pos ≠ .outOfFuel) :
    run Gen.goGrammar f₁ (.rule "expression") inp pos = run Gen.grammar f₂ (.rule "expression") inp pos :=
  PegGo_rule_equiv "expression" expression_mem f₁ f₂ inp pos h₁ h₂

/-- the same for the BODY of the start rule — the form `ParseModel.recognise` (grammar) and the request
`goparse` of the driver jpv-peg (decompiled code) run -/
theorem PegGo_equiv_body (f₁ f₂ : Nat) (inp : Array Char) (pos : Nat)
    (h₁ : run Gen.goGrammar f₁ (ruleBody Gen.goGrammar "expression") inp pos ≠ .outOfFuel)
    (h₂ : run Gen.grammar f₂ (ruleBody Gen.grammar "expression") inp pos ≠ .outOfFuel) :
    run Gen.goGrammar f₁ (ruleBody Gen.goGrammar "expression") inp pos =
      run Gen.grammar f₂ (ruleBody Gen.grammar "expression") inp pos := by
  have h := PegGo_equiv (f₁ + 1) (f₂ + 1) inp pos (by rw [run_rule]; exact h₁) (by rw [run_rule]; exact h₂)
  rwa [run_rule, run_rule] at h

/-- the recogniser of the model (`ParseModel.recognise`, fuel `fuelFor`) agrees with the decompiled code run with
any fuel that suffices -/
theorem PegGo_recognise (inp : Array Char) (f : Nat)
    (h₁ : run Gen.goGrammar f (ruleBody Gen.goGrammar "expression") inp 0 ≠ .outOfFuel)
    (h₂ : recognise inp ≠ .outOfFuel) :
    run Gen.goGrammar f (ruleBody Gen.goGrammar "expression") inp 0 = recognise inp :=
  PegGo_equiv_body f (fuelFor inp.size) inp 0 h₁ h₂

/-! ## 5. The one-fuel statement is false -/

/-- with the SAME fuel the two sides need not agree: on "$" with fuel 17 the decompiled code (rules inlined)
answers, the grammar is out of fuel -/
theorem PegGo_same_fuel_false :
    ¬ (∀ (fuel : Nat) (inp : Array Char) (pos : Nat),
        run Gen.goGrammar fuel (.rule "expression") inp pos = run Gen.grammar fuel (.rule "expression") inp pos) := by
  intro h
  have := h 17 #['$'] 0
  revert this
  decide +kernel

/-! ## 6. Examples -/

/-- "$.a" : the decompiled code accepts with Action8 (root), Action10 (child "a" = text 2..3), Action4, Action2, Action0 -/
example : run Gen.goGrammar 40 (.rule "expression") #['$', '.', 'a'] 0 =
    .ok 3 [.action 8, .text 2 3, .action 10, .text 1 3, .action 4, .action 2, .action 0] := by decide +kernel

/-- the grammar gives the same token stream -/
example : run Gen.grammar 40 (.rule "expression") #['$', '.', 'a'] 0 =
    .ok 3 [.action 8, .text 2 3, .action 10, .text 1 3, .action 4, .action 2, .action 0] := by decide +kernel

/-- the checker is not vacuous: `hexDigit` with the range a–e in the second case is refused … -/
example : eqv cGoPeg n0 .top
    [(.alt (.seq (.and (.cls false [('A', 'F')])) .any) (.alt (.seq (.and (.cls false [('a', 'e')])) .any)
      (.seq (.not (.cls false [('A', 'F'), ('a', 'f')])) (.cls false [('0', '9')]))))]
    [Gen.rule_hexDigit] = false := by decide +kernel

/-- … and so is `rootNode` with `bracketNode` tried before `rootIdentifier` — harmless as their first characters
differ, but the checker does not reorder unguarded alternatives … -/
example : eqv cGoPeg n0 .top
    [(.alt (.rule "bracketNode") (.alt (.rule "rootIdentifier") (.rule "dotChildIdentifier")))]
    [Gen.rule_rootNode] = false := by decide +kernel

/-- … and `qParam` with its two alternatives swapped (`singleJsonpathFilter / qLiteral Action35`), where the order
matters: the literal `true` is also a path -/
example : eqv cGoPeg n0 .top
    [(.alt (.rule "singleJsonpathFilter") (.seq (.rule "qLiteral") (.act 35)))] [Gen.rule_qParam] = false := by
  decide +kernel

-- OBLIGATIONS: PegGo_rules_go_peg PegGo_rules_peg_go PegGo_names PegGo_checker_sound_go_peg
--   PegGo_checker_sound_peg_go PegGo_rule_go_peg PegGo_rule_peg_go PegGo_rule_equiv PegGo_sim_go_peg
--   PegGo_sim_peg_go PegGo_equiv PegGo_equiv_body PegGo_recognise PegGo_same_fuel_false

end PegGoGen
end JPV
