/-
Documents: what `encoding/json` produces for `interface{}`, plus opaque Go values.
Numbers are integers (see DESIGN §4.1/§10): `num n` is the float64 n, `jnum n` the
json.Number whose canonical spelling denotes n.
An object is an association list; `Val.WF` (keys strictly ascending, recursively) is the
canonical form of a Go map. The harness always sends canonical documents.
-/
namespace JPV

inductive Val where
  | null
  | bool (b : Bool)
  | num (n : Int)
  | jnum (n : Int)
  | str (s : String)
  | arr (xs : List Val)
  | obj (kvs : List (String × Val))
  | opq (ty : String) (cls : Nat)   -- other Go value: reflect type name, DeepEqual class (0 = equal to nothing)
  deriving Inhabited, Repr

namespace Val

mutual
/-- structural equality (what reflect.DeepEqual decides on canonical documents) -/
def beq : Val → Val → Bool
  | null, null => true
  | bool a, bool b => a == b
  | num a, num b => a == b
  | jnum a, jnum b => a == b
  | str a, str b => a == b
  | arr a, arr b => beqList a b
  | obj a, obj b => beqKVs a b
  | opq t c, opq t' c' => t == t' && c == c' && c != 0
  | _, _ => false
def beqList : List Val → List Val → Bool
  | [], [] => true
  | x :: xs, y :: ys => beq x y && beqList xs ys
  | _, _ => false
def beqKVs : List (String × Val) → List (String × Val) → Bool
  | [], [] => true
  | (k, x) :: xs, (k', y) :: ys => k == k' && beq x y && beqKVs xs ys
  | _, _ => false
end

/-- keys of an association list -/
def keys (kvs : List (String × Val)) : List String := kvs.map (·.1)

def lookup (k : String) : List (String × Val) → Option Val
  | [] => none
  | (k', v) :: rest => if k == k' then some v else lookup k rest

/-- strictly ascending keys -/
def keysAsc : List String → Bool
  | [] => true
  | [_] => true
  | a :: b :: rest => decide (a < b) && keysAsc (b :: rest)

mutual
def wf : Val → Bool
  | arr xs => wfList xs
  | obj kvs => keysAsc (kvs.map (·.1)) && wfKVs kvs
  | _ => true
def wfList : List Val → Bool
  | [] => true
  | x :: xs => wf x && wfList xs
def wfKVs : List (String × Val) → Bool
  | [] => true
  | (_, x) :: xs => wf x && wfKVs xs
end

/-- `reflect.TypeOf(v).String()`, with `null` for nil (as the error messages print it) -/
def goTypeName : Val → String
  | null => "null"
  | bool _ => "bool"
  | num _ => "float64"
  | jnum _ => "json.Number"
  | str _ => "string"
  | arr _ => "[]interface {}"
  | obj _ => "map[string]interface {}"
  | opq ty _ => ty

def isContainer : Val → Bool
  | arr _ => true
  | obj _ => true
  | _ => false

/-- members of a container in canonical order (entries as listed / index order) -/
def members : Val → List Val
  | arr xs => xs
  | obj kvs => kvs.map (·.2)
  | _ => []

mutual
/-- every container reachable from the value, itself first, in pre-order -/
def containers : Val → List Val
  | arr xs => arr xs :: containersList xs
  | obj kvs => obj kvs :: containersKVs kvs
  | _ => []
def containersList : List Val → List Val
  | [] => []
  | x :: xs => containers x ++ containersList xs
def containersKVs : List (String × Val) → List Val
  | [] => []
  | (_, x) :: xs => containers x ++ containersKVs xs
end

/-- float64 view of a number (`Float64()` of a json.Number) -/
def asNum? : Val → Option Int
  | num n => some n
  | jnum n => some n
  | _ => none

end Val
end JPV
