/-
Acc/Erase — the tree with every accessor flag cleared (C12): what `Parse` builds for the same
path when accessor mode is off (`Lemmas/AccBuild.lean`: `build_erase`).
-/
import JPV.Impl.Retrieve
namespace JPV
open Impl

def eraseI (i : Info) : Info := { i with acc := false }

def eraseMId : MId → MId
  | .key i k => .key (eraseI i) k
  | .wild i => .wild (eraseI i)

mutual
/-- clear `accessorMode` on every node of the chain, on the inner identifiers and the union
    twin of multi-name nodes, and inside filter queries and function parameters -/
def eraseAcc : List N → List N
  | [] => []
  | n :: rest => eraseN n :: eraseAcc rest
def eraseN : N → N
  | .root i => .root (eraseI i)
  | .cur i => .cur (eraseI i)
  | .child i k => .child (eraseI i) k
  | .wild i => .wild (eraseI i)
  | .multi i ids twin => .multi (eraseI i) (ids.map eraseMId) (twin.map eraseI)
  | .desc i mr lr => .desc (eraseI i) mr lr
  | .union i subs => .union (eraseI i) subs
  | .filter i q => .filter (eraseI i) (eraseQ q)
  | .ffn i name => .ffn (eraseI i) name
  | .afn i name param => .afn (eraseI i) name (eraseAcc param)
def eraseQ : Q → Q
  | .or a b => .or (eraseQ a) (eraseQ b)
  | .and a b => .and (eraseQ a) (eraseQ b)
  | .not a => .not (eraseQ a)
  | .cmp l r c => .cmp (eraseP l) (eraseP r) c
  | .exist p => .exist (eraseP p)
def eraseP : P → P
  | .lit v => .lit v
  | .proot ch => .proot (eraseAcc ch)
  | .pcur ch => .pcur (eraseAcc ch)
end

/-- a runtime error names a node; the same error with the node's accessor flag cleared.
    Everything the Go error value shows (kind, step text, expected / found type) is kept. -/
def Impl.RtErr.eraseAcc : RtErr → RtErr
  | .member i => .member (eraseI i)
  | .type i e f => .type (eraseI i) e f
  | .func i => .func (eraseI i)

end JPV
