/-
Acc/Loc — locations in a document, reading and writing at a location (C12 / C13).

An accessor of the Go library is a pair of closures over (map, key) or (slice, index).
For a document that is a tree (no map or slice reachable twice — DESIGN §7 C13) such a pair
*is* a location below the root: the list of keys / indices that leads to the entry.  In the
model `Impl.Res.acc v (some loc)` carries that list; `getAt` / `setAt` say what `Get` / `Set`
do to the document.

Objects are association lists; `lookup` and `updKV` both address the FIRST entry with the
key, so the algebra below needs no distinctness hypothesis.  Go maps have distinct keys
(`Val.wf`: strictly ascending), which is what the soundness of the locations computed by
`retrieve` needs (Lemmas/LocSound.lean).
-/
import JPV.Impl.Retrieve
namespace JPV
open Impl

namespace Val

/-- replace the value of the first entry with key `k` (no entry: unchanged) -/
def updKV (k : String) (v : Val) : List (String × Val) → List (String × Val)
  | [] => []
  | (k', v') :: rest => if k == k' then (k', v) :: rest else (k', v') :: updKV k v rest

/-- the value at a location; `none` when the location does not exist in the document -/
def getAt : Val → Loc → Option Val
  | v, [] => some v
  | .obj kvs, .key k :: rest =>
    (match lookup k kvs with
     | some v => getAt v rest
     | none => none)
  | .arr xs, .idx i :: rest =>
    (match xs[i]? with
     | some v => getAt v rest
     | none => none)
  | _, _ :: _ => none

/-- the document with the value at the location replaced; `none` when the location does
    not exist (Go: the closure was created for an existing entry, so this does not arise
    for accessors returned by a retrieval on the same document) -/
def setAt : Val → Loc → Val → Option Val
  | _, [], x => some x
  | .obj kvs, .key k :: rest, x =>
    (match lookup k kvs with
     | some v =>
       (match setAt v rest x with
        | some v' => some (.obj (updKV k v' kvs))
        | none => none)
     | none => none)
  | .arr xs, .idx i :: rest, x =>
    (match xs[i]? with
     | some v =>
       (match setAt v rest x with
        | some v' => some (.arr (xs.set i v'))
        | none => none)
     | none => none)
  | _, _ :: _, _ => none

end Val

namespace Loc

/-- one location is at or above the other -/
def prefixRelated (a b : Loc) : Prop := a <+: b ∨ b <+: a

/-- neither below nor above: the two locations are different entries with no containment -/
def disjoint (a b : Loc) : Prop := ¬ prefixRelated a b

instance (a b : Loc) : Decidable (prefixRelated a b) := inferInstanceAs (Decidable (_ ∨ _))
instance (a b : Loc) : Decidable (disjoint a b) := inferInstanceAs (Decidable (¬ _))

theorem prefixRelated_refl (a : Loc) : prefixRelated a a := Or.inl (List.prefix_refl a)

theorem prefixRelated_symm {a b : Loc} (h : prefixRelated a b) : prefixRelated b a := h.symm

theorem disjoint_symm {a b : Loc} (h : disjoint a b) : disjoint b a := fun h' => h h'.symm

theorem prefixRelated_cons {s : Seg} {a b : Loc} : prefixRelated (s :: a) (s :: b) ↔ prefixRelated a b := by
  simp [prefixRelated, List.cons_prefix_cons]

theorem prefixRelated_cons_ne {s t : Seg} {a b : Loc} (h : s ≠ t) : ¬ prefixRelated (s :: a) (t :: b) := by
  simp only [prefixRelated, List.cons_prefix_cons, not_or, not_and]
  exact ⟨fun h' => absurd h' h, fun h' => absurd h'.symm h⟩

theorem prefixRelated_nil (a : Loc) : prefixRelated [] a := Or.inl List.nil_prefix

end Loc

/-! ### the accessor of the model

In the model an accessor IS its location (or, when `Set` is nil, the value the `Get` closure
captured): `Get` reads the CURRENT document at the location, `Set` writes it there. -/

namespace Impl

/-- `Get()` of a result, read when the document is `d` -/
def Res.get (r : Res) (d : Val) : Option Val :=
  match r with
  | .plain v => some v
  | .acc v none => some v             -- `Get: func() { return nextSrc }`: the captured value
  | .acc _ (some loc) => d.getAt loc  -- `Get: func() { return currentMap[key] }`

/-- `Set(x)` of a result applied to the document `d`: the document afterwards.
    `none`: there is no `Set` (nil closure), or the entry no longer exists -/
def Res.set (r : Res) (d : Val) (x : Val) : Option Val :=
  match r with
  | .acc _ (some loc) => d.setAt loc x
  | _ => none

/-- `Set == nil` -/
def Res.setIsNil : Res → Bool
  | .acc _ (some _) => false
  | _ => true

def Res.isAcc : Res → Bool
  | .acc _ _ => true
  | .plain _ => false

end Impl
end JPV
