/-
Acc/Ties — ties T1/T2 for C12 / C13: what the accessor-mode model assumes about the Go source,
checked against Gen/AccessorGo.lean, which the translator (generator `accessor`) regenerates
from /repo on every run.  HAND-MAINTAINED expectations: when a theorem here fails the source
no longer has the shape the model was written against; look at the difference
(`#eval Gen.AccessorGo.X`), decide whether Impl/Retrieve.lean / Acc/Loc.lean still describe the
code, and only then update the table.

How the model reads the three helpers (Impl/Retrieve.lean):
* `retrieveAnyValueNext(root, v, container)`      `retrieve env rest i root v none st`
      — end of chain: `.acc v none` (Get returns the captured value, Set is nil) / `.plain v`
* `retrieveMapNext(root, m, k, container)`        `Val.lookup k kvs`, a member error when absent, else
      `retrieve env rest i root v (ext aloc (.key k)) st` — end of chain: `.acc v (some (loc ++ [key k]))`
      (Get reads `m[k]` when called, Set assigns `m[k]`) / `.plain v`
* `retrieveListNext(root, l, n, container)`       `retrieve env rest i root xs[n] (ext aloc (.idx n)) st`
-/
import JPV.Gen.AccessorGo
import JPV.Lemmas.LocSound
namespace JPV.Acc.Ties
open JPV.Acc.Go

/-! ### 1. the three helpers -/

def expectHelpers : List Helper := [
  { name := "retrieveAnyValueNext", params := ["root", "nextSrc", "container"], lookup := none,
    passOn := .param "nextSrc", get := .param "nextSrc", set := none, plain := .param "nextSrc" },
  { name := "retrieveListNext", params := ["root", "currentList", "index", "container"], lookup := none,
    passOn := .elem "currentList" "index", get := .elem "currentList" "index",
    set := some (.elem "currentList" "index"), plain := .elem "currentList" "index" },
  { name := "retrieveMapNext", params := ["root", "currentMap", "key", "container"],
    lookup := some ("nextNode", "currentMap", "key"),
    passOn := .bound "nextNode", get := .elem "currentMap" "key",
    set := some (.elem "currentMap" "key"), plain := .bound "nextNode" }]

/-- the helpers are literally the ones the model was written against -/
theorem T_helpers : Gen.AccessorGo.helpers = expectHelpers := by first | rfl | decide

/-- do two expressions of a helper denote the same value when the helper is entered?
    (`x` after `x, ok := m[k]` is `m[k]`) -/
def sameAtEntry (h : Helper) (a b : Src) : Bool :=
  a == b ||
  (match h.lookup, a, b with
   | some (x, m, k), .bound y, .elem m' k' => x == y && m == m' && k == k'
   | some (x, m, k), .elem m' k', .bound y => x == y && m == m' && k == k'
   | _, _, _ => false)

/-- what C12 / C13 need of a helper, whatever its name:
    * the value appended in plain mode is the value handed on to the rest of the chain, and it is
      the value `Get` returns at creation time                       (C12_parity, C12_get, C13_loc_sound);
    * `Set` is nil and `Get` returns a value fixed at the call, or `Set` assigns the very entry
      `container[key]` that `Get` reads when it is called             (C13_set_exact, C13_get_live) -/
def Helper.ok (h : Helper) : Bool :=
  h.passOn == h.plain && sameAtEntry h h.get h.plain &&
  (match h.set, h.get with
   | none, .param _ => true
   | some s, .elem c k => s == .elem c k
   | _, _ => false)

theorem T_helpers_ok : Gen.AccessorGo.helpers.all Helper.ok = true := by decide

/-- a helper's accessors have a `Set` -/
def hasSet (name : String) : Option Bool :=
  (Gen.AccessorGo.helpers.find? (fun h => h.name == name)).map (fun h => h.set.isSome)

/-! ### 2. which node kinds use which helper: `isNav` -/

def expectHelperCalls : List (List String) := [
  ["syntaxAggregateFunction.retrieve", "retrieveAnyValueNext", "root, filteredValue, container"],
  ["syntaxChildSingleIdentifier.retrieve", "retrieveMapNext", "root, srcMap, i.identifier, container"],
  ["syntaxChildWildcardIdentifier.retrieveList", "retrieveListNext", "root, srcList, index, container"],
  ["syntaxChildWildcardIdentifier.retrieveMap", "retrieveMapNext", "root, srcMap, key, container"],
  ["syntaxCurrentRootIdentifier.retrieve", "retrieveAnyValueNext", "root, current, container"],
  ["syntaxFilterFunction.retrieve", "retrieveAnyValueNext", "root, filteredValue, container"],
  ["syntaxFilterQualifier.retrieveList", "retrieveListNext", "root, srcList, index, container"],
  ["syntaxFilterQualifier.retrieveMap", "retrieveMapNext", "root, srcMap, (*sortKeys)[index], container"],
  ["syntaxRootIdentifier.retrieve", "retrieveAnyValueNext", "root, root, container"],
  ["syntaxUnionQualifier.retrieve", "retrieveListNext", "root, srcArray, index, container"]]

theorem T_helperCalls : Gen.AccessorGo.helperCalls = expectHelperCalls := by first | rfl | decide

/-- the model's node for a Go node type (the receiver of the function that calls the helper) -/
def nodeOfGo (fn : String) : Option N :=
  if fn = "syntaxRootIdentifier.retrieve" then some (.root default)
  else if fn = "syntaxCurrentRootIdentifier.retrieve" then some (.cur default)
  else if fn = "syntaxChildSingleIdentifier.retrieve" then some (.child default "")
  else if fn = "syntaxChildWildcardIdentifier.retrieveMap" ∨ fn = "syntaxChildWildcardIdentifier.retrieveList" then
    some (.wild default)
  else if fn = "syntaxUnionQualifier.retrieve" then some (.union default [])
  else if fn = "syntaxFilterQualifier.retrieveMap" ∨ fn = "syntaxFilterQualifier.retrieveList" then
    some (.filter default default)
  else if fn = "syntaxFilterFunction.retrieve" then some (.ffn default "")
  else if fn = "syntaxAggregateFunction.retrieve" then some (.afn default "" [])
  else none

/-- **`isNav` is the code's choice of helper**: a node kind ends the chain through a helper whose
    accessors have a `Set` exactly when the model calls it a navigation node.
    (The two kinds that call no helper — multi-name nodes delegate to their inner identifiers /
    union twin, `..` always has a successor — are in `T_retrieveCalls`.) -/
theorem T_isNav : Gen.AccessorGo.helperCalls.all (fun row =>
    match nodeOfGo (row.getD 0 ""), hasSet (row.getD 1 "") with
    | some n, some b => isNav n == b
    | _, _ => false) = true := by decide

/-! ### 3. the flag is looked at in one place -/

def expectFlagUses : List (List String) := [
  ["Config.SetAccessorMode", "set", "c.accessorMode = true", "1"],
  ["Parse", "set", "parser.jsonPathParser.accessorMode = config[0].accessorMode", "1"],
  ["Parse", "use", "parser.jsonPathParser.accessorMode = config[0].accessorMode", "1"],
  ["jsonPathParser.pushChildMultiIdentifier", "key", "p.accessorMode", "2"],
  ["jsonPathParser.pushChildSingleIdentifier", "key", "p.accessorMode", "1"],
  ["jsonPathParser.pushChildWildcardIdentifier", "key", "p.accessorMode", "1"],
  ["jsonPathParser.pushCurrentRootIdentifier", "key", "p.accessorMode", "1"],
  ["jsonPathParser.pushFilterQualifier", "key", "p.accessorMode", "1"],
  ["jsonPathParser.pushFunction", "key", "p.accessorMode", "2"],
  ["jsonPathParser.pushRecursiveChildIdentifier", "key", "p.accessorMode", "1"],
  ["jsonPathParser.pushRootIdentifier", "key", "p.accessorMode", "1"],
  ["jsonPathParser.pushUnionQualifier", "key", "p.accessorMode", "1"],
  ["syntaxBasicNode.retrieveAnyValueNext", "if", "i.accessorMode", "1"],
  ["syntaxBasicNode.retrieveListNext", "if", "i.accessorMode", "1"],
  ["syntaxBasicNode.retrieveMapNext", "if", "i.accessorMode", "1"],
  ["syntaxBasicNode.setAccessorMode", "set", "i.accessorMode = mode", "1"]]

theorem T_flagUses : Gen.AccessorGo.flagUses = expectFlagUses := by first | rfl | decide

/-- evaluation reads the flag only as the condition that chooses the wrapping, in the three
    helpers (what `sim_chain` proves of the model: C12) -/
theorem T_flag_read_once : (Gen.AccessorGo.flagUses.filter (fun r => r.getD 1 "" == "if" || r.getD 1 "" == "use")).map
      (fun r => r.getD 0 "") =
    ["Parse", "syntaxBasicNode.retrieveAnyValueNext", "syntaxBasicNode.retrieveListNext", "syntaxBasicNode.retrieveMapNext"] := by
  decide

/-! ### 4. results are appended only by the helpers -/

def expectResultWrites : List (List String) := [
  ["putContainer", "container.result = container.result[:0]", "1"],
  ["syntaxBasicNode.retrieveAnyValueNext", "container.result = append(container.result, Accessor{ Get: func() interface{} { return nextSrc }, Set: nil, })", "1"],
  ["syntaxBasicNode.retrieveAnyValueNext", "container.result = append(container.result, nextSrc)", "1"],
  ["syntaxBasicNode.retrieveListNext", "container.result = append(container.result, Accessor{ Get: func() interface{} { return currentList[index] }, Set: func(value interface{}) { currentList[index] = value }, })", "1"],
  ["syntaxBasicNode.retrieveListNext", "container.result = append(container.result, currentList[index])", "1"],
  ["syntaxBasicNode.retrieveMapNext", "container.result = append(container.result, Accessor{ Get: func() interface{} { return currentMap[key] }, Set: func(value interface{}) { currentMap[key] = value }, })", "1"],
  ["syntaxBasicNode.retrieveMapNext", "container.result = append(container.result, nextNode)", "1"],
  ["syntaxQueryParamCurrentRoot.compute", "container.result = container.result[:0]", "1"]]

/-- the buffer grows only at the end of a chain (`retrieve_appends`); the two other writes empty a
    buffer that is not the caller's (`St.sub`) -/
theorem T_resultWrites : Gen.AccessorGo.resultWrites = expectResultWrites := by first | rfl | decide

/-! ### 5. who clears the flag, and how a multi-name node hands it on -/

def expectModeCalls : List (List String) := [
  ["jsonPathParser.pushCompareParameterCurrentRoot", "p.updateAccessorMode", "node, false"],
  ["jsonPathParser.pushCompareParameterRoot", "p.updateAccessorMode", "node, false"],
  ["jsonPathParser.setNodeChain", "p.updateAccessorMode", "funcNode.param, false"],
  ["jsonPathParser.updateAccessorMode", "checkNode.setAccessorMode", "mode"],
  ["syntaxChildMultiIdentifier.setAccessorMode", "i.syntaxBasicNode.setAccessorMode", "mode"],
  ["syntaxChildMultiIdentifier.setAccessorMode", "i.unionQualifier.setAccessorMode", "mode"],
  ["syntaxChildMultiIdentifier.setAccessorMode", "identifier.setAccessorMode", "mode"]]

/-- `Build.mkInfos`: cleared on filter operands and on everything that feeds an aggregate;
    `Build.mid` / the twin: inner identifiers and the union twin carry the node's flag
    (`build_flags`, `tailInfos`) -/
theorem T_modeCalls : Gen.AccessorGo.modeCalls = expectModeCalls := by first | rfl | decide

/-! ### 6. who calls `retrieve` on what -/

def expectRetrieveCalls : List (List String) := [
  ["Parse", "root.retrieve", "src, src, container"],
  ["syntaxAggregateFunction.retrieve", "f.param.retrieve", "root, current, values"],
  ["syntaxBasicNode.retrieveAnyValueNext", "i.next.retrieve", "root, nextSrc, container"],
  ["syntaxBasicNode.retrieveListNext", "i.next.retrieve", "root, currentList[index], container"],
  ["syntaxBasicNode.retrieveMapNext", "i.next.retrieve", "root, nextNode, container"],
  ["syntaxChildMultiIdentifier.retrieve", "i.unionQualifier.retrieve", "root, current, container"],
  ["syntaxChildMultiIdentifier.retrieveMap", "identifier.retrieve", "root, srcMap, container"],
  ["syntaxQueryParamCurrentRoot.compute", "e.param.retrieve", "root, currentList[index], container"],
  ["syntaxQueryParamRoot.compute", "e.param.retrieve", "root, root, values"],
  ["syntaxRecursiveChildIdentifier.retrieve", "i.next.retrieve", "root, typedNodes, container"],
  ["syntaxRecursiveChildIdentifier.retrieve", "i.next.retrieve", "root, typedNodes, container"]]

/-- sub-evaluations (function parameter, filter operands) get their own container; a multi-name
    node hands the same map to its inner identifiers / the same array to its twin; `..` hands each
    container it finds to its successor -/
theorem T_retrieveCalls : Gen.AccessorGo.retrieveCalls = expectRetrieveCalls := by first | rfl | decide

end JPV.Acc.Ties
