/-
Acc/GoTypes — the vocabulary of the REGENERATED description of the accessor code
(Gen/AccessorGo.lean, generator `accessor`; ties T1/T2 for C12 / C13).
Hand-written; no imports, so the generated file builds even when the model does not.
What the values mean and what the model expects of them: Acc/Ties.lean.
-/
namespace JPV.Acc.Go

/-- an expression in the body of a `retrieve…Next` helper of syntaxBasicNode -/
inductive Src where
  | param (name : String)             -- a parameter of the helper: a value fixed when the helper is called
  | elem (container key : String)     -- `container[key]`, both parameters: an entry of the caller's map / slice
  | bound (name : String)             -- the variable of the helper's lookup `name, ok := container[key]`
  deriving Inhabited, Repr, DecidableEq

/-- one helper; its body is exactly
    ```
    [x, ok := m[k]; if !ok { return ErrorMemberNotExist{errorBasicRuntime: i.errorRuntime} }]   -- lookup
    if i.next != nil { return i.next.retrieve(root, passOn, container) }
    if i.accessorMode {
        container.result = append(container.result, Accessor{Get: func() interface{} { return get }, Set: SET})
    } else {
        container.result = append(container.result, plain)
    }
    return nil
    ```
    with `SET` = `nil` (`set = none`) or `func(value interface{}) { set = value }` -/
structure Helper where
  name : String
  params : List String
  lookup : Option (String × String × String)    -- (x, m, k)
  passOn : Src
  get : Src
  set : Option Src
  plain : Src
  deriving Inhabited, Repr, DecidableEq

end JPV.Acc.Go
