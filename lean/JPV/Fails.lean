/-
Fails — the DENOTATION of the local failures of a built tree (property C15).

`fails env ch root cur` lists every failure that evaluating the chain `ch` on the node `cur`
meets, in document order, written in the same `flatMap` style as `TSem.den`: no state, no
buffer, no "deepest error" bookkeeping. Each failure is the `RtErr` the Go code would construct
at that place: the `Info` of the syntax node (text and connectedText of a step of the query
as written), the kind, and for a type mismatch the expected kind and the Go type found.

  * `.child i k` on an object without `k`: `[.member i]`; on a non-object: the type error;
    otherwise the failures of the rest of the chain on the member.
  * a value-group node (wildcard, multi-name, union, filter, recursive descent) on a value of
    the wrong type: its type error; on a container from which it selects NO child (empty
    container, no index in range, filter selects nothing): `[.member i]`; otherwise the
    concatenation of the children's failures (`grp`).
  * multi-name nodes: an inner key that is absent contributes nothing (`continue`), an inner
    `*` is a group of its own with its own Info; when every inner identifier is an absent key
    the node itself reports `.member i`. On an array the all-wildcard union twin takes over.
  * `.ffn`: the function fails: `[.func i]`, else the failures of the rest on its result.
  * `.afn`: the failures of the parameter chain, and when that selects something: the function
    fails: `[.func i]`, else the failures of the rest on its result.
Errors inside filter operands never leave the filter (`computeP` only tests for them), so
`fails` does not descend into queries; which members a filter selects is `TSem.semQ`.
-/
import JPV.WF
namespace JPV
namespace Fails
open Impl TSem

/-- a value group over the selected children `xs`: none selected: the node's own
    "member not exist"; otherwise what the children's branches meet -/
def grp {α : Type} (i : Info) (xs : List α) (F : α → List RtErr) : List RtErr :=
  if xs.isEmpty then [.member i] else xs.flatMap F

/-- the inner identifier is a key the object does not have (`continue` in the Go loop) -/
def absentKey (kvs : List (String × Val)) : MId → Bool
  | .key _ k => (Val.lookup k kvs).isNone
  | .wild _ => false

/-- every local failure of the chain on `cur` -/
def fails (env : Env) : List N → Val → Val → List RtErr
  | [], _, _ => []
  | .root _ :: rest, root, _ => fails env rest root root
  | .cur _ :: rest, root, cur => fails env rest root cur
  | .child i k :: rest, root, cur =>
    match cur with
    | .obj kvs => (match Val.lookup k kvs with
      | some v => fails env rest root v
      | none => [.member i])
    | _ => [typeErr i "object" cur]
  | .wild i :: rest, root, cur =>
    match cur with
    | .obj kvs => grp i (sortKV kvs) (fun kv => fails env rest root kv.2)
    | .arr xs => grp i xs (fun x => fails env rest root x)
    | _ => [typeErr i "object/array" cur]
  | .multi i ids twin :: rest, root, cur =>
    match twin, cur with
    | some ti, .arr xs => grp ti (ids.flatMap (fun _ => xs)) (fun x => fails env rest root x)
    | _, .obj kvs =>
      if ids.all (absentKey kvs) then [.member i]
      else ids.flatMap (fun id =>
        match id with
        | .key _ k => (match Val.lookup k kvs with
          | some v => fails env rest root v
          | none => [])
        | .wild ii => grp ii (sortKV kvs) (fun kv => fails env rest root kv.2))
    | _, _ => [typeErr i "object" cur]
  | .desc i mr lr :: rest, root, cur =>
    if cur.isContainer then
      grp i ((Val.containers cur).filter (fun c => if isObj c then mr else lr)) (fun c => fails env rest root c)
    else [typeErr i "object/array" cur]
  | .union i subs :: rest, root, cur =>
    match cur with
    | .arr xs => grp i (subs.flatMap (fun s => subIndexes s xs.length)) (fun (ix : Int) =>
        match (if ix < 0 then none else xs[ix.toNat]?) with
        | some v => fails env rest root v
        | none => [])
    | _ => [typeErr i "array" cur]
  | .filter i q :: rest, root, cur =>
    if cur.isContainer then
      grp i (keepBy (entries cur) (semQ env q root (entries cur))) (fun v => fails env rest root v)
    else [typeErr i "object/array" cur]
  | .ffn i name :: rest, root, cur =>
    match env.ffn name with
    | some f => (match f cur with
      | some r => fails env rest root r
      | none => [.func i])
    | none => []
  | .afn i name param :: rest, root, cur =>
    fails env param root cur ++
    (match den env param root cur with
     | [] => []
     | r0 :: rs =>
       match env.afn name with
       | some f => (match f (aggArgs (chainVg param) r0 (r0 :: rs)) with
         | some r => fails env rest root r
         | none => [.func i])
       | none => [])

/-! ### the Infos a chain can put into an error, in path order -/

def midInfo : MId → Info
  | .key i _ => i
  | .wild i => i

/-- the Infos a navigation node can put into an error -/
def errInfos : N → List Info
  | .multi i ids twin => i :: twin.toList ++ ids.map midInfo
  | n => [n.info]

/-- all of them, the parameter chain of an aggregate before the aggregate -/
def infos : List N → List Info
  | [] => []
  | .afn i _ param :: rest => infos param ++ i :: infos rest
  | .root i :: rest => i :: infos rest
  | .cur i :: rest => i :: infos rest
  | .child i _ :: rest => i :: infos rest
  | .wild i :: rest => i :: infos rest
  | .multi i ids twin :: rest => (i :: twin.toList ++ ids.map midInfo) ++ infos rest
  | .desc i _ _ :: rest => i :: infos rest
  | .union i _ :: rest => i :: infos rest
  | .filter i _ :: rest => i :: infos rest
  | .ffn i _ :: rest => i :: infos rest

/-- the chain as written: the parameter chain of an aggregate, the aggregate, the rest -/
def flat : List N → List N
  | [] => []
  | .afn i name param :: rest => flat param ++ .afn i name param :: flat rest
  | .root i :: rest => .root i :: flat rest
  | .cur i :: rest => .cur i :: flat rest
  | .child i k :: rest => .child i k :: flat rest
  | .wild i :: rest => .wild i :: flat rest
  | .multi i ids twin :: rest => .multi i ids twin :: flat rest
  | .desc i a b :: rest => .desc i a b :: flat rest
  | .union i s :: rest => .union i s :: flat rest
  | .filter i q :: rest => .filter i q :: flat rest
  | .ffn i name :: rest => .ffn i name :: flat rest

def noAfnN : N → Bool
  | .afn _ _ _ => false
  | _ => true

/-- no aggregate function at the top level of the chain -/
def noAfn : List N → Bool
  | [] => true
  | n :: rest => noAfnN n && noAfn rest

/-- single-valued all the way down: the parameter chains of aggregates too -/
def singleDeep : List N → Bool
  | [] => true
  | .afn _ _ param :: rest => singleDeep param && singleDeep rest
  | n :: rest => singleNode n && singleDeep rest

end Fails
end JPV
