/-
Fails — the DENOTATION of the local failures of a built tree (property C15).

`fails env ch root cur` lists every failure that evaluating the chain `ch` on the node `cur`
meets, in document order, written in the same `flatMap` style as `TSem.den`: no state, no
buffer, no "deepest error" bookkeeping. Each failure is the `RtErr` the Go code would construct
at that place: the `Info` of the syntax node (text and connectedText of a step of the query
as written), the kind, and for a type mismatch the expected kind and the Go type found.

  * `.child i k` on an object without `k`: `[.member i]`; on a non-object: the type error;
    otherwise the failures of the rest of the chain on the member.
  * a value-group node (wildcard, multi-name, union, filter, recursive descent) on a value of
    the wrong type: its type error; on a container from which it selects NO child (empty
    container, no index in range, filter selects nothing): `[.member i]`; otherwise the
    concatenation of the children's failures (`grp`).
  * multi-name nodes: an inner key that is absent contributes nothing (`continue`), an inner
    `*` is a group of its own with its own Info; when every inner identifier is an absent key
    the node itself reports `.member i`. On an array the all-wildcard union twin takes over.
  * `.ffn`: the function fails: `[.func i]`, else the failures of the rest on its result.
  * `.afn`: the failures of the parameter chain, and when that selects something: the function
    fails: `[.func i]`, else the failures of the rest on its result.
Errors inside filter operands never leave the filter (`computeP` only tests for them), so
`fails` does not descend into queries; which members a filter selects is `TSem.semQ`.
-/
import JPV.WF
namespace JPV
namespace Fails
open Impl TSem

/-- a value group over the selected children `xs`: none selected: the node's own
    "member not exist"; otherwise what the children's branches meet -/
def grp {α : Type} (i : Info) (xs : List α) (F : α → List RtErr) : List RtErr :=
  if xs.isEmpty then [.member i] else xs.flatMap F

/-- the inner identifier is a key the object does not have (`continue` in the Go loop) -/
def absentKey (kvs : List (String × Val)) : MId → Bool
  | .key _ k => (Val.lookup k kvs).isNone
  | .wild _ => false

mutual
/-- every local failure of the chain on `cur` -/
def fails (env : Env) : List N → Val → Val → List RtErr
  | [], _, _ => []
  | n :: rest, root, cur => failsN env n (fun r v => fails env rest r v) root cur
/-- one node; `K root v`: the failures of the rest of the chain on `v` -/
def failsN (env : Env) : N → (Val → Val → List RtErr) → Val → Val → List RtErr
  | .root _, K, root, _ => K root root
  | .cur _, K, root, cur => K root cur
  | .child i k, K, root, cur =>
    match cur with
    | .obj kvs => (match Val.lookup k kvs with
      | some v => K root v
      | none => [.member i])
    | _ => [typeErr i "object" cur]
  | .wild i, K, root, cur =>
    match cur with
    | .obj kvs => grp i (sortKV kvs) (fun kv => K root kv.2)
    | .arr xs => grp i xs (fun x => K root x)
    | _ => [typeErr i "object/array" cur]
  | .multi i ids twin, K, root, cur =>
    match twin, cur with
    | some ti, .arr xs => grp ti (ids.flatMap (fun _ => xs)) (fun x => K root x)
    | _, .obj kvs =>
      if ids.all (absentKey kvs) then [.member i]
      else ids.flatMap (fun id =>
        match id with
        | .key _ k => (match Val.lookup k kvs with
          | some v => K root v
          | none => [])
        | .wild ii => grp ii (sortKV kvs) (fun kv => K root kv.2))
    | _, _ => [typeErr i "object" cur]
  | .desc i mr lr, K, root, cur =>
    if cur.isContainer then
      grp i ((Val.containers cur).filter (fun c => if isObj c then mr else lr)) (fun c => K root c)
    else [typeErr i "object/array" cur]
  | .union i subs, K, root, cur =>
    match cur with
    | .arr xs => grp i (subs.flatMap (fun s => subIndexes s xs.length)) (fun (ix : Int) =>
        match (if ix < 0 then none else xs[ix.toNat]?) with
        | some v => K root v
        | none => [])
    | _ => [typeErr i "array" cur]
  | .filter i q, K, root, cur =>
    if cur.isContainer then
      grp i (keepBy (entries cur) (semQ env q root (entries cur))) (fun v => K root v)
    else [typeErr i "object/array" cur]
  | .ffn i name, K, root, cur =>
    match env.ffn name with
    | some f => (match f cur with
      | some r => K root r
      | none => [.func i])
    | none => []
  | .afn i name param, K, root, cur =>
    fails env param root cur ++
    (match den env param root cur with
     | [] => []
     | r0 :: rs =>
       match env.afn name with
       | some f => (match f (aggArgs (chainVg param) r0 (r0 :: rs)) with
         | some r => K root r
         | none => [.func i])
       | none => [])
end

/-! ### the Infos a chain can put into an error, in path order -/

def midInfo : MId → Info
  | .key i _ => i
  | .wild i => i

/-- the Infos a navigation node can put into an error -/
def errInfos : N → List Info
  | .multi i ids twin => i :: twin.toList ++ ids.map midInfo
  | n => [n.info]

mutual
/-- all of them, the parameter chain of an aggregate before the aggregate -/
def infos : List N → List Info
  | [] => []
  | n :: rest => infosN n (infos rest)
def infosN : N → List Info → List Info
  | .afn i _ param, tl => infos param ++ i :: tl
  | .multi i ids twin, tl => (i :: twin.toList ++ ids.map midInfo) ++ tl
  | .root i, tl | .cur i, tl | .child i _, tl | .wild i, tl | .desc i _ _, tl | .union i _, tl
  | .filter i _, tl | .ffn i _, tl => i :: tl
end

mutual
/-- the chain as written: the parameter chain of an aggregate, the aggregate, the rest -/
def flat : List N → List N
  | [] => []
  | n :: rest => flatN n (flat rest)
def flatN : N → List N → List N
  | .afn i name param, tl => flat param ++ .afn i name param :: tl
  | .root i, tl => .root i :: tl
  | .cur i, tl => .cur i :: tl
  | .child i k, tl => .child i k :: tl
  | .wild i, tl => .wild i :: tl
  | .multi i ids twin, tl => .multi i ids twin :: tl
  | .desc i a b, tl => .desc i a b :: tl
  | .union i s, tl => .union i s :: tl
  | .filter i q, tl => .filter i q :: tl
  | .ffn i name, tl => .ffn i name :: tl
end

def noAfnN : N → Bool
  | .afn _ _ _ => false
  | _ => true

/-- no aggregate function at the top level of the chain -/
def noAfn : List N → Bool
  | [] => true
  | n :: rest => noAfnN n && noAfn rest

/-- a union qualifier with one index subscript -/
def singleSubs : List SubI → Bool
  | [.idx _] => true
  | _ => false

mutual
/-- single-valued all the way down: the parameter chains of aggregates too -/
def singleDeep : List N → Bool
  | [] => true
  | n :: rest => singleDeepN n && singleDeep rest
def singleDeepN : N → Bool
  | .afn _ _ param => singleDeep param
  | .root _ | .cur _ | .child _ _ | .ffn _ _ => true
  | .union _ subs => singleSubs subs
  | .wild _ | .multi _ _ _ | .desc _ _ _ | .filter _ _ => false
end

end Fails
end JPV
