/-
ParserNode — the vocabulary the generator `parser_helpers`
(harness/cmd/translate/parser_helpers.go) writes `Gen/ParserHelpersGo.lean` in: the helper methods of
`*jsonPathParser` (jsonpath_parser.go), the field methods of `*syntaxBasicNode`
(syntax_basic_node.go) and the `setNext` / `setAccessorMode` overrides of
`*syntaxChildMultiIdentifier`, statement by statement. Hand-written; the generated file mentions
only these names, no model internals (`JPV.Tree` is imported for the plain data types `Cmp`
and nothing else). `Lemmas/ParserTie*.lean` proves the generated helpers equal to the helper
models of `Peg/Actions.lean` under the abstraction of `Lemmas/ParserLayout.lean` / `ParserState.lean`;
`Props/ParserGen.lean` states the ties.

How Go things are read

* THE HEAP. Every syntax node the parser allocates (`&syntaxRootIdentifier{syntaxBasicNode:
  &syntaxBasicNode{…}, …}` — the struct and the `syntaxBasicNode` it embeds by pointer are
  allocated together and the embedded pointer is never reassigned: the generator checks both) is
  ONE `Cell` of the heap `List Cell`; its address is its index (`alloc` appends). A cell has the
  fields of `syntaxBasicNode` and the fields of all node structs, with Go's zero values where a
  struct does not have the field.
    - `*T` (T a node struct or `syntaxBasicNode`)      →  `Ptr = Option Nat`  (`none`: nil)
    - `syntaxNode` (interface)                         →  `NRef = Option (Kind × Nat)`: the dynamic
      type and the pointer (`none`: the nil interface). Dynamic dispatch looks at the `Kind`.
    - `x.f` / `x.f = e` through a pointer              →  `rd h x (·.f)` / `wr h x (fun c => { c with f := e })`;
      a nil pointer is `Err.nilDeref`.
    - the struct VALUE `unionQualifier syntaxUnionQualifier` inside a multi-name node →  `UQ`: its
      embedded `*syntaxBasicNode` (a `Ptr`, `none` for the zero struct) and its `subscripts`.
  Pointer structure is therefore explicit: `next` links, the `identifiers` of a multi-name node,
  the `param` of an aggregate function are addresses, sharing is visible, and `setNext` walks.
* IMMUTABLE OBJECTS BY VALUE. Subscripts, queries, compare parameters and comparators are never
  written after their composite literal by any helper (the generator accepts no assignment
  through them), so a pointer to one is modelled as the object: `GSub`, `GIdx`, `GQ`, `GCP`,
  `Cmp`. The embedded `*syntaxBasicSubscript` of a subscript is `basic : Option Bool`
  (`none`: nil, as in the `&syntaxWildcardSubscript{}` of a multi-name node; `some vg`).
  A query that refers to a node chain holds the `NRef` of its head — those nodes live in the heap.
* `interface{}` on the parameter stack            →  `GItem`.
* slices (`p.params`, `p.paramsList`, `...string`) →  lists, Go order (append at the END). Licensed
  because no two live slice headers of the parser share a backing array that is written.
* Go `int` used as length/index                    →  `Int`; `xs[i]`, `xs[:n]`, `xs[n:]` are bounds-checked
  (`Err.indexOutOfRange`).
* `panic(ErrorX{…})`                               →  `.error (Err.x …)` (the argument that identifies it).
* a function value taken from `p.filterFunctions[name]` →  `GoFunc`: the name it is registered under.
* recursion through dynamic dispatch / direct recursion / `for cond {}` loops take explicit FUEL
  (`Err.outOfFuel`); the ties prove that the number of nodes of the chain(s) involved, plus 2, is enough.
-/
import JPV.Tree
namespace JPV
namespace ParserNode

/-- the ten structs that implement `syntaxNode` -/
inductive Kind where
  | root      -- syntaxRootIdentifier
  | cur       -- syntaxCurrentRootIdentifier
  | child     -- syntaxChildSingleIdentifier
  | wild      -- syntaxChildWildcardIdentifier
  | multi     -- syntaxChildMultiIdentifier
  | desc      -- syntaxRecursiveChildIdentifier
  | union     -- syntaxUnionQualifier
  | filter    -- syntaxFilterQualifier
  | ffn       -- syntaxFilterFunction
  | afn       -- syntaxAggregateFunction
  deriving DecidableEq, Repr, Inhabited

/-- what stops a helper -/
inductive Err where
  | nilDeref                                   -- nil pointer dereference / method of a nil interface
  | indexOutOfRange
  | typeAssertion
  | dangling                                   -- an address that was never allocated (cannot happen in Go)
  | outOfFuel
  | invalidArgument (argument : String)        -- panic(ErrorInvalidArgument{argument: …})
  | functionNotFound (function : String)       -- panic(ErrorFunctionNotFound{function: …})
  | notSupported (feature path : String)       -- panic(ErrorNotSupported{feature: …, path: …})
  | unmodelled                                 -- a `Lib` function answered `unmodelled`
  deriving DecidableEq, Repr, Inhabited

abbrev M := Except Err

abbrev Ptr := Option Nat
abbrev NRef := Option (Kind × Nat)
abbrev GoFunc := String

/-- `*syntaxIndexSubscript` -/
structure GIdx where
  basic : Option Bool := none
  number : Int := 0
  isOmitted : Bool := false
  deriving DecidableEq, Repr, Inhabited

/-- `syntaxSubscript` -/
inductive GSub where
  | index (i : GIdx)
  | slicePositive (basic : Option Bool) (start end_ step : GIdx)
  | sliceNegative (basic : Option Bool) (start end_ step : GIdx)
  | wildcard (basic : Option Bool)
  deriving DecidableEq, Repr, Inhabited

def GSub.basic : GSub → Option Bool
  | .index i => i.basic
  | .slicePositive b _ _ _ => b
  | .sliceNegative b _ _ _ => b
  | .wildcard b => b

/-- `subscript.isValueGroup()` (promoted from the embedded `*syntaxBasicSubscript`) -/
def GSub.isValueGroup (s : GSub) : M Bool :=
  match s.basic with
  | none => .error .nilDeref
  | some vg => .ok vg

mutual
/-- `interface{}` values on `p.params` -/
inductive GItem where
  | nilv                               -- nil
  | node (k : Kind) (i : Nat)          -- a pointer to a syntax node
  | str (s : String)
  | sub (s : GSub)                     -- a pointer to a subscript
  | query (q : GQ)                     -- a pointer to a query object other than a compare parameter
  | cp (p : GCP)                       -- *syntaxBasicCompareParameter
  | bool (b : Bool)
  | num (n : Int)                      -- float64 (integral values; see `Lib.parseFloat`)
/-- `syntaxQuery` -/
inductive GQ where
  | or (leftQuery rightQuery : GQ)                     -- *syntaxLogicalOr
  | and (leftQuery rightQuery : GQ)                    -- *syntaxLogicalAnd
  | not (query : GQ)                                   -- *syntaxLogicalNot
  | cmp (leftParam rightParam : GCP) (comparator : Cmp) -- *syntaxBasicCompareQuery
  | cparam (p : GCP)                                   -- a *syntaxBasicCompareParameter used as a query
  | lit (literal : List GItem)                         -- *syntaxQueryParamLiteral
  | proot (param : NRef)                               -- *syntaxQueryParamRoot
  | pcur (param : NRef)                                -- *syntaxQueryParamCurrentRoot
  | nilq                                               -- nil
/-- `syntaxBasicCompareParameter` -/
inductive GCP where
  | mk (param : GQ) (isLiteral : Bool)
end

instance : Inhabited GItem := ⟨.nilv⟩
instance : Inhabited GQ := ⟨.nilq⟩
instance : Inhabited GCP := ⟨.mk .nilq false⟩

/-- the struct value `unionQualifier` of a multi-name node -/
structure UQ where
  basic : Ptr := none
  subscripts : List GSub := []
  deriving Inhabited

/-- `nil` or `&errorBasicRuntime{node: n}` -/
abbrev ErrRt := Option Ptr

/-- a syntax node: `syntaxBasicNode` and the fields of the struct that embeds it -/
structure Cell where
  text : String := ""
  connectedText : String := ""
  valueGroup : Bool := false
  next : NRef := none
  accessorMode : Bool := false
  errorRuntime : ErrRt := none
  identifier : String := ""                 -- syntaxChildSingleIdentifier
  identifiers : List NRef := []             -- syntaxChildMultiIdentifier
  isAllWildcard : Bool := false
  unionQualifier : UQ := {}
  nextMapRequired : Bool := false           -- syntaxRecursiveChildIdentifier
  nextListRequired : Bool := false
  subscripts : List GSub := []              -- syntaxUnionQualifier
  query : GQ := .nilq                       -- syntaxFilterQualifier
  function : Option GoFunc := none          -- syntaxFilterFunction / syntaxAggregateFunction
  param : NRef := none                      -- syntaxAggregateFunction
  deriving Inhabited

abbrev Heap := List Cell

/-- `jsonPathParser` (without `unescapeRegex`) and the heap -/
structure PS where
  heap : Heap := []
  root : NRef := none
  paramsList : List (List GItem) := []
  params : List GItem := []
  filterFunctions : String → Option GoFunc := fun _ => none
  aggregateFunctions : String → Option GoFunc := fun _ => none
  accessorMode : Bool := false

/-- the standard-library functions the helpers call -/
structure Lib where
  /-- strconv.Atoi; `none`: error -/
  atoi : String → Option Int
  /-- strconv.ParseFloat(·, 64); `none`: error; `some none`: a value that is not an integer (unmodelled) -/
  parseFloat : String → Option (Option Int)
  /-- regexp.Compile; `none`: error; `some false`: a pattern outside the modelled class -/
  regexCompile : String → Option Bool

/-! ### heap -/

/-- `x.f` -/
def rd {α : Type} (h : Heap) (x : Ptr) (f : Cell → α) : M α :=
  match x with
  | none => .error .nilDeref
  | some i =>
    match h[i]? with
    | none => .error .dangling
    | some c => .ok (f c)

/-- `x.f = e` -/
def wr (h : Heap) (x : Ptr) (f : Cell → Cell) : M Heap :=
  match x with
  | none => .error .nilDeref
  | some i =>
    match h[i]? with
    | none => .error .dangling
    | some c => .ok (h.set i (f c))

/-- a composite literal whose address is taken / a struct local that escapes -/
def PS.alloc (p : PS) (c : Cell) : Nat × PS := (p.heap.length, { p with heap := p.heap ++ [c] })

/-- a node method run on the parser's heap -/
def PS.onHeap (p : PS) (f : Heap → M Heap) : M PS := do
  let h ← f p.heap
  .ok { p with heap := h }

/-! ### interfaces and type assertions -/

/-- a non-nil `*T` (T of kind k) converted to `syntaxNode` -/
def NRef.of (k : Kind) (i : Nat) : NRef := some (k, i)

/-- the pointer inside the interface -/
def NRef.ptr (n : NRef) : Ptr := n.map (·.2)

/-- the dynamic type -/
def NRef.kind (n : NRef) : Option Kind := n.map (·.1)

/-- `x, ok := n.(*T)` -/
def NRef.asPtr (k : Kind) (n : NRef) : Option Nat :=
  match n with
  | some (k', i) => if k' = k then some i else none
  | none => none

/-- a `syntaxNode` stored into an `interface{}` -/
def GItem.ofNRef (n : NRef) : GItem :=
  match n with
  | none => .nilv
  | some (k, i) => .node k i

/-- `x.(syntaxNode)` -/
def GItem.asNode (x : GItem) : M NRef :=
  match x with
  | .node k i => .ok (some (k, i))
  | _ => .error .typeAssertion

/-- `y, ok := x.(*T)` for a node struct T -/
def GItem.asPtr (k : Kind) (x : GItem) : Option Nat :=
  match x with
  | .node k' i => if k' = k then some i else none
  | _ => none

/-- `x.(syntaxQuery)`: every query object and the compare parameter have a `compute` method -/
def GItem.asQuery (x : GItem) : M GQ :=
  match x with
  | .query q => .ok q
  | .cp p => .ok (.cparam p)
  | _ => .error .typeAssertion

/-- a `syntaxQuery` stored into an `interface{}` -/
def GItem.ofQuery (q : GQ) : GItem :=
  match q with
  | .cparam p => .cp p
  | .nilq => .nilv
  | q => .query q

/-! ### slices, loops -/

/-- `len(xs)` -/
def goLen {α : Type} (xs : List α) : Int := xs.length

/-- `xs[ix]` -/
def sliceIndex {α : Type} (xs : List α) (ix : Int) : M α :=
  match (if ix < 0 then none else xs[ix.toNat]?) with
  | none => .error .indexOutOfRange
  | some a => .ok a

/-- `xs[:n]` -/
def sliceTo {α : Type} (xs : List α) (n : Int) : M (List α) :=
  if n < 0 || n > xs.length then .error .indexOutOfRange else .ok (xs.take n.toNat)

/-- `xs[n:]` -/
def sliceFrom {α : Type} (xs : List α) (n : Int) : M (List α) :=
  if n < 0 || n > xs.length then .error .indexOutOfRange else .ok (xs.drop n.toNat)

/-- `for _, x := range xs { body }`: `xs` is evaluated once; `s` is the tuple of assigned variables -/
def forEach {α σ : Type} : List α → σ → (α → σ → M σ) → M σ
  | [], s, _ => .ok s
  | x :: xs, s, body => do
    let s' ← body x s
    forEach xs s' body

/-- `for cond { body }` with fuel -/
def whileLoop {σ : Type} : Nat → σ → (σ → Bool) → (σ → M σ) → M σ
  | 0, s, cond, _ => if cond s then .error .outOfFuel else .ok s
  | f + 1, s, cond, body =>
    if cond s then do
      let s' ← body s
      whileLoop f s' cond body
    else .ok s

end ParserNode
end JPV
