/-
Impl.retrieve / Impl.compute — one equation per Go `retrieve` / `compute` method, in the
same order of tests (DESIGN §4.5).
-/
import JPV.Impl.Basic
namespace JPV
namespace Impl

/-- insertion of an entry by key: `getSortedKeys` + lookup, on association lists -/
def insertKV (k : String) (v : Val) : List (String × Val) → List (String × Val)
  | [] => [(k, v)]
  | (k', v') :: rest => if k ≤ k' then (k, v) :: (k', v') :: rest else (k', v') :: insertKV k v rest

def sortKV : List (String × Val) → List (String × Val)
  | [] => []
  | (k, v) :: rest => insertKV k v (sortKV rest)

def ext (aloc : Option Loc) (s : Seg) : Option Loc := some (aloc.getD [] ++ [s])

/-- the accumulator of every fan-out loop: state, deepestTextLen, deepestError -/
abbrev Acc := St × Nat × Option RtErr

/-- one iteration: call the branch; keep the deepest error while the buffer is empty -/
def stepAcc (r : M (St × Option RtErr)) (dl : Nat) (de : Option RtErr) : M Acc := do
  let (st', e) ← r
  match e with
  | none => .ok (st', dl, de)
  | some err =>
    if st'.out.isEmpty then
      let (dl', de') := addDeepest err dl de
      .ok (st', dl', de')
    else .ok (st', dl, de)

/-- `for x in xs { branch x }` with the deepest-error bookkeeping -/
def loopAcc {α : Type} (f : α → St → M (St × Option RtErr)) : List α → Acc → M Acc
  | [], acc => .ok acc
  | x :: xs, (st, dl, de) => do
    let acc' ← stepAcc (f x st) dl de
    loopAcc f xs acc'

def endGroup (i : Info) (acc : Acc) : St × Option RtErr :=
  (acc.1, finishGroup i acc.1 acc.2.2)

/- containers below a value with their locations, the value itself first, pre-order.
   Documents are canonical, so entry order is ascending key order. -/
mutual
def containersLoc : Val → Loc → List (Val × Loc)
  | .arr xs, loc => (.arr xs, loc) :: containersLocList xs loc 0
  | .obj kvs, loc => (.obj kvs, loc) :: containersLocKVs kvs loc
  | _, _ => []
def containersLocList : List Val → Loc → Nat → List (Val × Loc)
  | [], _, _ => []
  | x :: xs, loc, i => containersLoc x (loc ++ [.idx i]) ++ containersLocList xs loc (i + 1)
def containersLocKVs : List (String × Val) → Loc → List (Val × Loc)
  | [], _ => []
  | (k, x) :: xs, loc => containersLoc x (loc ++ [.key k]) ++ containersLocKVs xs loc
end

def isObj : Val → Bool
  | .obj _ => true
  | _ => false

/-- fresh sub-evaluation state: own container, shared logs -/
def St.sub (st : St) : St := { out := [], log := st.log, writes := st.writes }
def St.back (st : St) (s1 : St) : St := { st with log := s1.log, writes := s1.writes }

/-- members of a container with the segment that addresses each: sorted keys / indices -/
def entriesSeg : Val → List (Seg × Val)
  | .obj kvs => (sortKV kvs).map (fun kv => (Seg.key kv.1, kv.2))
  | .arr xs => xs.zipIdx.map (fun xi => (Seg.idx xi.2, xi.1))
  | _ => []

mutual
/-- `retrieve env chain prev root cur aloc st`: evaluate the chain on `cur`.
    An empty chain is "next == nil": append `cur`, wrapped as an accessor when the
    previous node's flag says so. `aloc`: the location `cur` was reached at. -/
def retrieve (env : Env) : List N → Info → Val → Val → Option Loc → St → M (St × Option RtErr)
  | [], prev, _, cur, aloc, st =>
    .ok (st.push (if prev.acc then .acc cur aloc else .plain cur), none)
  | .root i :: rest, _, root, _, _, st => retrieve env rest i root root none st
  | .cur i :: rest, _, root, cur, _, st => retrieve env rest i root cur none st
  | .child i k :: rest, _, root, cur, aloc, st =>
    match cur with
    | .obj kvs =>
      (match Val.lookup k kvs with
       | none => .ok (st, some (.member i))
       | some v => retrieve env rest i root v (ext aloc (.key k)) st)
    | _ => .ok (st, some (typeErr i "object" cur))
  | .wild i :: rest, _, root, cur, aloc, st =>
    match cur with
    | .obj kvs => do
      let acc ← loopAcc (fun (kv : String × Val) st => retrieve env rest i root kv.2 (ext aloc (.key kv.1)) st)
        (sortKV kvs) (st, 0, none)
      .ok (endGroup i acc)
    | .arr xs => do
      let acc ← loopAcc (fun (xi : Val × Nat) st => retrieve env rest i root xi.1 (ext aloc (.idx xi.2)) st)
        xs.zipIdx (st, 0, none)
      .ok (endGroup i acc)
    | _ => .ok (st, some (typeErr i "object/array" cur))
  | .multi i ids twin :: rest, _, root, cur, aloc, st =>
    match twin, cur with
    | some ti, .arr xs => do
      -- all names are `*` and the node is an array: the union twin takes over
      let idxs := ids.flatMap (fun _ => xs.zipIdx)
      let acc ← loopAcc (fun (xi : Val × Nat) st => retrieve env rest ti root xi.1 (ext aloc (.idx xi.2)) st)
        idxs (st, 0, none)
      .ok (endGroup ti acc)
    | _, .obj kvs => do
      let acc ← loopAcc (fun (id : MId) st =>
          match id with
          | .key ii k =>
            (match Val.lookup k kvs with
             | none => .ok (st, none)        -- `continue`
             | some v => retrieve env rest ii root v (ext aloc (.key k)) st)
          | .wild ii => do
            let acc ← loopAcc (fun (kv : String × Val) st => retrieve env rest ii root kv.2 (ext aloc (.key kv.1)) st)
              (sortKV kvs) (st, 0, none)
            .ok (endGroup ii acc))
        ids (st, 0, none)
      .ok (endGroup i acc)
    | _, _ => .ok (st, some (typeErr i "object" cur))
  | .desc i mr lr :: rest, _, root, cur, aloc, st =>
    if cur.isContainer then do
      let targets := (containersLoc cur (aloc.getD [])).filter (fun cl => if isObj cl.1 then mr else lr)
      let acc ← loopAcc (fun (cl : Val × Loc) st => retrieve env rest i root cl.1 (some cl.2) st)
        targets (st, 0, none)
      .ok (endGroup i acc)
    else .ok (st, some (typeErr i "object/array" cur))
  | .union i subs :: rest, _, root, cur, aloc, st =>
    match cur with
    | .arr xs => do
      let idxs := subs.flatMap (fun s => subIndexes s xs.length)
      let acc ← loopAcc (fun (ix : Int) st =>
          match (if ix < 0 then none else xs[ix.toNat]?) with
          | none => .error .indexOutOfRange
          | some v => retrieve env rest i root v (ext aloc (.idx ix.toNat)) st)
        idxs (st, 0, none)
      .ok (endGroup i acc)
    | _ => .ok (st, some (typeErr i "array" cur))
  | .filter i q :: rest, _, root, cur, aloc, st =>
    if cur.isContainer then do
      let entries := entriesSeg cur
      let ms := entries.map (·.2)
      let (vl, st1) ← computeQ env q root ms st
      let isEach := vl.cells.length == ms.length
      match vl.cells with
      | [] => .error .indexOutOfRange          -- valueList[0]
      | c0 :: _ =>
        if !isEach && c0.isEmpty then .ok (st1, some (.member i)) else do
        let sel := if isEach then (entries.zip vl.cells).filter (fun ec => !ec.2.isEmpty) |>.map (·.1) else entries
        let acc ← loopAcc (fun (sv : Seg × Val) st => retrieve env rest i root sv.2 (ext aloc sv.1) st)
          sel (st1, 0, none)
        .ok (endGroup i acc)
    else .ok (st, some (typeErr i "object/array" cur))
  | .ffn i name :: rest, _, root, cur, _, st =>
    match env.ffn name with
    | none => .error .typeAssertion              -- unreachable: Parse rejects unknown functions
    | some f =>
      let st' := st.call (.ffn name cur)
      (match f cur with
       | none => .ok (st', some (.func i))
       | some r => retrieve env rest i root r none st')
  | .afn i name param :: rest, _, root, cur, aloc, st => do
    let (s1, e) ← retrieve env param i root cur aloc st.sub
    let st1 := st.back s1
    match e with
    | some err => .ok (st1, some err)
    | none =>
      match s1.out with
      | [] => .error .indexOutOfRange           -- values.result[0]
      | r0 :: _ =>
        let all := s1.out.map Res.val
        let args := aggArgs (chainVg param) r0.val all
        match env.afn name with
        | none => .error .typeAssertion
        | some f =>
          let st2 := st1.call (.afn name args)
          (match f args with
           | none => .ok (st2, some (.func i))
           | some r => retrieve env rest i root r none st2)

/-- `compute` of the parameter nodes -/
def computeP (env : Env) : P → Val → List Val → St → M (VL × St)
  | .lit v, _, _, st => .ok (⟨.fresh, [.val v]⟩, st)
  | .proot ch, root, _, st => do
    let (s1, e) ← retrieve env ch default root root none st.sub
    let st1 := st.back s1
    match e with
    | some _ => .ok (emptyL, st1)
    | none =>
      match s1.out with
      | [r] => .ok (⟨.fresh, [.val r.val]⟩, st1)
      | _ => .ok (fullL, st1)
  | .pcur ch, root, ms, st => do
    let (cells, st1) ← pcurLoop env ch root ms st
    if cells.any (fun c => !c.isEmpty) then .ok (⟨.fresh, cells⟩, st1) else .ok (emptyL, st1)

/-- the per-member loop of syntaxQueryParamCurrentRoot.compute -/
def pcurLoop (env : Env) (ch : List N) (root : Val) : List Val → St → M (List Cell × St)
  | [], st => .ok ([], st)
  | m :: ms, st => do
    let (s1, e) ← retrieve env ch default root m none st.sub
    let st1 := st.back s1
    let cell ← match e with
      | some _ => .ok Cell.empty
      | none => (match s1.out with
        | [] => .error .indexOutOfRange          -- container.result[0]
        | r :: _ => .ok (Cell.val r.val))
    let (cells, st2) ← pcurLoop env ch root ms st1
    .ok (cell :: cells, st2)

def computeQ (env : Env) : Q → Val → List Val → St → M (VL × St)
  | .exist p, root, ms, st => computeP env p root ms st
  | .cmp l r c, root, ms, st => do
    let (lv0, st1) ← computeP env l root ms st
    let lres := valStep c lv0 st1                   -- leftFound := comparator.validate(leftValues)
    let (rv0, st3) ← computeP env r root ms lres.2.2
    let rres := valStep c rv0 st3                   -- rightFound := comparator.validate(rightValues)
    if lres.1 && rres.1 then
      match rres.2.1.cells with
      | [] => .error .indexOutOfRange            -- rightValues[0]
      | .empty :: _ => .error .typeAssertion     -- unreachable: rightFound with a single cell
      | .val r0 :: _ => do
        let (hit, cells, w) ← comparator env c r0 lres.2.1.cells
        let st5 := rres.2.2.wrote lres.2.1.org w
        if hit then .ok ({ lres.2.1 with cells := cells }, st5) else .ok (emptyL, st5)
    else if lres.1 == rres.1 && c == .deepEq then .ok (fullL, rres.2.2)
    else .ok (emptyL, rres.2.2)
  | .not a, root, ms, st => do
    let (cl, st1) ← computeQ env a root ms st
    if cl.cells.length == 1 then
      match cl.cells with
      | .empty :: _ => .ok (fullL, st1)
      | _ => .ok (emptyL, st1)
    else
      let (hit, cells) := notFlip cl.cells
      let st2 := st1.wrote cl.org cl.cells.length
      if hit then .ok ({ cl with cells := cells }, st2) else .ok (emptyL, st2)
  | .and a b, root, ms, st => do
    let (l, st1) ← computeQ env a root ms st
    if l.cells.length == 1 then
      match l.cells with
      | .empty :: _ => .ok (l, st1)
      | _ => computeQ env b root ms st1
    else do
      let (r, st2) ← computeQ env b root ms st1
      if r.cells.length == 1 then
        match r.cells with
        | .empty :: _ => .ok (r, st2)
        | _ => .ok (l, st2)
      else do
        let (hit, cells, w) ← andMerge l.cells r.cells
        let st3 := st2.wrote l.org w
        if hit then .ok ({ l with cells := cells }, st3) else .ok (emptyL, st3)
  | .or a b, root, ms, st => do
    let (l, st1) ← computeQ env a root ms st
    if l.cells.length == 1 then
      match l.cells with
      | .empty :: _ => computeQ env b root ms st1
      | _ => .ok (l, st1)
    else do
      let (r, st2) ← computeQ env b root ms st1
      if r.cells.length == 1 then
        match r.cells with
        | .empty :: _ => .ok (l, st2)
        | _ => .ok (r, st2)
      else do
        let (cells, w) ← orMerge l.cells r.cells
        .ok ({ l with cells := cells }, st2.wrote l.org w)
end

inductive Outcome where
  | ok (rs : List Res)
  | err (e : RtErr)
  | panic (p : Panic)
  deriving Inhabited, Repr

/-- the function returned by `Parse`: own container, results copied out -/
def run (env : Env) (ch : List N) (d : Val) : Outcome × St :=
  match retrieve env ch default d d (some []) {} with
  | .error p => (.panic p, {})
  | .ok (st, some e) => (.err e, st)
  | .ok (st, none) => (.ok st.out, st)

end Impl
end JPV
