/-
Impl — evaluation as the Go code does it (DESIGN §4.5): shared result buffer, deepest
error, the filter list protocol with the `emptyEntity` marker, panics as explicit outcomes,
a log of user-function calls, a log of writes to lists with the origin of the list written.
This file: the non-recursive pieces.
-/
import JPV.Tree
import JPV.Slice.PySlice
namespace JPV
namespace Impl

inductive Panic where
  | indexOutOfRange | typeAssertion | uncomparable | outOfFuel
  deriving Inhabited, Repr, DecidableEq

abbrev M := Except Panic

inductive RtErr where
  | member (i : Info)
  | type (i : Info) (expected found : String)
  | func (i : Info)
  deriving Inhabited, Repr, DecidableEq

def RtErr.info : RtErr → Info
  | .member i => i
  | .type i _ _ => i
  | .func i => i

def RtErr.isType : RtErr → Bool
  | .type _ _ _ => true
  | _ => false

/-- a location below the document root: what an accessor's closures capture -/
inductive Seg where
  | key (k : String)
  | idx (i : Nat)
  deriving Inhabited, Repr, DecidableEq

abbrev Loc := List Seg

/-- one entry of the result buffer -/
inductive Res where
  | plain (v : Val)
  | acc (v : Val) (loc : Option Loc)     -- Accessor; `none`: Set is nil
  deriving Inhabited, Repr

def Res.val : Res → Val
  | .plain v => v
  | .acc v _ => v

inductive Call where
  | ffn (name : String) (arg : Val)
  | afn (name : String) (args : List Val)
  deriving Inhabited, Repr

/-- where a filter value list lives -/
inductive Org where
  | fresh      -- allocated by this evaluation
  | input      -- the list handed to `compute` (for an array: the caller's own slice)
  | gEmpty     -- the package variable emptyList
  | gFull      -- the package variable fullList
  | literal    -- the slice stored in the parsed tree
  deriving Inhabited, Repr, DecidableEq

inductive Cell where
  | val (v : Val)
  | empty                      -- emptyEntity
  deriving Inhabited, Repr

def Cell.isEmpty : Cell → Bool
  | .empty => true
  | _ => false

structure VL where
  org : Org
  cells : List Cell
  deriving Inhabited, Repr

def emptyL : VL := ⟨.gEmpty, [.empty]⟩
def fullL : VL := ⟨.gFull, [.val (.bool true)]⟩

structure St where
  out : List Res := []        -- container.result
  log : List Call := []       -- user-function calls so far
  writes : List Org := []     -- origin of every filter list written to so far
  deriving Inhabited, Repr

def St.push (st : St) (r : Res) : St := { st with out := st.out ++ [r] }
def St.call (st : St) (c : Call) : St := { st with log := st.log ++ [c] }
def St.wrote (st : St) (o : Org) (n : Nat) : St :=
  { st with writes := st.writes ++ List.replicate n o }

/-- `addDeepestError` -/
def addDeepest (err : RtErr) (dl : Nat) (de : Option RtErr) : Nat × Option RtErr :=
  let tl := err.info.conn.utf8ByteSize
  if dl == 0 || dl > tl then (tl, some err)
  else if dl == tl then
    (match de with
     | some d => if d.isType then (dl, some err) else (dl, de)
     | none => (dl, de))
  else (dl, de)

/-- the common tail of every value-group node -/
def finishGroup (i : Info) (st : St) (de : Option RtErr) : Option RtErr :=
  if !st.out.isEmpty then none
  else match de with
    | some e => some e
    | none => some (.member i)

def typeErr (i : Info) (expected : String) (v : Val) : RtErr :=
  .type i expected v.goTypeName

/-- what an aggregate function is called with: all matches, or the elements of the single
    matched array when the parameter path is not a value group -/
def aggArgs (vg : Bool) (r0 : Val) (all : List Val) : List Val :=
  if vg then all else (match r0 with | .arr xs => xs | _ => all)

/-! ### subscripts (hand transcription; `Gen.SliceGo` is the regenerated one, tied by C11) -/

def normPos (value len : Int) : Int :=
  let v := if value < 0 then (if value + len < 0 then 0 else value + len) else value
  if v > len then len else v

def normNeg (value len : Int) : Int :=
  let v := if value < 0 then (if value + len < -1 then -1 else value + len) else value
  if v > len - 1 then len - 1 else v

/-- the loop `for i := a; i < b; i += step`, by fuel -/
def loopUp (fuel : Nat) (i b step : Int) : List Int :=
  match fuel with
  | 0 => []
  | f + 1 => if i < b then i :: loopUp f (i + step) b step else []

def loopDown (fuel : Nat) (i b step : Int) : List Int :=
  match fuel with
  | 0 => []
  | f + 1 => if i > b then i :: loopDown f (i + step) b step else []

def subIndexes (s : SubI) (len : Nat) : List Int :=
  let n : Int := len
  match s with
  | .idx k =>
    let i := if k < 0 then k + n else k
    if i < 0 || i ≥ n then [] else [i]
  | .wild => (List.range len).map (fun (i : Nat) => (i : Int))
  | .slicePos s e t =>
    let a := normPos (if s.omitted then 0 else s.number) n
    let b := normPos (if e.omitted then n else e.number) n
    let step := if t.number > n then n else t.number
    if step > 0 then loopUp (len + 1) a b step else []
  | .sliceNeg s e t =>
    let a := normNeg (if s.omitted then n - 1 else s.number) n
    let b := normNeg (if e.omitted then -n - 1 else e.number) n
    if t.number < 0 then loopDown (len + 1) a b t.number else []

/-! ### validators and comparators -/

/-- the typed validators: blank every cell of another type; json.Number becomes float64.
    Returns (found, cells, number of cells assigned) -/
def validateTy (ty : LitTy) : List Cell → Bool × List Cell × Nat
  | [] => (false, [], 0)
  | c :: cs =>
    let (f, cs', w) := validateTy ty cs
    match c with
    | .empty => (f, .empty :: cs', w)
    | .val v =>
      match ty, v with
      | .num, .num _ => (true, c :: cs', w)
      | .num, .jnum n => (true, .val (.num n) :: cs', w + 1)
      | .bool, .bool _ => (true, c :: cs', w)
      | .str, .str _ => (true, c :: cs', w)
      | .null, .null => (true, c :: cs', w)
      | _, _ => (f, .empty :: cs', w + 1)

def validateAny (cells : List Cell) : Bool := cells.any (fun c => !c.isEmpty)

def cmpValidatorTy : Cmp → Option LitTy
  | .directEq ty => some ty
  | .deepEq => none
  | .regex _ => some .str
  | _ => some .num

/-- `leftFound := q.comparator.validate(leftValues)`: found flag, the list after the
    validator's in-place edits, the write log -/
def valStep (c : Cmp) (lv : VL) (st : St) : Bool × VL × St :=
  match cmpValidatorTy c with
  | none => (validateAny lv.cells, lv, st)
  | some ty =>
    let (f, cells, w) := validateTy ty lv.cells
    (f, { lv with cells := cells }, st.wrote lv.org w)

/-- Go's `a == b` on interface values of the types that can reach it -/
def ifaceEq (a b : Val) : M Bool :=
  match a, b with
  | .null, .null => .ok true
  | .bool x, .bool y => .ok (x == y)
  | .num x, .num y => .ok (x == y)
  | .jnum x, .jnum y => .ok (x == y)
  | .str x, .str y => .ok (x == y)
  | .arr _, .arr _ => .error .uncomparable
  | .obj _, .obj _ => .error .uncomparable
  | .opq t _, .opq t' _ => if t == t' then .error .uncomparable else .ok false
  | _, _ => .ok false

def asFloat (v : Val) : M Int :=
  match v with
  | .num n => .ok n
  | _ => .error .typeAssertion

def asStr (v : Val) : M String :=
  match v with
  | .str s => .ok s
  | _ => .error .typeAssertion

/-- one comparator test on a non-marker cell -/
def cmpTest (env : Env) (c : Cmp) (l r : Val) : M Bool :=
  match c with
  | .directEq _ => ifaceEq l r
  | .deepEq => .ok (Val.beq l r)
  | .lt => do .ok (decide ((← asFloat l) < (← asFloat r)))
  | .le => do .ok (decide ((← asFloat l) ≤ (← asFloat r)))
  | .gt => do .ok (decide ((← asFloat l) > (← asFloat r)))
  | .ge => do .ok (decide ((← asFloat l) ≥ (← asFloat r)))
  | .regex re => do .ok (env.regex re (← asStr l))

/-- `comparator(left, right)`: blank the cells that do not match.
    DirectEQ does not skip marker cells (it compares them with `==`, which is false). -/
def comparator (env : Env) (c : Cmp) (r : Val) : List Cell → M (Bool × List Cell × Nat)
  | [] => .ok (false, [], 0)
  | cell :: cs => do
    let (f, cs', w) ← comparator env c r cs
    match cell with
    | .empty =>
      (match c with
       | .directEq _ => .ok (f, .empty :: cs', w + 1)   -- `left[i] = emptyEntity` again
       | _ => .ok (f, .empty :: cs', w))
    | .val v =>
      if ← cmpTest env c v r then .ok (true, cell :: cs', w)
      else .ok (f, .empty :: cs', w + 1)

/-! ### logical operators on two per-member lists -/

def andMerge : List Cell → List Cell → M (Bool × List Cell × Nat)
  | ls, [] => .ok (false, ls, 0)
  | [], _ :: _ => .error .indexOutOfRange
  | l :: ls, r :: rs => do
    let (f, cs, w) ← andMerge ls rs
    match r with
    | .empty => .ok (f, .empty :: cs, w + 1)
    | .val _ => .ok (f || !l.isEmpty, l :: cs, w)

def orMerge : List Cell → List Cell → M (List Cell × Nat)
  | ls, [] => .ok (ls, 0)
  | [], _ :: _ => .error .indexOutOfRange
  | l :: ls, r :: rs => do
    let (cs, w) ← orMerge ls rs
    match r with
    | .empty => .ok (l :: cs, w)
    | .val _ => .ok (r :: cs, w + 1)

def notFlip : List Cell → Bool × List Cell
  | [] => (false, [])
  | c :: cs =>
    let (f, cs') := notFlip cs
    match c with
    | .empty => (true, .val (.bool true) :: cs')
    | .val _ => (f, .empty :: cs')

end Impl
end JPV
