/-
The fixed registry of user functions and the regular-expression matcher used by the
drivers; implemented identically in the Go harness (harness/registry.go).
Theorems never depend on this file: they quantify over every `Env`.
-/
import JPV.Ast
namespace JPV

def isSubstr (pat s : List Char) : Bool :=
  match s with
  | [] => pat.isEmpty
  | _ :: rest => pat.isPrefixOf s || isSubstr pat rest

namespace Registry

def ffn : String → Option (Val → Option Val)
  | "id" => some (fun v => some v)
  | "twice" => some (fun v => match v with | .num n => some (.num (2 * n)) | _ => none)
  | "wrap" => some (fun v => some (.arr [v]))
  | "failAll" => some (fun _ => none)
  | "failOdd" => some (fun v => match v with
      | .num n => if n % 2 == 0 then some v else none
      | _ => some v)
  | _ => none

def maxNum : List Val → Option Int
  | [] => none
  | [.num n] => some n
  | .num n :: rest => (maxNum rest).map (fun m => if n > m then n else m)
  | _ => none

def afn : String → Option (List Val → Option Val)
  | "count" => some (fun vs => some (.num vs.length))
  | "max" => some (fun vs => (maxNum vs).map .num)
  | "first" => some (fun vs => vs.head?)
  | "list" => some (fun vs => some (.arr vs))
  | "failAgg" => some (fun _ => none)
  | _ => none

/-- the harness only generates regular expressions that are plain alphanumeric words,
    for which Go's `regexp.MatchString` is substring containment -/
def regex (re s : String) : Bool := isSubstr re.toList s.toList

def env : Env := { ffn := ffn, afn := afn, regex := regex }

end Registry
end JPV
