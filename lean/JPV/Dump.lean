/-
Canonical dumps of trees, outcomes, call logs — the model side of the T3 channels.
Mirrors verif_on.go in /repo.
-/
import JPV.Proto
import JPV.Build
import JPV.Impl.Retrieve
namespace JPV
open Sexp

def Info.toSexp (i : Info) : Sexp :=
  .list [ofString i.text, ofString i.conn, ofBool i.vg, ofBool i.acc]

def Bound.toSexp (b : Bound) : Sexp := .list [ofInt b.number, ofBool b.omitted]

def SubI.toSexp : SubI → Sexp
  | .idx n => .list [.atom "i", ofInt n]
  | .slicePos s e t => .list [.atom "slp", s.toSexp, e.toSexp, ofInt t.number]
  | .sliceNeg s e t => .list [.atom "sln", s.toSexp, e.toSexp, ofInt t.number]
  | .wild => .atom "w"

def Cmp.toSexp : Cmp → Sexp
  | .directEq ty => .list [.atom "eq", .atom (match ty with | .num => "num" | .bool => "bool" | .str => "str" | .null => "null")]
  | .deepEq => .atom "deq"
  | .lt => .atom "lt" | .le => .atom "le" | .gt => .atom "gt" | .ge => .atom "ge"
  | .regex re => .list [.atom "regex", ofString re]

def MId.toSexp : MId → Sexp
  | .key i k => .list [.atom "key", i.toSexp, ofString k, .atom "t"]
  | .wild i => .list [.atom "wild", i.toSexp, .atom "t"]

def Cell.toSexp : Impl.Cell → Sexp
  | .empty => .atom "e"
  | .val v => v.toSexp

mutual
partial def N.toSexp : N → Sexp
  | .root i => .list [.atom "root", i.toSexp]
  | .cur i => .list [.atom "cur", i.toSexp]
  | .child i k => .list [.atom "child", i.toSexp, ofString k]
  | .wild i => .list [.atom "wild", i.toSexp]
  | .multi i ids twin => .list [.atom "multi", i.toSexp, .list (.atom "ids" :: ids.map MId.toSexp),
      match twin with
      | none => .atom "nil"
      | some t => .list ([.atom "twin", t.toSexp, .atom "t"] ++ ids.map (fun _ => .atom "w"))]
  | .desc i a b => .list [.atom "desc", i.toSexp, ofBool a, ofBool b]
  | .union i subs => .list (.atom "union" :: i.toSexp :: subs.map SubI.toSexp)
  | .filter i q => .list [.atom "filter", i.toSexp, q.toSexp]
  | .ffn i _ => .list [.atom "ffn", i.toSexp]
  | .afn i _ p => .list [.atom "afn", i.toSexp, .list (p.map N.toSexp)]
partial def Q.toSexp : Q → Sexp
  | .or a b => .list [.atom "or", a.toSexp, b.toSexp]
  | .and a b => .list [.atom "and", a.toSexp, b.toSexp]
  | .not a => .list [.atom "not", a.toSexp]
  | .cmp l r c => .list [.atom "cmp", c.toSexp, .list [.atom "cp", ofBool (Build.rank l != 0), l.toSexp],
      .list [.atom "cp", ofBool (Build.rank r != 0), r.toSexp]]
  | .exist p => p.toSexp
partial def P.toSexp : P → Sexp
  | .lit v => .list [.atom "lit", .list [v.toSexp]]
  | .proot ch => .list (.atom "proot" :: ch.map N.toSexp)
  | .pcur ch => .list (.atom "pcur" :: ch.map N.toSexp)
end

def Seg.toSexp : Impl.Seg → Sexp
  | .key k => .list [.atom "k", ofString k]
  | .idx i => .list [.atom "i", ofNat i]

def Res.toSexp : Impl.Res → Sexp
  | .plain v => v.toSexp
  | .acc v none => .list [.atom "acc", v.toSexp, .atom "nil"]
  | .acc v (some loc) => .list [.atom "acc", v.toSexp, .list (.atom "loc" :: loc.map Seg.toSexp)]

def RtErr.toSexp : Impl.RtErr → Sexp
  | .member i => .list [.atom "err", .atom "member", ofString i.text]
  | .type i e f => .list [.atom "err", .atom "type", ofString i.text, ofString e, ofString f]
  | .func i => .list [.atom "err", .atom "func", ofString i.text]

def Panic.toStr : Impl.Panic → String
  | .indexOutOfRange => "index" | .typeAssertion => "assert" | .uncomparable => "uncomparable" | .outOfFuel => "fuel"

def Outcome.toSexps : Impl.Outcome → List Sexp
  | .ok rs => .atom "ok" :: rs.map Res.toSexp
  | .err e => [RtErr.toSexp e]
  | .panic p => [.list [.atom "panic", .atom (Panic.toStr p)]]

def Call.toSexp : Impl.Call → Sexp
  | .ffn n a => .list [.atom "ffn", ofString n, a.toSexp]
  | .afn n as => .list (.atom "afn" :: ofString n :: as.map Val.toSexp)

def ParseErr.toSexp : ParseErr → Sexp
  | .funcNotFound t => .list [.atom "parse-err", .atom "notfound", ofString t]
  | .valueGroupOperand => .list [.atom "parse-err", .atom "syntax-vg"]
  | .twoCurrentNodes => .list [.atom "parse-err", .atom "syntax-twocur"]

end JPV
