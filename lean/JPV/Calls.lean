/-
Calls — the DENOTATION of the user-function call sequence of a built tree (property C14).

`calls env ch root cur` is the list of calls that evaluating the chain `ch` on `cur` makes,
in order, written in the same `flatMap` style as `TSem.den`: no state, no buffer, no errors.
Filter queries contribute the calls of their operand chains in the evaluation order of
`Impl.computeQ`, including the short-circuits of `&&` and `||`; those depend on the protocol
list of the left operand (one cell meaning "no"/"yes" for every member), which `cellsQ`
gives as a pure function of the tree and the document.
-/
import JPV.WF
namespace JPV
namespace Calls
open Impl TSem

/-- the comparator's embedded validator: "found" flag, pure -/
def valFound (c : Cmp) (cells : List Cell) : Bool :=
  match cmpValidatorTy c with
  | none => validateAny cells
  | some ty => (validateTy ty cells).1

/-- the protocol list of an operand: one cell per member for `@`-paths with a match, a single
    cell (literal value / the single match / `true` for several / the marker for none) otherwise -/
def cellsP (env : Env) : P → Val → List Val → List Cell
  | .lit v, _, _ => [.val v]
  | .proot ch, root, _ => [cellOf (den env ch root root)]
  | .pcur ch, root, ms =>
    let cs := ms.map (fun m => headCell (den env ch root m))
    if cs.any (fun c => !c.isEmpty) then cs else [.empty]

/-- the protocol list of a query: `Impl.computeQ` with the state erased -/
def cellsQ (env : Env) : Q → Val → List Val → List Cell
  | .exist p, root, ms => cellsP env p root ms
  | .cmp l r c, root, ms =>
    let lc := cellsP env l root ms
    let rc := cellsP env r root ms
    let L := validated c lc
    let R := validated c rc
    if valFound c lc && valFound c rc then
      match R with
      | .val r0 :: _ =>
        (match comparator env c r0 L with
         | .ok (hit, cells, _) => if hit then cells else [.empty]
         | .error _ => [])
      | _ => []
    else if valFound c lc == valFound c rc && c == .deepEq then [.val (.bool true)]
    else [.empty]
  | .not a, root, ms =>
    let cl := cellsQ env a root ms
    if cl.length == 1 then
      match cl with
      | .empty :: _ => [.val (.bool true)]
      | _ => [.empty]
    else
      if (notFlip cl).1 then (notFlip cl).2 else [.empty]
  | .and a b, root, ms =>
    let l := cellsQ env a root ms
    if l.length == 1 then
      match l with
      | .empty :: _ => l
      | _ => cellsQ env b root ms
    else
      let r := cellsQ env b root ms
      if r.length == 1 then
        match r with
        | .empty :: _ => r
        | _ => l
      else
        match andMerge l r with
        | .ok (hit, cells, _) => if hit then cells else [.empty]
        | .error _ => []
  | .or a b, root, ms =>
    let l := cellsQ env a root ms
    if l.length == 1 then
      match l with
      | .empty :: _ => cellsQ env b root ms
      | _ => l
    else
      let r := cellsQ env b root ms
      if r.length == 1 then
        match r with
        | .empty :: _ => l
        | _ => r
      else
        match orMerge l r with
        | .ok (cells, _) => cells
        | .error _ => []

/-- the whole-match "no": a single marker cell. `a && b` does not evaluate `b` after it. -/
def isNo : List Cell → Bool
  | [.empty] => true
  | _ => false

/-- the whole-match "yes": a single value cell. `a || b` does not evaluate `b` after it. -/
def isYes : List Cell → Bool
  | [.val _] => true
  | _ => false

mutual
/-- the calls made by evaluating a chain on `cur`, in order -/
def calls (env : Env) : List N → Val → Val → List Call
  | [], _, _ => []
  | .root _ :: rest, root, _ => calls env rest root root
  | .cur _ :: rest, root, cur => calls env rest root cur
  | .child _ k :: rest, root, cur =>
    match cur with
    | .obj kvs => (match Val.lookup k kvs with
      | some v => calls env rest root v
      | none => [])
    | _ => []
  | .wild _ :: rest, root, cur =>
    match cur with
    | .obj kvs => (sortKV kvs).flatMap (fun kv => calls env rest root kv.2)
    | .arr xs => xs.flatMap (fun x => calls env rest root x)
    | _ => []
  | .multi _ ids twin :: rest, root, cur =>
    match twin, cur with
    | some _, .arr xs => ids.flatMap (fun _ => xs.flatMap (fun x => calls env rest root x))
    | _, .obj kvs => ids.flatMap (fun id =>
        match id with
        | .key _ k => (match Val.lookup k kvs with
          | some v => calls env rest root v
          | none => [])
        | .wild _ => (sortKV kvs).flatMap (fun kv => calls env rest root kv.2))
    | _, _ => []
  | .desc _ mr lr :: rest, root, cur =>
    ((Val.containers cur).filter (fun c => if isObj c then mr else lr)).flatMap (fun c => calls env rest root c)
  | .union _ subs :: rest, root, cur =>
    match cur with
    | .arr xs => (subs.flatMap (fun s => subIndexes s xs.length)).flatMap (fun (ix : Int) =>
        match (if ix < 0 then none else xs[ix.toNat]?) with
        | some v => calls env rest root v
        | none => [])
    | _ => []
  | .filter _ q :: rest, root, cur =>
    -- the query is evaluated once for all members (not at all on a non-container), then the
    -- rest of the chain on every selected member
    if cur.isContainer then
      callsQ env q root (entries cur) ++
        (keepBy (entries cur) (semQ env q root (entries cur))).flatMap (fun v => calls env rest root v)
    else []
  | .ffn _ name :: rest, root, cur =>
    match env.ffn name with
    | some f => Call.ffn name cur :: (match f cur with
      | some r => calls env rest root r
      | none => [])
    | none => []
  | .afn _ name param :: rest, root, cur =>
    calls env param root cur ++
      (match den env param root cur with
       | [] => []
       | r0 :: rs =>
         let all := r0 :: rs
         let args := aggArgs (chainVg param) r0 all
         match env.afn name with
         | some f => Call.afn name args :: (match f args with
           | some r => calls env rest root r
           | none => [])
         | none => [])

/-- the calls made by computing an operand for the members `ms` -/
def callsP (env : Env) : P → Val → List Val → List Call
  | .lit _, _, _ => []
  | .proot ch, root, _ => calls env ch root root
  | .pcur ch, root, ms => ms.flatMap (fun m => calls env ch root m)

/-- the calls made by computing a query for the members `ms`, in evaluation order -/
def callsQ (env : Env) : Q → Val → List Val → List Call
  | .exist p, root, ms => callsP env p root ms
  | .cmp l r _, root, ms => callsP env l root ms ++ callsP env r root ms
  | .not a, root, ms => callsQ env a root ms
  | .and a b, root, ms =>
    callsQ env a root ms ++ (if isNo (cellsQ env a root ms) then [] else callsQ env b root ms)
  | .or a b, root, ms =>
    callsQ env a root ms ++ (if isYes (cellsQ env a root ms) then [] else callsQ env b root ms)
end

/-! ### chains without function calls -/

mutual
/-- no function node, and no filter whose query mentions a function -/
def fnFree : List N → Bool
  | [] => true
  | n :: rest => fnFreeN n && fnFree rest
def fnFreeN : N → Bool
  | .ffn _ _ => false
  | .afn _ _ _ => false
  | .filter _ q => fnFreeQ q
  | _ => true
def fnFreeQ : Q → Bool
  | .or a b => fnFreeQ a && fnFreeQ b
  | .and a b => fnFreeQ a && fnFreeQ b
  | .not a => fnFreeQ a
  | .exist p => fnFreeP p
  | .cmp l r _ => fnFreeP l && fnFreeP r
def fnFreeP : P → Bool
  | .lit _ => true
  | .proot ch => fnFree ch
  | .pcur ch => fnFree ch
end

/-! ### vocabulary of the C14 statements -/

/-- a logged call whose user function returned an error -/
def failedCall (env : Env) : Call → Bool
  | .ffn name v => (match env.ffn name with | some f => (f v).isNone | none => false)
  | .afn name vs => (match env.afn name with | some f => (f vs).isNone | none => false)

/-- a chain of filter-function nodes only -/
def allFfn : List N → Bool
  | [] => true
  | .ffn _ _ :: rest => allFfn rest
  | _ => false

/-- the arguments of the calls of the filter function `name`, in log order -/
def ffnArgs (name : String) (log : List Call) : List Val :=
  log.filterMap (fun c => match c with
    | .ffn n v => if n = name then some v else none
    | .afn _ _ => none)

/-- does this logged call belong to this function node (same kind, same registered name) -/
def callOf : N → Call → Bool
  | .ffn _ name, .ffn name' _ => name == name'
  | .afn _ name _, .afn name' _ => name == name'
  | _, _ => false

end Calls
end JPV
