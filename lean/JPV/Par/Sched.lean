/-
Par.Sched — threads, footprints, interleavings (C06, model level).

A generic theorem: threads are deterministic machines that read and write shared cells; if
no thread writes a cell another thread reads or writes, then under EVERY interleaving each
thread goes through exactly the local states it goes through when it runs alone — every
read returns the value it returns in isolation, so every call returns what it returns alone.
The instantiation for the library is by footprint: C04/C05 show that an evaluation writes
only cells it allocated itself (fresh lists, its own pooled container), and reads the
document, the parsed tree and the marker lists, which nobody writes.
What this theorem does NOT cover: the Go memory model, `sync.Pool`/`sync.Mutex` exclusivity,
the scheduler — those are exercised by the race-detector runs of the C06 runner.
-/
namespace JPV
namespace Par

abbrev Cell := Nat
abbrev Mem := Cell → Int
abbrev Tid := Nat

/-- what a thread does next, given its local state -/
inductive Act (L : Type) where
  | read (c : Cell) (k : Int → L)       -- read cell c, continue with the value
  | write (c : Cell) (v : Int) (next : L)
  | done

/-- a system: every thread's program over a common local-state type -/
structure Sys (L : Type) where
  act : Tid → L → Act L
  reads : Tid → Cell → Prop
  writes : Tid → Cell → Prop
  /-- programs stay inside their declared footprints -/
  fp_read : ∀ t l c k, act t l = .read c k → reads t c ∨ writes t c
  fp_write : ∀ t l c v n, act t l = .write c v n → writes t c
  /-- no read-write or write-write pair on one cell between two threads -/
  no_conflict : ∀ t u c, t ≠ u → writes t c → ¬ reads u c ∧ ¬ writes u c

def upd (m : Mem) (c : Cell) (v : Int) : Mem := fun x => if x = c then v else m x

/-- one step of thread `t` on its local state and the memory -/
def step1 {L : Type} (S : Sys L) (t : Tid) (l : L) (m : Mem) : L × Mem :=
  match S.act t l with
  | .read c k => (k (m c), m)
  | .write c v n => (n, upd m c v)
  | .done => (l, m)

structure Cfg (L : Type) where
  loc : Tid → L
  mem : Mem

def stepCfg {L : Type} (S : Sys L) (t : Tid) (c : Cfg L) : Cfg L :=
  let r := step1 S t (c.loc t) c.mem
  { loc := fun u => if u = t then r.1 else c.loc u, mem := r.2 }

/-- run a schedule (the sequence of thread ids chosen by the scheduler) -/
def runSched {L : Type} (S : Sys L) : List Tid → Cfg L → Cfg L
  | [], c => c
  | t :: s, c => runSched S s (stepCfg S t c)

/-- thread `t` alone for `k` steps -/
def solo {L : Type} (S : Sys L) (t : Tid) : Nat → L × Mem → L × Mem
  | 0, x => x
  | k + 1, x => solo S t k (step1 S t x.1 x.2)

/-- `t`'s view of a configuration agrees with a solo state -/
def Agree {L : Type} (S : Sys L) (t : Tid) (c : Cfg L) (x : L × Mem) : Prop :=
  c.loc t = x.1 ∧ ∀ cell, (S.reads t cell ∨ S.writes t cell) → c.mem cell = x.2 cell

theorem agree_step_same {L : Type} (S : Sys L) (t : Tid) (c : Cfg L) (x : L × Mem) (h : Agree S t c x) :
    Agree S t (stepCfg S t c) (step1 S t x.1 x.2) := by
  obtain ⟨hl, hm⟩ := h
  unfold stepCfg step1
  rw [hl]
  cases ha : S.act t x.1 with
  | read cell k =>
    have hfp := S.fp_read t x.1 cell k ha
    refine ⟨by simp [hm cell hfp], fun c' hc' => by simpa using hm c' hc'⟩
  | write cell v n =>
    refine ⟨by simp, fun c' hc' => ?_⟩
    simp only [upd]
    by_cases hcc : c' = cell
    · simp [hcc]
    · simp [hcc, hm c' hc']
  | done => exact ⟨by simp [hl], fun c' hc' => by simpa using hm c' hc'⟩

theorem agree_step_other {L : Type} (S : Sys L) (t u : Tid) (htu : u ≠ t) (c : Cfg L) (x : L × Mem)
    (h : Agree S t c x) : Agree S t (stepCfg S u c) x := by
  obtain ⟨hl, hm⟩ := h
  unfold stepCfg step1
  have hne : ¬ t = u := fun e => htu e.symm
  cases ha : S.act u (c.loc u) with
  | read cell k => exact ⟨by simp [hne, hl], fun c' hc' => by simpa using hm c' hc'⟩
  | write cell v n =>
    have hw := S.fp_write u (c.loc u) cell v n ha
    have hnc := S.no_conflict u t cell htu hw
    refine ⟨by simp [hne, hl], fun c' hc' => ?_⟩
    simp only [upd]
    by_cases hcc : c' = cell
    · subst hcc
      rcases hc' with h1 | h1
      · exact absurd h1 hnc.1
      · exact absurd h1 hnc.2
    · simp [hcc, hm c' hc']
  | done => exact ⟨by simp [hne, hl], fun c' hc' => by simpa using hm c' hc'⟩

/-- **Schedule independence.** Under every schedule, thread `t` ends in the local state it
    reaches alone after as many steps as the schedule gave it. -/
theorem replay_read_stable {L : Type} (S : Sys L) (t : Tid) :
    ∀ (s : List Tid) (c : Cfg L) (x : L × Mem), Agree S t c x →
      Agree S t (runSched S s c) (solo S t (s.count t) x)
  | [], c, x, h => by simpa [runSched, solo] using h
  | u :: s, c, x, h => by
    by_cases hu : u = t
    · subst hu
      simp only [runSched, List.count_cons_self, solo]
      exact replay_read_stable S u s _ _ (agree_step_same S u c x h)
    · have : (u :: s).count t = s.count t := by simp [List.count_cons, hu]
      rw [this]
      simp only [runSched]
      exact replay_read_stable S t s _ _ (agree_step_other S t u hu c x h)

/-- the local result of each call is what it is when the call runs alone from the initial memory -/
theorem schedule_independent {L : Type} (S : Sys L) (init : Tid → L) (m0 : Mem) (s : List Tid) (t : Tid) :
    (runSched S s ⟨init, m0⟩).loc t = (solo S t (s.count t) (init t, m0)).1 :=
  (replay_read_stable S t s ⟨init, m0⟩ (init t, m0) ⟨rfl, fun _ _ => rfl⟩).1

/-- non-vacuity: every thread `t` reads the shared read-only cell 0 and stores what it read in
    its private cell `t + 1`; the hypotheses of `schedule_independent` are met. -/
def exSys : Sys Nat where
  act := fun t l => match l with
    | 0 => .read 0 (fun v => v.toNat + 1)
    | n + 1 => if n + 1 < 100 then .write (t + 1) (n : Int) 100 else .done
  reads := fun _ c => c = 0
  writes := fun t c => c = t + 1
  fp_read := by
    intro t l c k h
    cases l with
    | zero => simp at h; exact Or.inl h.1.symm
    | succ n => simp only [] at h; split at h <;> simp at h
  fp_write := by
    intro t l c v n h
    cases l with
    | zero => simp at h
    | succ m =>
      simp only [] at h
      split at h
      · simp at h; exact h.1.symm
      · simp at h
  no_conflict := by
    intro t u c htu hw
    show ¬ (c = 0) ∧ ¬ (c = u + 1)
    have hw' : c = t + 1 := hw
    subst hw'
    exact ⟨Nat.succ_ne_zero t, fun h => htu (Nat.succ.inj h)⟩

example (s : List Tid) (t : Tid) (m0 : Mem) :
    (runSched exSys s ⟨fun _ => 0, m0⟩).loc t = (solo exSys t (s.count t) (0, m0)).1 :=
  schedule_independent exSys (fun _ => 0) m0 s t

end Par
end JPV
