/-
Line protocol: S-expression encodings of documents and abstract paths (DESIGN §8).
-/
import JPV.Sexp
import JPV.Ast
namespace JPV
open Sexp

namespace Val
mutual
partial def toSexp : Val → Sexp
  | null => atom "null"
  | bool b => list [atom "b", ofBool b]
  | num n => list [atom "n", ofInt n]
  | jnum n => list [atom "j", ofInt n]
  | str s => ofString s
  | arr xs => list (atom "a" :: xs.map toSexp)
  | obj kvs => list (atom "o" :: kvs.map (fun (k, v) => list [ofString k, toSexp v]))
  | opq ty c => list [atom "q", ofString ty, ofNat c]
end

partial def ofSexp? : Sexp → Option Val
  | atom "null" => some null
  | list [atom "b", b] => (asBool? b).map bool
  | list [atom "n", n] => (asInt? n).map num
  | list [atom "j", n] => (asInt? n).map jnum
  | list (atom "s" :: cs) => (asString? (list (atom "s" :: cs))).map str
  | list (atom "a" :: xs) => (xs.mapM ofSexp?).map arr
  | list (atom "o" :: kvs) =>
    (kvs.mapM (fun kv => match kv with
      | list [k, v] => do
        let k ← asString? k
        let v ← ofSexp? v
        pure (k, v)
      | _ => none)).map obj
  | list [atom "q", ty, c] => do
    let ty ← asString? ty
    let c ← asNat? c
    pure (opq ty c)
  | _ => none
end Val

def optInt? : Sexp → Option (Option Int)
  | atom "_" => some none
  | x => (asInt? x).map some

def Sub.ofSexp? : Sexp → Option Sub
  | atom "w" => some .wild
  | list [atom "i", n] => (asInt? n).map .idx
  | list [atom "sl", s, e, t] => do
    let s ← optInt? s; let e ← optInt? e; let t ← optInt? t
    pure (.slice s e t)
  | _ => none

def Name.ofSexp? : Sexp → Option Name
  | atom "w" => some .wild
  | list [atom "k", k] => (asString? k).map .key
  | _ => none

def Lit.ofSexp? : Sexp → Option Lit
  | atom "null" => some .null
  | list [atom "n", n] => (asInt? n).map .num
  | list [atom "b", b] => (asBool? b).map .bool
  | list (atom "s" :: cs) => (asString? (list (atom "s" :: cs))).map .str
  | _ => none

def CmpOp.ofSexp? : Sexp → Option CmpOp
  | atom "eq" => some .eq | atom "ne" => some .ne | atom "lt" => some .lt
  | atom "le" => some .le | atom "gt" => some .gt | atom "ge" => some .ge
  | _ => none

def Fn.ofSexp? : Sexp → Option Fn
  | list [atom "ffn", t, n] => do pure (.ffn (← asString? t) (← asString? n))
  | list [atom "afn", t, n] => do pure (.afn (← asString? t) (← asString? n))
  | _ => none

mutual
partial def Step.ofSexp? : Sexp → Option Step
  | list [atom "child", t, k] => do pure (.child (← asString? t) (← asString? k))
  | list [atom "wild", t] => do pure (.wild (← asString? t))
  | list (atom "multi" :: t :: ns) => do pure (.multi (← asString? t) (← ns.mapM Name.ofSexp?))
  | list (atom "union" :: t :: ss) => do pure (.union (← asString? t) (← ss.mapM Sub.ofSexp?))
  | list [atom "filter", t, q] => do pure (.filter (← asString? t) (← Query.ofSexp? q))
  | list [atom "desc", s] => do pure (.desc (← Step.ofSexp? s))
  | _ => none
partial def Query.ofSexp? : Sexp → Option Query
  | list [atom "or", a, b] => do pure (.or (← Query.ofSexp? a) (← Query.ofSexp? b))
  | list [atom "and", a, b] => do pure (.and (← Query.ofSexp? a) (← Query.ofSexp? b))
  | list [atom "exist", n, p] => do pure (.exist (← asBool? n) (← Path.ofSexp? p))
  | list [atom "cmp", op, l, r] => do
    pure (.cmp (← CmpOp.ofSexp? op) (← Operand.ofSexp? l) (← Operand.ofSexp? r))
  | list [atom "regex", p, re] => do pure (.regex (← Path.ofSexp? p) (← asString? re))
  | _ => none
partial def Operand.ofSexp? : Sexp → Option Operand
  | list [atom "lit", l] => (Lit.ofSexp? l).map .lit
  | list [atom "path", p] => (Path.ofSexp? p).map .path
  | _ => none
partial def Path.ofSexp? : Sexp → Option Path
  | list [atom "p", h, list steps, list fns] => do
    let h ← match h with | atom "root" => some Head.root | atom "cur" => some Head.cur | _ => none
    pure (.mk h (← steps.mapM Step.ofSexp?) (← fns.mapM Fn.ofSexp?))
  | _ => none
end

end JPV
