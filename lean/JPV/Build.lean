/-
Build — Ast → Tree: the net effect of the parser actions (DESIGN §4.4):
setNodeChain, updateValueGroup, deleteRootIdentifier, setLastNodeText, setConnectedText,
updateAccessorMode, pushFunction, pushChildMultiIdentifier, pushRecursiveChildIdentifier,
pushCompare*, pushCompareParameter* and the inline action blocks.
-/
import JPV.Tree
namespace JPV

structure Cfg where
  accessor : Bool
  deriving Inhabited, Repr

inductive ParseErr where
  | funcNotFound (text : String)
  | valueGroupOperand
  | twoCurrentNodes
  deriving Inhabited, Repr, DecidableEq

/-- a written element of a path before its Info is known -/
inductive Pre where
  | node (text : String) (vg : Bool) (mk : Info → N)
  | ffn (text name : String)
  | afn (text name : String)

def Pre.text : Pre → String
  | .node t _ _ => t
  | .ffn t _ => t
  | .afn t _ => t

def Pre.isAfn : Pre → Bool
  | .afn _ _ => true
  | _ => false

namespace Build

def bound (o : Option Int) : Bound :=
  match o with
  | some v => ⟨v, false⟩
  | none => ⟨0, true⟩

/-- the `index` action: omitted step becomes 1; sign of the step picks the implementation -/
def subI : Sub → SubI
  | .idx n => .idx n
  | .wild => .wild
  | .slice s e t =>
    let step : Int := t.getD 1
    if step ≥ 0 then .slicePos (bound s) (bound e) ⟨step, false⟩
    else .sliceNeg (bound s) (bound e) ⟨step, false⟩

def subVg : Sub → Bool
  | .idx _ => false
  | _ => true

/-- inner identifiers carry the selector's text and remaining path (setLastNodeText,
    setConnectedText), their own value-group flag, the selector's accessor flag -/
def mid (i : Info) : Name → MId
  | .key k => .key { i with vg := false } k
  | .wild => .wild { i with vg := true }

def isWildName : Name → Bool
  | .wild => true
  | _ => false

def litTy : Lit → LitTy
  | .num _ => .num | .bool _ => .bool | .str _ => .str | .null => .null

/-- compareParameterRank: `@`-path 0, `$`-path 1, literal 2 -/
def rank : P → Nat
  | .pcur _ => 0
  | .proot _ => 1
  | .lit _ => 2

def litTyOfVal : Val → LitTy
  | .num _ => .num | .jnum _ => .num | .bool _ => .bool | .str _ => .str | _ => .null

/-- pushCompareEQ -/
def mkEq (l r : P) : Q :=
  let (l, r) := if rank l > rank r then (r, l) else (l, r)
  match r with
  | .lit v => .cmp l r (.directEq (litTyOfVal v))
  | _ => .cmp l r .deepEq

/-- pushCompareLT/LE/GT/GE: swap at most once, mirroring the operator -/
def mkOrd (op : CmpOp) (l r : P) : Q :=
  let c : Cmp := match op with | .lt => .lt | .le => .le | .gt => .gt | _ => .ge
  let m : Cmp := match op with | .lt => .gt | .le => .ge | .gt => .lt | _ => .le
  if rank l > rank r then .cmp r l m else .cmp l r c

def isCur : P → Bool
  | .pcur _ => true
  | _ => false

/-- deleteRootIdentifier on a chain whose head is `$`/`@` with a successor -/
def deleteHead : List N → List N
  | .root _ :: n :: rest => n :: rest
  | .cur _ :: n :: rest => n :: rest
  | ch => ch

/-- updateValueGroup: the head carries "some step of this chain is a value group" -/
def markVg : List N → List N
  | [] => []
  | n :: rest => if (n :: rest).any (fun x => x.info.vg) then n.setVg :: rest else n :: rest

def finish (ch : List N) : List N := markVg (deleteHead ch)

/-- texts of the written elements from position i to the end -/
def suffixTexts : List String → List String
  | [] => []
  | t :: ts => (t ++ (match suffixTexts ts with | [] => "" | c :: _ => c)) :: suffixTexts ts

def lastAfnIdx (pres : List Pre) : Option Nat :=
  (pres.zipIdx.filter (fun (p, _) => p.isAfn)).getLast?.map (·.2)

/-- assemble the chain: plain nodes and filter functions are appended, an aggregate wraps
    everything before it as its parameter -/
def assemble (env : Env) : List (Pre × Info) → List N → Except ParseErr (List N)
  | [], ch => .ok ch
  | (.node _ _ mk, i) :: rest, ch => assemble env rest (ch ++ [mk i])
  | (.ffn t name, i) :: rest, ch =>
    match env.ffn name with
    | some _ => assemble env rest (ch ++ [.ffn i name])
    | none => .error (.funcNotFound t)
  | (.afn t name, i) :: rest, ch =>
    match env.afn name with
    | some _ => assemble env rest [.afn i name (finish ch)]
    | none => .error (.funcNotFound t)

def fnPre : Fn → Pre
  | .ffn t n => .ffn t n
  | .afn t n => .afn t n

def mkInfos (cfg : Cfg) (top : Bool) (pres : List Pre) : List (Pre × Info) :=
  let conns := if top then suffixTexts (pres.map Pre.text) else pres.map (fun _ => "")
  let la := lastAfnIdx pres
  (pres.zip conns).zipIdx.map (fun ((p, c), idx) =>
    let acc := top && cfg.accessor && (match la with | some j => decide (idx ≥ j) | none => true)
    let vg := match p with | .node _ vg _ => vg | _ => false
    (p, ({ text := p.text, conn := c, vg := vg, acc := acc } : Info)))

mutual
def stepPre (env : Env) (cfg : Cfg) : Step → Except ParseErr (List Pre)
  | .child t k => .ok [.node t false (fun i => .child i k)]
  | .wild t => .ok [.node t true (fun i => .wild i)]
  | .multi t ns => .ok [.node t true (fun i =>
      .multi i (ns.map (mid i)) (if ns.all isWildName then some i else none))]
  | .union t ss => .ok [.node t (match ss with | [s] => subVg s | _ => true) (fun i => .union i (ss.map subI))]
  | .filter t q => do
    let q ← buildQ env cfg q
    .ok [.node t true (fun i => .filter i q)]
  | .desc s => do
    let inner ← stepPre env cfg s
    let (mr, lr) := match s with
      | .child _ _ => (true, false)
      | .union _ _ => (false, true)
      | _ => (true, true)
    .ok (.node ".." true (fun i => .desc i mr lr) :: inner)

def stepsPre (env : Env) (cfg : Cfg) : List Step → Except ParseErr (List Pre)
  | [] => .ok []
  | s :: ss => do
    let a ← stepPre env cfg s
    let b ← stepsPre env cfg ss
    .ok (a ++ b)

def buildPath (env : Env) (cfg : Cfg) (top : Bool) : Path → Except ParseErr (List N)
  | .mk h steps fns => do
    let sp ← stepsPre env cfg steps
    let headPre : Pre := match h with
      | .root => .node "$" false (fun i => .root i)
      | .cur => .node "@" false (fun i => .cur i)
    let pres := headPre :: sp ++ fns.map fnPre
    let ch ← assemble env (mkInfos cfg top pres) []
    .ok (finish ch)

/-- a filter operand: jsonpathFilter + singleJsonpathFilter -/
def buildP (env : Env) (cfg : Cfg) (single : Bool) : Path → Except ParseErr P
  | .mk h steps fns => do
    let ch ← buildPath env cfg false (.mk h steps fns)
    if single && chainVg ch then .error .valueGroupOperand else
    match h with
    | .root => .ok (.proot ch)
    | .cur => .ok (.pcur ch)

def buildOperand (env : Env) (cfg : Cfg) : Operand → Except ParseErr P
  | .lit l => .ok (.lit l.toVal)
  | .path p => buildP env cfg true p

def buildQ (env : Env) (cfg : Cfg) : Query → Except ParseErr Q
  | .or a b => do .ok (.or (← buildQ env cfg a) (← buildQ env cfg b))
  | .and a b => do .ok (.and (← buildQ env cfg a) (← buildQ env cfg b))
  | .exist neg p => do
    let e ← buildP env cfg false p
    .ok (if neg then .not (.exist e) else .exist e)
  | .cmp op l r => do
    let l ← buildOperand env cfg l
    let r ← buildOperand env cfg r
    if isCur l && isCur r then .error .twoCurrentNodes else
    match op with
    | .eq => .ok (mkEq l r)
    | .ne => .ok (.not (mkEq l r))
    | _ => .ok (mkOrd op l r)
  | .regex p re => do
    let l ← buildP env cfg true p
    .ok (.cmp l (.lit (.str "regex")) (.regex re))
end

/-- what `Parse` builds for a whole path -/
def build (env : Env) (cfg : Cfg) (p : Path) : Except ParseErr (List N) :=
  buildPath env cfg true p

end Build
end JPV
