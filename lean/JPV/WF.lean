/-
Well-formedness of built trees: what `Build.build` guarantees and evaluation relies on.
-/
import JPV.TSem
namespace JPV

def singleNode : N → Bool
  | .root _ | .cur _ | .child _ _ | .ffn _ _ | .afn _ _ _ => true
  | .union _ [.idx _] => true
  | _ => false

/-- a chain that selects at most one value: what a comparison operand must be -/
def singleChain : List N → Bool
  | [] => true
  | n :: rest => singleNode n && singleChain rest

def singleP : P → Bool
  | .lit _ => true
  | .proot ch => singleChain ch
  | .pcur ch => singleChain ch

def isPcur : P → Bool
  | .pcur _ => true
  | _ => false

mutual
def wfChain (env : Env) : List N → Bool
  | [] => true
  | n :: rest => wfN env n && wfChain env rest
def wfN (env : Env) : N → Bool
  | .filter _ q => wfQ env q
  | .ffn _ name => (env.ffn name).isSome
  | .afn _ name param => (env.afn name).isSome && wfChain env param
  | _ => true
def wfQ (env : Env) : Q → Bool
  | .or a b => wfQ env a && wfQ env b
  | .and a b => wfQ env a && wfQ env b
  | .not a => wfQ env a
  | .exist p => wfP env p
  | .cmp l r _ => wfP env l && wfP env r && singleP l && singleP r && !isPcur r
def wfP (env : Env) : P → Bool
  | .lit _ => true
  | .proot ch => wfChain env ch
  | .pcur ch => wfChain env ch
end

end JPV
