/-
FnNode — the vocabulary the generator `functions` (harness/cmd/translate/functions.go) writes
`Gen/FunctionsGo.lean` in: what the receiver of `syntaxFilterFunction.retrieve` /
`syntaxAggregateFunction.retrieve` offers, as operations on the model state `Impl.St`
(result buffer + call log + write log). Hand-written; the generated file only mentions these
names. Lemmas/CallTie.lean proves the generated methods equal to the `.ffn` / `.afn` equations
of `Impl.retrieve`, on which every C14 theorem rests.
-/
import JPV.Impl.Retrieve
namespace JPV
namespace FnNode
open Impl

/-- a pooled `*bufferContainer`: its `result` slice -/
abbrev Buf := List Res

/-- the state seen by a callee that is handed the buffer `b`: same logs, that buffer -/
def withBuf (st : St) (b : Buf) : St := { st with out := b }

/-- `[]interface{}` view of a buffer (`values.result`) -/
def Buf.vals (b : Buf) : List Val := b.map Res.val

/-- `make([]interface{}, n)` -/
def makeSlice (n : Nat) : List Val := List.replicate n .null

/-- `copy(dst, src)`: the first min(len dst, len src) elements are overwritten -/
def copySlice (dst src : List Val) : List Val := src.take dst.length ++ dst.drop src.length

/-- receiver of `syntaxFilterFunction.retrieve` -/
structure FilterRecv where
  /-- `f.function(v)`: `none` = the user function returned an error; the call is logged -/
  function : Val → St → Option Val × St
  /-- `f.retrieveAnyValueNext(root, v, container)` -/
  next : Val → Val → St → M (St × Option RtErr)
  /-- `ErrorFunctionFailed{errorBasicRuntime: f.errorRuntime, …}` -/
  failed : RtErr

/-- receiver of `syntaxAggregateFunction.retrieve` -/
structure AggRecv where
  function : List Val → St → Option Val × St
  /-- `f.param.retrieve(root, current, values)`: returns the callee's final state -/
  paramRetrieve : Val → Val → St → M (St × Option RtErr)
  /-- `f.param.isValueGroup()` -/
  paramVg : Bool
  next : Val → Val → St → M (St × Option RtErr)
  failed : RtErr

theorem copy_make (src : List Val) : copySlice (makeSlice src.length) src = src := by
  simp [copySlice, makeSlice]

end FnNode
end JPV
