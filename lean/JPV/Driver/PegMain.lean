/-
jpv-peg: the grammar executed. One request per line:
  (ID recog (s c1 c2 …))      → (ID accept) | (ID reject POS) | (ID fuel)
       recogniser only: `accept` iff the first alternative of `expression` matched,
       else the capture begin of `< .* >` in the second alternative
-/
import JPV.Peg.Peg
import JPV.Gen.Grammar
import JPV.Sexp
open JPV JPV.Sexp JPV.Peg

def fuelFor (n : Nat) : Nat := 1000 + 64 * n

def recog (id : Sexp) (s : String) : String :=
  let input := s.toList.toArray
  match run Gen.grammar (fuelFor input.size) (.rule "expression") input 0 with
  | .ok _ toks =>
    match (resolve toks).find? (fun a => a.idx == 1) with
    | some a => (Sexp.list [id, .atom "reject", ofNat a.textBegin]).toStr
    | none => (Sexp.list [id, .atom "accept"]).toStr
  | .fail => (Sexp.list [id, .atom "fail"]).toStr
  | .outOfFuel => (Sexp.list [id, .atom "fuel"]).toStr

def answer (line : String) : String :=
  match Sexp.parse line with
  | some (.list [id, .atom "recog", s]) =>
    match asString? s with
    | some s => recog id s
    | none => (Sexp.list [id, .atom "bad-case"]).toStr
  | _ => "(? bad-line)"

partial def loop (h : IO.FS.Stream) (out : IO.FS.Stream) : IO Unit := do
  let line ← h.getLine
  if line.isEmpty then return ()
  out.putStrLn (answer line)
  out.flush
  loop h out

def main : IO Unit := do
  let out ← IO.getStdout
  loop (← IO.getStdin) out
