/-
jpv-spec: reads one case per line, answers with what `Spec` says.
  (ID run PATH DOC)            → (ID ok v…) | (ID err) 
  (ID canonrun PATH LISTING)   → the same for `Spec.run` on `Canon.canon LISTING` (C07: LISTING gives the entries of
                                 every map in ANY order; theorems in Props/C07Doc.lean)
  (ID canon LISTING)           → (ID ok DOC), the canonical listing
-/
import JPV.Proto
import JPV.Spec
import JPV.Registry
import JPV.Canon
open JPV JPV.Sexp

def answer (line : String) : String :=
  match Sexp.parse line with
  | some (.list [id, .atom "run", p, d]) =>
    match Path.ofSexp? p, Val.ofSexp? d with
    | some p, some d =>
      match Spec.run Registry.env p d with
      | some vs => (Sexp.list (id :: .atom "ok" :: vs.map Val.toSexp)).toStr
      | none => (Sexp.list [id, .atom "err"]).toStr
    | _, _ => (Sexp.list [id, .atom "bad-case"]).toStr
  | some (.list [id, .atom "canonrun", p, d]) =>
    match Path.ofSexp? p, Val.ofSexp? d with
    | some p, some d =>
      match Spec.run Registry.env p (Canon.canon d) with
      | some vs => (Sexp.list (id :: .atom "ok" :: vs.map Val.toSexp)).toStr
      | none => (Sexp.list [id, .atom "err"]).toStr
    | _, _ => (Sexp.list [id, .atom "bad-case"]).toStr
  | some (.list [id, .atom "canon", d]) =>
    match Val.ofSexp? d with
    | some d => (Sexp.list [id, .atom "ok", (Canon.canon d).toSexp]).toStr
    | none => (Sexp.list [id, .atom "bad-case"]).toStr
  | _ => "(? bad-line)"

partial def loop (h : IO.FS.Stream) (out : IO.FS.Stream) : IO Unit := do
  let line ← h.getLine
  if line.isEmpty then return ()
  out.putStrLn (answer line)
  out.flush
  loop h out

def main : IO Unit := do
  let out ← IO.getStdout
  loop (← IO.getStdin) out
  out.flush
