/-
jpv-peggo: the recogniser DECOMPILED from the rule functions of jsonpath.peg.go (Gen/PegGoRules.lean, regenerated
on every run by the `pegrules` generator) executed by the same interpreter and action machine as jpv-peg.

  (ID goparse ACC (s c1 c2 …)) → as `parse` of jpv-peg, but the recogniser runs on Gen.goGrammar
  (ID gorun ACC (s c1 c2 …))   → same answer format, but the recogniser is `RunGo.parseGoRules`: the decompiled rule
                                  functions executed with the templates of the generated code on the REGENERATED Go runtime
                                  (reset/add/memoize/memoizedResult/matchDot over the state RT, memoisation enabled);
                                  the action machine then runs on `RunGo.stream goNum` of the final state
                                  (tree[:tokenIndex], PegText/Action kinds). A Go panic of the runtime → `(ID (gopanic))`,
                                  which no expectation equals.
  (ID gorunpos (s c1 c2 …))    → (ID OUTCOME POSITION TOKENINDEX NTOKS), OUTCOME ∈ ok/fail/panic/fuel: the final state of
                                  the same run (NTOKS = length of the PegText/Action stream); for debugging

A separate executable on purpose: when the generator refuses a hand-edited rule function, Gen/PegGoRules.lean is
deleted and only THIS driver stops building; jpv-peg (grammar read from jsonpath.peg) stays available for the
correspondence and the search for a failing input.
-/
import JPV.Peg.ParseModel
import JPV.Peg.ExtDriver
import JPV.Gen.PegGoRules
import JPV.Peg.MemoHash
import JPV.Peg.RunGoNum
import JPV.Dump
import JPV.Registry
open JPV JPV.Sexp JPV.Peg

def firstMismatch : List String → List String → Nat → Option Nat
  | [], [], _ => none
  | a :: as, b :: bs, i => if norm a == norm b then firstMismatch as bs (i + 1) else some i
  | _, _, i => some i

def actionsMismatch : Option Nat :=
  match firstMismatch Gen.actions expectedActions 0 with
  | some i => some i
  | none => if actionsAsExpected then none else some 999

def panicStr : Peg.Panic → String
  | .indexOutOfRange => "index" | .typeAssertion => "assert" | .sliceBounds => "slice" | .nilRoot => "nilroot"

def outcomeSexp : ParseOutcome → List Sexp
  | .ok ch => .atom "ok" :: ch.map N.toSexp
  | .syntaxErr pos reason near => [.list [.atom "syntax", ofNat pos, ofString reason, ofString near]]
  | .invalidArgument a => [.list [.atom "argument", ofString a]]
  | .functionNotFound t => [.list [.atom "notfound", ofString t]]
  | .notSupported f p => [.list [.atom "notsupported", ofString f, ofString p]]
  | .panic p => [.list [.atom "panic", .atom (panicStr p)]]
  | .unmodelled => [.atom "unmodelled"]

/-- the tail of `parseModel`: the action machine on the token stream of a successful recognition -/
def outcomeOfToks (env : Env) (ext : Ext) (cfg : Cfg) (input : Array Char) (toks : List Peg.Tok) : ParseOutcome :=
  match exec ⟨env, ext, cfg.accessor, input⟩ toks with
  | .ok ch => .ok ch
  | .error st => outcomeOfStop input st

/-- `parseModel` with the recogniser run on the decompiled rule functions -/
def parseModelGo (env : Env) (ext : Ext) (cfg : Cfg) (s : String) : ParseOutcome :=
  let input := s.toList.toArray
  if !actionsAsExpected then .unmodelled else
  -- memoised like the generated parser (C02_go_memo_transparent: the same Result as the plain interpreter)
  match (runM (T := HashMemo) Gen.goGrammar (fuelFor input.size) (ruleBody Gen.goGrammar "expression") input 0 MState.init).1 with
  | .outOfFuel => .unmodelled
  | .fail => .unmodelled
  | .ok _ toks => outcomeOfToks env ext cfg input toks

/-- `gorun`: the recogniser is `Parse()` on the decompiled rule functions over the regenerated runtime;
`none` = the runtime panicked -/
def parseModelRun (env : Env) (ext : Ext) (cfg : Cfg) (s : String) : Option ParseOutcome :=
  let input := s.toList.toArray
  if !actionsAsExpected then some .unmodelled else
  match RunGo.parseGoRules (fuelFor input.size) input false with
  | (.outOfFuel, _) => some .unmodelled
  | (.fail, _) => some .unmodelled
  | (.panic, _) => none
  | (.ok, st) => some (outcomeOfToks env ext cfg input (RunGo.stream RunGo.goNum st))

def runPos (s : String) : List Sexp :=
  let input := s.toList.toArray
  let (o, st) := RunGo.parseGoRules (fuelFor input.size) input false
  let name := match o with | .ok => "ok" | .fail => "fail" | .panic => "panic" | .outOfFuel => "fuel"
  [.atom name, ofNat st.position, ofNat st.tokenIndex, ofNat (RunGo.stream RunGo.goNum st).length]

def answer (line : String) : String :=
  match Sexp.parse line with
  | some (.list [id, .atom "goparse", acc, s]) =>
    match asBool? acc, asString? s with
    | some acc, some s =>
      match actionsMismatch with
      | some i => (Sexp.list [id, .list [.atom "actions-changed", ofNat i]]).toStr
      | none => (Sexp.list (id :: outcomeSexp (parseModelGo Registry.env driverExt ⟨acc⟩ s))).toStr
    | _, _ => (Sexp.list [id, .atom "bad-case"]).toStr
  | some (.list [id, .atom "gorun", acc, s]) =>
    match asBool? acc, asString? s with
    | some acc, some s =>
      match actionsMismatch with
      | some i => (Sexp.list [id, .list [.atom "actions-changed", ofNat i]]).toStr
      | none =>
        match parseModelRun Registry.env driverExt ⟨acc⟩ s with
        | some o => (Sexp.list (id :: outcomeSexp o)).toStr
        | none => (Sexp.list [id, .list [.atom "gopanic"]]).toStr
    | _, _ => (Sexp.list [id, .atom "bad-case"]).toStr
  | some (.list [id, .atom "gorunpos", s]) =>
    match asString? s with
    | some s => (Sexp.list (id :: runPos s)).toStr
    | none => (Sexp.list [id, .atom "bad-case"]).toStr
  | _ => "(? bad-line)"

partial def loop (h : IO.FS.Stream) (out : IO.FS.Stream) : IO Unit := do
  let line ← h.getLine
  if line.isEmpty then return ()
  out.putStrLn (answer line)
  out.flush
  loop h out

def main : IO Unit := do
  loop (← IO.getStdin) (← IO.getStdout)
