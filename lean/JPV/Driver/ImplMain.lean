/-
jpv-impl: the model side of the T3 channels. One request per line:
  (ID run ACC PATH DOC)    → (ID ok r…) | (ID (err …)) | (ID (panic k)) | (ID (parse-err …))
  (ID errk ACC PATH DOC)   → like run, but an error answers only (ID err)
  (ID tree ACC PATH)       → (ID n…) the chain `build` constructs | (ID (parse-err …))
  (ID calls ACC PATH DOC)  → (ID c…) the user-function calls, in order
  (ID vlist PATH DOC)      → (ID (vl n cells) …) lists returned by the top-level filter queries
  (ID writes ACC PATH DOC) → (ID n) number of writes to lists that are not fresh
  (ID den ACC PATH DOC)    → (ID ok v…) | (ID err)   the tree-level denotation TSem.run of the built chain
-/
import JPV.Dump
import JPV.TSem
import JPV.Registry
open JPV JPV.Sexp

def withCase (id : Sexp) (acc p d : Sexp) (k : List N → Val → List Sexp) : String :=
  match asBool? acc, Path.ofSexp? p, Val.ofSexp? d with
  | some acc, some p, some d =>
    match Build.build Registry.env ⟨acc⟩ p with
    | .error e => (Sexp.list [id, ParseErr.toSexp e]).toStr
    | .ok ch => (Sexp.list (id :: k ch d)).toStr
  | _, _, _ => (Sexp.list [id, .atom "bad-case"]).toStr

def answer (line : String) : String :=
  match Sexp.parse line with
  | some (.list [id, .atom "run", acc, p, d]) =>
    withCase id acc p d (fun ch d => Outcome.toSexps (Impl.run Registry.env ch d).1)
  | some (.list [id, .atom "errk", acc, p, d]) =>
    withCase id acc p d (fun ch d => match (Impl.run Registry.env ch d).1 with
      | .err _ => [.atom "err"]
      | o => Outcome.toSexps o)
  | some (.list [id, .atom "calls", acc, p, d]) =>
    withCase id acc p d (fun ch d => (Impl.run Registry.env ch d).2.log.map Call.toSexp)
  | some (.list [id, .atom "writes", acc, p, d]) =>
    withCase id acc p d (fun ch d =>
      [ofNat ((Impl.run Registry.env ch d).2.writes.filter (· != .fresh)).length])
  | some (.list [id, .atom "den", acc, p, d]) =>
    withCase id acc p d (fun ch d => match TSem.run Registry.env ch d with
      | some vs => .atom "ok" :: vs.map Val.toSexp
      | none => [.atom "err"])
  | some (.list [id, .atom "tree", acc, p]) =>
    withCase id acc p (.atom "null") (fun ch _ => ch.map N.toSexp)
  | _ => "(? bad-line)"

partial def loop (h : IO.FS.Stream) (out : IO.FS.Stream) : IO Unit := do
  let line ← h.getLine
  if line.isEmpty then return ()
  out.putStrLn (answer line)
  out.flush
  loop h out

def main : IO Unit := do
  let out ← IO.getStdout
  loop (← IO.getStdin) out
