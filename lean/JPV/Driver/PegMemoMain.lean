/-
jpv-pegm: jpv-peg (Driver/PegMain.lean) with the MEMOISING recogniser — `Peg.runM` on `Std.HashMap`
(Peg/Memo.lean, Peg/MemoHash.lean) instead of `Peg.run`: linear instead of exponential on nested filters.
Same protocol, same answers: `parseModelM = parseModel`, `recogniseM = recognise` (Props/C02Time.lean:
C02_parseModelM_eq, C02_memo_transparent).  One request per line:
  (ID parse ACC (s c1 c2 …))  → (ID ok node…) | (ID (syntax POS (s reason…) (s near…))) | (ID (argument (s …)))
                                | (ID (notfound (s …))) | (ID (notsupported (s feature…) (s path…)))
                                | (ID (panic k)) | (ID unmodelled)
       what `Parse` does with the path text under the registry configuration (ACC = t/f: accessor mode);
       `node…` is the tree in the format of the real library's `VerifLastTree()` (without the outer parentheses)
  (ID recog (s c1 c2 …))      → (ID accept) | (ID reject POS) | (ID fuel)
       recogniser only: `accept` iff the first alternative of `expression` matched,
       else the capture begin of `< .* >` in the second alternative
  (ID toks (s c1 c2 …))       → (ID (a IDX BEGIN END)…)  the actions of the successful derivation with their capture
  (ID rangestarts HEX)        → (rangestarts N o1 … oN)  GoString.rangeStarts of the bytes HEX (lowercase hex, `-` = empty string):
       the byte offsets at which Go's `for index := range s` starts a rune (validated by harness/jph/l31_rangestarts.go;
       this is the driver bin/check uses for the channel `peg`)
At start-up the regenerated action bodies are compared (whitespace-normalised) with the texts
Actions.lean was written against; if one differs every `parse` request is answered (ID (actions-changed N)).
-/
import JPV.Peg.ParseModel
import JPV.Peg.MemoHash
import JPV.Peg.ExtDriver
import JPV.Peg.GoString
import JPV.Dump
import JPV.Registry
open JPV JPV.Sexp JPV.Peg

def firstMismatch : List String → List String → Nat → Option Nat
  | [], [], _ => none
  | a :: as, b :: bs, i => if norm a == norm b then firstMismatch as bs (i + 1) else some i
  | _, _, i => some i

def actionsMismatch : Option Nat :=
  match firstMismatch Gen.actions expectedActions 0 with
  | some i => some i
  | none => if actionsAsExpected then none else some 999

def panicStr : Peg.Panic → String
  | .indexOutOfRange => "index" | .typeAssertion => "assert" | .sliceBounds => "slice" | .nilRoot => "nilroot"

def outcomeSexp : ParseOutcome → List Sexp
  | .ok ch => .atom "ok" :: ch.map N.toSexp
  | .syntaxErr pos reason near => [.list [.atom "syntax", ofNat pos, ofString reason, ofString near]]
  | .invalidArgument a => [.list [.atom "argument", ofString a]]
  | .functionNotFound t => [.list [.atom "notfound", ofString t]]
  | .notSupported f p => [.list [.atom "notsupported", ofString f, ofString p]]
  | .panic p => [.list [.atom "panic", .atom (panicStr p)]]
  | .unmodelled => [.atom "unmodelled"]

def recog (id : Sexp) (s : String) : String :=
  match recogniseM HashMemo s.toList.toArray with
  | .ok _ toks =>
    match (resolve toks).find? (fun a => a.idx == 1) with
    | some a => (Sexp.list [id, .atom "reject", ofNat a.textBegin]).toStr
    | none => (Sexp.list [id, .atom "accept"]).toStr
  | .fail => (Sexp.list [id, .atom "fail"]).toStr
  | .outOfFuel => (Sexp.list [id, .atom "fuel"]).toStr

def toks (id : Sexp) (s : String) : String :=
  match recogniseM HashMemo s.toList.toArray with
  | .ok _ toks =>
    (Sexp.list (id :: (resolve toks).map (fun a => .list [.atom "a", ofNat a.idx, ofNat a.textBegin, ofNat a.textEnd]))).toStr
  | .fail => (Sexp.list [id, .atom "fail"]).toStr
  | .outOfFuel => (Sexp.list [id, .atom "fuel"]).toStr

def hexVal? (c : Char) : Option Nat :=
  if '0' ≤ c ∧ c ≤ '9' then some (c.toNat - '0'.toNat)
  else if 'a' ≤ c ∧ c ≤ 'f' then some (c.toNat - 'a'.toNat + 10)
  else none

def hexBytes? : List Char → Option (List UInt8)
  | [] => some []
  | h :: l :: rest =>
    match hexVal? h, hexVal? l, hexBytes? rest with
    | some h, some l, some bs => some (UInt8.ofNat (16 * h + l) :: bs)
    | _, _, _ => none
  | _ => none

def rangestarts (hex : String) : String :=
  match hexBytes? (if hex == "-" then [] else hex.toList) with
  | some bs =>
    let offs := GoString.rangeStarts bs
    (Sexp.list (.atom "rangestarts" :: ofNat offs.length :: offs.map ofNat)).toStr
  | none => "(rangestarts bad-case)"

def answer (line : String) : String :=
  match Sexp.parse line with
  | some (.list [id, .atom "parse", acc, s]) =>
    match asBool? acc, asString? s with
    | some acc, some s =>
      match actionsMismatch with
      | some i => (Sexp.list [id, .list [.atom "actions-changed", ofNat i]]).toStr
      | none => (Sexp.list (id :: outcomeSexp (parseModelM HashMemo Registry.env driverExt ⟨acc⟩ s))).toStr
    | _, _ => (Sexp.list [id, .atom "bad-case"]).toStr
  | some (.list [id, .atom "recog", s]) =>
    match asString? s with
    | some s => recog id s
    | none => (Sexp.list [id, .atom "bad-case"]).toStr
  | some (.list [id, .atom "toks", s]) =>
    match asString? s with
    | some s => toks id s
    | none => (Sexp.list [id, .atom "bad-case"]).toStr
  | some (.list [_, .atom "rangestarts", .atom hex]) => rangestarts hex
  | _ => "(? bad-line)"

partial def loop (h : IO.FS.Stream) (out : IO.FS.Stream) : IO Unit := do
  let line ← h.getLine
  if line.isEmpty then return ()
  out.putStrLn (answer line)
  out.flush
  loop h out

def main : IO Unit := do
  let out ← IO.getStdout
  match actionsMismatch with
  | some i => (← IO.getStderr).putStrLn s!"jpv-pegm: action block {i} of jsonpath.peg differs from the text Actions.lean models"
  | none => pure ()
  loop (← IO.getStdin) out
