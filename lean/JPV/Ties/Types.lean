/-
Ties/Types — the vocabulary of the REGENERATED filter-code descriptions (tie T1, DESIGN §5.1).
Hand-written; imported by the generated files Gen/Validators.lean, Gen/Comparators.lean,
Gen/OperandOrder.lean and Gen/Facts.lean, which only contain values of these types.
What the values MEAN (how a table acts on a list of cells, …) is in Ties/Sem.lean; that the
hand-written evaluator model agrees with that meaning is proved in Lemmas/Ties.lean.
No imports: the generated files must build even when the model does not.
-/
namespace JPV
namespace Ties

/-! ### validators (syntax_basic_type_validator_*.go) -/

/-- the dynamic Go type a `switch values[index].(type)` can discriminate -/
inductive GoTy where
  | float64 | jsonNumber | string | bool | nil | emptyEntity | other
  deriving Inhabited, Repr, DecidableEq

/-- what a case body does to `values[index]`:
    nothing / `values[index] = emptyEntity` / `values[index], _ = typedValue.Float64()` -/
inductive Write where
  | keep | blank | toFloat64
  deriving Inhabited, Repr, DecidableEq

/-- a case body: does it contain `foundValue = true`; what it writes -/
structure Act where
  found : Bool
  write : Write
  deriving Inhabited, Repr, DecidableEq

/-- the ordered `case` list of the type switch and the `default` body
    (no `default` clause = `⟨false, .keep⟩`) -/
structure ValidatorTable where
  cases : List (GoTy × Act)
  dflt : Act
  deriving Inhabited, Repr, DecidableEq

/-- the condition of the `if` inside the any-value loop -/
inductive CellCond where
  | neEmptyEntity        -- `values[index] != emptyEntity`
  | eqEmptyEntity        -- `values[index] == emptyEntity`
  deriving Inhabited, Repr, DecidableEq

/-- `for index := range values { if COND { return A } } return B` -/
structure AnyLoop where
  cond : CellCond
  onHit : Bool
  atEnd : Bool
  deriving Inhabited, Repr, DecidableEq

/-- a validator implementation, by the name of its Go struct
    (`iface`: the embedded field is the interface `syntaxTypeValidator`, filled in by whoever
    constructs the comparator) -/
inductive VRef where
  | numeric | string | bool | nil | anyValue | iface
  deriving Inhabited, Repr, DecidableEq

/-! ### comparators (syntax_query_compare_comparator_*.go) -/

inductive OrdOp where
  | lt | le | gt | ge
  deriving Inhabited, Repr, DecidableEq

/-- the condition tested on every cell of `left` -/
inductive Test where
  | ifaceEq                 -- `left[i] == right`
  | deepEqual               -- `reflect.DeepEqual(left[i], right)`
  | floatOp (op : OrdOp)    -- `left[i].(float64) OP right.(float64)`
  | regexMatch              -- `r.regex.MatchString(left[i].(string))`
  deriving Inhabited, Repr, DecidableEq

/-- a branch of the `if TEST {…} else {…}`: does it contain `hasValue = true`, does it contain
    `left[leftIndex] = emptyEntity` -/
structure Branch where
  setHas : Bool
  blank : Bool
  deriving Inhabited, Repr, DecidableEq

structure ComparatorRec where
  validator : VRef
  skipMarker : Bool         -- loop body starts with `if left[leftIndex] == emptyEntity { continue }`
  test : Test
  thenB : Branch
  elseB : Branch
  deriving Inhabited, Repr, DecidableEq

/-! ### operand ordering (jsonpath_parser.go: pushCompare*) -/

/-- dynamic type of `literal[0]` of a `*syntaxQueryParamLiteral` -/
inductive LitGo where
  | float64 | bool | string | nil | other
  deriving Inhabited, Repr, DecidableEq

/-- dynamic type of `param.param` of a `*syntaxBasicCompareParameter` -/
inductive ParamKind where
  | literal (t : LitGo)     -- *syntaxQueryParamLiteral
  | root                    -- *syntaxQueryParamRoot
  | currentRoot             -- *syntaxQueryParamCurrentRoot
  deriving Inhabited, Repr, DecidableEq

/-- which of the two arguments of `pushCompareXX(leftParam, rightParam)` a value is -/
inductive Side where
  | fst | snd
  deriving Inhabited, Repr, DecidableEq

/-- an abstract `*syntaxBasicCompareParameter` -/
structure Opnd where
  param : ParamKind
  isLiteral : Bool
  src : Side
  deriving Inhabited, Repr, DecidableEq

def ParamKind.isLiteralParam : ParamKind → Bool
  | .literal _ => true
  | _ => false
def ParamKind.isRootParam : ParamKind → Bool
  | .root => true
  | _ => false
def ParamKind.isCurrentRootParam : ParamKind → Bool
  | .currentRoot => true
  | _ => false
/-- `x.literal[0].(type)` for the `x` obtained from `….param.(*syntaxQueryParamLiteral)` -/
def ParamKind.litTy : ParamKind → LitGo
  | .literal t => t
  | _ => .other

/-- a freshly constructed comparator -/
inductive CmpTag where
  | directEQ (v : VRef)     -- &syntaxCompareDirectEQ{syntaxTypeValidator: &V{}}
  | deepEQ | lt | le | gt | ge
  deriving Inhabited, Repr, DecidableEq

/-- a query value on the parser stack -/
inductive QTag where
  | cmp (l r : Opnd) (c : CmpTag)      -- &syntaxBasicCompareQuery{leftParam, rightParam, comparator}
  | not (q : QTag)                     -- &syntaxLogicalNot{query}
  deriving Inhabited, Repr, DecidableEq

inductive PushErr where
  | outOfFuel               -- more nested pushCompare* calls than the fuel allows
  | popEmpty                -- `p.pop()` on an empty stack (Go: index out of range)
  deriving Inhabited, Repr, DecidableEq

abbrev Stack := List QTag
abbrev PushM := Except PushErr Stack

/-! ### facts (tie T2) -/

/-- all fact tables are lists of rows of strings -/
abbrev Row := List String
abbrev Table := List Row

end Ties
end JPV
