/-
Ties/Sem — what the regenerated descriptions (Ties/Types.lean) MEAN, as executable functions
over the same cells, lists and trees the hand-written evaluator model uses. Hand-written,
independent of the generated files (it only interprets values of the description types).

* a `ValidatorTable` run over a list of cells the way the Go loop runs: look the cell's dynamic
  type up in the ordered case list, do what the body does;
* an `AnyLoop` as the early-return loop it is;
* a `ComparatorRec` run over the left list FORWARD, as Go does (test the head first);
* the abstraction of a built operand `P` to the `Opnd` the operand-ordering functions inspect,
  and the reading of what they push (`QTag`) back into the model's `Q`.
-/
import JPV.Ties.Types
import JPV.Impl.Basic
import JPV.Build
namespace JPV
namespace Ties
open Impl

/-! ### validators -/

/-- the dynamic Go type of a cell, as a type switch sees it -/
def cellTy : Cell → GoTy
  | .empty => .emptyEntity
  | .val (.num _) => .float64
  | .val (.jnum _) => .jsonNumber
  | .val (.str _) => .string
  | .val (.bool _) => .bool
  | .val .null => .nil
  | .val _ => .other

/-- first matching case, else the default (a Go type switch with pairwise distinct types) -/
def lookupAct : List (GoTy × Act) → GoTy → Act → Act
  | [], _, d => d
  | (g', a) :: rest, g, d => if g' = g then a else lookupAct rest g d

def ValidatorTable.act (t : ValidatorTable) (g : GoTy) : Act := lookupAct t.cases g t.dflt

/-- the effect of a case body on `values[index]`. `toFloat64` is `json.Number.Float64()`; the
    generator admits it only under `case json.Number:`, the last line is not reachable -/
def applyWrite : Write → Cell → Cell
  | .keep, c => c
  | .blank, _ => .empty
  | .toFloat64, .val (.jnum n) => .val (.num n)
  | .toFloat64, c => c

/-- number of assignments to `values[index]` the body performs -/
def Write.count : Write → Nat
  | .keep => 0
  | _ => 1

/-- one iteration of the validator loop: (does it set foundValue, the cell afterwards, writes) -/
def cellStep (t : ValidatorTable) (c : Cell) : Bool × Cell × Nat :=
  let a := t.act (cellTy c)
  (a.found, applyWrite a.write c, a.write.count)

/-- the whole loop: foundValue (false initially, only ever set to true), the list afterwards,
    the number of cells assigned -/
def runValidator (t : ValidatorTable) : List Cell → Bool × List Cell × Nat
  | [] => (false, [], 0)
  | c :: cs =>
    let s := cellStep t c
    let r := runValidator t cs
    (s.1 || r.1, s.2.1 :: r.2.1, r.2.2 + s.2.2)

def CellCond.holds : CellCond → Cell → Bool
  | .neEmptyEntity, c => !c.isEmpty
  | .eqEmptyEntity, c => c.isEmpty

/-- `for index := range values { if COND { return onHit } }; return atEnd` -/
def runAny (a : AnyLoop) : List Cell → Bool
  | [] => a.atEnd
  | c :: cs => if a.cond.holds c then a.onHit else runAny a cs

/-- the validator struct `pushCompareEQ` instantiates for a literal of the given type -/
def vrefOfLitTy : LitTy → VRef
  | .num => .numeric
  | .bool => .bool
  | .str => .string
  | .null => .nil

def litTyOfVRef? : VRef → Option LitTy
  | .numeric => some .num
  | .bool => some .bool
  | .string => some .str
  | .nil => some .null
  | _ => none

/-! ### comparators -/

def OrdOp.eval : OrdOp → Int → Int → Bool
  | .lt, a, b => decide (a < b)
  | .le, a, b => decide (a ≤ b)
  | .gt, a, b => decide (a > b)
  | .ge, a, b => decide (a ≥ b)

/-- the test on a cell holding a document value (`re`: source of the comparator's regex).
    Type assertions are evaluated left to right; both fail with the same panic. -/
def evalTest (env : Env) (t : Test) (re : String) (l r : Val) : M Bool :=
  match t with
  | .ifaceEq => ifaceEq l r
  | .deepEqual => .ok (Val.beq l r)
  | .floatOp op => do
    let a ← asFloat l
    let b ← asFloat r
    .ok (op.eval a b)
  | .regexMatch => do
    let s ← asStr l
    .ok (env.regex re s)

/-- the test on any cell: on the marker, `==` and DeepEqual are false (the right operand is a
    document value or a literal, never the marker, whose type is private), a type assertion to
    float64 / string panics -/
def cellTest (env : Env) (t : Test) (re : String) (c : Cell) (r : Val) : M Bool :=
  match c with
  | .val v => evalTest env t re v r
  | .empty =>
    match t with
    | .ifaceEq => .ok false
    | .deepEqual => .ok false
    | .floatOp _ => .error .typeAssertion
    | .regexMatch => .error .typeAssertion

/-- the comparator loop, forward: (hasValue, the list afterwards, number of cells assigned) -/
def runCmp (env : Env) (rc : ComparatorRec) (re : String) (r : Val) : List Cell → M (Bool × List Cell × Nat)
  | [] => .ok (false, [], 0)
  | c :: cs =>
    if rc.skipMarker && c.isEmpty then do
      let t ← runCmp env rc re r cs
      .ok (t.1, c :: t.2.1, t.2.2)
    else do
      let b ← cellTest env rc.test re c r
      let br := if b then rc.thenB else rc.elseB
      let t ← runCmp env rc re r cs
      .ok (br.setHas || t.1, (if br.blank then Cell.empty else c) :: t.2.1, t.2.2 + (if br.blank then 1 else 0))

/-! ### operand ordering -/

/-- dynamic Go type of a literal operand's value. The literal actions push float64 (lNumber),
    bool, string, nil; anything else is `other` -/
def litGo : Val → LitGo
  | .num _ => .float64
  | .bool _ => .bool
  | .str _ => .string
  | .null => .nil
  | _ => .other

/-- what the operand-ordering functions can see of a built operand. `isLiteral` is what the
    actions pass to pushBasicCompareParameter: true for a literal and for a `$`-path
    (jsonpathFilter pushes `true` after pushCompareParameterRoot), false for an `@`-path -/
def opndOfP (s : Side) : P → Opnd
  | .lit v => ⟨.literal (litGo v), true, s⟩
  | .proot _ => ⟨.root, true, s⟩
  | .pcur _ => ⟨.currentRoot, false, s⟩

/-- the literal of an operand is one the grammar can produce -/
def litParsed : P → Bool
  | .lit (.num _) | .lit (.bool _) | .lit (.str _) | .lit .null => true
  | .lit _ => false
  | _ => true

def cmpOfTag? : CmpTag → Option Cmp
  | .directEQ v => (litTyOfVRef? v).map .directEq
  | .deepEQ => some .deepEq
  | .lt => some .lt
  | .le => some .le
  | .gt => some .gt
  | .ge => some .ge

def pick (l r : P) : Side → P
  | .fst => l
  | .snd => r

/-- the query a pushed `QTag` stands for, given the two concrete operands -/
def qOfTag? (l r : P) : QTag → Option Q
  | .cmp a b c => (cmpOfTag? c).map (fun c => .cmp (pick l r a.src) (pick l r b.src) c)
  | .not q => (qOfTag? l r q).map .not

/-- every abstract operand: 7 kinds × the flag -/
def allKinds : List ParamKind :=
  [.literal .float64, .literal .bool, .literal .string, .literal .nil, .literal .other, .root, .currentRoot]

def allOpnds (s : Side) : List Opnd :=
  allKinds.flatMap (fun k => [⟨k, true, s⟩, ⟨k, false, s⟩])

/-- the (procedure, left, right) triples on which a two-operand procedure runs out of fuel -/
def looping (procs : List (String × (Nat → Opnd → Opnd → Stack → PushM))) (fuel : Nat) :
    List (String × Opnd × Opnd) :=
  procs.flatMap fun (name, f) =>
    (allOpnds .fst).flatMap fun a =>
      (allOpnds .snd).filterMap fun b =>
        match f fuel a b [] with
        | .error .outOfFuel => some (name, a, b)
        | _ => none

def isOutOfFuel : PushM → Bool
  | .error .outOfFuel => true
  | _ => false

/-- the operand is not a literal of a type the literal actions never push -/
def Opnd.known (a : Opnd) : Bool :=
  match a.param with
  | .literal .other => false
  | _ => true

end Ties
end JPV
