/-
Ties/Expect — what the hand-written model was written against, as the tables the generator
`facts` extracts from /repo (tie T2, DESIGN §5.2). HAND-MAINTAINED: when `facts_X` in
Props/Ties.lean fails, the source no longer has the shape the model assumes; look at the
difference (`#eval Gen.Facts.X`), decide whether the model still describes the code, and only
then update the table here.
-/
import JPV.Ties.Types
namespace JPV.Ties.Expect
open JPV.Ties

/-- Every assignment through an index, a field or a pointer in the hand-written Go files.
    What the model relies on (Impl/Basic.lean, Impl/Retrieve.lean):
    * the filter code writes list cells only in the validators / comparators (their parameter: the
      list `compute` returned for the left operand), in `!`, `&&`, `||` (the list returned by a
      sub-query's `compute`) and in `@`-operand evaluation (a list from `make`);
    * the document is written nowhere except inside the two `Accessor.Set` closures
      (`retrieveMapNext·func`, `retrieveListNext·func`);
    * `emptyList`, `fullList`, `emptyEntity` are never a base of a write. -/
def writes : Table := [
  ["Config.SetAccessorMode", "field", "c.accessorMode", "c", "receiver"],
  ["Config.SetAggregateFunction", "field", "c.aggregateFunctions", "c", "receiver"],
  ["Config.SetAggregateFunction", "index", "c.aggregateFunctions[id]", "c", "receiver"],
  ["Config.SetFilterFunction", "field", "c.filterFunctions", "c", "receiver"],
  ["Config.SetFilterFunction", "index", "c.filterFunctions[id]", "c", "receiver"],
  ["Parse", "field", "parser.Buffer", "parser", "pkgvar"],
  ["Parse", "field", "parser.jsonPathParser.accessorMode", "parser", "pkgvar"],
  ["Parse", "field", "parser.jsonPathParser.aggregateFunctions", "parser", "pkgvar"],
  ["Parse", "field", "parser.jsonPathParser.filterFunctions", "parser", "pkgvar"],
  ["Parse", "field", "parser.jsonPathParser.unescapeRegex", "parser", "pkgvar"],
  ["Parse·func", "field", "parser.jsonPathParser", "parser", "pkgvar"],
  ["Parse·func", "index", "result[index]", "result", "make"],
  ["getSortedKeys", "deref", "*sortKeys", "sortKeys", "assert(call:Get)"],
  ["getSortedKeys", "index", "(*sortKeys)[index]", "sortKeys", "assert(call:Get)"],
  ["jsonPathParser.deleteRootIdentifier", "field", "aggregateFunction.param", "aggregateFunction", "assert(param:targetNode)"],
  ["jsonPathParser.loadParams", "field", "p.params", "p", "receiver"],
  ["jsonPathParser.loadParams", "field", "p.paramsList", "p", "receiver"],
  ["jsonPathParser.pop", "field", "p.params", "p", "receiver"],
  ["jsonPathParser.push", "field", "p.params", "p", "receiver"],
  ["jsonPathParser.pushChildMultiIdentifier", "field", "identifier.errorRuntime", "identifier", "literal"],
  ["jsonPathParser.pushChildMultiIdentifier", "field", "identifier.unionQualifier", "identifier", "literal"],
  ["jsonPathParser.pushChildMultiIdentifier", "field", "identifier.unionQualifier.errorRuntime", "identifier", "literal"],
  ["jsonPathParser.pushChildMultiIdentifier", "field", "multiIdentifier.identifiers", "multiIdentifier", "assert(param:node)"],
  ["jsonPathParser.pushChildMultiIdentifier", "field", "multiIdentifier.isAllWildcard", "multiIdentifier", "assert(param:node)"],
  ["jsonPathParser.pushChildMultiIdentifier", "field", "multiIdentifier.unionQualifier", "multiIdentifier", "assert(param:node)"],
  ["jsonPathParser.pushChildMultiIdentifier", "field", "multiIdentifier.unionQualifier.subscripts", "multiIdentifier", "assert(param:node)"],
  ["jsonPathParser.pushChildSingleIdentifier", "field", "identifier.errorRuntime", "identifier", "literal"],
  ["jsonPathParser.pushChildWildcardIdentifier", "field", "identifier.errorRuntime", "identifier", "literal"],
  ["jsonPathParser.pushFilterQualifier", "field", "qualifier.errorRuntime", "qualifier", "literal"],
  ["jsonPathParser.pushFunction", "field", "functionNode.errorRuntime", "functionNode", "literal"],
  ["jsonPathParser.pushRecursiveChildIdentifier", "field", "identifier.errorRuntime", "identifier", "literal"],
  ["jsonPathParser.pushUnionQualifier", "field", "qualifier.errorRuntime", "qualifier", "literal"],
  ["jsonPathParser.saveParams", "field", "p.params", "p", "receiver"],
  ["jsonPathParser.saveParams", "field", "p.paramsList", "p", "receiver"],
  ["jsonPathParser.setNodeChain", "field", "funcNode.param", "funcNode", "assert(alias(next))"],
  ["jsonPathParser.setNodeChain", "field", "p.params", "p", "receiver"],
  ["putContainer", "field", "container.result", "container", "param"],
  ["syntaxBasicBoolTypeValidator.validate", "index", "values[index]", "values", "param"],
  ["syntaxBasicNilTypeValidator.validate", "index", "values[index]", "values", "param"],
  ["syntaxBasicNode.retrieveAnyValueNext", "field", "container.result", "container", "param"],
  ["syntaxBasicNode.retrieveListNext", "field", "container.result", "container", "param"],
  ["syntaxBasicNode.retrieveListNext·func", "index", "currentList[index]", "currentList", "param"],
  ["syntaxBasicNode.retrieveMapNext", "field", "container.result", "container", "param"],
  ["syntaxBasicNode.retrieveMapNext·func", "index", "currentMap[key]", "currentMap", "param"],
  ["syntaxBasicNode.setAccessorMode", "field", "i.accessorMode", "i", "receiver"],
  ["syntaxBasicNode.setConnectedText", "field", "i.connectedText", "i", "receiver"],
  ["syntaxBasicNode.setNext", "field", "i.next", "i", "receiver"],
  ["syntaxBasicNode.setText", "field", "i.text", "i", "receiver"],
  ["syntaxBasicNode.setValueGroup", "field", "i.valueGroup", "i", "receiver"],
  ["syntaxBasicNumericTypeValidator.validate", "index", "values[index]", "values", "param"],
  ["syntaxBasicStringTypeValidator.validate", "index", "values[index]", "values", "param"],
  ["syntaxChildMultiIdentifier.setNext", "field", "i.next", "i", "receiver"],
  ["syntaxCompareDeepEQ.comparator", "index", "left[leftIndex]", "left", "param"],
  ["syntaxCompareDirectEQ.comparator", "index", "left[leftIndex]", "left", "param"],
  ["syntaxCompareGE.comparator", "index", "left[leftIndex]", "left", "param"],
  ["syntaxCompareGT.comparator", "index", "left[leftIndex]", "left", "param"],
  ["syntaxCompareLE.comparator", "index", "left[leftIndex]", "left", "param"],
  ["syntaxCompareLT.comparator", "index", "left[leftIndex]", "left", "param"],
  ["syntaxCompareRegex.comparator", "index", "left[leftIndex]", "left", "param"],
  ["syntaxFilterQualifier.retrieveMap", "index", "valueList[index]", "valueList", "call:compute+make"],
  ["syntaxLogicalAnd.compute", "index", "leftComputedList[index]", "leftComputedList", "call:compute"],
  ["syntaxLogicalNot.compute", "index", "computedList[index]", "computedList", "call:compute"],
  ["syntaxLogicalOr.compute", "index", "leftComputedList[index]", "leftComputedList", "call:compute"],
  ["syntaxQueryParamCurrentRoot.compute", "field", "container.result", "container", "call:getContainer"],
  ["syntaxQueryParamCurrentRoot.compute", "index", "result[index]", "result", "make"],
  ["syntaxRecursiveChildIdentifier.retrieve", "index", "targetNodes[0]", "targetNodes", "append(alias(targetNodes))+make+slice(alias(targetNodes))"],
  ["syntaxSliceNegativeStepSubscript.getIndexes", "index", "result[index]", "result", "make"],
  ["syntaxSlicePositiveStepSubscript.getIndexes", "index", "result[index]", "result", "make"],
  ["syntaxUnionQualifier.merge", "field", "u.subscripts", "u", "receiver"],
  ["syntaxWildcardSubscript.getIndexes", "index", "result[index]", "result", "make"]]

/-- The only package-level variable ever assigned is `parser`, and only inside `Parse`
    (`Parse·func` is the deferred reset). -/
def pkgVarAssign : Table := [
  ["Parse", "parser.Buffer"],
  ["Parse", "parser.jsonPathParser.accessorMode"],
  ["Parse", "parser.jsonPathParser.aggregateFunctions"],
  ["Parse", "parser.jsonPathParser.filterFunctions"],
  ["Parse", "parser.jsonPathParser.unescapeRegex"],
  ["Parse·func", "parser.jsonPathParser"]]

/-- What `compute` / `validate` / `comparator` / `getIndexes` return. The model's `Org` tags follow
    these rows: a comparison returns the left operand's list, `emptyList` or `fullList` — never its
    own input `currentList` (the defect repaired by f0c052a); `&&`/`||`/`!` return a sub-result or a
    marker list; a literal and a `$`-operand return a fresh one-element list. -/
def returns : Table := [
  ["syntaxBasicAnyValueTypeValidator.validate", "01", "const", ""],
  ["syntaxBasicAnyValueTypeValidator.validate", "02", "const", ""],
  ["syntaxBasicBoolTypeValidator.validate", "01", "local", "foundValue=const+zero"],
  ["syntaxBasicCompareParameter.compute", "01", "call", "compute"],
  ["syntaxBasicCompareQuery.compute", "01", "local", "leftValues=call:compute"],
  ["syntaxBasicCompareQuery.compute", "02", "pkgvar", "emptyList"],
  ["syntaxBasicCompareQuery.compute", "03", "pkgvar", "fullList"],
  ["syntaxBasicCompareQuery.compute", "04", "pkgvar", "emptyList"],
  ["syntaxBasicNilTypeValidator.validate", "01", "local", "foundValue=const+zero"],
  ["syntaxBasicNumericTypeValidator.validate", "01", "local", "foundValue=const+zero"],
  ["syntaxBasicStringTypeValidator.validate", "01", "local", "foundValue=const+zero"],
  ["syntaxCompareDeepEQ.comparator", "01", "local", "hasValue=const+zero"],
  ["syntaxCompareDirectEQ.comparator", "01", "local", "hasValue=const+zero"],
  ["syntaxCompareGE.comparator", "01", "local", "hasValue=const+zero"],
  ["syntaxCompareGT.comparator", "01", "local", "hasValue=const+zero"],
  ["syntaxCompareLE.comparator", "01", "local", "hasValue=const+zero"],
  ["syntaxCompareLT.comparator", "01", "local", "hasValue=const+zero"],
  ["syntaxCompareRegex.comparator", "01", "local", "hasValue=const+zero"],
  ["syntaxIndexSubscript.getIndexes", "01", "literal", ""],
  ["syntaxIndexSubscript.getIndexes", "02", "literal", ""],
  ["syntaxLogicalAnd.compute", "01", "local", "leftComputedList=call:compute"],
  ["syntaxLogicalAnd.compute", "02", "call", "compute"],
  ["syntaxLogicalAnd.compute", "03", "local", "rightComputedList=call:compute"],
  ["syntaxLogicalAnd.compute", "04", "local", "leftComputedList=call:compute"],
  ["syntaxLogicalAnd.compute", "05", "local", "leftComputedList=call:compute"],
  ["syntaxLogicalAnd.compute", "06", "pkgvar", "emptyList"],
  ["syntaxLogicalNot.compute", "01", "pkgvar", "fullList"],
  ["syntaxLogicalNot.compute", "02", "pkgvar", "emptyList"],
  ["syntaxLogicalNot.compute", "03", "local", "computedList=call:compute"],
  ["syntaxLogicalNot.compute", "04", "pkgvar", "emptyList"],
  ["syntaxLogicalOr.compute", "01", "call", "compute"],
  ["syntaxLogicalOr.compute", "02", "local", "leftComputedList=call:compute"],
  ["syntaxLogicalOr.compute", "03", "local", "leftComputedList=call:compute"],
  ["syntaxLogicalOr.compute", "04", "local", "rightComputedList=call:compute"],
  ["syntaxLogicalOr.compute", "05", "local", "leftComputedList=call:compute"],
  ["syntaxQueryParamCurrentRoot.compute", "01", "local", "result=make"],
  ["syntaxQueryParamCurrentRoot.compute", "02", "pkgvar", "emptyList"],
  ["syntaxQueryParamLiteral.compute", "01", "literal", ""],
  ["syntaxQueryParamRoot.compute", "01", "pkgvar", "emptyList"],
  ["syntaxQueryParamRoot.compute", "02", "literal", ""],
  ["syntaxQueryParamRoot.compute", "03", "pkgvar", "fullList"],
  ["syntaxSliceNegativeStepSubscript.getIndexes", "01", "slice(alias(result))", ""],
  ["syntaxSlicePositiveStepSubscript.getIndexes", "01", "slice(alias(result))", ""],
  ["syntaxWildcardSubscript.getIndexes", "01", "local", "result=make"]]

/-- `retrieveList` hands `compute` the caller's own slice (`Org.input` in the model);
    `retrieveMap` hands it a list it made itself. -/
def filterInput : Table := [
  ["syntaxFilterQualifier.retrieveList", "srcList", "param", "srcList"],
  ["syntaxFilterQualifier.retrieveMap", "valueList", "local", "valueList=call:compute+make"]]

/-- Pool discipline: every `getContainer` has its `putContainer` in a `defer`; every
    `getSortedKeys` has one `putSortSlice` (not deferred: the code between them does not panic by C03). -/
def pool : Table := [
  ["Parse", "getContainer", "1", "0"],
  ["Parse", "putContainer", "1", "1"],
  ["syntaxAggregateFunction.retrieve", "getContainer", "1", "0"],
  ["syntaxAggregateFunction.retrieve", "putContainer", "1", "1"],
  ["syntaxChildWildcardIdentifier.retrieveMap", "getSortedKeys", "1", "0"],
  ["syntaxChildWildcardIdentifier.retrieveMap", "putSortSlice", "1", "0"],
  ["syntaxFilterQualifier.retrieveMap", "getSortedKeys", "1", "0"],
  ["syntaxFilterQualifier.retrieveMap", "putSortSlice", "1", "0"],
  ["syntaxQueryParamCurrentRoot.compute", "getContainer", "1", "0"],
  ["syntaxQueryParamCurrentRoot.compute", "putContainer", "1", "1"],
  ["syntaxQueryParamRoot.compute", "getContainer", "1", "0"],
  ["syntaxQueryParamRoot.compute", "putContainer", "1", "1"],
  ["syntaxRecursiveChildIdentifier.retrieve", "getSortedKeys", "1", "0"],
  ["syntaxRecursiveChildIdentifier.retrieve", "putSortSlice", "1", "0"]]

/-- Shape of `Parse`: lock first; one deferred function, registered right after the lock, whose
    top-level statements are recover → reset of `parser.jsonPathParser` → unlock; the three config
    fields are copied only under `len(config) > 0`; the returned closure refers to the local `root`
    and two package functions, not to `parser`. -/
def parseWrapper : Table := [
  ["00-first-statement", "parseMutex.Lock()"],
  ["01-defer-count", "1"],
  ["02-defer", "0", "second-statement", "recover,reset,unlock"],
  ["03-defer-assigns", "err", "alias(_err)+call:retrieve+result"],
  ["04-config-copy", "parser.jsonPathParser.accessorMode = config[0].accessorMode", "len(config) > 0"],
  ["04-config-copy", "parser.jsonPathParser.aggregateFunctions = config[0].aggregateFunctions", "len(config) > 0"],
  ["04-config-copy", "parser.jsonPathParser.filterFunctions = config[0].filterFunctions", "len(config) > 0"],
  ["05-closure-count", "1"],
  ["06-closure-uses", "getContainer", "pkgfunc"],
  ["06-closure-uses", "putContainer", "pkgfunc"],
  ["06-closure-uses", "root", "local-of-Parse:field:parser.jsonPathParser.root"],
  ["07-statement", "00", "parseMutex.Lock()"],
  ["07-statement", "01", "defer func() { if exception := recover(); exception != nil {…"],
  ["07-statement", "02", "parser.Buffer = jsonPath"],
  ["07-statement", "03", "if parser.parse == nil { parser.Init() } else { parser.Reset…"],
  ["07-statement", "04", "parser.jsonPathParser.unescapeRegex = unescapeRegex"],
  ["07-statement", "05", "if len(config) > 0 { parser.jsonPathParser.filterFunctions =…"],
  ["07-statement", "06", "parser.Parse()"],
  ["07-statement", "07", "parser.Execute()"],
  ["07-statement", "08", "root := parser.jsonPathParser.root"],
  ["07-statement", "09", "verifParsed(root)"],
  ["07-statement", "10", "return func(src interface{}) ([]interface{}, error) { contai…"]]

/-- Every mention of the package variable `parser`: all inside `Parse`. -/
def parserRefs : Table := [
  ["Parse", "read", "parser.Execute()"],
  ["Parse", "read", "parser.Init()"],
  ["Parse", "read", "parser.Parse()"],
  ["Parse", "read", "parser.Reset()"],
  ["Parse", "read", "parser.jsonPathParser.root"],
  ["Parse", "read", "parser.parse"],
  ["Parse", "write", "parser.Buffer"],
  ["Parse", "write", "parser.jsonPathParser.accessorMode"],
  ["Parse", "write", "parser.jsonPathParser.aggregateFunctions"],
  ["Parse", "write", "parser.jsonPathParser.filterFunctions"],
  ["Parse", "write", "parser.jsonPathParser.unescapeRegex"],
  ["Parse·func", "write", "parser.jsonPathParser"]]

/-- Every `panic(…)` in the hand-written files raises one of the documented error types
    (the `p.syntaxErr(…)` panics live in the action bodies, i.e. in the generated recogniser,
    which Gen/Grammar.lean covers). -/
def panics : Table := [
  ["jsonPathParser.pushCompareRegex", "lit:ErrorInvalidArgument", "1"],
  ["jsonPathParser.pushFunction", "lit:ErrorFunctionNotFound", "1"],
  ["jsonPathParser.pushScriptQualifier", "lit:ErrorNotSupported", "1"],
  ["jsonPathParser.toFloat", "lit:ErrorInvalidArgument", "1"],
  ["jsonPathParser.toInt", "lit:ErrorInvalidArgument", "1"],
  ["jsonPathParser.unescapeDoubleQuotedString", "lit:ErrorInvalidArgument", "1"],
  ["jsonPathParser.unescapeSingleQuotedString", "lit:ErrorInvalidArgument", "1"]]

/-- Single-valued type assertions: the sites whose safety the model proves or assumes:
    `.(float64)` / `.(string)` in the comparators (after the validator: C03), `p.pop().(syntaxQuery)` in
    pushCompareNE (Lemmas/Ties: `pushCompareNE_pushes`), pool `Get()`s, and parser-stack reads. -/
def assertions : Table := [
  ["Parse·func", "err.(error)", "1"],
  ["getContainer", "resultSyncPool.Get().(*bufferContainer)", "1"],
  ["getSortedKeys", "sortSliceSyncPool.Get().(*sort.StringSlice)", "1"],
  ["jsonPathParser.pushCompareNE", "p.pop().(syntaxQuery)", "1"],
  ["jsonPathParser.setLastNodeText", "p.params[len(p.params)-1].(syntaxNode)", "1"],
  ["jsonPathParser.setNodeChain", "next.(syntaxNode)", "1"],
  ["jsonPathParser.setNodeChain", "p.params[0].(syntaxNode)", "1"],
  ["jsonPathParser.updateRootValueGroup", "p.params[0].(syntaxNode)", "1"],
  ["syntaxCompareGE.comparator", "left[leftIndex].(float64)", "1"],
  ["syntaxCompareGE.comparator", "right.(float64)", "1"],
  ["syntaxCompareGT.comparator", "left[leftIndex].(float64)", "1"],
  ["syntaxCompareGT.comparator", "right.(float64)", "1"],
  ["syntaxCompareLE.comparator", "left[leftIndex].(float64)", "1"],
  ["syntaxCompareLE.comparator", "right.(float64)", "1"],
  ["syntaxCompareLT.comparator", "left[leftIndex].(float64)", "1"],
  ["syntaxCompareLT.comparator", "right.(float64)", "1"],
  ["syntaxCompareRegex.comparator", "left[leftIndex].(string)", "1"]]

/-- `X[0]` sites: lists of length ≥ 1 by the list protocol (every `compute` returns a list of
    length 1 or of the input's length; C03). -/
def index0 : Table := [
  ["Parse", "config[0]", "3"],
  ["jsonPathParser.pushCompareEQ", "rightLiteralParam.literal[0]", "1"],
  ["jsonPathParser.setConnectedText", "postfix[0]", "1"],
  ["jsonPathParser.setNodeChain", "p.params[0]", "1"],
  ["jsonPathParser.updateRootValueGroup", "p.params[0]", "1"],
  ["syntaxAggregateFunction.retrieve", "values.result[0]", "1"],
  ["syntaxBasicCompareQuery.compute", "rightValues[0]", "1"],
  ["syntaxFilterQualifier.retrieveList", "valueList[0]", "1"],
  ["syntaxFilterQualifier.retrieveMap", "valueList[0]", "1"],
  ["syntaxLogicalAnd.compute", "leftComputedList[0]", "1"],
  ["syntaxLogicalAnd.compute", "rightComputedList[0]", "1"],
  ["syntaxLogicalNot.compute", "computedList[0]", "1"],
  ["syntaxLogicalOr.compute", "leftComputedList[0]", "1"],
  ["syntaxLogicalOr.compute", "rightComputedList[0]", "1"],
  ["syntaxQueryParamCurrentRoot.compute", "container.result[0]", "1"],
  ["syntaxQueryParamLiteral.compute", "l.literal[0]", "1"],
  ["syntaxQueryParamRoot.compute", "values.result[0]", "1"],
  ["syntaxRecursiveChildIdentifier.retrieve", "targetNodes[0]", "1"]]

/-- Package-level variables with their initialisers: the marker has a private struct type, the
    two marker lists have length one. -/
def pkgVars : Table := [
  ["emptyEntity", "emptyEntityType{}"],
  ["emptyList", "[]interface{}{emptyEntity}"],
  ["fullList", "[]interface{}{true}"],
  ["parseMutex", "sync.Mutex <zero>"],
  ["parser", "pegJSONPathParser{}"],
  ["resultSyncPool", "&sync.Pool{ New: func() interface{} { return new(bufferContainer) }, }"],
  ["sortSliceSyncPool", "&sync.Pool{ New: func() interface{} { return new(sort.StringSlice) }, }"],
  ["unescapeRegex", "regexp.MustCompile(`\\\\(.)`)"]]

end JPV.Ties.Expect
