/-
Spec — the step-by-step definition of what a path selects (DESIGN §4.3).
Small total functions, no lemmas. This is the independent executable specification of C01
and the oracle used when a check searches for a failing input.
Documents are canonical (`Val.wf`): object entries are listed in ascending key order.
-/
import JPV.Ast
import JPV.Slice.PySlice
namespace JPV
namespace Spec

def subIndices : Sub → Nat → List Nat
  | .idx n, len => pyIndex n len
  | .slice s e t, len => pySlice s e t len
  | .wild, len => List.range len

def selName (kvs : List (String × Val)) : Name → List Val
  | .key k => (Val.lookup k kvs).toList
  | .wild => kvs.map (·.2)

def isWildName : Name → Bool
  | .wild => true
  | _ => false

def atIdx (xs : List Val) (i : Nat) : List Val := (xs[i]?).toList

/-- equality against a literal: same JSON scalar type, numbers by value, no coercion -/
def litEq : Val → Val → Bool
  | .null, .null => true
  | .bool a, .bool b => a == b
  | .str a, .str b => a == b
  | a, b => match a.asNum?, b.asNum? with
    | some x, some y => x == y
    | _, _ => false

def numRel (op : CmpOp) (x y : Int) : Bool :=
  match op with
  | .lt => x < y | .le => x ≤ y | .gt => x > y | .ge => x ≥ y
  | .eq => x == y | .ne => x != y

/-- does `l op r` hold for one member; `hasLit`: one operand is a literal;
    `corner`: no member has the left value and the right value is absent too -/
def cmpHolds (op : CmpOp) (hasLit corner : Bool) (l r : Option Val) : Bool :=
  let eq : Bool :=
    if hasLit then (match l, r with | some a, some b => litEq a b | _, _ => false)
    else (match l, r with | some a, some b => Val.beq a b | _, _ => false) || corner
  match op with
  | .eq => eq
  | .ne => !eq
  | _ => match l, r with
    | some a, some b => (match a.asNum?, b.asNum? with
      | some x, some y => numRel op x y
      | _, _ => false)
    | _, _ => false

def isVgSub : Sub → Bool
  | .idx _ => false
  | _ => true

def isVgStep : Step → Bool
  | .child _ _ => false
  | .union _ [s] => isVgSub s
  | _ => true

def applyFns (env : Env) : List Fn → Bool → List Val → Option (List Val)
  | [], _, vs => some vs
  | .ffn _ name :: rest, single, vs =>
    match env.ffn name with
    | none => none
    | some f => applyFns env rest single (vs.filterMap f)
  | .afn _ name :: rest, single, vs =>
    match env.afn name with
    | none => none
    | some f =>
      if vs.isEmpty then some [] else
      let args := if single then (match vs with | [.arr xs] => xs | _ => vs) else vs
      match f args with
      | some r => applyFns env rest true [r]
      | none => none

def firstOf : Option (List Val) → Option Val
  | some (v :: _) => some v
  | _ => none

def keep : List Val → List Bool → List Val
  | v :: vs, b :: bs => if b then v :: keep vs bs else keep vs bs
  | _, _ => []

mutual
/-- one step applied to one node -/
def sel (env : Env) : Step → Val → Val → List Val
  | .child _ k, _, .obj kvs => (Val.lookup k kvs).toList
  | .child _ _, _, _ => []
  | .wild _, _, cur => cur.members
  | .multi _ ns, _, .obj kvs => ns.flatMap (selName kvs)
  | .multi _ ns, _, .arr xs => if ns.all isWildName then ns.flatMap (fun _ => xs) else []
  | .multi _ _, _, _ => []
  | .union _ ss, _, .arr xs => ss.flatMap (fun s => (subIndices s xs.length).flatMap (atIdx xs))
  | .union _ _, _, _ => []
  | .filter _ q, root, cur =>
    if cur.isContainer then keep cur.members (verdicts env q root cur.members) else []
  | .desc s, root, cur => (Val.containers cur).flatMap (fun c => sel env s root c)

def evalSteps (env : Env) : List Step → Val → List Val → List Val
  | [], _, vs => vs
  | s :: ss, root, vs => evalSteps env ss root (vs.flatMap (fun v => sel env s root v))

/-- one verdict per member -/
def verdicts (env : Env) : Query → Val → List Val → List Bool
  | .or a b, root, ms => List.zipWith (· || ·) (verdicts env a root ms) (verdicts env b root ms)
  | .and a b, root, ms => List.zipWith (· && ·) (verdicts env a root ms) (verdicts env b root ms)
  | .exist neg p, root, ms =>
    ms.map (fun m => neg != (firstOf (evalPath env p root m)).isSome)
  | .cmp op l r, root, ms =>
    let ls := operandVals env l root ms
    let rs := operandVals env r root ms
    let hasLit := operandIsLit l || operandIsLit r
    let corner := ls.all (·.isNone) && rs.all (·.isNone)
    List.zipWith (cmpHolds op hasLit corner) ls rs
  | .regex p re, root, ms =>
    ms.map (fun m => match firstOf (evalPath env p root m) with
      | some (.str s) => env.regex re s
      | _ => false)

def operandIsLit : Operand → Bool
  | .lit _ => true
  | .path _ => false

/-- the operand's value for every member (`none`: absent) -/
def operandVals (env : Env) : Operand → Val → List Val → List (Option Val)
  | .lit l, _, ms => ms.map (fun _ => some l.toVal)
  | .path p, root, ms => ms.map (fun m => firstOf (evalPath env p root m))

/-- a whole path from `root` (head `$`) or from the member `cur` (head `@`);
    `none`: an aggregate function failed or a function is not registered -/
def evalPath (env : Env) : Path → Val → Val → Option (List Val)
  | .mk h steps fns, root, cur =>
    let start := match h with | .root => root | .cur => cur
    applyFns env fns (!steps.any isVgStep) (evalSteps env steps root [start])
end

/-- what the library must return: `none` ⇔ an error -/
def run (env : Env) (p : Path) (d : Val) : Option (List Val) :=
  match evalPath env p d d with
  | some (v :: vs) => some (v :: vs)
  | _ => none

end Spec
end JPV
