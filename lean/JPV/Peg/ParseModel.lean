/-
ParseModel — `Parse` of /repo/jsonpath.go as a function of the path text:

    parser.Buffer = jsonPath; Init()/Reset(); copy of the configuration
    parser.Parse()       -- the recogniser; its error is ignored (and never exists: C02_expression_never_fails)
    parser.Execute()     -- the actions of the successful derivation, in order
    root := parser.jsonPathParser.root
    deferred: recover() — a panic whose value is an `error` becomes the returned error

A panic raised by an action ends `Execute()`; every value the actions panic with is an `error`
(the four documented types, or a Go `runtime.Error`), so `Parse` returns `(nil, thatError)`.
-/
import JPV.Peg.Actions
import JPV.Gen.Grammar
namespace JPV.Peg

inductive ParseOutcome where
  | ok (ch : List N)                                     -- (function, nil): the tree the function closes over
  | syntaxErr (pos : Nat) (reason : String) (near : String)   -- ErrorInvalidSyntax
  | invalidArgument (arg : String)                       -- ErrorInvalidArgument
  | functionNotFound (text : String)                     -- ErrorFunctionNotFound
  | notSupported (feature path : String)                 -- ErrorNotSupported
  | panic (p : Panic)                                    -- (nil, runtime.Error): what C02 forbids
  | unmodelled                                           -- the model does not answer
  deriving Inhabited

/-- recursion depth granted to the recogniser for an input of n runes -/
def fuelFor (n : Nat) : Nat := 1000 + 64 * n

/-- `near`: the path from rune `pos` on (`syntaxErr` converts the rune index to a byte offset) -/
def nearOf (input : Array Char) (pos : Nat) : String := String.ofList (input.toList.drop pos)

/-- the regenerated action blocks are the ones `Actions.lean` was written against -/
def actionsAsExpected : Bool := Gen.actionSums == expectedSums

def outcomeOfStop (input : Array Char) : Stop → ParseOutcome
  | .syntaxErr pos reason => .syntaxErr pos reason.msg (nearOf input pos)
  | .invalidArgument a => .invalidArgument a
  | .functionNotFound t => .functionNotFound t
  | .notSupported f p => .notSupported f p
  | .panic p => .panic p
  | .unmodelled => .unmodelled
  | .unrepresentable => .unmodelled

/-- the recogniser: `p.rules[ruleexpression]()` on the whole buffer -/
def recognise (input : Array Char) : Result :=
  run Gen.grammar (fuelFor input.size) (ruleBody Gen.grammar "expression") input 0

def parseInput (env : Env) (ext : Ext) (cfg : Cfg) (input : Array Char) : ParseOutcome :=
  if !actionsAsExpected then .unmodelled else
  match recognise input with
  | .outOfFuel => .unmodelled      -- the model's own limit, not a behaviour of the code
  | .fail => .unmodelled           -- impossible: C02_expression_never_fails
  | .ok _ toks =>
    match exec ⟨env, ext, cfg.accessor, input⟩ toks with
    | .ok ch => .ok ch
    | .error s => outcomeOfStop input s

def parseModel (env : Env) (ext : Ext) (cfg : Cfg) (s : String) : ParseOutcome :=
  parseInput env ext cfg s.toList.toArray

end JPV.Peg
