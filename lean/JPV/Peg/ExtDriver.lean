/-
ExtDriver — the executable instance of `Ext` used by the driver `jpv-peg`:
simple, deliberately partial models of strconv.Atoi, strconv.ParseFloat, regexp.Compile, and the
unescape routines of JPV/Lex/Escape.lean. Theorems quantify over every `Ext`; nothing depends on
this file except the driver.
-/
import JPV.Peg.Actions
import JPV.Lex.Escape
namespace JPV.Peg

def isDigit (c : Char) : Bool := '0' ≤ c && c ≤ '9'

def digitsVal (cs : List Char) : Nat := cs.foldl (fun a c => 10 * a + (c.toNat - '0'.toNat)) 0

def splitSign : List Char → Bool × List Char
  | '-' :: r => (true, r)
  | '+' :: r => (false, r)
  | r => (false, r)

/-- strconv.Atoi on a 64-bit platform: `[-+]?[0-9]+` within int64 -/
def atoiModel (s : String) : Option Int :=
  let (neg, ds) := splitSign s.toList
  if ds.isEmpty || !ds.all isDigit then none else
  let v : Int := digitsVal ds
  let v := if neg then -v else v
  if v < -9223372036854775808 || v > 9223372036854775807 then none else some v

/-- strconv.ParseFloat on the texts `lNumber` can capture (`[-+]? [0-9] [-+.0-9a-zA-Z]*`):
    a decimal float is `[+-]? digits [. digits?]? ([eE] [+-]? digits)?`; a text that is neither that nor
    hexadecimal is a syntax error; a value that is an integer of magnitude ≤ 2^53 is `ok`; everything
    else (fractions, large values, range errors, hexadecimal floats) is `unmodelled`. -/
def parseFloatModel (s : String) : FloatRes :=
  let (neg, r) := splitSign s.toList
  match r with
  | '0' :: 'x' :: _ => .unmodelled
  | '0' :: 'X' :: _ => .unmodelled
  | _ =>
  let ip := r.takeWhile isDigit
  let r := r.dropWhile isDigit
  if ip.isEmpty then .err else
  let (fp, r) := match r with
    | '.' :: r' => (r'.takeWhile isDigit, r'.dropWhile isDigit)
    | _ => ([], r)
  let expo : Option (Option (Bool × List Char)) := match r with
    | [] => some none
    | e :: r' =>
      if e == 'e' || e == 'E' then
        let (eneg, ds) := splitSign r'
        if ds.isEmpty || !ds.all isDigit then none else some (some (eneg, ds))
      else none
  match expo with
  | none => .err
  | some ex =>
    let d : Nat := digitsVal (ip ++ fp)
    if d == 0 then .ok 0 else
    let ds := match ex with | some (_, ds) => ds.dropWhile (· == '0') | none => []
    let eneg := match ex with | some (eneg, _) => eneg | none => false
    -- a value that rounds to ±Inf is a range error of strconv.ParseFloat, i.e. ErrorInvalidArgument:
    -- everything ≥ 2^1024 − 2^970 (half an ulp above MaxFloat64)
    if ds.length > 4 && !eneg then .err else
    if ds.length > 3 && eneg then .unmodelled else
    let e : Int := if eneg then -(digitsVal ds : Int) else digitsVal ds
    let e' : Int := e - fp.length
    let infBound : Nat := 2 ^ 1024 - 2 ^ 970
    if e' ≥ 0 && (e' > 400 || d * 10 ^ e'.toNat ≥ infBound) then .err else
    if e' < 0 && (-e').toNat ≤ 400 && d ≥ infBound * 10 ^ (-e').toNat then .err else
    let v? : Option Nat :=
      if e' ≥ 0 then (if e' > 20 then none else some (d * 10 ^ e'.toNat))
      else
        let k := (-e').toNat
        if k > 400 then none else
        if d % (10 ^ k) == 0 then some (d / 10 ^ k) else none
    match v? with
    | none => .unmodelled
    | some v =>
      if v > 9007199254740992 then .unmodelled
      else .ok (if neg then -(v : Int) else v)

def isAlnum (c : Char) : Bool := isDigit c || ('a' ≤ c && c ≤ 'z') || ('A' ≤ c && c ≤ 'Z')

/-- regexp.Compile: words of ASCII letters / digits and non-ASCII characters always compile (a character
    ≥ U+0080, U+FFFD included, is never a metacharacter: it stands for itself); everything else is not
    modelled -/
def regexCompileModel (s : String) : RegexRes :=
  if s.toList.all (fun c => isAlnum c || c.toNat ≥ 0x80) then .ok else .unmodelled

def driverExt : Ext where
  atoi := atoiModel
  parseFloat := parseFloatModel
  regexCompile := regexCompileModel
  unescape := Lex.unescapeBackslashS
  unescapeSingle := Lex.unescapeSingleS
  unescapeDouble := Lex.unescapeDoubleS

end JPV.Peg
