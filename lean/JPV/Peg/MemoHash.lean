/-
Peg/MemoHash — the packrat recogniser on a hash table, and `Parse` modelled with it (L22; driver `jpv-pegm`).

`HashMemo` is `Std.HashMap (rule name × position) Result` — the `map[memoKey]memo` of jsonpath.peg.go — as an
instance of `MemoTable` (the two laws are `Std.HashMap.getElem?_empty` / `getElem?_insert`), so everything
proved about `runM` in Lemmas/PegMemo.lean holds for it.  `recogniseM`/`parseModelM` are `recognise`/`parseModel`
(Peg/ParseModel.lean) with `run` replaced by `runM` from the empty table; Props/C02Time.lean proves them equal.
-/
import Std.Data.HashMap
import JPV.Peg.Memo
import JPV.Peg.ParseModel
namespace JPV.Peg

abbrev HashMemo := Std.HashMap (String × Nat) Result

instance : MemoTable HashMemo where
  empty := ∅
  find? t x q := t[(x, q)]?
  insert t x q v := t.insert (x, q) v
  find?_empty _ _ := Std.HashMap.getElem?_empty
  find?_insert t x q v y p := by
    rw [Std.HashMap.getElem?_insert]
    by_cases h : x = y ∧ q = p
    · obtain ⟨rfl, rfl⟩ := h; simp
    · rw [if_neg h]
      have : ((x, q) == (y, p)) = false := by
        apply Bool.eq_false_iff.mpr
        intro hb
        have := eq_of_beq hb
        simp only [Prod.mk.injEq] at this
        exact h this
      rw [this]; rfl

/-- the recogniser with the memo table of the generated parser; also the final state (counters) -/
def recogniseMS (T : Type) [MemoTable T] (input : Array Char) : Result × MState T :=
  runM Gen.grammar (fuelFor input.size) (ruleBody Gen.grammar "expression") input 0 MState.init

def recogniseM (T : Type) [MemoTable T] (input : Array Char) : Result := (recogniseMS T input).1

/-- `parseInput` with the memoising recogniser -/
def parseInputM (T : Type) [MemoTable T] (env : Env) (ext : Ext) (cfg : Cfg) (input : Array Char) : ParseOutcome :=
  if !actionsAsExpected then .unmodelled else
  match recogniseM T input with
  | .outOfFuel => .unmodelled
  | .fail => .unmodelled
  | .ok _ toks =>
    match exec ⟨env, ext, cfg.accessor, input⟩ toks with
    | .ok ch => .ok ch
    | .error s => outcomeOfStop input s

def parseModelM (T : Type) [MemoTable T] (env : Env) (ext : Ext) (cfg : Cfg) (s : String) : ParseOutcome :=
  parseInputM T env ext cfg s.toList.toArray

end JPV.Peg
