/-
The numbering of jsonpath.peg.go for `RunGo.runGo`: the constants `rule<Name>` read off `Gen.goRuleNames`
(= `rul3s` without "Unknown", regenerated on every run), and `parseGoRules` = `Parse()` on the decompiled rule functions.
-/
import JPV.Peg.RunGo
import JPV.Gen.PegGoRules
namespace JPV.Peg.RunGo
open JPV.Peg

/-- `rule<Name>` = index in `rul3s`; names that are not named rules (or unknown) get `ruleUnknown = 0` -/
def goNum : Num :=
  let a0 := Gen.goRuleNames.idxOf "Action0" + 1
  { rule := fun name => let i := Gen.goRuleNames.idxOf name + 1; if i < a0 then i else 0
    a0 := a0
    text := Gen.goRuleNames.idxOf "PegText" + 1 }

/-- `Parse()` of the generated parser on the decompiled rule functions and the regenerated runtime -/
def parseGoRules (fuel : Nat) (input : Array Char) (disableMemoize : Bool) : Out × Runtime.RT :=
  parseGo Gen.goGrammar goNum fuel "expression" input disableMemoize

end JPV.Peg.RunGo
