/-
Peg — parsing expressions and a fuelled interpreter (DESIGN §4.6).

The interpreter is the textbook PEG semantics over the *rune* array (the generated parser
works on `[]rune(path)` with an end symbol appended; positions are rune indices). It returns
the token stream `Execute()` of jsonpath.peg.go iterates over, restricted to the two token
kinds `Execute()` looks at:

  * `Tok.text b e`   — a `rulePegText` token: pointlander-peg adds it when a `< … >` capture
                       CLOSES (after all tokens produced inside the capture), with the rune
                       positions of `<` and `>`;
  * `Tok.action i`   — `ruleAction<i>`, added when the action is reached.

Tokens of failed alternatives are discarded (the generated code resets `tokenIndex` together
with `position` when it backtracks), `!e` and `&e` produce no tokens.  `Execute()` keeps ONE
global `begin, end, text` (initially `0, 0, ""`), overwritten by every `rulePegText` token: an
action therefore sees the most recent capture that closed before it in the token stream —
globally, not per rule (e.g. `functionName`'s capture is what `function`'s action would see
if `function` had no capture of its own; `bracketNode`'s outer capture closes after all
inner ones and is what Action7 sees).  `resolve` turns the raw stream into that form.

`fuel` bounds the recursion DEPTH (every recursive call passes `fuel - 1`), not the number of
steps. A `*` whose body matches the empty string does not terminate in the generated code;
here it runs out of fuel.
-/
namespace JPV.Peg

inductive PE where
  | lit (s : String)                                   -- 'text' (case sensitive)
  | cls (neg : Bool) (ranges : List (Char × Char))     -- [a-z_] / [^…]; a single char c is (c, c)
  | any                                                -- .
  | seq (a b : PE)
  | alt (a b : PE)                                     -- ordered choice
  | star (a : PE)
  | plus (a : PE)
  | opt (a : PE)
  | not (a : PE)                                       -- !e
  | and (a : PE)                                       -- &e
  | rule (name : String)
  | cap (a : PE)                                       -- < e >
  | act (idx : Nat)                                    -- { … } number idx
  deriving Inhabited, Repr

/-- rules in the order of the source file -/
abbrev Grammar := List (String × PE)

inductive Tok where
  | text (b e : Nat)
  | action (idx : Nat)
  deriving Inhabited, Repr, DecidableEq

inductive Result where
  | fail
  | ok (pos : Nat) (toks : List Tok)
  | outOfFuel
  deriving Inhabited, Repr, DecidableEq

/-- the characters `cs` stand in `input` from `pos` on -/
def matchLit (input : Array Char) : List Char → Nat → Bool
  | [], _ => true
  | c :: cs, pos =>
    match input[pos]? with
    | some d => c == d && matchLit input cs (pos + 1)
    | none => false

def inRanges (c : Char) : List (Char × Char) → Bool
  | [] => false
  | (lo, hi) :: rest => (lo.toNat ≤ c.toNat && c.toNat ≤ hi.toNat) || inRanges c rest

def ruleBody (g : Grammar) (name : String) : PE :=
  match g.lookup name with
  | some e => e
  | none => .cls false []          -- an undefined rule never matches (the generator rejects such grammars)

def run (g : Grammar) : Nat → PE → Array Char → Nat → Result
  | 0, _, _, _ => .outOfFuel
  | _ + 1, .lit s, input, pos =>
    if matchLit input s.toList pos then .ok (pos + s.length) [] else .fail
  | _ + 1, .cls neg rs, input, pos =>
    match input[pos]? with
    | some c => if inRanges c rs != neg then .ok (pos + 1) [] else .fail
    | none => .fail
  | _ + 1, .any, input, pos =>
    if pos < input.size then .ok (pos + 1) [] else .fail
  | f + 1, .seq a b, input, pos =>
    match run g f a input pos with
    | .ok p t =>
      match run g f b input p with
      | .ok p' t' => .ok p' (t ++ t')
      | r => r
    | r => r
  | f + 1, .alt a b, input, pos =>
    match run g f a input pos with
    | .fail => run g f b input pos
    | r => r
  | f + 1, .star a, input, pos =>
    match run g f a input pos with
    | .fail => .ok pos []
    | .outOfFuel => .outOfFuel
    | .ok p t =>
      match run g f (.star a) input p with
      | .ok p' t' => .ok p' (t ++ t')
      | r => r
  | f + 1, .plus a, input, pos =>
    match run g f a input pos with
    | .ok p t =>
      match run g f (.star a) input p with
      | .ok p' t' => .ok p' (t ++ t')
      | r => r
    | r => r
  | f + 1, .opt a, input, pos =>
    match run g f a input pos with
    | .fail => .ok pos []
    | r => r
  | f + 1, .not a, input, pos =>
    match run g f a input pos with
    | .fail => .ok pos []
    | .ok _ _ => .fail
    | .outOfFuel => .outOfFuel
  | f + 1, .and a, input, pos =>
    match run g f a input pos with
    | .ok _ _ => .ok pos []
    | r => r
  | f + 1, .rule name, input, pos => run g f (ruleBody g name) input pos
  | f + 1, .cap a, input, pos =>
    match run g f a input pos with
    | .ok p t => .ok p (t ++ [.text pos p])
    | r => r
  | _ + 1, .act i, _, pos => .ok pos [.action i]

/-- an action together with the capture `Execute()` has in `begin, end` when it runs -/
structure ATok where
  idx : Nat
  textBegin : Nat
  textEnd : Nat
  deriving Inhabited, Repr, DecidableEq

/-- replay of the `begin, end` bookkeeping of `Execute()` -/
def resolveFrom : Nat → Nat → List Tok → List ATok
  | _, _, [] => []
  | _, _, .text b e :: rest => resolveFrom b e rest
  | b, e, .action i :: rest => ⟨i, b, e⟩ :: resolveFrom b e rest

def resolve (toks : List Tok) : List ATok := resolveFrom 0 0 toks

end JPV.Peg
