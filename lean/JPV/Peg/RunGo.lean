/-
RunGo — a parsing expression executed THE WAY THE GENERATED GO CODE EXECUTES IT (worker L30).

`runGo g n fuel e s` interprets `e` over the runtime state `RT` of JPV/Peg/RuntimeModel.lean with the templates
pointlander-peg emits into jsonpath.peg.go, calling the REGENERATED closures of Gen/PegRuntimeGo.lean
(`add`, `memoize`, `memoizedResult`, `matchDot`; a `none` of theirs is a Go panic → outcome `panic`):

  'c'         if buffer[position] != 'c' { goto fail }; position++                 (a literal: character by character)
  [a-z]       if c := buffer[position]; c < 'a' || c > 'z' { goto fail }; position++
  [^…]        the excluded tests, then `if !matchDot() { goto fail }`
  .           if !matchDot() { goto fail }
  a b         a; b                                  (no save: a failure jumps to the label of the ENCLOSING construct,
                                                     which restores the pair IT saved — so a failing `runGo` returns
                                                     the state at the jump, position/tokenIndex possibly advanced)
  a / b       p, t := position, tokenIndex; a → done | l: position, tokenIndex = p, t; b
  a*          loop { p, t := position, tokenIndex; a → again | l: position, tokenIndex = p, t; break }
  a+          a; a*
  a?          p, t := …; a | l: position, tokenIndex = p, t
  !a          p, t := …; a → goto fail | l: position, tokenIndex = p, t
  &a          p, t := …; a (failure → enclosing label); position, tokenIndex = p, t
  <a>         begin := position; a; add(rulePegText, begin)
  {…}         add(ruleAction<i>, position)
  Name        the rule function: `if m, ok := memoization[memoKey{N, position}]; ok { return memoizedResult(m) }`,
              position0, tokenIndex0 := position, tokenIndex; body;
              success: add(rule<Name>, position0); memoize(N, position0, tokenIndex0, true); return true
              failure: memoize(N, position0, tokenIndex0, false); position, tokenIndex = position0, tokenIndex0; return false
              with N = rule<Name> − 1 (the table index).

Fuel bounds the recursion depth exactly as in `Peg.run` (same decrement at the same places), so the two can be
compared at one fuel. NOT modelled (the decompiled `PE` of Gen/PegGoRules.lean does not record it): the token
`add(rule<X>, …)` of a named rule WITHOUT a function (inlined at its uses — `rootNode`, `childNode`, …) and the
`switch buffer[position]` form of the first-character optimisation (run here as `&[set] …` / `![set] …`). Both are
invisible to `Execute()`, which looks only at PegText/Action tokens.
Core Lean only. Theorems: JPV/Props/RunGoGen.lean (`RG_*`).
-/
import JPV.Peg.Peg
import JPV.Gen.PegRuntimeGo
namespace JPV.Peg.RunGo
open JPV.Peg JPV.Peg.Runtime JPV.Gen.PegRuntime

/-- how a template leaves: falls through / jumps to the failure label / Go panic / recursion budget used up -/
inductive Out where
  | ok | fail | panic | outOfFuel
  deriving DecidableEq, Repr, Inhabited

/-- the constants `rule<Name>` the code passes to `add`: named rules are below `a0 = ruleAction0`,
`text = rulePegText = a0 + 1`, `ruleAction<i>` = `text + i` for i ≥ 1 (order of the const block). -/
structure Num where
  rule : String → Nat
  a0 : Nat
  text : Nat

def Num.act (n : Num) (i : Nat) : Nat := if i = 0 then n.a0 else n.text + i

/-- the token kinds `Execute()` looks at -/
def Num.kind (n : Num) (t : Runtime.Tok) : Option Peg.Tok :=
  if t.rule = n.text then some (.text t.b t.e)
  else if t.rule = n.a0 then some (.action 0)
  else if n.text < t.rule then some (.action (t.rule - n.text))
  else none

def Num.kinds (n : Num) (l : List Runtime.Tok) : List Peg.Tok := l.filterMap n.kind

/-- `position, tokenIndex = p, t` -/
def restore (p t : Nat) (s : RT) : RT := { s with position := p, tokenIndex := t }

/-- `position++` -/
def advance (s : RT) : RT := { s with position := u32 (s.position + 1) }

def inRangesN (c : Nat) : List (Char × Char) → Bool
  | [] => false
  | (lo, hi) :: rest => (lo.toNat ≤ c && c ≤ hi.toNat) || inRangesN c rest

/-- `'c1' 'c2' …` -/
def litGo : List Char → RT → Out × RT
  | [], s => (.ok, s)
  | c :: cs, s =>
    match getAt s.buffer s.position with
    | none => (.panic, s)
    | some d => if d != c.toNat then (.fail, s) else litGo cs (advance s)

/-- `if !matchDot() { goto fail }` -/
def dotGo (s : RT) : Out × RT :=
  match matchDot s with
  | none => (.panic, s)
  | some (true, s') => (.ok, s')
  | some (false, s') => (.fail, s')

def clsGo (neg : Bool) (rs : List (Char × Char)) (s : RT) : Out × RT :=
  match getAt s.buffer s.position with
  | none => (.panic, s)
  | some c =>
    if neg then (if inRangesN c rs then (.fail, s) else dotGo s)
    else (if inRangesN c rs then (.ok, advance s) else (.fail, s))

/-- `add(rule, begin)` as a statement of a template -/
def addGo (rule begin : Nat) (s : RT) : Out × RT :=
  match add rule begin s with
  | none => (.panic, s)
  | some s' => (.ok, s')

/-- the tail of a rule function after its body succeeded -/
def ruleOk (rule p0 t0 : Nat) (s1 : RT) : Out × RT :=
  match add rule p0 s1 with
  | none => (.panic, s1)
  | some s2 =>
    match memoize (rule - 1) p0 t0 true s2 with
    | none => (.panic, s2)
    | some s3 => (.ok, s3)

/-- the failure label of a rule function -/
def ruleFail (rule p0 t0 : Nat) (s1 : RT) : Out × RT :=
  match memoize (rule - 1) p0 t0 false s1 with
  | none => (.panic, s1)
  | some s2 => (.fail, restore p0 t0 s2)

/-- `return memoizedResult(memoized)` -/
def replay (m : Memo) (s : RT) : Out × RT :=
  match memoizedResult m s with
  | none => (.panic, s)
  | some (true, s') => (.ok, s')
  | some (false, s') => (.fail, s')

def runGo (g : Grammar) (n : Num) : Nat → PE → RT → Out × RT
  | 0, _, s => (.outOfFuel, s)
  | _ + 1, .lit str, s => litGo str.toList s
  | _ + 1, .cls neg rs, s => clsGo neg rs s
  | _ + 1, .any, s => dotGo s
  | f + 1, .seq a b, s =>
    match runGo g n f a s with
    | (.ok, s1) => runGo g n f b s1
    | r => r
  | f + 1, .alt a b, s =>
    match runGo g n f a s with
    | (.fail, s1) => runGo g n f b (restore s.position s.tokenIndex s1)
    | r => r
  | f + 1, .star a, s =>
    match runGo g n f a s with
    | (.fail, s1) => (.ok, restore s.position s.tokenIndex s1)
    | (.ok, s1) => runGo g n f (.star a) s1
    | r => r
  | f + 1, .plus a, s =>
    match runGo g n f a s with
    | (.ok, s1) => runGo g n f (.star a) s1
    | r => r
  | f + 1, .opt a, s =>
    match runGo g n f a s with
    | (.fail, s1) => (.ok, restore s.position s.tokenIndex s1)
    | r => r
  | f + 1, .not a, s =>
    match runGo g n f a s with
    | (.fail, s1) => (.ok, restore s.position s.tokenIndex s1)
    | (.ok, s1) => (.fail, s1)
    | r => r
  | f + 1, .and a, s =>
    match runGo g n f a s with
    | (.ok, s1) => (.ok, restore s.position s.tokenIndex s1)
    | r => r
  | f + 1, .rule name, s =>
    match lookup s.memo (n.rule name - 1, s.position) with
    | some m => replay m s
    | none =>
      match runGo g n f (ruleBody g name) s with
      | (.ok, s1) => ruleOk (n.rule name) s.position s.tokenIndex s1
      | (.fail, s1) => ruleFail (n.rule name) s.position s.tokenIndex s1
      | r => r
  | f + 1, .cap a, s =>
    match runGo g n f a s with
    | (.ok, s1) => addGo n.text s.position s1
    | r => r
  | _ + 1, .act i, s => addGo (n.act i) s.position s

/-- the state `Parse` starts the rule functions in: `Init` over the decoded string, then `reset()` -/
def initRT (input : Array Char) (disableMemoize : Bool) : RT where
  Buffer := input.toList.map Char.toNat
  pbuffer := []
  buffer := []
  position := 0
  tokenIndex := 0
  tree := []
  memo := []
  max := ⟨0, 0, 0⟩
  disableMemoize := disableMemoize

/-- the token stream `Execute()` iterates over after `Parse`: `tree[:tokenIndex]`, PegText/Action kinds -/
def stream (n : Num) (s : RT) : List Peg.Tok := n.kinds (s.tree.take s.tokenIndex)

/-- `Parse()`: reset, then `_rules[ruleexpression]()` -/
def parseGo (g : Grammar) (n : Num) (fuel : Nat) (start : String) (input : Array Char) (disableMemoize : Bool) : Out × RT :=
  match reset (initRT input disableMemoize) with
  | none => (.panic, initRT input disableMemoize)
  | some s => runGo g n fuel (.rule start) s

end JPV.Peg.RunGo
