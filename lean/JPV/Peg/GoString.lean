/-
  Go strings at BYTE level and the `for index := range s` loop (vocabulary, hand-written, core only).

  A Go string is a sequence of bytes (not necessarily valid UTF-8).  `for index := range s` decodes one
  rune per iteration the way `utf8.DecodeRuneInString` does and advances by the width it reports:

    * a valid 1–4 byte sequence per the UTF-8 table — first byte 00–7F (width 1), C2–DF (2), E0–EF (3),
      F0–F4 (4); the second byte must lie in 80–BF, except after E0 (A0–BF: no overlong forms), ED (80–9F:
      no surrogates), F0 (90–BF: no overlong forms), F4 (80–8F: nothing above U+10FFFF); every further
      byte in 80–BF — has that width;
    * ANYTHING ELSE (a continuation byte or C0, C1, F5–FF in first position, a bad second/third/fourth
      byte, a sequence cut off by the end of the string) has width 1: every invalid byte is one U+FFFD
      "rune" of its own.

  This is also how `[]rune(p.Buffer)` in the generated PEG parser (`jsonpath.peg.go`, `Init`/`reset`)
  counts: the conversion string → []rune is defined by the same decoding, one element per range
  iteration.  So the position `pos` that the parser reports (an index into `[]rune(Buffer)`) and the
  iteration count of the range loop in `syntaxErr` number the same things, on invalid UTF-8 too.

  The vocabulary is validated against the Go runtime by the C17 runner (harness/jph/l31_rangestarts.go,
  driver request `(q rangestarts HEX)` of jpv-peg and jpv-pegm) — it is trusted only as far as that comparison goes.
  Consumed by Gen/SyntaxErrGo.lean (generator `syntaxerr`) and Props/SyntaxErrGen.lean.
-/
namespace JPV
namespace GoString

/-- a Go string: its bytes -/
abbrev Bytes := List UInt8

/-- `80–BF` -/
def isCont (b : Nat) : Bool := 0x80 ≤ b && b ≤ 0xBF

/-- `first[b0]` of unicode/utf8 as (size, lowest and highest accepted SECOND byte); `none`: ASCII or an
    invalid first byte — width 1 either way -/
def firstInfo (b0 : Nat) : Option (Nat × Nat × Nat) :=
  if 0xC2 ≤ b0 ∧ b0 ≤ 0xDF then some (2, 0x80, 0xBF)
  else if b0 = 0xE0 then some (3, 0xA0, 0xBF)
  else if b0 = 0xED then some (3, 0x80, 0x9F)
  else if 0xE1 ≤ b0 ∧ b0 ≤ 0xEF then some (3, 0x80, 0xBF)
  else if b0 = 0xF0 then some (4, 0x90, 0xBF)
  else if b0 = 0xF4 then some (4, 0x80, 0x8F)
  else if 0xF1 ≤ b0 ∧ b0 ≤ 0xF3 then some (4, 0x80, 0xBF)
  else none

/-- the width `utf8.DecodeRuneInString` reports for the rune at the head of the string
    (0 only for the empty string) -/
def runeWidth : Bytes → Nat
  | [] => 0
  | b0 :: rest =>
    match firstInfo b0.toNat with
    | none => 1
    | some (sz, lo, hi) =>
      match rest with
      | [] => 1
      | b1 :: rest1 =>
        if lo ≤ b1.toNat ∧ b1.toNat ≤ hi then
          if sz = 2 then 2
          else match rest1 with
            | [] => 1
            | b2 :: rest2 =>
              if isCont b2.toNat then
                if sz = 3 then 3
                else match rest2 with
                  | [] => 1
                  | b3 :: _ => if isCont b3.toNat then 4 else 1
              else 1
        else 1

/-- offsets at which the range loop starts a rune, from offset `off` with `b` the rest of the string;
    `fuel` ≥ length of `b` is enough because every step consumes at least one byte -/
def rangeFrom : Nat → Nat → Bytes → List Nat
  | 0, _, _ => []
  | _, _, [] => []
  | fuel + 1, off, b0 :: rest =>
    off :: rangeFrom fuel (off + runeWidth (b0 :: rest)) ((b0 :: rest).drop (runeWidth (b0 :: rest)))

/-- the values `index` takes in `for index := range s`, in order -/
def rangeStarts (b : Bytes) : List Nat := rangeFrom b.length 0 b

/-- one round of a loop body: go on with the next iteration, or `break` -/
inductive Step (σ : Type) where
  | next (s : σ)
  | brk (s : σ)

/-- `for index := range s { body }` over the state `σ` of the variables the body assigns;
    `idx` = `rangeStarts s`; Go's `int` is `Int` -/
def forRange {σ : Type} (idx : List Nat) (init : σ) (body : σ → Int → Step σ) : σ :=
  match idx with
  | [] => init
  | i :: rest =>
    match body init (i : Int) with
    | .next s => forRange rest s body
    | .brk s => s

/-- `len(s)` -/
def len (b : Bytes) : Int := (b.length : Int)

/-- `s[off:]`; `none` = Go panics (slice bounds out of range) -/
def sliceFrom (b : Bytes) (off : Int) : Option Bytes :=
  if 0 ≤ off ∧ off ≤ (b.length : Int) then some (b.drop off.toNat) else none

/-- the UTF-8 bytes of a Lean string (always valid UTF-8) -/
def utf8Bytes (s : String) : Bytes := s.toByteArray.data.toList

end GoString
end JPV
