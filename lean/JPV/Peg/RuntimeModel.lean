/-
Vocabulary for `Gen/PegRuntimeGo.lean` (generator `pegruntime`): the state the closures of
`(*pegJSONPathParser).Init` in jsonpath.peg.go share, and the partial Go operations their bodies use.
Core Lean only.

Reading of the Go types
  * `uint32` values are `Nat` (< 2^32); `+`, `++`, `+=`, `-` on them wrap (`u32`, `u32sub`).
  * `int` values (results of `len`, `int(x)`) are `Int`; an index or slice bound that is negative or too large
    makes the operation panic.
  * a Go panic (index / slice bound out of range) is `none`; every generated function returns `Option …`.
  * slices are VALUES (`List`): `s[:n]`, `s[a:b]`, `append`, `s[i] = v`. Two departures from Go, both outside
    the invariant `tokenIndex ≤ len(tree)` under which every theorem of Props/PegRuntimeGen is stated:
    re-slicing beyond `len` but within `cap` succeeds in Go (stale elements become visible) and is `none` here;
    in-place effects of `append` on a shared backing array are invisible here — the generator therefore refuses
    any slice-typed local that is not (a) an alias of `t.tree` used for the one indexed write of `tokens32.Add`,
    (b) a read-only window copied by `make`+`copy` (the stored `Partial` is a fresh copy).
  * `map[memoKey]memo` is an association list, newest first: `memoization[k] = v` is `store`, the lookup
    `memoization[k]` (done by the rule functions, template checked by `pegrules`) is `lookup`.
  * `RT.Buffer` is `[]rune(p.Buffer)`, the decoded input string (every element < 1114112).
-/
namespace JPV.Peg.Runtime

/-- `token32` -/
structure Tok where
  rule : Nat
  b : Nat
  e : Nat
  deriving DecidableEq, Repr

/-- `memo` -/
structure Memo where
  matched : Bool
  partialToks : List Tok
  deriving DecidableEq, Repr

/-- `memoKey{Rule, Position}` -/
abbrev Key := Nat × Nat

/-- the variables shared by the closures of `Init` (+ the fields of `p` they touch) -/
structure RT where
  /-- `[]rune(p.Buffer)` -/
  Buffer : List Nat
  /-- `p.buffer` -/
  pbuffer : List Nat
  /-- the local `buffer` of Init -/
  buffer : List Nat
  position : Nat
  tokenIndex : Nat
  /-- `tree.tree` (the local `tree` of Init is a `tokens32`, whose only field is `tree`) -/
  tree : List Tok
  /-- `p.tokens32.tree`: what `parse` publishes (`p.tokens32 = tree`) and `Trim`s, what `Tokens()` / `Execute()` read (L30;
  defaults to empty so that states written before it existed still elaborate) -/
  ptree : List Tok := []
  memo : List (Key × Memo)
  max : Tok
  disableMemoize : Bool
  deriving Repr

def u32 (n : Nat) : Nat := n % 4294967296
def u32sub (a b : Nat) : Nat := (a + 4294967296 - b) % 4294967296
/-- `uint32(i)` for an `int` i -/
def u32i (i : Int) : Nat := (i % 4294967296).toNat

/-- `m[k]` with the comma-ok form -/
def lookup (m : List (Key × Memo)) (k : Key) : Option Memo :=
  match m with
  | [] => none
  | (k', v) :: r => if k' = k then some v else lookup r k

/-- `m[k] = v` -/
def store (m : List (Key × Memo)) (k : Key) (v : Memo) : List (Key × Memo) := (k, v) :: m

/-- `l[i]` for a `uint32` index -/
def getAt {α} (l : List α) (i : Nat) : Option α := l[i]?

/-- `l[i]` for an `int` index -/
def getAtI {α} (l : List α) (i : Int) : Option α := if i < 0 then none else l[i.toNat]?

/-- `l[i] = v` for an `int` index -/
def setAtI {α} (l : List α) (i : Int) (v : α) : Option (List α) :=
  if i < 0 then none else if i.toNat < l.length then some (l.set i.toNat v) else none

/-- `l[:n]` (n ≤ len; see the header for len < n ≤ cap) -/
def sliceTo {α} (l : List α) (n : Nat) : Option (List α) := if n ≤ l.length then some (l.take n) else none

/-- `l[a:b]` -/
def slice {α} (l : List α) (a b : Nat) : Option (List α) :=
  if a ≤ b ∧ b ≤ l.length then some ((l.take b).drop a) else none

end JPV.Peg.Runtime
