/-
Peg/Equiv — an executable, SOUND equivalence checker for parsing expressions (L20, property C17).

`eqv c n k as bs = true` says: the sequence `as` run under grammar `c.gs` and the sequence `bs` run under
grammar `c.gt` give the same result (position, tokens, or failure) at every input position where the
knowledge `k` about the current character holds — up to fuel (Lemmas/PegEquivSim.lean: `eqv_sim`).
It is used to compare the expressions DECOMPILED from the rule functions of jsonpath.peg.go
(Gen/PegGoRules.lean) with the rules of jsonpath.peg (Gen/Grammar.lean), in both directions.

What the checker identifies (everything else must agree constructor by constructor):
  * associativity of sequences (both sides are flattened), 'abc' = 'a' 'b' 'c', e+ = e e*;
  * a reference to a rule = the body of the rule (the generated code inlines most rules); two references
    to the same rule are equal if the rule has a function of its own (`c.names`) — the caller then owes
    the comparison of the two bodies;
  * single-character matchers — classes, one-character literals, `.`, choices of matchers, `&m m'`, `!m m'` —
    are compared as SETS of code points under the knowledge `k` (`CS`, decided on the interval end points);
  * the switch optimisation `(&[S] A) / R`: under "current character ∈ S" A must equal the other side and R
    must fail; under "∉ S" R must equal the other side; a guard `![U]` known to hold is dropped;
  * an alternative that certainly fails under `k` (`behave … = F`: a three-valued first-character analysis —
    F fails, E fails or succeeds without consuming, U unknown) is removed from a choice, on either side.
Core Lean only; evaluated by the kernel (`decide`) in Props/PegGoGen.lean.
-/
import JPV.Peg.Peg
namespace JPV.Peg

/-- sets of code points, as syntax -/
inductive CS where
  | none
  | all
  | rng (lo hi : Nat)
  | union (a b : CS)
  | inter (a b : CS)
  | diff (a b : CS)
  deriving Inhabited, Repr

namespace CS

def mem : CS → Nat → Bool
  | .none, _ => false
  | .all, _ => true
  | .rng lo hi, c => Nat.ble lo c && Nat.ble c hi
  | .union a b, c => a.mem c || b.mem c
  | .inter a b, c => a.mem c && b.mem c
  | .diff a b, c => a.mem c && !b.mem c

/-- the points where membership can change: `lo` and `hi + 1` of every interval -/
def pts : CS → List Nat
  | .none => []
  | .all => []
  | .rng lo hi => [lo, hi + 1]
  | .union a b => a.pts ++ b.pts
  | .inter a b => a.pts ++ b.pts
  | .diff a b => a.pts ++ b.pts

/-- no code point is a member: it suffices to look at 0 and at the change points -/
def isEmpty (s : CS) : Bool := (0 :: s.pts).all (fun c => !s.mem c)

def ofRanges : List (Char × Char) → CS
  | [] => .none
  | (lo, hi) :: rest => .union (.rng lo.toNat hi.toNat) (ofRanges rest)

end CS

/-- what is known about the character at the current position: it is a member of `cs`, or
(if `eof`) the input ends here -/
structure Know where
  cs : CS
  eof : Bool
  deriving Inhabited, Repr

namespace Know
def top : Know := ⟨.all, true⟩
def holds (k : Know) (inp : Array Char) (pos : Nat) : Prop :=
  match inp[pos]? with
  | some c => k.cs.mem c.toNat = true
  | none => k.eof = true
/-- … and the character is in `s` -/
def andIn (k : Know) (s : CS) : Know := ⟨.inter k.cs s, false⟩
/-- … and the character is not in `s` (or the input ends) -/
def notIn (k : Know) (s : CS) : Know := ⟨.diff k.cs s, k.eof⟩
end Know

def PE.depth : PE → Nat
  | .seq a b => max a.depth b.depth + 1
  | .alt a b => max a.depth b.depth + 1
  | .star a => a.depth + 1
  | .plus a => a.depth + 2
  | .opt a => a.depth + 1
  | .not a => a.depth + 1
  | .and a => a.depth + 1
  | .cap a => a.depth + 1
  | _ => 1

/-- expressions that consume exactly one character iff it is in a set, produce no token, and fail at the end
of the input -/
def matcher? : PE → Option CS
  | .cls false rs => some (CS.ofRanges rs)
  | .cls true rs => some (.diff .all (CS.ofRanges rs))
  | .any => some .all
  | .lit s =>
    match s.toList with
    | [c] => some (.rng c.toNat c.toNat)
    | _ => none
  | .alt a b =>
    match matcher? a, matcher? b with
    | some x, some y => some (.union x y)
    | _, _ => none
  | .seq (.and a) b =>
    match matcher? a, matcher? b with
    | some x, some y => some (.inter x y)
    | _, _ => none
  | .seq (.not a) b =>
    match matcher? a, matcher? b with
    | some x, some y => some (.diff y x)
    | _, _ => none
  | _ => none

/-- `e` is a matcher that fails wherever `k` holds (and answers within fuel `m`) -/
def mFails (k : Know) (e : PE) (m : Nat) : Bool :=
  match matcher? e with
  | some s => Nat.ble e.depth m && (CS.inter k.cs s).isEmpty
  | none => false

/-- `e` is a matcher that succeeds wherever `k` holds (and answers within fuel `m`) -/
def mSucceeds (k : Know) (e : PE) (m : Nat) : Bool :=
  match matcher? e with
  | some s => Nat.ble e.depth m && !k.eof && (CS.diff k.cs s).isEmpty
  | none => false

inductive Beh where
  | F     -- fails
  | E     -- fails, or succeeds without moving
  | U     -- unknown
  deriving DecidableEq, Repr

namespace Beh
def seq (a b : Beh) : Beh :=
  match a with
  | .F => .F
  | .E => b
  | .U => .U
def alt (a b : Beh) : Beh :=
  match a, b with
  | .F, .F => .F
  | .U, _ => .U
  | _, .U => .U
  | _, _ => .E
def star (a : Beh) : Beh :=
  match a with
  | .F => .E
  | _ => .U
def plus (a : Beh) : Beh :=
  match a with
  | .F => .F
  | _ => .U
def opt (a : Beh) : Beh :=
  match a with
  | .U => .U
  | _ => .E
end Beh

def litBeh (k : Know) (s : String) : Beh :=
  match s.toList with
  | [] => .E
  | c :: _ => if k.cs.mem c.toNat then .U else .F

/-- first-character analysis with exactly the fuel discipline of `run`: the verdict is about `run g m e` -/
def behave (g : Grammar) : Nat → Know → PE → Beh
  | 0, _, _ => .U
  | m + 1, k, e =>
    if mFails k e (m + 1) then .F else
    match e with
    | .lit s => litBeh k s
    | .cls _ _ => .U
    | .any => .U
    | .seq a b => (behave g m k a).seq (behave g m k b)
    | .alt a b => (behave g m k a).alt (behave g m k b)
    | .star a => (behave g m k a).star
    | .plus a => (behave g m k a).plus
    | .opt a => (behave g m k a).opt
    | .not a => if mSucceeds k a m then .F else (behave g m k a).opt
    | .and a => behave g m k a
    | .rule x => behave g m k (ruleBody g x)
    | .cap a => behave g m k a
    | .act _ => .E

def Beh.isF : Beh → Bool
  | .F => true
  | _ => false

/-- the two grammars, the rules that have a function of their own in the generated code, and the fuel `N`
granted to `behave` and to matchers -/
structure EqCfg where
  gs : Grammar
  gt : Grammar
  names : List String
  N : Nat

/-- one normalisation step of the head of a sequence: flatten, split a literal, unfold `+` -/
def norm1 : PE → Option (List PE)
  | .seq a b => some [a, b]
  | .lit s =>
    match s.toList with
    | c :: d :: rest => some [.lit (String.singleton c), .lit (String.ofList (d :: rest))]
    | _ => none
  | .plus a => some [a, .star a]
  | _ => none

abbrev Rec := Know → List PE → List PE → Bool

/-- same head constructor -/
def hSame (rec : Rec) (k : Know) (a : PE) (as : List PE) (b : PE) (bs : List PE) : Bool :=
  match a, b with
  | .alt a1 a2, .alt b1 b2 => rec k [a1] [b1] && rec k [a2] [b2] && rec .top as bs
  | .star a1, .star b1 => rec .top [a1] [b1] && rec .top as bs
  | .opt a1, .opt b1 => rec k [a1] [b1] && rec .top as bs
  | .not a1, .not b1 => rec k [a1] [b1] && rec k as bs
  | .and a1, .and b1 => rec k [a1] [b1] && rec k as bs
  | .cap a1, .cap b1 => rec k [a1] [b1] && rec .top as bs
  | .act i, .act j => Nat.beq i j && rec k as bs
  | _, _ => false

/-- both heads are matchers with the same set under `k` -/
def mEq (c : EqCfg) (rec : Rec) (k : Know) (a : PE) (as : List PE) (b : PE) (bs : List PE) : Bool :=
  match matcher? a, matcher? b with
  | some x, some y =>
    Nat.ble a.depth c.N && Nat.ble b.depth c.N &&
      (CS.inter k.cs (.union (.diff x y) (.diff y x))).isEmpty && rec .top as bs
  | _, _ => false

/-- the left head is a guarded choice `(&m A) / R` -/
def guardL (c : EqCfg) (rec : Rec) (k : Know) (a : PE) (as : List PE) (b : PE) (bs : List PE) : Bool :=
  match a with
  | .alt (.seq (.and m) A) R =>
    match matcher? m with
    | some s =>
      Nat.ble m.depth c.N && rec (k.andIn s) [A] [b] && (behave c.gs c.N (k.andIn s) R).isF &&
        rec (k.notIn s) [R] [b] && rec .top as bs
    | none => false
  | _ => false

/-- the right head is a guarded choice -/
def guardR (c : EqCfg) (rec : Rec) (k : Know) (a : PE) (as : List PE) (b : PE) (bs : List PE) : Bool :=
  match b with
  | .alt (.seq (.and m) B) R =>
    match matcher? m with
    | some s =>
      Nat.ble m.depth c.N && rec (k.andIn s) [a] [B] && (behave c.gt c.N (k.andIn s) R).isF &&
        rec (k.notIn s) [a] [R] && rec .top as bs
    | none => false
  | _ => false

/-- a guard `!m` on the left that certainly succeeds -/
def dropNotL (c : EqCfg) (rec : Rec) (k : Know) (a : PE) (as : List PE) (b : PE) (bs : List PE) : Bool :=
  match a with
  | .not m => mFails k m c.N && rec k as (b :: bs)
  | _ => false

def dropNotR (c : EqCfg) (rec : Rec) (k : Know) (a : PE) (as : List PE) (b : PE) (bs : List PE) : Bool :=
  match b with
  | .not m => mFails k m c.N && rec k (a :: as) bs
  | _ => false

def headStep (c : EqCfg) (rec : Rec) (k : Know) (a : PE) (as : List PE) (b : PE) (bs : List PE) : Bool :=
  guardL c rec k a as b bs || guardR c rec k a as b bs || hSame rec k a as b bs ||
    dropNotL c rec k a as b bs || dropNotR c rec k a as b bs

/-- references to rules -/
def ruleStep (c : EqCfg) (rec : Rec) (k : Know) (a : PE) (as : List PE) (b : PE) (bs : List PE) : Bool :=
  match a, b with
  | .rule x, .rule y =>
    if x == y && c.names.contains x then rec .top as bs
    else rec k (a :: as) (ruleBody c.gt y :: bs)
  | _, .rule y => rec k (a :: as) (ruleBody c.gt y :: bs)
  | .rule x, _ => rec k (ruleBody c.gs x :: as) (b :: bs)
  | _, _ => headStep c rec k a as b bs

/-- an alternative that certainly fails is removed (right side first, then left side) -/
def pruneStep (c : EqCfg) (rec : Rec) (k : Know) (a : PE) (as : List PE) (b : PE) (bs : List PE) : Bool :=
  match b with
  | .alt b1 b2 =>
    if (behave c.gt c.N k b1).isF then rec k (a :: as) (b2 :: bs)
    else if (behave c.gt c.N k b2).isF then rec k (a :: as) (b1 :: bs)
    else
      match a with
      | .alt a1 a2 =>
        if (behave c.gs c.N k a1).isF then rec k (a2 :: as) (b :: bs)
        else if (behave c.gs c.N k a2).isF then rec k (a1 :: as) (b :: bs)
        else ruleStep c rec k a as b bs
      | _ => ruleStep c rec k a as b bs
  | _ =>
    match a with
    | .alt a1 a2 =>
      if (behave c.gs c.N k a1).isF then rec k (a2 :: as) (b :: bs)
      else if (behave c.gs c.N k a2).isF then rec k (a1 :: as) (b :: bs)
      else ruleStep c rec k a as b bs
    | _ => ruleStep c rec k a as b bs

def sameRule (c : EqCfg) (a b : PE) : Bool :=
  match a, b with
  | .rule x, .rule y => x == y && c.names.contains x
  | _, _ => false

def eqvStep (c : EqCfg) (rec : Rec) (k : Know) : List PE → List PE → Bool
  | [], [] => true
  | [], _ :: _ => false
  | _ :: _, [] => false
  | a :: as, b :: bs =>
    if mEq c rec k a as b bs then true else
    match norm1 a with
    | some l => rec k (l ++ as) (b :: bs)
    | none =>
      match norm1 b with
      | some l => rec k (a :: as) (l ++ bs)
      | none =>
        if sameRule c a b then rec .top as bs
        else pruneStep c rec k a as b bs

/-- the checker; `n` bounds the length of every chain of steps -/
def eqv (c : EqCfg) : Nat → Know → List PE → List PE → Bool
  | 0, _, _, _ => false
  | n + 1, k, as, bs => eqvStep c (eqv c n) k as bs

/-- rule by rule: every rule with a function of its own has equivalent bodies -/
def eqvRules (c : EqCfg) (n : Nat) : Bool :=
  c.names.all (fun x => eqv c n .top [ruleBody c.gs x] [ruleBody c.gt x])

/-- the tokens of the first part of a sequence in front of the result of the rest -/
def glue (t : List Tok) : Result → Result
  | .ok p t' => .ok p (t ++ t')
  | r => r

/-- `runSeq g f [e₁, …, eₖ]`: the expressions one after the other, each with fuel `f` -/
def runSeq (g : Grammar) (f : Nat) : List PE → Array Char → Nat → Result
  | [], _, pos => .ok pos []
  | e :: es, inp, pos =>
    match run g f e inp pos with
    | .ok p t => glue t (runSeq g f es inp p)
    | r => r

/-- what a single-character matcher with set `s` answers -/
def mres (s : CS) (inp : Array Char) (pos : Nat) : Result :=
  match inp[pos]? with
  | some c => if s.mem c.toNat then .ok (pos + 1) [] else .fail
  | none => .fail

end JPV.Peg
