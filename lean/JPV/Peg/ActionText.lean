/-
ActionText — the text of every action block of /repo/jsonpath.peg that JPV/Peg/Actions.lean was
written against (hand-maintained; copied from the grammar when the model was written).
`Actions.lean` refuses to run (and `actions_as_expected` fails to check) when the regenerated
`Gen.actions` differs from this table after whitespace normalisation: whoever edits an action in
jsonpath.peg has to re-read the corresponding `act<N>` in Actions.lean and update both.
-/
namespace JPV.Peg

/-- whitespace normalisation: runs of blanks/tabs/newlines become one blank, none at either end.
    state 0: nothing emitted yet; 1: last emitted a non-blank; 2: a blank is pending -/
def normGo : Nat → List Char → List Char
  | _, [] => []
  | st, c :: cs =>
    if c == ' ' || c == '\t' || c == '\n' || c == '\r' then
      normGo (if st == 0 then 0 else 2) cs
    else if st == 2 then ' ' :: c :: normGo 1 cs
    else c :: normGo 1 cs

def norm (s : String) : List Char := normGo 0 s.toList

def expectedAction0 : String :=
  "\n        p.root = p.deleteRootIdentifier(p.pop().(syntaxNode))\n        p.setConnectedText(p.root)\n    "

def expectedAction1 : String :=
  "\n        panic(p.syntaxErr(\n            begin, msgErrorInvalidSyntaxUnrecognizedInput, buffer))\n    "

def expectedAction2 : String :=
  "\n        p.setNodeChain()\n        p.updateRootValueGroup()\n    "

def expectedAction3 : String :=
  "\n        p.pushRecursiveChildIdentifier(p.pop().(syntaxNode))\n    "

def expectedAction4 : String :=
  "\n        p.setLastNodeText(text)\n    "

def expectedAction5 : String :=
  "\n        p.pushFunction(text, p.pop().(string))\n    "

def expectedAction6 : String :=
  "\n        p.push(text)\n    "

def expectedAction7 : String :=
  "\n        p.setLastNodeText(text)\n    "

def expectedAction8 : String :=
  "\n        p.pushRootIdentifier()\n    "

def expectedAction9 : String :=
  "\n        p.pushCurrentRootIdentifier()\n    "

def expectedAction10 : String :=
  "\n        p.pushChildSingleIdentifier(p.unescape(text))\n    "

def expectedAction11 : String :=
  "\n            identifier2 := p.pop().(syntaxNode)\n            identifier1 := p.pop().(syntaxNode)\n            p.pushChildMultiIdentifier(identifier1, identifier2)\n        "

def expectedAction12 : String :=
  "\n        p.pushChildWildcardIdentifier()\n    "

def expectedAction13 : String :=
  "\n        p.pushChildSingleIdentifier(p.unescapeSingleQuotedString(text))\n    "

def expectedAction14 : String :=
  "\n        p.pushChildSingleIdentifier(p.unescapeDoubleQuotedString(text))\n    "

def expectedAction15 : String :=
  "\n            childIndexUnion := p.pop().(*syntaxUnionQualifier)\n            parentIndexUnion := p.pop().(*syntaxUnionQualifier)\n            parentIndexUnion.merge(childIndexUnion)\n            parentIndexUnion.setValueGroup()\n            p.push(parentIndexUnion)\n        "

def expectedAction16 : String :=
  "\n            step  := p.pop().(*syntaxIndexSubscript)\n            end   := p.pop().(*syntaxIndexSubscript)\n            start := p.pop().(*syntaxIndexSubscript)\n\n            if step.isOmitted {\n                step.number = 1\n            }\n\n            if step.number >= 0 {\n                p.pushSlicePositiveStepSubscript(start, end, step)\n            } else {\n                p.pushSliceNegativeStepSubscript(start, end, step)\n            }\n        "

def expectedAction17 : String :=
  "\n            p.pushIndexSubscript(text)\n        "

def expectedAction18 : String :=
  "\n            p.pushWildcardSubscript()\n        "

def expectedAction19 : String :=
  "\n        p.pushUnionQualifier(p.pop().(syntaxSubscript))\n    "

def expectedAction20 : String :=
  "\n            p.pushIndexSubscript(`1`)\n        "

def expectedAction21 : String :=
  "\n        if len(text) > 0 {\n            p.pushIndexSubscript(text)\n        } else {\n            p.pushOmittedIndexSubscript(`0`)\n        }\n    "

def expectedAction22 : String :=
  "\n        p.pushScriptQualifier(text)\n    "

def expectedAction23 : String :=
  "\n        p.pushFilterQualifier(p.pop().(syntaxQuery))\n    "

def expectedAction24 : String :=
  "\n            rightQuery := p.pop().(syntaxQuery)\n            leftQuery := p.pop().(syntaxQuery)\n            p.pushLogicalOr(leftQuery, rightQuery)\n        "

def expectedAction25 : String :=
  "\n            rightQuery := p.pop().(syntaxQuery)\n            leftQuery := p.pop().(syntaxQuery)\n            p.pushLogicalAnd(leftQuery, rightQuery)\n        "

def expectedAction26 : String :=
  "\n        query := p.pop()\n        p.push(query)\n\n        if logicalNot, ok := query.(*syntaxLogicalNot); ok {\n            query = (*logicalNot).query\n        }\n        if checkQuery, ok := query.(*syntaxBasicCompareQuery); ok {\n            _, leftIsCurrentRoot := checkQuery.leftParam.param.(*syntaxQueryParamCurrentRoot)\n            _, rightIsCurrentRoot := checkQuery.rightParam.param.(*syntaxQueryParamCurrentRoot)\n            if leftIsCurrentRoot && rightIsCurrentRoot {\n                panic(p.syntaxErr(\n                    begin, msgErrorInvalidSyntaxTwoCurrentNode, buffer))\n            }\n        }\n    "

def expectedAction27 : String :=
  "\n        _ = p.pop()\n        jsonpathFilter := p.pop().(syntaxQuery)\n\n        if text[0:1] == `!` {\n            p.pushLogicalNot(jsonpathFilter)\n        } else {\n            p.push(jsonpathFilter)\n        }\n    "

def expectedAction28 : String :=
  "\n            rightParam := p.pop().(*syntaxBasicCompareParameter)\n            leftParam := p.pop().(*syntaxBasicCompareParameter)\n            p.pushCompareEQ(leftParam, rightParam)\n        "

def expectedAction29 : String :=
  "\n            rightParam := p.pop().(*syntaxBasicCompareParameter)\n            leftParam := p.pop().(*syntaxBasicCompareParameter)\n            p.pushCompareNE(leftParam, rightParam)\n        "

def expectedAction30 : String :=
  "\n            rightParam := p.pop().(*syntaxBasicCompareParameter)\n            leftParam := p.pop().(*syntaxBasicCompareParameter)\n            p.pushCompareLE(leftParam, rightParam)\n        "

def expectedAction31 : String :=
  "\n            rightParam := p.pop().(*syntaxBasicCompareParameter)\n            leftParam := p.pop().(*syntaxBasicCompareParameter)\n            p.pushCompareLT(leftParam, rightParam)\n        "

def expectedAction32 : String :=
  "\n            rightParam := p.pop().(*syntaxBasicCompareParameter)\n            leftParam := p.pop().(*syntaxBasicCompareParameter)\n            p.pushCompareGE(leftParam, rightParam)\n        "

def expectedAction33 : String :=
  "\n            rightParam := p.pop().(*syntaxBasicCompareParameter)\n            leftParam := p.pop().(*syntaxBasicCompareParameter)\n            p.pushCompareGT(leftParam, rightParam)\n        "

def expectedAction34 : String :=
  "\n        leftParam := p.pop().(*syntaxBasicCompareParameter)\n        p.pushCompareRegex(leftParam, text)\n    "

def expectedAction35 : String :=
  "\n        p.pushCompareParameterLiteral(p.pop())\n    "

def expectedAction36 : String :=
  "\n        p.pushCompareParameterLiteral(p.pop())\n    "

def expectedAction37 : String :=
  "\n        isLiteral := p.pop().(bool)\n        param := p.pop().(syntaxQueryJSONPathParameter)\n        if param.isValueGroupParameter() {\n            panic(p.syntaxErr(\n                begin, msgErrorInvalidSyntaxFilterValueGroup, buffer))\n        }\n        p.pushBasicCompareParameter(param.(syntaxQuery), isLiteral)\n    "

def expectedAction38 : String :=
  "\n        p.saveParams()\n    "

def expectedAction39 : String :=
  "\n        p.loadParams()\n\n        node := p.pop().(syntaxNode)\n        checkNode := node\n        for {\n            aggregateFunction, ok := checkNode.(*syntaxAggregateFunction)\n            if !ok {\n                break\n            }\n            checkNode = aggregateFunction.param\n        }\n\n        switch checkNode.(type) {\n        case *syntaxRootIdentifier:\n            p.pushCompareParameterRoot(p.deleteRootIdentifier(node))\n            p.push(true)\n        case *syntaxCurrentRootIdentifier:\n            p.pushCompareParameterCurrentRoot(p.deleteRootIdentifier(node))\n            p.push(false)\n        }\n    "

def expectedAction40 : String :=
  "\n        p.push(p.toFloat(text))\n    "

def expectedAction41 : String :=
  "\n        p.push(true)\n    "

def expectedAction42 : String :=
  "\n        p.push(false)\n    "

def expectedAction43 : String :=
  "\n        p.push(p.unescape(text))\n    "

def expectedAction44 : String :=
  "\n        p.push(p.unescape(text))\n    "

def expectedAction45 : String :=
  "\n        p.push(nil)\n    "

def expectedActions : List String := [
  expectedAction0, expectedAction1, expectedAction2, expectedAction3, expectedAction4, expectedAction5, expectedAction6, expectedAction7, expectedAction8, expectedAction9, expectedAction10, expectedAction11, expectedAction12, expectedAction13, expectedAction14, expectedAction15, expectedAction16, expectedAction17, expectedAction18, expectedAction19, expectedAction20, expectedAction21, expectedAction22, expectedAction23, expectedAction24, expectedAction25, expectedAction26, expectedAction27, expectedAction28, expectedAction29, expectedAction30, expectedAction31, expectedAction32, expectedAction33, expectedAction34, expectedAction35, expectedAction36, expectedAction37, expectedAction38, expectedAction39, expectedAction40, expectedAction41, expectedAction42, expectedAction43, expectedAction44, expectedAction45]

/-- FNV-1a/64 of each whitespace-normalised body above, as computed by the translator when this
    table was written (`Gen.actionSums` is recomputed from jsonpath.peg on every run) -/
def expectedSums : List Nat := [
  4097138655736111486, 11619743455343266197, 14792067106702872163, 9439125425925775307, 
  10142825486320095336, 13882606785450659637, 11153279140416276477, 10142825486320095336, 
  5244672959537482659, 1591760824138843720, 41219260052295667, 13667979167652717060, 
  7782880986413762449, 10251121645360503680, 9644909493582661611, 4316788070516578014, 
  5188051591783813068, 18130582262942155196, 12612060325498830685, 18092800465428735096, 
  16321738329635010750, 12868429139192341137, 17859374762577108974, 754536864901750098, 
  3061599571065535068, 8317143989673556734, 10701533427731450916, 18323629282792846132, 
  8065435045366502829, 6518189071111018452, 8788573888454368642, 17728967868464809567, 
  16466545899877268651, 4079367261432638046, 17734470498492659732, 3432618303460048053, 
  3432618303460048053, 5388635606814472592, 13546093165385933319, 7781714746799382172, 
  13399772472332536653, 11202310049321065180, 17469851525405239963, 12347130336694200164, 
  12347130336694200164, 12185639001189609143]

end JPV.Peg
