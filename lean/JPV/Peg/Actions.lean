/-
Actions — the action stack machine (DESIGN §4.6): what `Execute()` of jsonpath.peg.go does with the
token stream, one Lean function `act<N>` per action block of /repo/jsonpath.peg, and the helpers
of /repo/jsonpath_parser.go they call.

Representation
* `p.params` is `St.stack`, TOP FIRST (Go appends at the end; `pop` takes the last element);
  `p.paramsList` is `St.saved`, most recent frame first, every frame top first.
* A stack entry that is a `syntaxNode` in Go is `Item.chain ch`: the node together with everything
  reachable from it through `next` (`next` of a node = tail of the list, as in Tree/Build).
  Where the pointer structure of the real code could differ from a list:
    - the inner identifiers and the all-wildcard union twin of a multi-name node have `next`
      pointers of their own; `syntaxChildMultiIdentifier.setNext` makes them share the tail of the
      multi node. `Tree` has no field for them, the dump of the real tree (`verifSameNext`) prints
      whether they are shared, the model's dump always prints `t`;
    - `setNext` on a node that already has a successor walks to the end of its chain: appending a
      pushed entry to "the last linked node" is appending to the end of the list;
    - nodes are never shared between two stack entries (every push allocates, except
      `pushChildMultiIdentifier`/the union merge, which push back the entry they popped), so in-place
      updates of a node in Go are updates of the one list that contains it.
* Values Go would happily build but `Tree` cannot represent (a compare-parameter used as a query, a
  multi-name node whose inner identifier is not a name, a literal operand that is a node, an
  `isLiteral` flag that contradicts the operand kind) stop the machine with `Stop.unrepresentable`.
  The grammar never produces them; `C02_actions_total` is about `panic` AND `unrepresentable`.
* Go run-time panics are `runtime.Error`s, i.e. `error`s: the deferred `recover` in `Parse` would
  return them as the error of `Parse`. They are the outcomes C02 forbids and are explicit here:
  pop/index on an empty stack ⇒ `Panic.indexOutOfRange`, a failed type assertion ⇒
  `Panic.typeAssertion`, `text[0:1]` on an empty capture ⇒ `Panic.sliceBounds`; a run that ends
  without `p.root` set would return a function that dereferences nil ⇒ `Panic.nilRoot`.
-/
import JPV.Build
import JPV.Peg.Peg
import JPV.Peg.ActionText
namespace JPV.Peg

inductive Panic where
  | indexOutOfRange | typeAssertion | sliceBounds | nilRoot
  deriving Inhabited, Repr, DecidableEq

inductive FloatRes where
  | ok (n : Int)        -- strconv.ParseFloat succeeded and the value is the integer n
  | err                 -- strconv.ParseFloat failed
  | unmodelled          -- anything else (non-integral, huge, hexadecimal, inf/nan, …)
  deriving Inhabited, Repr, DecidableEq

inductive RegexRes where
  | ok | err | unmodelled
  deriving Inhabited, Repr, DecidableEq

/-- the standard-library functions the helpers call, as parameters -/
structure Ext where
  atoi : String → Option Int                   -- strconv.Atoi; none = error
  parseFloat : String → FloatRes               -- strconv.ParseFloat(·, 64)
  regexCompile : String → RegexRes             -- regexp.Compile
  unescape : String → String                   -- unescapeRegex.ReplaceAllStringFunc (`\\(.)` → `$1`)
  unescapeSingle : String → Option String      -- unescapeSingleQuotedString; none = json error
  unescapeDouble : String → Option String      -- unescapeDoubleQuotedString; none = json error

/-- the three `msgErrorInvalidSyntax…` constants of /repo/constants.go -/
inductive Reason where
  | unrecognizedInput | twoCurrentNode | filterValueGroup
  deriving Inhabited, Repr, DecidableEq

def Reason.msg : Reason → String
  | .unrecognizedInput => "unrecognized input"
  | .twoCurrentNode => "comparison between two current nodes is prohibited"
  | .filterValueGroup => "JSONPath that returns a value group is prohibited"

/-- how a run of the machine can end other than normally -/
inductive Stop where
  | syntaxErr (pos : Nat) (reason : Reason)    -- panic(p.syntaxErr(begin, reason, buffer))
  | invalidArgument (arg : String)             -- panic(ErrorInvalidArgument{argument: arg})
  | functionNotFound (text : String)           -- panic(ErrorFunctionNotFound{function: text})
  | notSupported (feature path : String)       -- panic(ErrorNotSupported{…})
  | panic (p : Panic)                          -- a Go run-time panic
  | unmodelled                                 -- an `Ext` function answered `unmodelled`
  | unrepresentable                            -- see the header
  deriving Inhabited, Repr, DecidableEq

/-- what lives on `p.params` -/
inductive Item where
  | chain (ch : List N)      -- a syntaxNode (never `[]`)
  | str (s : String)         -- string: a function name or a string literal
  | idx (b : Bound)          -- *syntaxIndexSubscript
  | sub (s : SubI)           -- *syntaxSlice…StepSubscript / *syntaxWildcardSubscript
  | query (q : Q)            -- syntaxQuery; `.exist (.proot/.pcur ch)` is a *syntaxQueryParamRoot/CurrentRoot
  | cp (p : P)               -- *syntaxBasicCompareParameter (isLiteral = the operand is not an `@`-path)
  | bool (b : Bool)
  | num (n : Int)            -- float64
  | null                     -- nil
  deriving Inhabited

structure St where
  stack : List Item := []
  saved : List (List Item) := []
  root : Option (List N) := none       -- p.root
  tb : Nat := 0                        -- begin
  te : Nat := 0                        -- end
  deriving Inhabited

structure Ctx where
  env : Env
  ext : Ext
  acc : Bool                           -- p.accessorMode
  input : Array Char                   -- buffer

abbrev M := Except Stop

/-- `text`: the runes of the current capture -/
def textOf (input : Array Char) (b e : Nat) : String :=
  String.ofList ((input.toList.drop b).take (e - b))

def St.text (c : Ctx) (st : St) : String := textOf c.input st.tb st.te

/-! ### push / pop and the type assertions -/

def push (x : Item) (st : St) : St := { st with stack := x :: st.stack }

/-- `p.pop()` -/
def pop (st : St) : M (Item × St) :=
  match st.stack with
  | [] => .error (.panic .indexOutOfRange)
  | x :: rest => .ok (x, { st with stack := rest })

/-- `.(syntaxNode)` -/
def asNode : Item → M (List N)
  | .chain (n :: rest) => .ok (n :: rest)
  | _ => .error (.panic .typeAssertion)

/-- `.(string)` -/
def asStr : Item → M String
  | .str s => .ok s
  | _ => .error (.panic .typeAssertion)

/-- `.(*syntaxIndexSubscript)` -/
def asIdx : Item → M Bound
  | .idx b => .ok b
  | _ => .error (.panic .typeAssertion)

/-- `.(syntaxSubscript)`: the subscript and its `isValueGroup()` -/
def asSubscript : Item → M (SubI × Bool)
  | .idx b => .ok (.idx b.number, false)
  | .sub s => .ok (s, match s with | .idx _ => false | _ => true)
  | _ => .error (.panic .typeAssertion)

/-- `.(*syntaxUnionQualifier)`: info, subscripts, rest of its chain -/
def asUnion : Item → M (Info × List SubI × List N)
  | .chain (.union i subs :: rest) => .ok (i, subs, rest)
  | _ => .error (.panic .typeAssertion)

/-- `.(syntaxQuery)`. In Go a *syntaxBasicCompareParameter has a `compute` method too, so the
    assertion succeeds on it; `Tree.Q` cannot hold it. -/
def asQuery : Item → M Q
  | .query q => .ok q
  | .cp _ => .error .unrepresentable
  | _ => .error (.panic .typeAssertion)

/-- `.(syntaxQueryJSONPathParameter)` -/
def asJP : Item → M P
  | .query (.exist (.proot ch)) => .ok (.proot ch)
  | .query (.exist (.pcur ch)) => .ok (.pcur ch)
  | _ => .error (.panic .typeAssertion)

/-- `.(*syntaxBasicCompareParameter)` -/
def asCP : Item → M P
  | .cp p => .ok p
  | _ => .error (.panic .typeAssertion)

/-- `.(bool)` -/
def asBool : Item → M Bool
  | .bool b => .ok b
  | _ => .error (.panic .typeAssertion)

/-! ### node updates -/

def midMapInfo (f : Info → Info) : MId → MId
  | .key i k => .key (f i) k
  | .wild i => .wild (f i)

def nMapInfo (f : Info → Info) : N → N
  | .root i => .root (f i)
  | .cur i => .cur (f i)
  | .child i k => .child (f i) k
  | .wild i => .wild (f i)
  | .multi i ids t => .multi (f i) ids t
  | .desc i a b => .desc (f i) a b
  | .union i s => .union (f i) s
  | .filter i q => .filter (f i) q
  | .ffn i n => .ffn (f i) n
  | .afn i n p => .afn (f i) n p

/-- an update that `syntaxChildMultiIdentifier` forwards to its inner identifiers and its twin -/
def nMapInfoDeep (f : Info → Info) : N → N
  | .multi i ids t => .multi (f i) (ids.map (midMapInfo f)) (t.map f)
  | n => nMapInfo f n

/-- `setLastNodeText` on one node -/
def nSetText (t : String) (n : N) : N := nMapInfoDeep (fun i => { i with text := t }) n

/-- `setAccessorMode` -/
def nSetAcc (m : Bool) (n : N) : N := nMapInfoDeep (fun i => { i with acc := m }) n

/-- `updateAccessorMode(node, mode)`: along `next` only -/
def setAccChain (m : Bool) (ch : List N) : List N := ch.map (nSetAcc m)

/-- `updateValueGroup(root)` -/
def markVg : List N → List N
  | [] => []
  | n :: rest => if (n :: rest).any (fun x => x.info.vg) then n.setVg :: rest else n :: rest

mutual
/-- `targetNode.setConnectedText(c)` and what `setConnectedText` does next for a multi-name node
    (inner identifiers and twin get the same text) and for an aggregate (its parameter chain is
    connected with the aggregate's text as postfix) -/
def connNode (c : String) : N → N
  | .afn i name p => .afn { i with conn := c } name (connChain c p)
  | .multi i ids t =>
    .multi { i with conn := c } (ids.map (midMapInfo (fun j => { j with conn := c })))
      (t.map (fun j => { j with conn := c }))
  | .root i => .root { i with conn := c }
  | .cur i => .cur { i with conn := c }
  | .child i k => .child { i with conn := c } k
  | .wild i => .wild { i with conn := c }
  | .desc i a b => .desc { i with conn := c } a b
  | .union i s => .union { i with conn := c } s
  | .filter i q => .filter { i with conn := c } q
  | .ffn i n => .ffn { i with conn := c } n
/-- `p.setConnectedText(head of ch, postfix)` -/
def connChain (pfx : String) : List N → List N
  | [] => []
  | n :: rest =>
    let rest' := connChain pfx rest
    let app := match rest' with
      | [] => pfx
      | m :: _ => m.info.conn
    connNode (n.info.text ++ app) n :: rest'
end

mutual
/-- `deleteRootIdentifier` -/
def delRoot : List N → List N
  | [] => []
  | n :: rest => delRootNode n rest
def delRootNode : N → List N → List N
  | .root i, m :: rest => (if i.vg then m.setVg else m) :: rest
  | .cur i, m :: rest => (if i.vg then m.setVg else m) :: rest
  | .afn i name p, rest => .afn i name (delRoot p) :: rest
  | n, rest => n :: rest
end

inductive HeadKind where
  | root | cur | other
  deriving DecidableEq, Repr

mutual
/-- the loop of the `jsonpathFilter` action: unwrap aggregates, look at what is inside -/
def innerHead : List N → HeadKind
  | [] => .other                        -- a nil node
  | n :: _ => innerHeadNode n
def innerHeadNode : N → HeadKind
  | .afn _ _ p => innerHead p
  | .root _ => .root
  | .cur _ => .cur
  | _ => .other
end

/-! ### helpers of jsonpath_parser.go -/

def mkInfo (c : Ctx) (text : String) (vg : Bool) : Info :=
  { text := text, conn := "", vg := vg, acc := c.acc }

/-- `saveParams` -/
def saveParams (st : St) : St :=
  match st.stack with
  | [] => st
  | _ :: _ => { st with saved := st.stack :: st.saved, stack := [] }

/-- `loadParams` -/
def loadParams (st : St) : St :=
  match st.saved with
  | [] => st
  | fr :: rest => { st with stack := st.stack ++ fr, saved := rest }

/-- one iteration of the loop of `setNodeChain` -/
def linkOne (root : List N) : Item → M (List N)
  | .chain (.afn i name _ :: tl) => .ok (.afn i name (setAccChain false (markVg root)) :: tl)
  | it => do
    let ch ← asNode it
    .ok (root ++ ch)

def linkAll (root : List N) : List Item → M (List N)
  | [] => .ok root
  | it :: rest => do
    let r ← linkOne root it
    linkAll r rest

/-- `setNodeChain` -/
def setNodeChain (st : St) : M St :=
  match st.stack.reverse with
  | [] => .ok st
  | [_] => .ok st
  | first :: rest => do
    let root ← asNode first
    let root ← linkAll root rest
    .ok { st with stack := [.chain root] }

/-- `updateRootValueGroup`: `p.params[0]` is the BOTTOM of the frame -/
def updateRootValueGroup (st : St) : M St :=
  match st.stack.reverse with
  | [] => .error (.panic .indexOutOfRange)
  | first :: rest => do
    let ch ← asNode first
    .ok { st with stack := (Item.chain (markVg ch) :: rest).reverse }

/-- `setLastNodeText` -/
def setLastNodeText (text : String) (st : St) : M St :=
  match st.stack with
  | [] => .error (.panic .indexOutOfRange)
  | top :: rest => do
    let ch ← asNode top
    match ch with
    | [] => .error (.panic .typeAssertion)
    | n :: tl => .ok { st with stack := .chain (nSetText text n :: tl) :: rest }

/-- `pushFunction` -/
def pushFunction (c : Ctx) (text name : String) (st : St) : M St :=
  match c.env.ffn name with
  | some _ => .ok (push (.chain [.ffn (mkInfo c text false) name]) st)
  | none =>
    match c.env.afn name with
    | some _ => .ok (push (.chain [.afn (mkInfo c text false) name []]) st)
    | none => .error (.functionNotFound text)

/-- `pushChildSingleIdentifier` -/
def pushChildSingle (c : Ctx) (k : String) (st : St) : St :=
  push (.chain [.child (mkInfo c k false) k]) st

/-- an inner identifier of a multi-name node: a single name or a wildcard with no successor -/
def toMId : List N → M (MId × Bool)
  | [.child i k] => .ok (.key i k, false)
  | [.wild i] => .ok (.wild i, true)
  | [] => .error (.panic .typeAssertion)
  | _ => .error .unrepresentable

/-- `pushChildMultiIdentifier` -/
def pushChildMulti (c : Ctx) (node appendNode : List N) (st : St) : M St :=
  match node with
  | .multi i ids twin :: rest => do
    let (m, w) ← toMId appendNode
    let twin' := if twin.isSome && w then twin else none
    .ok (push (.chain (.multi i (ids ++ [m]) twin' :: rest)) st)
  | _ => do
    let (m1, w1) ← toMId node
    let (m2, w2) ← toMId appendNode
    let twin := if w1 && w2 then some (mkInfo c "" true) else none
    .ok (push (.chain [.multi (mkInfo c "" true) [m1, m2] twin]) st)

/-- `pushRecursiveChildIdentifier` -/
def pushRecursiveChild (c : Ctx) (node : List N) (st : St) : St :=
  let (mr, lr) := match node with
    | .wild _ :: _ => (true, true)
    | .multi _ _ _ :: _ => (true, true)
    | .filter _ _ :: _ => (true, true)
    | .child _ _ :: _ => (true, false)
    | .union _ _ :: _ => (false, true)
    | _ => (false, false)
  push (.chain (.desc (mkInfo c ".." true) mr lr :: node)) st

/-- `_pushIndexSubscript` -/
def pushIndexSubscript (c : Ctx) (text : String) (omitted : Bool) (st : St) : M St :=
  match c.ext.atoi text with
  | some n => .ok (push (.idx ⟨n, omitted⟩) st)
  | none => .error (.invalidArgument text)

/-- `compareParameterRank` -/
def rank : P → Nat
  | .lit _ => 2
  | .proot _ => 1
  | .pcur _ => 0

def litTy : Val → LitTy
  | .num _ => .num | .jnum _ => .num | .bool _ => .bool | .str _ => .str | _ => .null

/-- the query `pushCompareEQ` pushes -/
def mkEQ (l r : P) : Q :=
  let (l, r) := if rank l > rank r then (r, l) else (l, r)
  match r with
  | .lit v => .cmp l r (.directEq (litTy v))
  | _ => .cmp l r .deepEq

def mkGE (l r : P) : Q := if rank l > rank r then .cmp r l .le else .cmp l r .ge
def mkGT (l r : P) : Q := if rank l > rank r then .cmp r l .lt else .cmp l r .gt
def mkLE (l r : P) : Q := if rank l > rank r then .cmp r l .ge else .cmp l r .le
def mkLT (l r : P) : Q := if rank l > rank r then .cmp r l .gt else .cmp l r .lt

/-- the common shape of Action28–33: pop right, pop left, push `mk left right` -/
def compareAction (mk : P → P → Q) (st : St) : M St := do
  let (r, st) ← pop st
  let r ← asCP r
  let (l, st) ← pop st
  let l ← asCP l
  .ok (push (.query (mk l r)) st)

/-- `pushCompareParameterLiteral(p.pop())` -/
def pushCompareParameterLiteral (st : St) : M St := do
  let (x, st) ← pop st
  match x with
  | .num n => .ok (push (.cp (.lit (.num n))) st)
  | .bool b => .ok (push (.cp (.lit (.bool b))) st)
  | .str s => .ok (push (.cp (.lit (.str s))) st)
  | .null => .ok (push (.cp (.lit .null)) st)
  | _ => .error .unrepresentable

def isCurP : P → Bool
  | .pcur _ => true
  | _ => false

def paramChain : P → List N
  | .proot ch => ch
  | .pcur ch => ch
  | .lit _ => []

/-! ### the 46 action blocks -/

/- Action0 (expression, first alternative)
        p.root = p.deleteRootIdentifier(p.pop().(syntaxNode))
        p.setConnectedText(p.root) -/
def act0 (_ : Ctx) (st : St) : M St := do
  let (x, st) ← pop st
  let ch ← asNode x
  .ok { st with root := some (connChain "" (delRoot ch)) }

/- Action1 (expression, second alternative)
        panic(p.syntaxErr(begin, msgErrorInvalidSyntaxUnrecognizedInput, buffer)) -/
def act1 (_ : Ctx) (st : St) : M St := .error (.syntaxErr st.tb .unrecognizedInput)

/- Action2 (continuedJsonpath)
        p.setNodeChain()
        p.updateRootValueGroup() -/
def act2 (_ : Ctx) (st : St) : M St := do
  let st ← setNodeChain st
  updateRootValueGroup st

/- Action3 (childNode `..`)
        p.pushRecursiveChildIdentifier(p.pop().(syntaxNode)) -/
def act3 (c : Ctx) (st : St) : M St := do
  let (x, st) ← pop st
  let ch ← asNode x
  .ok (pushRecursiveChild c ch st)

/- Action4 (childNode `.name`)
        p.setLastNodeText(text) -/
def act4 (c : Ctx) (st : St) : M St := setLastNodeText (st.text c) st

/- Action5 (function)
        p.pushFunction(text, p.pop().(string)) -/
def act5 (c : Ctx) (st : St) : M St := do
  let (x, st) ← pop st
  let name ← asStr x
  pushFunction c (st.text c) name st

/- Action6 (functionName)
        p.push(text) -/
def act6 (c : Ctx) (st : St) : M St := .ok (push (.str (st.text c)) st)

/- Action7 (bracketNode)
        p.setLastNodeText(text) -/
def act7 (c : Ctx) (st : St) : M St := setLastNodeText (st.text c) st

/- Action8 (rootIdentifier)
        p.pushRootIdentifier() -/
def act8 (c : Ctx) (st : St) : M St := .ok (push (.chain [.root (mkInfo c "$" false)]) st)

/- Action9 (currentRootIdentifier)
        p.pushCurrentRootIdentifier() -/
def act9 (c : Ctx) (st : St) : M St := .ok (push (.chain [.cur (mkInfo c "@" false)]) st)

/- Action10 (dotChildIdentifier)
        p.pushChildSingleIdentifier(p.unescape(text)) -/
def act10 (c : Ctx) (st : St) : M St := .ok (pushChildSingle c (c.ext.unescape (st.text c)) st)

/- Action11 (bracketChildIdentifier)
        identifier2 := p.pop().(syntaxNode)
        identifier1 := p.pop().(syntaxNode)
        p.pushChildMultiIdentifier(identifier1, identifier2) -/
def act11 (c : Ctx) (st : St) : M St := do
  let (x2, st) ← pop st
  let id2 ← asNode x2
  let (x1, st) ← pop st
  let id1 ← asNode x1
  pushChildMulti c id1 id2 st

/- Action12 (wildcardIdentifier)
        p.pushChildWildcardIdentifier() -/
def act12 (c : Ctx) (st : St) : M St := .ok (push (.chain [.wild (mkInfo c "*" true)]) st)

/- Action13 (singleQuotedNodeIdentifier)
        p.pushChildSingleIdentifier(p.unescapeSingleQuotedString(text)) -/
def act13 (c : Ctx) (st : St) : M St :=
  match c.ext.unescapeSingle (st.text c) with
  | some k => .ok (pushChildSingle c k st)
  | none => .error (.invalidArgument (st.text c))

/- Action14 (doubleQuotedNodeIdentifier)
        p.pushChildSingleIdentifier(p.unescapeDoubleQuotedString(text)) -/
def act14 (c : Ctx) (st : St) : M St :=
  match c.ext.unescapeDouble (st.text c) with
  | some k => .ok (pushChildSingle c k st)
  | none => .error (.invalidArgument (st.text c))

/- Action15 (union)
        childIndexUnion := p.pop().(*syntaxUnionQualifier)
        parentIndexUnion := p.pop().(*syntaxUnionQualifier)
        parentIndexUnion.merge(childIndexUnion)
        parentIndexUnion.setValueGroup()
        p.push(parentIndexUnion) -/
def act15 (_ : Ctx) (st : St) : M St := do
  let (x, st) ← pop st
  let (_, csubs, _) ← asUnion x
  let (y, st) ← pop st
  let (i, psubs, rest) ← asUnion y
  .ok (push (.chain (.union { i with vg := true } (psubs ++ csubs) :: rest)) st)

/- Action16 (index: slice)
        step  := p.pop().(*syntaxIndexSubscript)
        end   := p.pop().(*syntaxIndexSubscript)
        start := p.pop().(*syntaxIndexSubscript)
        if step.isOmitted { step.number = 1 }
        if step.number >= 0 { p.pushSlicePositiveStepSubscript(start, end, step) }
        else { p.pushSliceNegativeStepSubscript(start, end, step) } -/
def act16 (_ : Ctx) (st : St) : M St := do
  let (x, st) ← pop st
  let step ← asIdx x
  let (y, st) ← pop st
  let e ← asIdx y
  let (z, st) ← pop st
  let s ← asIdx z
  let step : Bound := if step.omitted then { step with number := 1 } else step
  if step.number ≥ 0 then .ok (push (.sub (.slicePos s e step)) st)
  else .ok (push (.sub (.sliceNeg s e step)) st)

/- Action17 (index: number)
        p.pushIndexSubscript(text) -/
def act17 (c : Ctx) (st : St) : M St := pushIndexSubscript c (st.text c) false st

/- Action18 (index: `*`)
        p.pushWildcardSubscript() -/
def act18 (_ : Ctx) (st : St) : M St := .ok (push (.sub .wild) st)

/- Action19 (index)
        p.pushUnionQualifier(p.pop().(syntaxSubscript)) -/
def act19 (c : Ctx) (st : St) : M St := do
  let (x, st) ← pop st
  let (s, vg) ← asSubscript x
  .ok (push (.chain [.union (mkInfo c "" vg) [s]]) st)

/- Action20 (slice: step left out together with its colon)
        p.pushIndexSubscript(`1`) -/
def act20 (c : Ctx) (st : St) : M St := pushIndexSubscript c "1" false st

/- Action21 (anyIndex)
        if len(text) > 0 { p.pushIndexSubscript(text) } else { p.pushOmittedIndexSubscript(`0`) } -/
def act21 (c : Ctx) (st : St) : M St :=
  if (st.text c).length > 0 then pushIndexSubscript c (st.text c) false st
  else pushIndexSubscript c "0" true st

/- Action22 (script)
        p.pushScriptQualifier(text) -/
def act22 (c : Ctx) (st : St) : M St := .error (.notSupported "script" ("[(" ++ st.text c ++ ")]"))

/- Action23 (filter)
        p.pushFilterQualifier(p.pop().(syntaxQuery)) -/
def act23 (c : Ctx) (st : St) : M St := do
  let (x, st) ← pop st
  let q ← asQuery x
  .ok (push (.chain [.filter (mkInfo c "" true) q]) st)

/- Action24 (query: `||`)
        rightQuery := p.pop().(syntaxQuery)
        leftQuery := p.pop().(syntaxQuery)
        p.pushLogicalOr(leftQuery, rightQuery) -/
def act24 (_ : Ctx) (st : St) : M St := do
  let (x, st) ← pop st
  let r ← asQuery x
  let (y, st) ← pop st
  let l ← asQuery y
  .ok (push (.query (.or l r)) st)

/- Action25 (andQuery: `&&`)
        rightQuery := p.pop().(syntaxQuery)
        leftQuery := p.pop().(syntaxQuery)
        p.pushLogicalAnd(leftQuery, rightQuery) -/
def act25 (_ : Ctx) (st : St) : M St := do
  let (x, st) ← pop st
  let r ← asQuery x
  let (y, st) ← pop st
  let l ← asQuery y
  .ok (push (.query (.and l r)) st)

/-- the test of Action26 on the value it popped and pushed back -/
def twoCurrentNodes : Item → Bool
  | .query (.not (.cmp l r _)) => isCurP l && isCurP r
  | .query (.cmp l r _) => isCurP l && isCurP r
  | _ => false

/- Action26 (basicQuery: comparator)
        query := p.pop()
        p.push(query)
        if logicalNot, ok := query.(*syntaxLogicalNot); ok { query = (*logicalNot).query }
        if checkQuery, ok := query.(*syntaxBasicCompareQuery); ok {
            _, leftIsCurrentRoot := checkQuery.leftParam.param.(*syntaxQueryParamCurrentRoot)
            _, rightIsCurrentRoot := checkQuery.rightParam.param.(*syntaxQueryParamCurrentRoot)
            if leftIsCurrentRoot && rightIsCurrentRoot {
                panic(p.syntaxErr(begin, msgErrorInvalidSyntaxTwoCurrentNode, buffer)) } } -/
def act26 (_ : Ctx) (st : St) : M St := do
  let (x, st') ← pop st
  let st := push x st'
  if twoCurrentNodes x then .error (.syntaxErr st.tb .twoCurrentNode) else .ok st

/- Action27 (basicQuery: existence test)
        _ = p.pop()
        jsonpathFilter := p.pop().(syntaxQuery)
        if text[0:1] == `!` { p.pushLogicalNot(jsonpathFilter) } else { p.push(jsonpathFilter) } -/
def act27 (c : Ctx) (st : St) : M St := do
  let (_, st) ← pop st
  let (y, st) ← pop st
  let q ← asQuery y
  match (st.text c).toList with
  | [] => .error (.panic .sliceBounds)
  | ch :: _ => if ch == '!' then .ok (push (.query (.not q)) st) else .ok (push (.query q) st)

/- Action28 (comparator `==`)
        rightParam := p.pop().(*syntaxBasicCompareParameter)
        leftParam := p.pop().(*syntaxBasicCompareParameter)
        p.pushCompareEQ(leftParam, rightParam) -/
def act28 (_ : Ctx) (st : St) : M St := compareAction mkEQ st

/- Action29 (comparator `!=`)  … p.pushCompareNE(leftParam, rightParam)
   pushCompareNE: p.pushCompareEQ(l, r); p.push(&syntaxLogicalNot{query: p.pop().(syntaxQuery)}) -/
def act29 (_ : Ctx) (st : St) : M St := compareAction (fun l r => .not (mkEQ l r)) st

/- Action30 (comparator `<=`)  … p.pushCompareLE(leftParam, rightParam) -/
def act30 (_ : Ctx) (st : St) : M St := compareAction mkLE st

/- Action31 (comparator `<`)   … p.pushCompareLT(leftParam, rightParam) -/
def act31 (_ : Ctx) (st : St) : M St := compareAction mkLT st

/- Action32 (comparator `>=`)  … p.pushCompareGE(leftParam, rightParam) -/
def act32 (_ : Ctx) (st : St) : M St := compareAction mkGE st

/- Action33 (comparator `>`)   … p.pushCompareGT(leftParam, rightParam) -/
def act33 (_ : Ctx) (st : St) : M St := compareAction mkGT st

/- Action34 (comparator `=~`)
        leftParam := p.pop().(*syntaxBasicCompareParameter)
        p.pushCompareRegex(leftParam, text) -/
def act34 (c : Ctx) (st : St) : M St := do
  let (x, st) ← pop st
  let l ← asCP x
  match c.ext.regexCompile (st.text c) with
  | .ok => .ok (push (.query (.cmp l (.lit (.str "regex")) (.regex (st.text c)))) st)
  | .err => .error (.invalidArgument (st.text c))
  | .unmodelled => .error .unmodelled

/- Action35 (qParam: literal)
        p.pushCompareParameterLiteral(p.pop()) -/
def act35 (_ : Ctx) (st : St) : M St := pushCompareParameterLiteral st

/- Action36 (qNumericParam: literal)
        p.pushCompareParameterLiteral(p.pop()) -/
def act36 (_ : Ctx) (st : St) : M St := pushCompareParameterLiteral st

/- Action37 (singleJsonpathFilter)
        isLiteral := p.pop().(bool)
        param := p.pop().(syntaxQueryJSONPathParameter)
        if param.isValueGroupParameter() {
            panic(p.syntaxErr(begin, msgErrorInvalidSyntaxFilterValueGroup, buffer)) }
        p.pushBasicCompareParameter(param.(syntaxQuery), isLiteral) -/
def act37 (_ : Ctx) (st : St) : M St := do
  let (x, st) ← pop st
  let isLit ← asBool x
  let (y, st) ← pop st
  let p ← asJP y
  if chainVg (paramChain p) then .error (.syntaxErr st.tb .filterValueGroup)
  else if isLit != !isCurP p then .error .unrepresentable
  else .ok (push (.cp p) st)

/- Action38 (jsonpathFilter, before the parameter)
        p.saveParams() -/
def act38 (_ : Ctx) (st : St) : M St := .ok (saveParams st)

/- Action39 (jsonpathFilter, after the parameter)
        p.loadParams()
        node := p.pop().(syntaxNode)
        checkNode := node
        for { aggregateFunction, ok := checkNode.(*syntaxAggregateFunction)
              if !ok { break }
              checkNode = aggregateFunction.param }
        switch checkNode.(type) {
        case *syntaxRootIdentifier:
            p.pushCompareParameterRoot(p.deleteRootIdentifier(node)); p.push(true)
        case *syntaxCurrentRootIdentifier:
            p.pushCompareParameterCurrentRoot(p.deleteRootIdentifier(node)); p.push(false) } -/
def act39 (_ : Ctx) (st : St) : M St := do
  let st := loadParams st
  let (x, st) ← pop st
  let ch ← asNode x
  match innerHead ch with
  | .root => .ok (push (.bool true) (push (.query (.exist (.proot (setAccChain false (delRoot ch))))) st))
  | .cur => .ok (push (.bool false) (push (.query (.exist (.pcur (setAccChain false (delRoot ch))))) st))
  | .other => .ok st

/- Action40 (lNumber)
        p.push(p.toFloat(text)) -/
def act40 (c : Ctx) (st : St) : M St :=
  match c.ext.parseFloat (st.text c) with
  | .ok n => .ok (push (.num n) st)
  | .err => .error (.invalidArgument (st.text c))
  | .unmodelled => .error .unmodelled

/- Action41 (lBool)  p.push(true) -/
def act41 (_ : Ctx) (st : St) : M St := .ok (push (.bool true) st)

/- Action42 (lBool)  p.push(false) -/
def act42 (_ : Ctx) (st : St) : M St := .ok (push (.bool false) st)

/- Action43 (lString, single quotes)  p.push(p.unescape(text)) -/
def act43 (c : Ctx) (st : St) : M St := .ok (push (.str (c.ext.unescape (st.text c))) st)

/- Action44 (lString, double quotes)  p.push(p.unescape(text)) -/
def act44 (c : Ctx) (st : St) : M St := .ok (push (.str (c.ext.unescape (st.text c))) st)

/- Action45 (lNull)  p.push(nil) -/
def act45 (_ : Ctx) (st : St) : M St := .ok (push .null st)

/-- the `switch token.pegRule` of `Execute()`; a rule that is not an action has no case -/
def act (c : Ctx) : Nat → St → M St
  | 0 => act0 c | 1 => act1 c | 2 => act2 c | 3 => act3 c | 4 => act4 c
  | 5 => act5 c | 6 => act6 c | 7 => act7 c | 8 => act8 c | 9 => act9 c
  | 10 => act10 c | 11 => act11 c | 12 => act12 c | 13 => act13 c | 14 => act14 c
  | 15 => act15 c | 16 => act16 c | 17 => act17 c | 18 => act18 c | 19 => act19 c
  | 20 => act20 c | 21 => act21 c | 22 => act22 c | 23 => act23 c | 24 => act24 c
  | 25 => act25 c | 26 => act26 c | 27 => act27 c | 28 => act28 c | 29 => act29 c
  | 30 => act30 c | 31 => act31 c | 32 => act32 c | 33 => act33 c | 34 => act34 c
  | 35 => act35 c | 36 => act36 c | 37 => act37 c | 38 => act38 c | 39 => act39 c
  | 40 => act40 c | 41 => act41 c | 42 => act42 c | 43 => act43 c | 44 => act44 c
  | 45 => act45 c
  | _ => fun st => .ok st

/-- one iteration of the loop of `Execute()` -/
def step (c : Ctx) (st : St) : Tok → M St
  | .text b e => .ok { st with tb := b, te := e }
  | .action i => act c i st

def execFrom (c : Ctx) : St → List Tok → M St
  | st, [] => .ok st
  | st, t :: rest => do
    let st ← step c st t
    execFrom c st rest

/-- `parser.Execute()` followed by `root := parser.jsonPathParser.root` -/
def exec (c : Ctx) (toks : List Tok) : M (List N) := do
  let st ← execFrom c {} toks
  match st.root with
  | some (n :: rest) => .ok (n :: rest)
  | _ => .error (.panic .nilRoot)

end JPV.Peg
