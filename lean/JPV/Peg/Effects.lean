/-
Effects — an abstract interpretation of the action stack machine over stack TAGS (DESIGN §7/C02):
a checker that walks the (regenerated) grammar and verifies that every action finds on the stack
what it pops. Its soundness with respect to `Peg.run` + `Actions.execFrom` is proved in
JPV/Lemmas/Effects.lean; `C02_actions_total` is that theorem applied to `Gen.grammar`, with the
checker's verdict established by `decide`.

Abstract state: the tags of the topmost entries of the current frame (`known`, top first), what lies
below them (`base`), whether `saveParams` has put a frame aside that the matching `loadParams` will
bring back (`sv`), whether the current capture is known to be non-empty (`capNE`, needed by
`text[0:1]` in Action27) and whether `p.root` has been set (`rootSet`).
-/
import JPV.Peg.Actions
namespace JPV.Peg

/-- what a stack segment is known to be; every tag denotes one entry, `jpb` two -/
inductive Tag where
  | node      -- a syntaxNode
  | nodeP     -- a syntaxNode whose innermost head (below aggregates) is `$` or `@`
  | ident     -- a single name or wildcard identifier without successor
  | idm       -- `ident`, or a multi-name identifier
  | union     -- *syntaxUnionQualifier
  | str       -- string
  | idx       -- *syntaxIndexSubscript
  | subs      -- any syntaxSubscript
  | query     -- syntaxQuery
  | jpb       -- TWO entries: a bool on top of a *syntaxQueryParamRoot/CurrentRoot, the bool saying "is `$`"
  | cp        -- *syntaxBasicCompareParameter
  | lit       -- float64 / bool / string / nil
  deriving DecidableEq, Repr, Inhabited

/-- `a ≤ b`: every segment that is an `a` is a `b` -/
def Tag.le : Tag → Tag → Bool
  | .nodeP, .node => true
  | .ident, .node => true
  | .ident, .idm => true
  | .idm, .node => true
  | .union, .node => true
  | .idx, .subs => true
  | a, b => a == b

def Tag.lub (a b : Tag) : Option Tag :=
  if a.le b then some b else if b.le a then some a
  else if a.le .node && b.le .node then some .node else none

/-- what lies below the known entries -/
inductive Base where
  | bottom (top : Bool)               -- nothing; `top`: `p.paramsList` is empty as well
  | nodesBelow (p : Bool) (top : Bool)   -- one or more syntaxNodes and nothing else (`p`: the lowest is a `nodeP`)
  | rest                            -- an unknown rest R, with: R non-empty or `p.paramsList` empty
  deriving DecidableEq, Repr, Inhabited

structure AState where
  known : List Tag
  base : Base
  sv : Option (List Tag × Base)       -- the frame `saveParams` put aside
  capNE : Bool
  rootSet : Bool
  deriving DecidableEq, Repr, Inhabited

def listLe : List Tag → List Tag → Bool
  | [], [] => true
  | a :: as, b :: bs => a.le b && listLe as bs
  | _, _ => false

/-- `A ⊑ B`: every concrete state described by `A` is described by `B` -/
def AState.le (A B : AState) : Bool :=
  listLe A.known B.known && A.base == B.base && A.sv == B.sv &&
  (!B.capNE || A.capNE) && (!B.rootSet || A.rootSet)

def listLub : List Tag → List Tag → Option (List Tag)
  | [], [] => some []
  | a :: as, b :: bs =>
    match a.lub b, listLub as bs with
    | some c, some cs => some (c :: cs)
    | _, _ => none
  | _, _ => none

def AState.join (A B : AState) : Option AState :=
  match listLub A.known B.known with
  | some k =>
    if A.base == B.base && A.sv == B.sv then
      some { known := k, base := A.base, sv := A.sv, capNE := A.capNE && B.capNE, rootSet := A.rootSet && B.rootSet }
    else none
  | none => none

/-- take `pops` (top first) off the known entries: the actual tags must be below the required ones -/
def takeTags : List Tag → List Tag → Option (List Tag)
  | [], ks => some ks
  | p :: ps, k :: ks => if k.le p then takeTags ps ks else none
  | _ :: _, [] => none

/-- the stack effect of the actions that just pop and push: (pops, pushes), top first -/
def actSig : Nat → Option (List Tag × List Tag)
  | 1 => some ([], [])                 -- always panics with the documented syntax error
  | 3 => some ([.node], [.node])
  | 5 => some ([.str], [.node])
  | 6 => some ([], [.str])
  | 8 => some ([], [.nodeP])
  | 9 => some ([], [.nodeP])
  | 10 => some ([], [.ident])
  | 11 => some ([.ident, .idm], [.idm])
  | 12 => some ([], [.ident])
  | 13 => some ([], [.ident])
  | 14 => some ([], [.ident])
  | 15 => some ([.union, .union], [.union])
  | 16 => some ([.idx, .idx, .idx], [.subs])
  | 17 => some ([], [.idx])
  | 18 => some ([], [.subs])
  | 19 => some ([.subs], [.union])
  | 20 => some ([], [.idx])
  | 21 => some ([], [.idx])
  | 22 => some ([], [.node])           -- always panics with ErrorNotSupported
  | 23 => some ([.query], [.node])
  | 24 => some ([.query, .query], [.query])
  | 25 => some ([.query, .query], [.query])
  | 26 => some ([.query], [.query])
  | 28 => some ([.cp, .cp], [.query])
  | 29 => some ([.cp, .cp], [.query])
  | 30 => some ([.cp, .cp], [.query])
  | 31 => some ([.cp, .cp], [.query])
  | 32 => some ([.cp, .cp], [.query])
  | 33 => some ([.cp, .cp], [.query])
  | 34 => some ([.cp], [.query])
  | 35 => some ([.lit], [.cp])
  | 36 => some ([.lit], [.cp])
  | 37 => some ([.jpb], [.cp])
  | 40 => some ([], [.lit])
  | 41 => some ([], [.lit])
  | 42 => some ([], [.lit])
  | 43 => some ([], [.lit])
  | 44 => some ([], [.lit])
  | 45 => some ([], [.lit])
  | _ => none

/-- abstract transfer function of Action i -/
def actEff (i : Nat) (A : AState) : Option AState :=
  match i with
  | 0 =>                               -- pop the node, set p.root
    match takeTags [.node] A.known with
    | some ks => some { A with known := ks, rootSet := true }
    | none => none
  | 2 =>                               -- setNodeChain, updateRootValueGroup: the whole frame are nodes
    match A.known, A.base with
    | [], .nodesBelow p top => some { A with known := [if p then .nodeP else .node], base := .bottom top }
    | _, _ => none
  | 4 | 7 =>                           -- setLastNodeText: the top entry is a node; it keeps its tag
    match A.known with
    | k :: _ => if k.le .node then some A else none
    | [] => none
  | 27 =>                              -- needs a non-empty capture
    if A.capNE then
      match takeTags [.jpb] A.known with
      | some ks => some { A with known := .query :: ks }
      | none => none
    else none
  | 38 =>                              -- saveParams: needs "frame non-empty or paramsList empty"
    match A.sv with
    | some _ => none
    | none =>
      if !A.known.isEmpty || A.base != .bottom false then
        some { A with known := [], base := .bottom false, sv := some (A.known, A.base) }
      else none
  | 39 =>                              -- loadParams, then pop the parameter's node, push (param, bool)
    match A.sv, A.known, A.base with
    | some (k0, b0), [k], .bottom false =>
      if k.le .nodeP then some { A with known := .jpb :: k0, base := b0, sv := none } else none
    | _, _, _ => none
  | i =>
    match actSig i with
    | some (pops, pushes) =>
      match takeTags pops A.known with
      | some ks => some { A with known := pushes ++ ks }
      | none => none
    | none => none

/-- one node directly above the bottom / above a run of nodes is a (longer) run of nodes -/
def AState.absorb (A : AState) : Option AState :=
  match A.known, A.base with
  | [k], .bottom top => if k.le .node then some { A with known := [], base := .nodesBelow (k.le .nodeP) top } else none
  | [k], .nodesBelow p top => if k.le .node then some { A with known := [], base := .nodesBelow p top } else none
  | _, _ => none

/-- rule summaries: name ↦ (pops, pushes); the body is checked once, for an unknown rest of the stack -/
abbrev Table := List (String × List Tag × List Tag)

structure Tables where
  sums : Table                 -- rule summaries (cut the recursion of the grammar)
  pureRules : List String      -- rules whose derivations contain no action and no capture
  nnRules : List String        -- rules that consume at least one character when they succeed

/-- no action and no capture can be reached -/
def PE.pure (pr : List String) : PE → Bool
  | .act _ => false
  | .cap _ => false
  | .rule n => pr.contains n
  | .seq a b => a.pure pr && b.pure pr
  | .alt a b => a.pure pr && b.pure pr
  | .star a => a.pure pr
  | .plus a => a.pure pr
  | .opt a => a.pure pr
  | .not _ => true             -- `!e` and `&e` discard the tokens of `e`
  | .and _ => true
  | _ => true

/-- consumes at least one character when it succeeds -/
def PE.nn (nr : List String) : PE → Bool
  | .lit s => !s.toList.isEmpty
  | .cls _ _ => true
  | .any => true
  | .seq a b => a.nn nr || b.nn nr
  | .alt a b => a.nn nr && b.nn nr
  | .plus a => a.nn nr
  | .cap a => a.nn nr
  | .rule n => nr.contains n
  | _ => false

def applySum (pre post : List Tag) (A : AState) : Option AState :=
  match takeTags pre A.known with
  | some ks =>
    if !ks.isEmpty || A.base != .bottom false then
      some { A with known := post ++ ks, capNE := false, rootSet := false }
    else none
  | none => none

/-- `C` is an invariant of a loop whose body has the abstract effect `chk`: the body maps `C`
    into `C`, possibly after `absorb` -/
def invOK (chk : AState → Option AState) (C : AState) : Bool :=
  match chk C with
  | some C' => C'.le C || (match C'.absorb with | some C'' => C''.le C | none => false)
  | none => false

/-- `e*`: look for an invariant that covers `A` — `A` itself, what one round of the body makes of it
    (if that is above `A`), or `A` with its single node absorbed into the run of nodes below -/
def starCheck (chk : AState → Option AState) (A : AState) : Option AState :=
  let A1 := { A with capNE := false }
  if invOK chk A1 then some A1 else
  let widened : Option AState := match chk A1 with
    | some A' =>
      let A'' := { A' with capNE := false }
      if A1.le A'' && invOK chk A'' then some A'' else none
    | none => none
  match widened with
  | some r => some r
  | none =>
    match A1.absorb with
    | some A2 => if invOK chk A2 then some A2 else none
    | none => none

/-- the checker: the abstract state after a successful match of `e` started in `A` -/
def check (T : Tables) (g : Grammar) : Nat → PE → AState → Option AState
  | 0, _, _ => none
  | cf + 1, e, A =>
    if e.pure T.pureRules then some A else
    match e with
    | .act i => actEff i A
    | .cap a => (check T g cf a A).map (fun A' => { A' with capNE := a.nn T.nnRules })
    | .seq a b => (check T g cf a A).bind (check T g cf b)
    | .alt a b =>
      match check T g cf a A, check T g cf b A with
      | some A1, some A2 => A1.join A2
      | _, _ => none
    | .star a => starCheck (check T g cf a) A
    | .plus a => (check T g cf a A).bind (check T g cf (.star a))
    | .opt a =>
      let A1 := { A with capNE := false }
      match check T g cf a A with
      | some A' => if A'.le A1 then some A1 else none
      | none => none
    | .rule n =>
      match T.sums.lookup n with
      | some (pre, post) => applySum pre post A
      | none => check T g cf (ruleBody g n) A
    | _ => some A

def initState : AState := { known := [], base := .bottom true, sv := none, capNE := false, rootSet := false }

def polyState (known : List Tag) : AState :=
  { known := known, base := .rest, sv := none, capNE := false, rootSet := false }

def checkFuel : Nat := 64

/-- every summary is justified by its rule body, for an unknown rest of the stack -/
def sumsOK (T : Tables) (g : Grammar) : Bool :=
  T.sums.all (fun (n, pre, post) =>
    match check T g checkFuel (ruleBody g n) (polyState pre) with
    | some A' => A'.le (polyState post) | none => false)

def pureOK (T : Tables) (g : Grammar) : Bool :=
  T.pureRules.all (fun n => (ruleBody g n).pure T.pureRules)

def nnOK (T : Tables) (g : Grammar) : Bool :=
  T.nnRules.all (fun n => (ruleBody g n).nn T.nnRules)

/-- the tables for jsonpath.peg (the proofs never look inside: they only use `tablesOK`) -/
def jsonpathTables : Tables where
  sums := [("jsonpathFilter", [], [.jpb]), ("query", [], [.query])]
  pureRules := ["END", "space", "signsWithoutHyphenUnderscore", "hexDigits", "hexDigit", "indexNumber",
    "sep", "sepSlice", "command", "logicOr", "logicAnd", "logicNot", "regex", "squareBracketStart",
    "squareBracketEnd", "scriptStart", "scriptEnd", "filterStart", "filterEnd", "subQueryStart", "subQueryEnd"]
  nnRules := ["jsonpathFilter", "jsonpathParameter", "parameterRootNode", "rootIdentifier", "currentRootIdentifier"]

end JPV.Peg
