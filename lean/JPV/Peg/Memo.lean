/-
Peg/Memo — the PACKRAT interpreter `runM`: `Peg.run` with the memo table of the generated parser (L22, C02/C17).

jsonpath.peg.go memoises every rule function by (rule number, position):

    _rules[ruleX] = func() bool {
        if memoized, ok := memoization[memoKey{X, position}]; ok { return memoizedResult(memoized) }
        position0, tokenIndex0 := position, tokenIndex
        …body…
        memoize(X, position0, tokenIndex0, true);  return true      // the tokens produced + the end position
    l0: memoize(X, position0, tokenIndex0, false); return false     // memo{Matched: false}
    }

`runM` threads exactly that table through the interpreter: a `.rule x` at `pos` first looks (x, pos) up; a hit
returns the stored `Result` (end position and tokens, or `fail`); a miss evaluates the body and stores what it
returned — on success and on failure.  (`outOfFuel` is the model's own limit, not a result: it is not stored.)
Only rule bodies are memoised, sub-expressions are not — as in the generated code.

The state also carries two counters that no result depends on:
  `steps` — interpreter calls (every `runM` call with fuel left),  `evals` — rule BODIES evaluated (memo misses).

The table is abstract (`MemoTable`: `find?`/`insert` + the two laws the proofs use) so that the same function
runs on an association list (kernel-evaluable: `ListMemo`, below) and on `Std.HashMap` (Peg/MemoHash.lean, the
driver `jpv-pegm`).  Lemmas/PegMemo*.lean: `runM` returns what `run` returns (memoisation is transparent), it
evaluates every (rule, position) at most once, and the number of steps is bounded by `stepBound` below.

`runC` is the plain interpreter with the same step counter (for comparison only).
-/
import JPV.Peg.Peg
namespace JPV.Peg

/-- a memo table: finite map (rule name, position) ↦ Result -/
class MemoTable (T : Type) where
  empty : T
  find? : T → String → Nat → Option Result
  insert : T → String → Nat → Result → T
  find?_empty : ∀ x q, find? empty x q = none
  find?_insert : ∀ t x q v y p,
    find? (insert t x q v) y p = if x = y ∧ q = p then some v else find? t y p

structure MState (T : Type) where
  table : T
  /-- rule bodies evaluated (memo misses) -/
  evals : Nat
  /-- interpreter calls -/
  steps : Nat

namespace MState
variable {T : Type}

def init [MemoTable T] : MState T := ⟨MemoTable.empty, 0, 0⟩

@[inline] def tick (st : MState T) : MState T := { st with steps := st.steps + 1 }
@[inline] def tickEval (st : MState T) : MState T := { st with steps := st.steps + 1, evals := st.evals + 1 }
@[inline] def store [MemoTable T] (st : MState T) (x : String) (q : Nat) (r : Result) : MState T :=
  { st with table := MemoTable.insert st.table x q r }

end MState

/-- `run` with the memo table of the generated parser and the two counters -/
def runM {T : Type} [MemoTable T] (g : Grammar) : Nat → PE → Array Char → Nat → MState T → Result × MState T
  | 0, _, _, _, st => (.outOfFuel, st)
  | _ + 1, .lit s, input, pos, st =>
    (if matchLit input s.toList pos then .ok (pos + s.length) [] else .fail, st.tick)
  | _ + 1, .cls neg rs, input, pos, st =>
    (match input[pos]? with
     | some c => if inRanges c rs != neg then .ok (pos + 1) [] else .fail
     | none => .fail, st.tick)
  | _ + 1, .any, input, pos, st =>
    (if pos < input.size then .ok (pos + 1) [] else .fail, st.tick)
  | f + 1, .seq a b, input, pos, st =>
    match runM g f a input pos st.tick with
    | (.ok p t, st1) =>
      match runM g f b input p st1 with
      | (.ok p' t', st2) => (.ok p' (t ++ t'), st2)
      | r => r
    | r => r
  | f + 1, .alt a b, input, pos, st =>
    match runM g f a input pos st.tick with
    | (.fail, st1) => runM g f b input pos st1
    | r => r
  | f + 1, .star a, input, pos, st =>
    match runM g f a input pos st.tick with
    | (.fail, st1) => (.ok pos [], st1)
    | (.outOfFuel, st1) => (.outOfFuel, st1)
    | (.ok p t, st1) =>
      match runM g f (.star a) input p st1 with
      | (.ok p' t', st2) => (.ok p' (t ++ t'), st2)
      | r => r
  | f + 1, .plus a, input, pos, st =>
    match runM g f a input pos st.tick with
    | (.ok p t, st1) =>
      match runM g f (.star a) input p st1 with
      | (.ok p' t', st2) => (.ok p' (t ++ t'), st2)
      | r => r
    | r => r
  | f + 1, .opt a, input, pos, st =>
    match runM g f a input pos st.tick with
    | (.fail, st1) => (.ok pos [], st1)
    | r => r
  | f + 1, .not a, input, pos, st =>
    match runM g f a input pos st.tick with
    | (.fail, st1) => (.ok pos [], st1)
    | (.ok _ _, st1) => (.fail, st1)
    | (.outOfFuel, st1) => (.outOfFuel, st1)
  | f + 1, .and a, input, pos, st =>
    match runM g f a input pos st.tick with
    | (.ok _ _, st1) => (.ok pos [], st1)
    | r => r
  | f + 1, .rule name, input, pos, st =>
    match g.lookup name with
    | none => (.fail, st.tick)                       -- `ruleBody` of an undefined rule never matches
    | some body =>
      match MemoTable.find? st.table name pos with
      | some r => (r, st.tick)                       -- memoizedResult
      | none =>
        match runM g f body input pos st.tickEval with
        | (.outOfFuel, st1) => (.outOfFuel, st1)
        | (r, st1) => (r, st1.store name pos r)      -- memoize(rule, position0, …, matched)
  | f + 1, .cap a, input, pos, st =>
    match runM g f a input pos st.tick with
    | (.ok p t, st1) => (.ok p (t ++ [.text pos p]), st1)
    | r => r
  | _ + 1, .act i, _, pos, st => (.ok pos [.action i], st.tick)

/-! ### the cost model -/

/-- steps one evaluation of `e` performs ITSELF at a position with `m` characters left: a rule reference counts
    1 (its body is charged to the (rule, position) pair — once); `a*` iterates at most `m` times and fails once -/
def work : PE → Nat → Nat
  | .seq a b, m => 1 + work a m + work b m
  | .alt a b, m => 1 + work a m + work b m
  | .star a, m => (m + 1) * (1 + work a m)
  | .plus a, m => 1 + work a m + (m + 1) * (1 + work a m)
  | .opt a, m => 1 + work a m
  | .not a, m => 1 + work a m
  | .and a, m => 1 + work a m
  | .cap a, m => 1 + work a m
  | _, _ => 1

/-- Σ over the rules and the positions 0..n of the work of the rule's body there -/
def tableWork (g : Grammar) (n : Nat) : Nat :=
  (g.map fun r => ((List.range (n + 1)).map fun q => work (ruleBody g r.1) (n - q)).sum).sum

/-- bound on the steps of `runM` started with an empty table on `e` at position 0 of an input of `n` characters -/
def stepBound (g : Grammar) (e : PE) (n : Nat) : Nat := work e n + tableWork g n

/-- Σ over the rules of the work of the body with no character left: the constant of the quadratic bound -/
def grammarConst (g : Grammar) : Nat := (g.map fun r => work (ruleBody g r.1) 0).sum

/-- nesting depth of `*`/`+` in an expression: `work e m` is a polynomial in `m` of this degree -/
def starDepth : PE → Nat
  | .seq a b => max (starDepth a) (starDepth b)
  | .alt a b => max (starDepth a) (starDepth b)
  | .star a => starDepth a + 1
  | .plus a => starDepth a + 1
  | .opt a => starDepth a
  | .not a => starDepth a
  | .and a => starDepth a
  | .cap a => starDepth a
  | _ => 0

/-! ### the association-list table (kernel-evaluable) -/

/-- keyed (position, rule name): most mismatches are decided by comparing two numbers -/
abbrev ListMemo := List ((Nat × String) × Result)

instance : MemoTable ListMemo where
  empty := []
  find? t x q := t.lookup (q, x)
  insert t x q v := ((q, x), v) :: t
  find?_empty _ _ := rfl
  find?_insert t x q v y p := by
    simp only [List.lookup_cons]
    by_cases h : x = y ∧ q = p
    · obtain ⟨rfl, rfl⟩ := h; simp
    · rw [if_neg h]
      have : ((p, y) == (q, x)) = false := by
        apply Bool.eq_false_iff.mpr
        intro hb
        have := eq_of_beq hb
        simp only [Prod.mk.injEq] at this
        exact h ⟨this.2.symm, this.1.symm⟩
      rw [this]

/-! ### the plain interpreter with a step counter (comparison only) -/

/-- `run` that also counts its calls -/
def runC (g : Grammar) : Nat → PE → Array Char → Nat → Nat → Result × Nat
  | 0, _, _, _, n => (.outOfFuel, n)
  | f + 1, .seq a b, input, pos, n =>
    match runC g f a input pos (n + 1) with
    | (.ok p t, n1) =>
      match runC g f b input p n1 with
      | (.ok p' t', n2) => (.ok p' (t ++ t'), n2)
      | r => r
    | r => r
  | f + 1, .alt a b, input, pos, n =>
    match runC g f a input pos (n + 1) with
    | (.fail, n1) => runC g f b input pos n1
    | r => r
  | f + 1, .star a, input, pos, n =>
    match runC g f a input pos (n + 1) with
    | (.fail, n1) => (.ok pos [], n1)
    | (.outOfFuel, n1) => (.outOfFuel, n1)
    | (.ok p t, n1) =>
      match runC g f (.star a) input p n1 with
      | (.ok p' t', n2) => (.ok p' (t ++ t'), n2)
      | r => r
  | f + 1, .plus a, input, pos, n =>
    match runC g f a input pos (n + 1) with
    | (.ok p t, n1) =>
      match runC g f (.star a) input p n1 with
      | (.ok p' t', n2) => (.ok p' (t ++ t'), n2)
      | r => r
    | r => r
  | f + 1, .opt a, input, pos, n =>
    match runC g f a input pos (n + 1) with
    | (.fail, n1) => (.ok pos [], n1)
    | r => r
  | f + 1, .not a, input, pos, n =>
    match runC g f a input pos (n + 1) with
    | (.fail, n1) => (.ok pos [], n1)
    | (.ok _ _, n1) => (.fail, n1)
    | (.outOfFuel, n1) => (.outOfFuel, n1)
  | f + 1, .and a, input, pos, n =>
    match runC g f a input pos (n + 1) with
    | (.ok _ _, n1) => (.ok pos [], n1)
    | r => r
  | f + 1, .rule name, input, pos, n => runC g f (ruleBody g name) input pos (n + 1)
  | f + 1, .cap a, input, pos, n =>
    match runC g f a input pos (n + 1) with
    | (.ok p t, n1) => (.ok p (t ++ [.text pos p]), n1)
    | r => r
  | f + 1, e, input, pos, n => (run g (f + 1) e input pos, n + 1)      -- lit, cls, any, act

end JPV.Peg
