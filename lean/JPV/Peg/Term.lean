/-
Peg/Term — an executable termination analysis for `Peg.run` (L21, property C02).

`run g fuel e input pos` bounds the recursion DEPTH: every constructor costs one unit, a sequence or a choice
passes the same `fuel - 1` to both parts, and `star a` calls itself with `fuel - 1` after every iteration, so
a loop that iterates m times needs depth m + 1.  The analysis gives a bound of the form

    depthBound g K e n  =  cost e + K * n          (n = number of characters left of the position)

that is sufficient for `run` not to answer `outOfFuel` (Lemmas/PegTerm.lean: `run_terminates`) whenever
`wfGrammar g K = true`.  Ingredients (Ford's well-formedness condition, made quantitative):

  * `advT A e` — "whenever `e` succeeds it has consumed at least one character", relative to a table `A` of
    the rules already known to have this property (`advTable g`: least fixed point, computed by iteration);
  * `wfPE A e` — the body of every `*` and `+` is advancing (otherwise the generated parser loops forever);
  * `costT K A T e` — the depth needed at a position where NO character is left, relative to a table `T` of
    rule costs; in `a b` with `a` advancing, `b` starts with at least one character fewer, so it may cost
    `K` more than the sequence itself:  cost (a b) = 1 + max (cost a) (cost b - K).  A reference costs
    1 + the table entry of the rule.  `costTable g K A` computes the table by iteration; `wfGrammar` CHECKS
    that it is a post-fixed point: entry of X ≥ cost of the body of X.  A left-recursive rule (X <- X …, or
    through other rules without consuming) has no such table — the iteration diverges, the check fails;
    the same happens when `K` is smaller than the depth of a cycle of rule references per consumed character.
  * `K ≥ 1` pays for the iterations of `*`: each consumes a character.

Only the CHECKS matter for soundness; how the tables are found does not. Core Lean only; `wfGrammar` is
evaluated by the kernel (`decide`) in Props/C02Fuel.lean.
-/
import JPV.Peg.Peg
namespace JPV.Peg.Term

/-- rules known to be advancing -/
abbrev AdvTable := List (String × Bool)
/-- depth needed by the body of a rule when no character is left -/
abbrev CostTable := List (String × Nat)

def aget (A : AdvTable) (x : String) : Bool :=
  match A.lookup x with
  | some b => b
  | none => false

/-- undefined rules: `ruleBody` is a class (cost 1) -/
def tget (T : CostTable) (x : String) : Nat :=
  match T.lookup x with
  | some n => n + 1
  | none => 1

/-- every success of `e` consumes at least one character -/
def advT (A : AdvTable) : PE → Bool
  | .lit s => !s.toList.isEmpty
  | .cls _ _ => true
  | .any => true
  | .seq a b => advT A a || advT A b
  | .alt a b => advT A a && advT A b
  | .star _ => false
  | .plus a => advT A a
  | .opt _ => false
  | .not _ => false
  | .and _ => false
  | .rule x => aget A x
  | .cap a => advT A a
  | .act _ => false

/-- the bodies of all loops are advancing -/
def wfPE (A : AdvTable) : PE → Bool
  | .seq a b => wfPE A a && wfPE A b
  | .alt a b => wfPE A a && wfPE A b
  | .star a => advT A a && wfPE A a
  | .plus a => advT A a && wfPE A a
  | .opt a => wfPE A a
  | .not a => wfPE A a
  | .and a => wfPE A a
  | .cap a => wfPE A a
  | _ => true

/-- depth needed when no character is left; `K` more is available for every character left -/
def costT (K : Nat) (A : AdvTable) (T : CostTable) : PE → Nat
  | .seq a b => 1 + max (costT K A T a) (if advT A a then costT K A T b - K else costT K A T b)
  | .alt a b => 1 + max (costT K A T a) (costT K A T b)
  | .star a => 1 + costT K A T a
  | .plus a => 2 + costT K A T a
  | .opt a => 1 + costT K A T a
  | .not a => 1 + costT K A T a
  | .and a => 1 + costT K A T a
  | .cap a => 1 + costT K A T a
  | .rule x => 1 + tget T x
  | _ => 1

/-! ### finding the tables (not trusted) -/

/-- one pass over the rules, last rule first, every result available to the rules treated after it -/
def advPass (g : Grammar) (A : AdvTable) : AdvTable :=
  g.foldr (fun r acc => (r.1, advT (acc ++ A) r.2) :: acc) []

def advIter (g : Grammar) : Nat → AdvTable → AdvTable
  | 0, A => A
  | k + 1, A =>
    let A' := advPass g A
    if A' == A then A else advIter g k A'

def advTable (g : Grammar) : AdvTable := advIter g g.length (g.map (fun r => (r.1, false)))

def costPass (g : Grammar) (K : Nat) (A : AdvTable) (T : CostTable) : CostTable :=
  g.foldr (fun r acc => (r.1, costT K A (acc ++ T) r.2) :: acc) []

def costIter (g : Grammar) (K : Nat) (A : AdvTable) : Nat → CostTable → CostTable
  | 0, T => T
  | k + 1, T =>
    let T' := costPass g K A T
    if T' == T then T else costIter g K A k T'

def costTable (g : Grammar) (K : Nat) (A : AdvTable) : CostTable :=
  costIter g K A g.length (g.map (fun r => (r.1, 0)))

/-! ### the checks (trusted: Lemmas/PegTerm.lean proves them sufficient) -/

/-- every claim of `A` follows from the claims of `A` -/
def checkAdv (g : Grammar) (A : AdvTable) : Bool :=
  g.all (fun r => !aget A r.1 || advT A r.2)

def checkWf (g : Grammar) (A : AdvTable) : Bool :=
  g.all (fun r => wfPE A r.2)

/-- `T` is a post-fixed point -/
def checkCost (g : Grammar) (K : Nat) (A : AdvTable) (T : CostTable) : Bool :=
  g.all (fun r => Nat.ble (costT K A T r.2) (tget T r.1))

def checkTables (g : Grammar) (K : Nat) (A : AdvTable) (T : CostTable) : Bool :=
  Nat.ble 1 K && checkAdv g A && checkWf g A && checkCost g K A T

/-- no left recursion, no loop over a body that can succeed without consuming, and at most `K` levels of
recursion per consumed character -/
def wfGrammar (g : Grammar) (K : Nat) : Bool :=
  checkTables g K (advTable g) (costTable g K (advTable g))

/-- recursion depth sufficient for `e` at a position with `n` characters left -/
def depthBound (g : Grammar) (K : Nat) (e : PE) (n : Nat) : Nat :=
  costT K (advTable g) (costTable g K (advTable g)) e + K * n

/-- the smallest `K ≤ k₀` the analysis accepts (reporting only) -/
def minK (g : Grammar) : Nat → Option Nat
  | 0 => none
  | k + 1 =>
    match minK g k with
    | some m => some m
    | none => if wfGrammar g (k + 1) then some (k + 1) else none

end JPV.Peg.Term
